package quic_test

// C12, the other direction of "the connection's own record of its parameters equals the
// bytes it sent": the over-* scenarios.
//
// The boundary scenarios of c12_test.go let a conformant peer use an advertised limit to the
// full and demand that the client does not refuse it. That judges the enforced limit from one
// side only: a client that enforces MORE than it advertised (a limit of 0 or 1 that is not
// taken over from the QUICSpec, a parameter whose value is clamped or replaced by a Config
// default) passes, because a conformant peer never goes there. Here the peer is not the
// in-tree server but the harness itself: it owns the TLS key log, so it speaks for the server
// with authentic 1-RTT packets (mc/lib/wiremon.Forge1RTT, independent packet protection) and
// places, for the limit L read off the wire,
//
//	step 1 ("at the limit")  frames that use exactly L   -> the client must not refuse them
//	step 2 ("beyond")        one frame that uses L + 1   -> the client must refuse it
//
// Refusing = the connection ends with a locally generated transport error (which one is
// reported as the outcome class; the statement names no codes, so any is accepted). A client
// that is still there after step 2 keeps a record of the limit that differs from the bytes it
// sent (that it did open the peer's packets is confirmed by a CONNECTION_CLOSE the peer sends
// next: the client must end with that remote error). Both directions of the real path are dark while the harness speaks (the in-tree server
// would otherwise see acknowledgements for packets it never sent), so only the client's
// Conn.Context() is judged.

import (
	"context"
	"errors"
	"fmt"
	"net"
	"time"

	quic "github.com/refraction-networking/uquic"
	"github.com/refraction-networking/uquic/internal/verifmc/sim"
	"github.com/refraction-networking/uquic/internal/verifmc/wiremon"
)

var c12OverScenarios = []string{"over-streams-bidi", "over-streams-uni", "over-sd-bidi-local", "over-sd-bidi-remote", "over-sd-uni", "over-max-data", "over-datagram"}

func c12IsOver(scen string) bool {
	for _, s := range c12OverScenarios {
		if s == scen {
			return true
		}
	}
	return false
}

func c12Varint(b []byte, v uint64) []byte {
	switch {
	case v < 1<<6:
		return append(b, byte(v))
	case v < 1<<14:
		return append(b, 0x40|byte(v>>8), byte(v))
	case v < 1<<30:
		return append(b, 0x80|byte(v>>24), byte(v>>16), byte(v>>8), byte(v))
	default:
		return append(b, 0xc0|byte(v>>56), byte(v>>48), byte(v>>40), byte(v>>32), byte(v>>24), byte(v>>16), byte(v>>8), byte(v))
	}
}

// c12StreamFrame is a STREAM frame with explicit offset and length, no FIN (RFC 9000, 19.8).
func c12StreamFrame(b []byte, id, off uint64, data []byte) []byte {
	b = append(b, 0x08|0x04|0x02)
	b = c12Varint(b, id)
	b = c12Varint(b, off)
	b = c12Varint(b, uint64(len(data)))
	return append(b, data...)
}

// c12DatagramFrame is a DATAGRAM frame without a length field (it extends to the end of the
// packet) whose size, type byte included, is exactly size; PADDING goes in front of it so that
// the packet is long enough for the header protection sample (RFC 9221, 4).
func c12DatagramFrame(size int) []byte {
	var b []byte
	for len(b)+size < 24 {
		b = append(b, 0)
	}
	b = append(b, 0x30)
	for i := 1; i < size; i++ {
		b = append(b, byte(i))
	}
	return b
}

// c12OverPlan is what the misbehaving peer sends for one limit.
type c12OverPlan struct {
	NA       string // not applicable with these parameters (why)
	Limit    string // name of the transport parameter
	Class    string // absent | 0 | positive: how the limit is advertised
	Adv      uint64
	NeedOpen bool   // the client application opens stream 0 first
	AtLimit  []byte // frames that use the advertised limit exactly (nil: nothing to send, e.g. a limit of 0)
	Beyond   []byte // one frame more
	What     string // the beyond frame in words
}

const (
	c12FirstBidiS = 1 // first server-initiated bidirectional stream
	c12FirstUniS  = 3 // first server-initiated unidirectional stream
)

func c12PlanOver(scen string, adv c12Adv) c12OverPlan {
	var p c12OverPlan
	id := map[string]uint64{"over-streams-bidi": tpStreamsBidi, "over-streams-uni": tpStreamsUni, "over-sd-bidi-local": tpSDBidiLocal,
		"over-sd-bidi-remote": tpSDBidiRemote, "over-sd-uni": tpSDUni, "over-max-data": tpMaxData, "over-datagram": tpDatagram}[scen]
	p.Limit = map[uint64]string{tpStreamsBidi: "initial_max_streams_bidi", tpStreamsUni: "initial_max_streams_uni", tpSDBidiLocal: "initial_max_stream_data_bidi_local",
		tpSDBidiRemote: "initial_max_stream_data_bidi_remote", tpSDUni: "initial_max_stream_data_uni", tpMaxData: "initial_max_data", tpDatagram: "max_datagram_frame_size"}[id]
	v, listed := adv.has[id]
	p.Adv = v // an absent parameter has the value 0 (RFC 9000, 18.2; RFC 9221, 3)
	switch {
	case !listed:
		p.Class = "absent"
	case v == 0:
		p.Class = "0"
	default:
		p.Class = "positive"
	}
	maxData := adv.get(tpMaxData, 0)
	switch scen {
	case "over-streams-bidi", "over-streams-uni":
		first := uint64(c12FirstBidiS)
		if scen == "over-streams-uni" {
			first = c12FirstUniS
		}
		if v > 5000 {
			p.NA = "more streams advertised than this scenario opens"
			return p
		}
		// an empty STREAM frame opens the stream (and every lower-numbered one of its type)
		// without using flow-control credit
		if v > 0 {
			p.AtLimit = c12StreamFrame(nil, first+4*(v-1), 0, nil)
		}
		p.Beyond = c12StreamFrame(nil, first+4*v, 0, nil)
		p.What = fmt.Sprintf("an empty STREAM frame on stream %d, the peer's stream number %d of that type", first+4*v, v+1)
	case "over-sd-bidi-local", "over-sd-bidi-remote", "over-sd-uni":
		var sid uint64
		switch scen {
		case "over-sd-bidi-local":
			sid, p.NeedOpen = 0, true
		case "over-sd-bidi-remote":
			sid = c12FirstBidiS
			if adv.get(tpStreamsBidi, 0) == 0 {
				p.NA = "no bidi streams advertised"
				return p
			}
		case "over-sd-uni":
			sid = c12FirstUniS
			if adv.get(tpStreamsUni, 0) == 0 {
				p.NA = "no uni streams advertised"
				return p
			}
		}
		if v > 1<<40 {
			p.NA = "window too large for this scenario"
			return p
		}
		if v > 0 && v <= maxData { // (a stream window above the connection window cannot be used to the full)
			p.AtLimit = c12StreamFrame(nil, sid, v-1, []byte{'x'})
		}
		p.Beyond = c12StreamFrame(nil, sid, v, []byte{'y'})
		p.What = fmt.Sprintf("a STREAM frame with 1 byte at offset %d of stream %d", v, sid)
	case "over-max-data":
		// the peer's streams in the order it fills them: unidirectional, then bidirectional
		type room struct{ id, cap uint64 }
		var rooms []room
		for i := uint64(0); i < min(adv.get(tpStreamsUni, 0), 64) && adv.get(tpSDUni, 0) > 0; i++ {
			rooms = append(rooms, room{c12FirstUniS + 4*i, adv.get(tpSDUni, 0)})
		}
		for i := uint64(0); i < min(adv.get(tpStreamsBidi, 0), 64) && adv.get(tpSDBidiRemote, 0) > 0; i++ {
			rooms = append(rooms, room{c12FirstBidiS + 4*i, adv.get(tpSDBidiRemote, 0)})
		}
		if v > 1<<40 {
			p.NA = "window too large for this scenario"
			return p
		}
		need, k := v, 0
		var lastUsed uint64
		for need > 0 && k < len(rooms) && k < 64 {
			take := min(need, rooms[k].cap)
			p.AtLimit = c12StreamFrame(p.AtLimit, rooms[k].id, take-1, []byte{'x'})
			need -= take
			lastUsed = take
			k++
		}
		if need > 0 {
			p.NA = "the advertised stream windows and counts do not add up to the connection window"
			return p
		}
		switch {
		case k > 0 && lastUsed < rooms[k-1].cap:
			p.Beyond = c12StreamFrame(nil, rooms[k-1].id, lastUsed, []byte{'y'})
			p.What = fmt.Sprintf("a STREAM frame with 1 byte at offset %d of stream %d, which is byte number %d of the connection", lastUsed, rooms[k-1].id, v+1)
		case k < len(rooms):
			p.Beyond = c12StreamFrame(nil, rooms[k].id, 0, []byte{'y'})
			p.What = fmt.Sprintf("a STREAM frame with 1 byte at offset 0 of stream %d, which is byte number %d of the connection", rooms[k].id, v+1)
		default:
			p.NA = "no stream with credit left for the byte beyond the connection window"
		}
	case "over-datagram":
		const pathMax = 1300 // what fits a datagram of this path with room to spare
		if v >= pathMax {
			p.NA = "a DATAGRAM frame larger than the advertised size does not fit the path"
			return p
		}
		if v >= 1 {
			p.AtLimit = c12DatagramFrame(int(v))
		}
		size := int(v) + 1
		if v == 0 { // no DATAGRAM frame at all is allowed: one with a few bytes of payload
			size = 9
		}
		p.Beyond = c12DatagramFrame(size)
		p.What = fmt.Sprintf("a DATAGRAM frame of %d bytes", size)
	}
	return p
}

// c12RunOver plays the misbehaving peer on an established connection. It returns the outcome class.
func c12RunOver(ctx context.Context, w *sim.World, clientAddr net.Addr, conn, sc *quic.Conn, scen, tag string, adv c12Adv,
	fail func(key, format string, a ...any)) string {
	p := c12PlanOver(scen, adv)
	if p.NA != "" {
		return "n/a: " + p.NA
	}
	if p.NeedOpen {
		octx, cancel := context.WithTimeout(ctx, 5*time.Second)
		cs, err := conn.OpenStreamSync(octx)
		if err == nil {
			_, err = cs.Write([]byte{1})
		}
		if err == nil {
			_, err = sc.AcceptStream(octx)
		}
		cancel()
		if err != nil {
			fail(tag+":prelude", "opening the client's stream 0: %v", err)
			return ""
		}
	}
	time.Sleep(500 * time.Millisecond) // the post-handshake chatter is over
	if conn.Context().Err() != nil || sc.Context().Err() != nil {
		fail(tag+":prelude:"+sim.ErrClass(context.Cause(conn.Context())), "the connection ended before the peer did anything: client %v, server %v", context.Cause(conn.Context()), context.Cause(sc.Context()))
		return ""
	}
	// from here on the harness is the peer
	w.Router.SetBlackhole(sim.S2C, true)
	w.Router.SetBlackhole(sim.C2S, true)
	full := w.Router.FullLog()
	n, ver, ok1 := wiremon.ClientCIDLen(full)
	dcid, ok2 := wiremon.LastDCID(full, sim.S2C, n)
	if !ok2 {
		dcid, ok2 = wiremon.ClientSCID(full)
	}
	if !ok1 || !ok2 {
		fail("wire-unreadable", "cannot read the client's connection ID off the wire")
		return ""
	}
	gen := wiremon.Analyze(full, w.KeyLog.Lines(), wiremon.Params{}).Gen[1]
	pn := uint64(1 << 20)
	send := func(frames []byte) bool {
		pkts := wiremon.Forge1RTT(w.KeyLog.Lines(), true, ver, gen, dcid, pn, frames)
		pn++
		for _, pkt := range pkts {
			w.Router.Inject(w.ServerAddr, clientAddr, pkt, 0)
		}
		return len(pkts) > 0
	}
	ended := func(wait time.Duration) (bool, error) {
		select {
		case <-conn.Context().Done():
			return true, context.Cause(conn.Context())
		case <-time.After(wait):
			return false, nil
		}
	}
	advText := fmt.Sprintf("%s = %d", p.Limit, p.Adv)
	if p.Class == "absent" {
		advText = p.Limit + " not listed, i.e. 0,"
	}
	if p.AtLimit != nil {
		if !send(p.AtLimit) {
			fail("wire-unreadable", "no server traffic secret in the key log")
			return ""
		}
		if over, cause := ended(300 * time.Millisecond); over {
			fail(tag+":at-limit:client:"+sim.ErrClass(cause), "the client advertised %s on the wire; the peer used exactly that and the client connection ended with %v (all advertised parameters: %v)", advText, cause, adv.has)
			return ""
		}
	}
	if !send(p.Beyond) {
		fail("wire-unreadable", "no server traffic secret in the key log")
		return ""
	}
	over, cause := ended(time.Second)
	var te *quic.TransportError
	switch {
	case !over:
		// the verdict "accepted" needs the client to have processed the peer's packets: the peer now
		// closes the connection; a client that does not even see that never opened the packets
		send([]byte{0x1d, 0x41, 0x2c, 0x00}) // CONNECTION_CLOSE (application), error code 0x12c, no reason
		if gone, why := ended(time.Second); !gone || !c12RemoteClose(why) {
			fail("harness:forged-packets-not-processed", "the client neither refused %s nor reacted to the peer's CONNECTION_CLOSE (%v): no verdict", p.What, why)
			return ""
		}
		fail(fmt.Sprintf("%s:advertised=%s:not-refused", tag, p.Class), "the client advertised %s on the wire; the peer went one beyond it with %s and the client accepted that: the limit the connection enforces is not the one it sent (all advertised parameters: %v)", advText, p.What, adv.has)
		return fmt.Sprintf("%s advertised=%s: not refused", tag, p.Class)
	case errors.As(cause, &te) && !te.Remote:
		return fmt.Sprintf("%s advertised=%s: refused with %s", tag, p.Class, sim.ErrClass(cause))
	default:
		fail(tag+":client:"+sim.ErrClass(cause), "after %s (advertised: %s) the client connection ended with %v, which is not a locally generated transport error", p.What, advText, cause)
		return ""
	}
}

func c12RemoteClose(err error) bool {
	var ae *quic.ApplicationError
	return errors.As(err, &ae) && ae.Remote && ae.ErrorCode == 0x12c
}
