package quic_test

// C12: a spec-driven client enforces exactly the limits it advertises.
// E2: spec-driven client against the in-tree server (a conformant peer: it stays within
// the transport parameters the client put on the wire) scripted to use each advertised
// limit up to its boundary. The advertised values are read off the wire by the independent
// observer, never from the client's own state.

import (
	"context"
	"encoding/json"
	"fmt"
	"io"
	"strings"
	"sync"
	"testing"
	"time"

	quic "github.com/refraction-networking/uquic"
	"github.com/refraction-networking/uquic/internal/verifmc/explore"
	"github.com/refraction-networking/uquic/internal/verifmc/sim"
	"github.com/refraction-networking/uquic/internal/verifmc/wiremon"
	"github.com/refraction-networking/uquic/internal/verifmc/wireobs"
	tls "github.com/refraction-networking/utls"
)

// ---- configurations -------------------------------------------------------------------

var c12Fingerprints = []struct {
	Name string
	ID   quic.QUICID
}{
	{"chrome115", quic.QUICChrome_115_IPv4},
	{"chrome115v6", quic.QUICChrome_115_IPv6},
	{"chrome146", quic.QUICChrome_146_IPv4},
	{"chrome146v6", quic.QUICChrome_146_IPv6},
	{"firefox116a", quic.QUICFirefox_116A},
	{"firefox116b", quic.QUICFirefox_116B},
	{"firefox116c", quic.QUICFirefox_116C},
}

// c12Gen is a generated transport parameter list (one deviation from the baseline).
type c12Gen struct {
	Name string
	// -1 = parameter absent
	Idle, MaxData, SDBidiLocal, SDBidiRemote, SDUni, StreamsBidi, StreamsUni, CIDLimit, Datagram int64
}

var c12GenBase = c12Gen{Name: "gen", Idle: 30000, MaxData: 100000, SDBidiLocal: 30000, SDBidiRemote: 30000, SDUni: 30000, StreamsBidi: 10, StreamsUni: 10, CIDLimit: 4, Datagram: 1200}

func c12Gens() []c12Gen {
	out := []c12Gen{c12GenBase}
	add := func(name string, f func(g *c12Gen, v int64), vals ...int64) {
		for _, v := range vals {
			g := c12GenBase
			g.Name = fmt.Sprintf("gen:%s=%d", name, v)
			f(&g, v)
			out = append(out, g)
		}
	}
	win := []int64{-1, 0, 1000, 512*1024 - 1, 512 * 1024, 512*1024 + 1, 2 << 20}
	add("sd_bidi_local", func(g *c12Gen, v int64) { g.SDBidiLocal, g.MaxData = v, max(g.MaxData, 2*v) }, win...)
	add("sd_bidi_remote", func(g *c12Gen, v int64) { g.SDBidiRemote, g.MaxData = v, max(g.MaxData, 2*v) }, win...)
	add("sd_uni", func(g *c12Gen, v int64) { g.SDUni, g.MaxData = v, max(g.MaxData, 2*v) }, win...)
	add("max_data", func(g *c12Gen, v int64) {
		g.MaxData = v
		g.SDUni, g.SDBidiLocal, g.SDBidiRemote = max(v, 1), max(v, 1), max(v, 1)
	}, -1, 0, 1000, 768*1024-1, 768*1024, 768*1024+1, 3<<20)
	cnt := []int64{-1, 0, 3, 99, 100, 101, 1000}
	add("streams_bidi", func(g *c12Gen, v int64) { g.StreamsBidi = v }, cnt...)
	add("streams_uni", func(g *c12Gen, v int64) { g.StreamsUni = v }, cnt...)
	add("cid_limit", func(g *c12Gen, v int64) { g.CIDLimit = v }, -1, 2, 3, 4, 5, 6, 8)
	add("datagram", func(g *c12Gen, v int64) { g.Datagram = v }, -1, 0, 100, 1200, 65535)
	add("idle", func(g *c12Gen, v int64) { g.Idle = v }, -1, 2000, 29000, 31000, 60000)
	// the smallest non-zero value of every count and window (appended: indices into this list are part of replay files)
	add("sd_bidi_local", func(g *c12Gen, v int64) { g.SDBidiLocal = v }, 1)
	add("sd_bidi_remote", func(g *c12Gen, v int64) { g.SDBidiRemote = v }, 1)
	add("sd_uni", func(g *c12Gen, v int64) { g.SDUni = v }, 1)
	add("max_data", func(g *c12Gen, v int64) { g.MaxData = v }, 1)
	add("streams_bidi", func(g *c12Gen, v int64) { g.StreamsBidi = v }, 1)
	add("streams_uni", func(g *c12Gen, v int64) { g.StreamsUni = v }, 1)
	return out
}

func (g c12Gen) spec() *quic.QUICSpec {
	s, err := quic.QUICID2Spec(quic.QUICChrome_115_IPv4)
	if err != nil {
		panic(err)
	}
	s.InitialPacketSpec = quic.InitialPacketSpec{SrcConnIDLength: 4, DestConnIDLength: 8}
	s.UDPDatagramMinSize = 0
	l := tls.TransportParameters{tls.InitialSourceConnectionID([]byte{})}
	if g.Idle >= 0 {
		l = append(l, tls.MaxIdleTimeout(g.Idle))
	}
	if g.MaxData >= 0 {
		l = append(l, tls.InitialMaxData(g.MaxData))
	}
	if g.SDBidiLocal >= 0 {
		l = append(l, tls.InitialMaxStreamDataBidiLocal(g.SDBidiLocal))
	}
	if g.SDBidiRemote >= 0 {
		l = append(l, tls.InitialMaxStreamDataBidiRemote(g.SDBidiRemote))
	}
	if g.SDUni >= 0 {
		l = append(l, tls.InitialMaxStreamDataUni(g.SDUni))
	}
	if g.StreamsBidi >= 0 {
		l = append(l, tls.InitialMaxStreamsBidi(g.StreamsBidi))
	}
	if g.StreamsUni >= 0 {
		l = append(l, tls.InitialMaxStreamsUni(g.StreamsUni))
	}
	if g.CIDLimit >= 0 {
		l = append(l, tls.ActiveConnectionIDLimit(g.CIDLimit))
	}
	if g.Datagram >= 0 {
		l = append(l, tls.MaxDatagramFrameSize(g.Datagram))
	}
	for _, e := range s.ClientHelloSpec.Extensions {
		if q, ok := e.(*tls.QUICTransportParametersExtension); ok {
			q.TransportParameters = l
		}
	}
	return &s
}

var c12UserConfs = []struct {
	Name string
	Conf func() *quic.Config
}{
	{"zero", func() *quic.Config { return &quic.Config{} }},
	{"small-windows", func() *quic.Config {
		return &quic.Config{InitialStreamReceiveWindow: 16 << 10, MaxStreamReceiveWindow: 16 << 10, InitialConnectionReceiveWindow: 24 << 10, MaxConnectionReceiveWindow: 24 << 10}
	}},
	{"large-windows", func() *quic.Config {
		return &quic.Config{InitialStreamReceiveWindow: 8 << 20, MaxStreamReceiveWindow: 8 << 20, InitialConnectionReceiveWindow: 16 << 20, MaxConnectionReceiveWindow: 16 << 20}
	}},
	{"datagrams-on", func() *quic.Config { return &quic.Config{EnableDatagrams: true} }},
	{"idle-5s", func() *quic.Config { return &quic.Config{MaxIdleTimeout: 5 * time.Second} }},
	{"idle-5min", func() *quic.Config { return &quic.Config{MaxIdleTimeout: 5 * time.Minute} }},
	{"few-streams", func() *quic.Config { return &quic.Config{MaxIncomingStreams: 5, MaxIncomingUniStreams: 5} }},
	{"refuse-streams", func() *quic.Config { return &quic.Config{MaxIncomingStreams: -1, MaxIncomingUniStreams: -1} }},
	{"many-streams", func() *quic.Config { return &quic.Config{MaxIncomingStreams: 1 << 20, MaxIncomingUniStreams: 1 << 20} }},
	{"keepalive-1s", func() *quic.Config { return &quic.Config{KeepAlivePeriod: time.Second} }},
	{"idle-1s-no-mtu", func() *quic.Config {
		return &quic.Config{MaxIdleTimeout: time.Second, DisablePathMTUDiscovery: true}
	}},
}

var c12Scenarios = append([]string{"sd-bidi-local", "sd-bidi-remote", "sd-uni", "max-data", "streams-bidi", "streams-uni", "cids", "datagram", "idle", "own-record", "idle-send"},
	c12OverScenarios...) // over-*: a peer that goes one beyond the advertised limit (c12_over_test.go)

// The idle-send scenario: the advertised max_idle_timeout counts from the last packet the
// client received or, if later, from the first ack-eliciting packet it sent since (RFC 9000,
// 10.1). The path towards the client goes dark, the client application does one thing at a
// chosen point of its idle period (c12IdleOps x c12IdleGaps), and the peer - which did get
// that packet - answers just below the advertised period counted from it.
var c12IdleOps = []string{"none", "write", "fin", "reset", "stop-sending", "open-bidi", "open-uni", "datagram", "write-2-packets"}

var c12IdleGaps = []struct {
	Name string
	Of   func(tadv time.Duration) time.Duration // how long after the last received packet the application acts
}{
	{"late", func(tadv time.Duration) time.Duration { return tadv - 600*time.Millisecond }},
	{"half", func(tadv time.Duration) time.Duration { return tadv / 2 }},
	{"quarter", func(tadv time.Duration) time.Duration { return tadv / 4 }},
}

// The peer's own transport parameters are part of the history as well: the period the client
// enforces is a function of its own max_idle_timeout AND the peer's (RFC 9000, 10.1: the
// minimum of the two, where 0 / absent means "this endpoint does not limit the idle period").
// A conformant peer may advertise any value; the ones that must leave the client's advertised
// period untouched are a larger one (the in-tree server's, 10 minutes here) and none at all.
// (A peer that advertises a shorter period than the client's may see the client leave after
// that shorter period; the statement gives such a peer nothing to rely on, so it is not run.)
var c12Peers = []struct {
	Name      string
	Advertise func(advertised *quic.Config) // nil: what the in-tree server's Config says
}{
	{"in-tree", nil},
	{"no-idle-timeout", func(c *quic.Config) { c.MaxIdleTimeout = 0 }},
}

type c12Config struct {
	FP       int    `json:"fp"`  // index into c12Fingerprints, or -1
	Gen      int    `json:"gen"` // index into c12Gens() when FP < 0
	UserConf int    `json:"conf"`
	Scenario int    `json:"scenario"`
	Seed     uint64 `json:"seed"`
	Op       int    `json:"op,omitempty"`   // idle-send: index into c12IdleOps
	Gap      int    `json:"gap,omitempty"`  // idle-send: index into c12IdleGaps
	Peer     int    `json:"peer,omitempty"` // index into c12Peers
}

func (c c12Config) peerTag() string {
	if c.Peer == 0 {
		return ""
	}
	return " peer=" + c12Peers[c.Peer].Name
}

func (c c12Config) specName() string {
	if c.FP >= 0 {
		return c12Fingerprints[c.FP].Name
	}
	return c12Gens()[c.Gen].Name
}

func (c c12Config) String() string {
	if c12Scenarios[c.Scenario] == "idle-send" {
		return fmt.Sprintf("%s conf=%s scenario=idle-send op=%s at=%s%s", c.specName(), c12UserConfs[c.UserConf].Name, c12IdleOps[c.Op], c12IdleGaps[c.Gap].Name, c.peerTag())
	}
	return fmt.Sprintf("%s conf=%s scenario=%s%s", c.specName(), c12UserConfs[c.UserConf].Name, c12Scenarios[c.Scenario], c.peerTag())
}

// ---- what the client put on the wire ----------------------------------------------------

type c12Adv struct {
	has map[uint64]uint64
}

func (a c12Adv) get(id uint64, dflt uint64) uint64 {
	if v, ok := a.has[id]; ok {
		return v
	}
	return dflt
}

func c12ReadAdvertised(log []sim.Event) (c12Adv, error) {
	var first []sim.Event
	for _, e := range log {
		if e.Dir == sim.C2S && e.T == 0 {
			first = append(first, e)
		}
	}
	obs, err := sim.ObserveInitials(first)
	if err != nil {
		return c12Adv{}, err
	}
	var fr []wireobs.Frame
	for _, o := range obs {
		fr = append(fr, o.Frames...)
	}
	chb, err := wireobs.Reassemble(fr)
	if err != nil {
		return c12Adv{}, err
	}
	ch, err := wireobs.ParseClientHello(chb)
	if err != nil {
		return c12Adv{}, err
	}
	tps, err := ch.TransportParams()
	if err != nil {
		return c12Adv{}, err
	}
	a := c12Adv{has: map[uint64]uint64{}}
	for _, p := range tps {
		if v, ok := p.VarintValue(); ok {
			if _, dup := a.has[p.ID]; !dup {
				a.has[p.ID] = v
			}
		}
	}
	return a, nil
}

const (
	tpIdle         = 0x01
	tpMaxData      = 0x04
	tpSDBidiLocal  = 0x05
	tpSDBidiRemote = 0x06
	tpSDUni        = 0x07
	tpStreamsBidi  = 0x08
	tpStreamsUni   = 0x09
	tpCIDLimit     = 0x0e
	tpDatagram     = 0x20
)

// ---- one execution ----------------------------------------------------------------------

type c12Outcome struct {
	fail  *explore.Fail
	class string
}

func c12Run(t *testing.T, cfg c12Config) c12Outcome {
	var out c12Outcome
	name := cfg.specName()
	scen := c12Scenarios[cfg.Scenario]
	peer := c12Peers[cfg.Peer]
	tag := scen // prefix of every key and outcome class of this run: scenario and (non-default) peer profile
	if cfg.Peer != 0 {
		tag += ":peer=" + peer.Name
	}
	var failMu sync.Mutex
	fail := func(key, format string, a ...any) {
		failMu.Lock()
		defer failMu.Unlock()
		if out.fail == nil {
			// one key per (limit scenario, error class): the same defect shows up for every
			// fingerprint / parameter value / Config that reaches it
			out.fail = explore.Failf(key, "%v: %s", cfg, fmt.Sprintf(format, a...))
		}
	}
	ok := sim.Run(t, "run", cfg.Seed, func(t *testing.T) {
		w := sim.NewWorld(nil)
		ctx, cancel := context.WithTimeout(context.Background(), 10*time.Minute)
		defer cancel()
		sconf := &quic.Config{EnableDatagrams: true, MaxIdleTimeout: 10 * time.Minute,
			InitialStreamReceiveWindow: 32 << 20, MaxStreamReceiveWindow: 32 << 20, InitialConnectionReceiveWindow: 64 << 20, MaxConnectionReceiveWindow: 64 << 20,
			MaxIncomingStreams: 2000, MaxIncomingUniStreams: 2000}
		var peerHookUsed func() int
		if peer.Advertise != nil {
			restore, used := quic.VerifC12PeerAdvertises(peer.Advertise)
			defer restore()
			peerHookUsed = used
		}
		ln, err := w.Listen(w.ServerTLS(false), sconf)
		if err != nil {
			t.Fatal(err)
		}
		var spec *quic.QUICSpec
		if cfg.FP >= 0 {
			s, err := quic.QUICID2Spec(c12Fingerprints[cfg.FP].ID)
			if err != nil {
				t.Fatal(err)
			}
			spec = &s
		} else {
			spec = c12Gens()[cfg.Gen].spec()
		}
		d, cep, _ := w.NewDialer(sim.ClientKind{Name: name, U: true, Spec: func() *quic.QUICSpec { return spec }})
		accepted := make(chan *quic.Conn, 1)
		go func() {
			c, err := ln.Accept(ctx)
			if err == nil {
				accepted <- c
			} else {
				close(accepted)
			}
		}()
		conn, err := d.Dial(ctx, w.ServerAddr, w.ClientTLS(), c12UserConfs[cfg.UserConf].Conf())
		cleanup := func(sc *quic.Conn) {
			if conn != nil {
				conn.CloseWithError(0, "")
			}
			if sc != nil {
				sc.CloseWithError(0, "")
			}
			cancel()
			d.Close()
			ln.Close()
			w.ServerTr.Close()
			w.CloseEndpoints()
		}
		if err != nil {
			fail("dial:"+sim.ErrClass(err), "Dial failed: %v", err)
			cleanup(nil)
			return
		}
		sc := <-accepted
		if sc == nil {
			fail("accept", "server did not accept")
			cleanup(nil)
			return
		}
		adv, err := c12ReadAdvertised(w.Router.Log())
		if err != nil {
			fail("wire-unreadable", "cannot read the client's transport parameters off the wire: %v", err)
			cleanup(sc)
			return
		}
		// harness sanity (no verdict on the code): the server connection of this run was built with the peer profile
		if peerHookUsed != nil && peerHookUsed() != 1 {
			fail("harness:peer-profile", "peer profile %s: %d server connections were created through the hook, expected 1", peer.Name, peerHookUsed())
			cleanup(sc)
			return
		}
		keyScen := tag // key prefix of the liveness oracle (idle-send: refined by what the wire shows)
		alive := func(when string) bool {
			if conn.Context().Err() != nil {
				fail(keyScen+":client:"+sim.ErrClass(context.Cause(conn.Context())), "%s: the client connection ended with %v although the peer stayed within the advertised transport parameters %v", when, context.Cause(conn.Context()), adv.has)
				return false
			}
			if sc.Context().Err() != nil {
				fail(keyScen+":server:"+sim.ErrClass(context.Cause(sc.Context())), "%s: the server connection ended with %v", when, context.Cause(sc.Context()))
				return false
			}
			return true
		}
		var wg sync.WaitGroup
		serverWrite := func(s io.WriteCloser, n int, done chan<- error) {
			defer wg.Done()
			buf := make([]byte, 32<<10)
			left := n
			for left > 0 {
				k := min(left, len(buf))
				if _, err := s.Write(buf[:k]); err != nil {
					done <- err
					return
				}
				left -= k
			}
			done <- s.Close()
		}
		drain := func(r io.Reader, want int, what string) {
			n, err := io.Copy(io.Discard, r)
			if err != nil || int(n) != want {
				fail(tag+":credit-not-usable", "%s: reading the stream after the stall returned %d of %d bytes, err %v", what, n, want, err)
			}
		}
		const cap = 8 << 20
		switch scen {
		case "own-record":
			// the connection's own record of its parameters
			if got, want := conn.ConnectionState().SupportsDatagrams.Local, adv.get(tpDatagram, 0) > 0; got != want {
				fail("own-record:datagram-support", "ConnectionState().SupportsDatagrams.Local = %v but max_datagram_frame_size on the wire is %d", got, adv.get(tpDatagram, 0))
			}
		case "sd-bidi-local", "sd-bidi-remote", "sd-uni":
			id := map[string]uint64{"sd-bidi-local": tpSDBidiLocal, "sd-bidi-remote": tpSDBidiRemote, "sd-uni": tpSDUni}[scen]
			limit := int(min(adv.get(id, 0), cap))
			total := limit + 5000 // the server tries to send more: flow control stops it exactly at the limit
			done := make(chan error, 1)
			var rd io.Reader
			switch scen {
			case "sd-bidi-local": // client-initiated bidirectional stream
				if adv.get(tpSDBidiLocal, 0) == 0 && false {
					break
				}
				cs, err := conn.OpenStreamSync(ctx)
				if err != nil {
					fail(tag+":open", "client OpenStreamSync: %v", err)
					break
				}
				cs.Write([]byte{1})
				ss, err := sc.AcceptStream(ctx)
				if err != nil {
					fail(tag+":accept", "server AcceptStream: %v", err)
					break
				}
				wg.Add(1)
				go serverWrite(ss, total, done)
				rd = cs
			case "sd-bidi-remote":
				if adv.get(tpStreamsBidi, 0) == 0 {
					out.class = "n/a: no bidi streams advertised"
					break
				}
				ss, err := sc.OpenStreamSync(ctx)
				if err != nil {
					fail(tag+":open", "server OpenStreamSync: %v", err)
					break
				}
				wg.Add(1)
				go serverWrite(ss, total, done)
				if limit > 0 {
					cs, err := conn.AcceptStream(ctx)
					if err != nil {
						fail(tag+":accept", "client AcceptStream: %v", err)
						break
					}
					rd = cs
				}
			case "sd-uni":
				if adv.get(tpStreamsUni, 0) == 0 {
					out.class = "n/a: no uni streams advertised"
					break
				}
				ss, err := sc.OpenUniStreamSync(ctx)
				if err != nil {
					fail(tag+":open", "server OpenUniStreamSync: %v", err)
					break
				}
				wg.Add(1)
				go serverWrite(ss, total, done)
				if limit > 0 {
					cs, err := conn.AcceptUniStream(ctx)
					if err != nil {
						fail(tag+":accept", "client AcceptUniStream: %v", err)
						break
					}
					rd = cs
				}
			}
			if out.fail != nil || out.class != "" {
				break
			}
			time.Sleep(3 * time.Second) // the client application does not read: the server runs into the limit
			if !alive("after the server filled the advertised " + scen + " window") {
				break
			}
			if rd != nil && adv.get(id, 0) <= cap && limit > 0 { // (an advertised window of 0 is used to the full by sending nothing)
				// now the application reads: all advertised credit must have been usable
				rdone := make(chan struct{})
				go func() { drain(rd, total, scen); close(rdone) }()
				select {
				case <-rdone:
				case <-time.After(2 * time.Minute):
					fail(tag+":credit-not-usable", "the transfer did not finish within 2 virtual minutes after the application started reading")
				}
				select {
				case err := <-done:
					if err != nil {
						fail(tag+":server-write", "server write failed: %v", err)
					}
				case <-time.After(time.Minute):
					fail(tag+":server-write", "server write did not finish")
				}
			}
			alive("after the transfer")
		case "max-data":
			if adv.get(tpStreamsUni, 0) < 3 {
				out.class = "n/a: fewer than 3 uni streams advertised"
				break
			}
			limit := int(min(adv.get(tpMaxData, 0), cap))
			per := limit/2 + 1000
			dones := make([]chan error, 3)
			for i := range dones {
				dones[i] = make(chan error, 1)
				ss, err := sc.OpenUniStreamSync(ctx)
				if err != nil {
					fail(tag+":open", "server OpenUniStreamSync: %v", err)
					break
				}
				wg.Add(1)
				go serverWrite(ss, per, dones[i])
			}
			time.Sleep(3 * time.Second)
			if !alive("after the server filled the advertised connection window") {
				break
			}
			if adv.get(tpMaxData, 0) <= cap && adv.get(tpSDUni, 0) > 0 && limit > 0 {
				rdone := make(chan struct{})
				go func() {
					defer close(rdone)
					// the streams share the connection window: read them concurrently, or data
					// parked in a stream nobody reads yet starves the one being read
					var rwg sync.WaitGroup
					for i := 0; i < 3; i++ {
						cs, err := conn.AcceptUniStream(ctx)
						if err != nil {
							fail(tag+":accept", "client AcceptUniStream: %v", err)
							break
						}
						rwg.Add(1)
						go func() { defer rwg.Done(); drain(cs, per, scen) }()
					}
					rwg.Wait()
				}()
				select {
				case <-rdone:
				case <-time.After(3 * time.Minute):
					fail(tag+":credit-not-usable", "the transfers did not finish within 3 virtual minutes after the application started reading")
				}
			}
			alive("after the transfers")
		case "streams-bidi", "streams-uni":
			id := uint64(tpStreamsBidi)
			if scen == "streams-uni" {
				id = tpStreamsUni
			}
			n := int(min(adv.get(id, 0), 1200))
			opened := 0
			for i := 0; i < n; i++ {
				octx, ocancel := context.WithTimeout(ctx, 2*time.Second)
				var ws io.WriteCloser
				var err error
				if scen == "streams-bidi" {
					ws, err = sc.OpenStreamSync(octx)
				} else {
					ws, err = sc.OpenUniStreamSync(octx)
				}
				ocancel()
				if err != nil {
					fail(tag+":credit-not-usable", "the server could open only %d of the %d streams the client advertised: %v", opened, n, err)
					break
				}
				ws.Write([]byte{byte(i)})
				opened++
			}
			time.Sleep(time.Second)
			if !alive(fmt.Sprintf("after the server opened %d concurrent streams (advertised %d)", opened, adv.get(id, 0))) {
				break
			}
			for i := 0; i < opened && out.fail == nil; i++ {
				actx, acancel := context.WithTimeout(ctx, 5*time.Second)
				var err error
				if scen == "streams-bidi" {
					_, err = conn.AcceptStream(actx)
				} else {
					_, err = conn.AcceptUniStream(actx)
				}
				acancel()
				if err != nil {
					fail(tag+":accept", "client accepted only %d of %d streams: %v", i, opened, err)
				}
			}
			alive("after accepting the streams")
			out.class = fmt.Sprintf("%s opened=%d", tag, opened)
		case "cids":
			time.Sleep(2 * time.Second) // NEW_CONNECTION_ID frames are issued right after the handshake
			if alive("after the server issued connection IDs up to the advertised active_connection_id_limit") {
				if err := echoBoth(ctx, conn, sc); err != nil {
					fail(tag+":echo", "%v", err)
				}
			}
			// the in-tree server never sets Retire Prior To: every in-order history of a conformant
			// peer at the boundary, on a real connIDManager configured with the value seen on the wire
			lim := adv.get(tpCIDLimit, 2)
			st, tr, bad := quic.VerifC12CIDBoundary(lim, true)
			if bad != "" {
				fail(tag+":rejected-within-advertised-limit", "active_connection_id_limit=%d on the wire: %s", lim, bad)
			}
			out.class = fmt.Sprintf("%s limit=%d boundary-histories: %d states", tag, lim, st)
			_ = tr
		case "datagram":
			if adv.get(tpDatagram, 0) == 0 {
				out.class = "n/a: datagrams not advertised"
				break
			}
			size := int(min(adv.get(tpDatagram, 0), 1100)) - 8
			if size < 1 {
				size = 1
			}
			if err := sc.SendDatagram(make([]byte, size)); err != nil {
				// a size the path cannot carry is the sender's problem, not the client's
				out.class = "datagram send refused: " + sim.ErrClass(err)
				break
			}
			time.Sleep(time.Second)
			alive(fmt.Sprintf("after a %d-byte DATAGRAM frame (advertised max_datagram_frame_size %d)", size, adv.get(tpDatagram, 0)))
		case "idle":
			tadv := time.Duration(adv.get(tpIdle, 0)) * time.Millisecond
			if tadv == 0 || tadv > 2*time.Minute {
				out.class = "n/a: no idle timeout advertised"
				break
			}
			time.Sleep(tadv - 500*time.Millisecond - time.Since(w.Start)%time.Millisecond)
			if !alive(fmt.Sprintf("after %v of silence (advertised max_idle_timeout %v)", tadv-500*time.Millisecond, tadv)) {
				break
			}
			if err := echoBoth(ctx, conn, sc); err != nil {
				fail(tag+":echo-after-silence", "%v", err)
			}
		case "idle-send":
			tadv := time.Duration(adv.get(tpIdle, 0)) * time.Millisecond
			if tadv == 0 || tadv > 2*time.Minute {
				out.class = "n/a: no idle timeout advertised"
				break
			}
			op := c12IdleOps[cfg.Op]
			since := func() time.Duration { return time.Since(w.Router.StartTime()) }
			sleepUntil := func(at time.Duration) {
				if d := at - since(); d > 0 {
					time.Sleep(d)
				}
			}
			// two client-initiated streams, each used once in both directions: A for the
			// application's action, B for the peer's answer
			csA, _, err := c12OpenEchoed(ctx, conn, sc)
			if err != nil {
				fail(tag+":prelude", "%v", err)
				break
			}
			csB, ssB, err := c12OpenEchoed(ctx, conn, sc)
			if err != nil {
				fail(tag+":prelude", "%v", err)
				break
			}
			// wait until the post-handshake chatter (ACKs, NEW_CONNECTION_ID, MTU probes) has died down
			quiet := false
			for i := 0; i < 60 && !quiet; i++ {
				time.Sleep(50 * time.Millisecond)
				quiet = c12Quiet(w.Router.FullLog(), since(), 50*time.Millisecond)
			}
			if !quiet {
				out.class = "n/a: the path never went quiet"
				break
			}
			w.Router.SetBlackhole(sim.S2C, true) // from here on nothing reaches the client
			ip, err := c12IdleOf(w.Router.FullLog(), w.KeyLog.Lines())
			if err != nil {
				fail("wire-unreadable", "cannot read the client's packets off the wire: %v", err)
				break
			}
			sleepUntil(ip.LastReceived + c12IdleGaps[cfg.Gap].Of(tadv))
			if !alive(fmt.Sprintf("%v after the last packet from the peer (advertised max_idle_timeout %v)", since()-ip.LastReceived, tadv)) {
				break
			}
			switch op {
			case "write":
				_, err = csA.Write(make([]byte, 100))
			case "write-2-packets":
				_, err = csA.Write(make([]byte, 2000))
			case "fin":
				err = csA.Close()
			case "reset":
				csA.CancelWrite(7)
			case "stop-sending":
				csA.CancelRead(7)
			case "open-bidi":
				var s *quic.Stream
				if s, err = conn.OpenStream(); err == nil {
					_, err = s.Write([]byte{1})
				}
			case "open-uni":
				var s *quic.SendStream
				if s, err = conn.OpenUniStream(); err == nil {
					_, err = s.Write([]byte{1})
				}
			case "datagram":
				err = conn.SendDatagram(make([]byte, 10))
			}
			if err != nil {
				fail(tag+":"+op, "the client application's %s failed: %v", op, err)
				break
			}
			acted := since()
			time.Sleep(20 * time.Millisecond)
			// what the wire shows: when did the client's current idle period start?
			if ip, err = c12IdleOf(w.Router.FullLog(), w.KeyLog.Lines()); err != nil {
				fail("wire-unreadable", "cannot read the client's packets off the wire: %v", err)
				break
			}
			if ip.Unreadable {
				out.class = "n/a: a packet of the client could not be opened"
				break
			}
			by := "nothing sent"
			if ip.By != "" {
				by = ip.By
			}
			keyScen = tag + ":restart-by=" + by
			out.class = fmt.Sprintf("%s op=%s period restarted by: %s", tag, op, by)
			deadline := ip.Restart + tadv
			sleepUntil(deadline - 500*time.Millisecond)
			if now := since(); now < deadline {
				if !alive(fmt.Sprintf("the last packet from the peer arrived at %v, the application's %s was at %v, the first ack-eliciting packet the client sent since (%s) left at %v and restarted its idle period; at %v, i.e. %v later (advertised max_idle_timeout %v)", ip.LastReceived, op, acted, by, ip.Restart, now, now-ip.Restart, tadv)) {
					break
				}
			}
			// the peer answers within the period it can rely on
			w.Router.SetBlackhole(sim.S2C, false)
			if _, err := ssB.Write([]byte{9}); err != nil {
				fail(tag+":server-write", "server write failed: %v", err)
				break
			}
			csB.SetReadDeadline(time.Now().Add(5 * time.Second))
			if _, err := io.ReadFull(csB, make([]byte, 1)); err != nil {
				if alive("when the peer's answer arrived") {
					fail(keyScen+":answer-not-received", "the peer's answer sent %v after the restart of the idle period did not reach the application: %v", since()-ip.Restart, err)
				}
				break
			}
			// ... and the connection is usable in the other direction as well
			if _, err := csB.Write([]byte{10}); err != nil {
				fail(keyScen+":echo-after-silence", "client write: %v", err)
				break
			}
			ssB.SetReadDeadline(time.Now().Add(5 * time.Second))
			if _, err := io.ReadFull(ssB, make([]byte, 1)); err != nil {
				fail(keyScen+":echo-after-silence", "server read: %v", err)
				break
			}
			alive("after the exchange that followed the silence")
		default:
			if !c12IsOver(scen) {
				t.Fatalf("unknown scenario %q", scen)
			}
			out.class = c12RunOver(ctx, w, cep.LocalAddr(), conn, sc, scen, tag, adv, fail)
		}
		if out.class == "" {
			out.class = tag
		}
		cleanup(sc)
		wg.Wait()
		// passive wire monitor: in particular, the in-tree server as a sender must stay within the
		// limits the client put on the wire (read from the ClientHello by the monitor itself)
		for _, f := range wiremon.Analyze(w.Router.FullLog(), w.KeyLog.Lines(), wiremon.Params{}).Findings {
			fail(f.Key, "%s", f.What)
		}
	})
	if !ok && out.fail == nil {
		fail("bubble-failed", "bubble did not terminate cleanly")
	}
	return out
}

// echoBoth sends one byte each way on a fresh client-initiated stream.
func echoBoth(ctx context.Context, c, s *quic.Conn) error {
	ctx, cancel := context.WithTimeout(ctx, 5*time.Second)
	defer cancel()
	cs, err := c.OpenStreamSync(ctx)
	if err != nil {
		return fmt.Errorf("client OpenStreamSync: %w", err)
	}
	if _, err := cs.Write([]byte{42}); err != nil {
		return err
	}
	ss, err := s.AcceptStream(ctx)
	if err != nil {
		return fmt.Errorf("server AcceptStream: %w", err)
	}
	b := make([]byte, 1)
	if _, err := io.ReadFull(ss, b); err != nil {
		return fmt.Errorf("server read: %w", err)
	}
	ss.Write(b)
	ss.Close()
	cs.Close()
	if _, err := io.ReadFull(cs, b); err != nil {
		return fmt.Errorf("client read: %w", err)
	}
	return nil
}

// c12OpenEchoed opens a client-initiated bidirectional stream and sends one byte each way on it.
func c12OpenEchoed(ctx context.Context, c, s *quic.Conn) (*quic.Stream, *quic.Stream, error) {
	ctx, cancel := context.WithTimeout(ctx, 5*time.Second)
	defer cancel()
	cs, err := c.OpenStreamSync(ctx)
	if err != nil {
		return nil, nil, fmt.Errorf("client OpenStreamSync: %w", err)
	}
	if _, err := cs.Write([]byte{41}); err != nil {
		return nil, nil, err
	}
	ss, err := s.AcceptStream(ctx)
	if err != nil {
		return nil, nil, fmt.Errorf("server AcceptStream: %w", err)
	}
	b := make([]byte, 1)
	if _, err := io.ReadFull(ss, b); err != nil {
		return nil, nil, fmt.Errorf("server read: %w", err)
	}
	if _, err := ss.Write(b); err != nil {
		return nil, nil, fmt.Errorf("server write: %w", err)
	}
	cs.SetReadDeadline(time.Now().Add(5 * time.Second))
	if _, err := io.ReadFull(cs, b); err != nil {
		return nil, nil, fmt.Errorf("client read: %w", err)
	}
	cs.SetReadDeadline(time.Time{})
	return cs, ss, nil
}

// ---- enumeration ------------------------------------------------------------------------

func TestVerifC12(t *testing.T) {
	sim.InitCerts(t)
	mk := func(e explore.Env) ([]c12Config, string) {
		seed := uint64(e.Seed) + 11
		var cfgs []c12Config
		gens := c12Gens()
		// idle-send: every application action x every point of the idle period (without an action the point does not matter)
		variants := func(scen string) [][2]int {
			if scen != "idle-send" {
				return [][2]int{{0, 0}}
			}
			var v [][2]int
			for op := range c12IdleOps {
				for gap := range c12IdleGaps {
					if op == 0 && gap > 0 {
						continue
					}
					v = append(v, [2]int{op, gap})
				}
			}
			return v
		}
		// the peer's own max_idle_timeout matters to the two idle scenarios only: they run against
		// every peer profile (quick: idle-send against the peer without an idle timeout with the
		// application acting late in the period only)
		peers := func(scen string, v [2]int) []int {
			switch {
			case scen == "idle", scen == "idle-send" && (e.Thorough() || v[1] == 0):
				p := make([]int, len(c12Peers))
				for i := range p {
					p[i] = i
				}
				return p
			}
			return []int{0}
		}
		// generated lists: every list x the scenario its deviation is about (all scenarios for the baseline) x user configs
		for gi, g := range gens {
			for si, sc := range c12Scenarios {
				rel := gi == 0
				for _, key := range []string{"sd_bidi_local:sd-bidi-local", "sd_bidi_remote:sd-bidi-remote", "sd_uni:sd-uni", "max_data:max-data", "streams_bidi:streams-bidi", "streams_uni:streams-uni", "cid_limit:cids", "datagram:datagram", "idle:idle", "datagram:own-record", "idle:idle-send",
					"sd_bidi_local:over-sd-bidi-local", "sd_bidi_remote:over-sd-bidi-remote", "sd_uni:over-sd-uni", "max_data:over-max-data", "streams_bidi:over-streams-bidi", "streams_uni:over-streams-uni", "datagram:over-datagram"} {
					p := strings.SplitN(key, ":", 2)
					if strings.HasPrefix(g.Name, "gen:"+p[0]+"=") && p[1] == sc {
						rel = true
					}
				}
				if !rel {
					continue
				}
				for ci := range c12UserConfs {
					if gi != 0 && ci > 0 && !e.Thorough() && ci != 1 && ci != 4 && !c12IsOver(sc) { // (the over-* scenarios are short: every user Config in both tiers)
						continue
					}
					for _, v := range variants(sc) {
						for _, pi := range peers(sc, v) {
							cfgs = append(cfgs, c12Config{FP: -1, Gen: gi, UserConf: ci, Scenario: si, Seed: seed, Op: v[0], Gap: v[1], Peer: pi})
						}
					}
				}
			}
		}
		// built-in fingerprints: every scenario with the zero Config; every user Config in thorough
		for fi := range c12Fingerprints {
			for si := range c12Scenarios {
				for ci := range c12UserConfs {
					if ci > 0 && !e.Thorough() && si < 4 {
						continue // the multi-megabyte window scenarios run with every user Config only in thorough
					}
					if !e.Thorough() && fi%2 == 1 && si < 4 {
						continue // the IPv6 / B variants repeat the multi-megabyte window scenarios only in thorough
					}
					if c12Scenarios[si] == "idle-send" && !e.Thorough() && ci != 0 && ci != 4 && ci != 9 && ci != 10 {
						continue // quick: zero Config, another idle timeout, keep-alive, no MTU discovery
					}
					for _, v := range variants(c12Scenarios[si]) {
						for _, pi := range peers(c12Scenarios[si], v) {
							cfgs = append(cfgs, c12Config{FP: fi, Gen: 0, UserConf: ci, Scenario: si, Seed: seed, Op: v[0], Gap: v[1], Peer: pi})
						}
					}
				}
			}
		}
		return cfgs, fmt.Sprintf("%d generated transport-parameter lists (baseline + one limit at a time over {absent, 0, 1, small, Config default -1/0/+1, large}) x the boundary scenarios of that limit (conformant peer at the boundary; over-*: a peer that goes one beyond it, every user Config) x user Configs; 7 built-in fingerprints x %d boundary scenarios (slow reader per stream type and per connection, maximum concurrent streams, connection ID issuance, DATAGRAM at the advertised size, silence just below the advertised idle timeout counted from the last packet the client received, and - idle-send - from the first ack-eliciting packet it sent since: the path towards the client goes dark, the application does one of {nothing, write, write 2 packets, close, reset, stop-sending, open a bidirectional / unidirectional stream, send a DATAGRAM} a quarter / half / all but 600 ms into its idle period, the peer answers 500 ms before the advertised period counted from the restart the wire shows is over; both idle scenarios against a peer that advertises a longer max_idle_timeout of its own (10 min) and against one that advertises none (0); over-streams-bidi/-uni, over-sd-bidi-local/-bidi-remote/-uni, over-max-data, over-datagram: the harness speaks for the server with authentic 1-RTT packets, first frames that use the advertised limit exactly - not to be refused -, then one stream / one byte / one DATAGRAM byte more - to be refused with a locally generated transport error) x user Configs {zero, small/large windows, datagrams on, idle 1s/5s/5min, few / refused (-1) / 2^20 streams, keep-alive, no MTU discovery}%s", len(gens), len(c12Scenarios), map[bool]string{true: "", false: " (window scenarios of the built-in fingerprints with the zero Config only; idle-send of the built-in fingerprints with the Configs zero, idle 5s, keep-alive, idle 1s without MTU discovery; idle-send against the peer without an idle timeout with the application acting late in the period only)"}[e.Thorough()])
	}
	part := explore.Part{Name: "limits"}
	part.Run = func(e explore.Env) *explore.Report {
		cfgs, rule := mk(e)
		rep := explore.RunCases(e, len(cfgs), 1, false, func(i int) explore.CaseResult {
			explore.MarkCurrent(e, "limits", cfgs[i])
			o := c12Run(t, cfgs[i])
			cr := explore.CaseResult{Outcome: o.class, Execs: 1, Trans: 1, Replay: cfgs[i]}
			if o.fail != nil {
				cr.Fail, cr.Human = o.fail, []string{cfgs[i].String()}
			}
			return cr
		})
		rep.Level, rep.Rule, rep.Bound = "fault_enumeration", rule, rule
		rep.Samples = []any{cfgs[0].String(), cfgs[len(cfgs)/2].String(), cfgs[len(cfgs)-1].String()}
		return rep
	}
	part.Replay = func(e explore.Env, raw json.RawMessage) *explore.Violation {
		var cfg c12Config
		if err := json.Unmarshal(raw, &cfg); err != nil {
			t.Fatal(err)
		}
		o := c12Run(t, cfg)
		if o.fail == nil {
			return nil
		}
		return &explore.Violation{Key: o.fail.Key, What: o.fail.What, Human: []string{cfg.String()}}
	}
	explore.Main("C12", []explore.Part{part}, func(msg string) { t.Fatal(msg) })
}
