package quic_test

// C12, idle timer: what the wire says about the client's idle period.
//
// RFC 9000, 10.1 defines what the advertised max_idle_timeout means: the endpoint restarts
// its idle timer when it receives (and successfully processes) a packet from the peer, and
// when it sends the first ack-eliciting packet after having received one. A peer that sees
// such a packet can rely on the client staying around for the advertised period counted
// from that packet. Both instants are read from the datagram log of the router (the
// client's own 1-RTT packets are opened with the secrets of the TLS key log and parsed by
// the independent frame parser), never from the connection's state.

import (
	"fmt"
	"strings"
	"time"

	"github.com/refraction-networking/uquic/internal/verifmc/ref5"
	"github.com/refraction-networking/uquic/internal/verifmc/sim"
	"github.com/refraction-networking/uquic/internal/verifmc/wiremon"
)

// c12SentPkt is one datagram the client sent after the handshake.
type c12SentPkt struct {
	T       time.Duration
	Opened  bool   // a 1-RTT packet that could be opened and parsed
	AckElic bool   // it carries at least one ack-eliciting frame
	Frames  string // names of its ack-eliciting frames, "+"-joined, in order, without repetitions
}

// c12ClientPackets reads every short-header datagram the client sent.
func c12ClientPackets(log []sim.Event, keylog []string) ([]c12SentPkt, error) {
	var version uint32
	dcidLen := -1
	for _, ev := range log {
		if ev.Dir != sim.S2C || ev.Injected || len(ev.Data) == 0 || ev.Data[0]&0x80 == 0 {
			continue
		}
		h, err := ref5.ParseLong(ev.Data)
		if err != nil || h.Version == 0 {
			continue
		}
		version, dcidLen = h.Version, len(h.SCID)
		break
	}
	if dcidLen < 0 {
		return nil, fmt.Errorf("no long-header packet of the server in the log")
	}
	type cand struct {
		sec   []byte
		suite uint16
	}
	var cands []cand
	for _, e := range ref5.ParseKeyLog([]byte(strings.Join(keylog, "\n"))) {
		for _, s := range e.Suites() {
			for _, sec := range e.All[ref5.LabelClientTraffic] {
				want := 32
				if s == ref5.TLS_AES_256_GCM_SHA384 {
					want = 48
				}
				if len(sec) == want {
					cands = append(cands, cand{sec, s})
				}
			}
		}
	}
	var out []c12SentPkt
	largest := int64(-1)
	gen := 0
	for _, ev := range log {
		if ev.Dir != sim.C2S || ev.Injected || len(ev.Data) == 0 {
			continue
		}
		if ev.Data[0]&0x80 != 0 {
			if _, err := ref5.ParseLong(ev.Data); err == nil {
				continue // handshake datagrams (a coalesced 1-RTT packet behind them is not needed here)
			}
		}
		p := c12SentPkt{T: ev.T}
	open:
		for ci, cd := range cands {
			for _, g := range []int{gen, gen + 1} {
				k := ref5.GenerationKeys(cd.sec, version, cd.suite, g)
				_, pn, payload, err := ref5.UnprotectShortFull(ev.Data, k, largest, dcidLen)
				if err != nil {
					continue
				}
				frames, err := wiremon.ParseFrames(payload)
				if err != nil {
					return nil, fmt.Errorf("client 1-RTT packet %d at %v: %v", pn, ev.T, err)
				}
				gen = g
				largest = max(largest, int64(pn))
				cands[0], cands[ci] = cands[ci], cands[0]
				p.Opened = true
				var names []string
				for _, f := range frames {
					if !f.AckElic {
						continue
					}
					p.AckElic = true
					if len(names) == 0 || names[len(names)-1] != f.Name {
						names = append(names, f.Name)
					}
				}
				p.Frames = strings.Join(names, "+")
				break open
			}
		}
		out = append(out, p)
	}
	return out, nil
}

// c12IdlePeriod is the wire's view of the client's running idle period.
type c12IdlePeriod struct {
	LastReceived time.Duration // arrival of the last datagram of the server that was delivered
	Restart      time.Duration // the later of LastReceived and the first ack-eliciting packet sent since
	By           string        // frames of that packet ("" if the client has not sent one)
	Unreadable   bool          // a datagram of the client since LastReceived could not be opened: no verdict
}

// c12IdleOf computes the running idle period from the log so far. Datagrams of the server
// still in flight count as received on arrival (the caller makes sure there are none).
func c12IdleOf(log []sim.Event, keylog []string) (c12IdlePeriod, error) {
	var ip c12IdlePeriod
	for _, ev := range log {
		if ev.Dir == sim.S2C && !ev.Injected && ev.Fate == sim.Deliver {
			ip.LastReceived = max(ip.LastReceived, ev.T+sim.OneWay)
		}
	}
	ip.Restart = ip.LastReceived
	pkts, err := c12ClientPackets(log, keylog)
	if err != nil {
		return ip, err
	}
	for _, p := range pkts {
		// (a packet sent in the very instant of the last arrival restarts the period at that same instant)
		if p.T < ip.LastReceived {
			continue
		}
		if !p.Opened {
			ip.Unreadable = true
			return ip, nil
		}
		if p.AckElic {
			ip.Restart, ip.By = p.T, p.Frames
			break
		}
	}
	return ip, nil
}

// c12Quiet reports whether no datagram was sent in either direction during the last d.
func c12Quiet(log []sim.Event, now, d time.Duration) bool {
	for _, ev := range log {
		if ev.T+sim.OneWay > now-d {
			return false
		}
	}
	return true
}
