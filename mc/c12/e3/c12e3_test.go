package quic

// C12 E3: a peer that opens streams within the advertised stream count and finishes them in
// any way a conformant peer can must never be answered with a locally generated transport
// error. One way to produce such an error without any wrong byte on the wire is inside the
// endpoint: both halves of a bidirectional stream complete "at the same time" - the send half
// in the run loop (the FIN or the RESET_STREAM is acknowledged), the receive half in the
// application's goroutine (Read reaches the end, CancelRead) or in the run loop as well
// (RESET_STREAM) - and the stream is deleted from the streams map twice; connection.go turns
// the second DeleteStream into closeLocal(STREAM_STATE_ERROR).
//
// stream.go, send_stream.go, receive_stream.go, streams_map*.go and the flow controllers are
// rebuilt against the channel-based mutex of mc/lib/vsync; every Lock and every Unlock is a
// scheduler point and every schedule of the thread mixes below with at most two (thorough:
// three) preemptions is executed on a real streamsMap (client perspective, as a spec-driven
// client) with a real peer-initiated Stream. The sender's onStreamCompleted is connection.go's.

import (
	"context"
	"encoding/json"
	"fmt"
	"io"
	"testing"

	"github.com/refraction-networking/uquic/internal/flowcontrol"
	"github.com/refraction-networking/uquic/internal/monotime"
	"github.com/refraction-networking/uquic/internal/protocol"
	"github.com/refraction-networking/uquic/internal/utils"
	"github.com/refraction-networking/uquic/internal/verifmc/explore"
	"github.com/refraction-networking/uquic/internal/verifmc/sched"
	"github.com/refraction-networking/uquic/internal/verifmc/vsync"
	"github.com/refraction-networking/uquic/internal/wire"
)

type c12e3Variant struct {
	Name    string
	PeerFin bool // the peer's 100 bytes carry FIN before the threads start
	Threads [][]string
}

// steps: ackfin (the packet with our FIN is acknowledged) | readall | cancelread | rst (RESET_STREAM, final size 100)
// | fin (empty STREAM frame with FIN) | cancelw-ackrst (CancelWrite; the RESET_STREAM is packed and acknowledged)
// | stop-ackrst (STOP_SENDING; the RESET_STREAM is packed and acknowledged)
var c12e3Variants = []c12e3Variant{
	{"ackfin|readall", true, [][]string{{"ackfin"}, {"readall"}}},
	{"ackfin|cancelread", true, [][]string{{"ackfin"}, {"cancelread"}}},
	{"ackfin|readall-after-fin-frame", false, [][]string{{"fin", "ackfin"}, {"readall"}}},
	{"ackfin|cancelread|rst", false, [][]string{{"ackfin"}, {"cancelread"}, {"rst"}}},
	{"stop-ackrst|readall", true, [][]string{{"stop-ackrst"}, {"readall"}}},
	{"cancelw|ackrst-via-loop|cancelread", true, [][]string{{"cancelw-ackrst"}, {"cancelread"}}},
	{"ackfin|readall|second-stream-fin", true, [][]string{{"ackfin"}, {"readall"}, {"open2"}}},
}

type c12e3Replay struct {
	Variant int   `json:"variant"`
	Choices []int `json:"choices"`
}

// c12e3Sender is connection.go's streamSender as far as the streams map is concerned.
type c12e3Sender struct {
	sm        *streamsMap
	errs      []error
	completed map[protocol.StreamID]int
}

func (s *c12e3Sender) onHasConnectionData()                                                {}
func (s *c12e3Sender) onHasStreamData(protocol.StreamID, *SendStream)                      {}
func (s *c12e3Sender) onHasStreamControlFrame(protocol.StreamID, streamControlFrameGetter) {}
func (s *c12e3Sender) onStreamCompleted(id protocol.StreamID) {
	// connection.go: if err := c.streamsMap.DeleteStream(id); err != nil { c.closeLocal(err) }
	s.completed[id]++
	if err := s.sm.DeleteStream(id); err != nil {
		s.errs = append(s.errs, err)
	}
}

func c12e3Scenario(v c12e3Variant) func() *sched.Scenario {
	return func() *sched.Scenario {
		const peerBytes = 100
		rtt := utils.NewRTTStats()
		cfc := flowcontrol.NewConnectionFlowController(1<<20, 1<<20, func(protocol.ByteCount) bool { return true }, rtt, utils.DefaultLogger)
		cfc.UpdateSendWindow(1 << 20)
		snd := &c12e3Sender{completed: map[protocol.StreamID]int{}}
		var ctrl []wire.Frame
		// the client advertised initial_max_streams_bidi = 2: the server may open streams 1 and 5
		sm := newStreamsMap(context.Background(), snd, func(f wire.Frame) { ctrl = append(ctrl, f) },
			func(id protocol.StreamID) flowcontrol.StreamFlowController {
				return flowcontrol.NewStreamFlowController(id, cfc, 1<<20, 1<<20, 1<<20, rtt, utils.DefaultLogger)
			}, 2, 2, protocol.PerspectiveClient)
		snd.sm = sm
		now := monotime.Now()
		explore.Must(sm.HandleStreamFrame(&wire.StreamFrame{StreamID: 1, Data: make([]byte, peerBytes), Fin: v.PeerFin}, now) == nil, "setup: STREAM frame on stream 1 rejected")
		str, err := sm.AcceptStream(context.Background())
		explore.Must(err == nil && str.StreamID() == 1, "setup: AcceptStream")
		_, err = str.Write(make([]byte, 50))
		explore.Must(err == nil, "setup: Write")
		explore.Must(str.Close() == nil, "setup: Close")
		finFrame, _, _ := str.popStreamFrame(protocol.MaxPacketBufferSize, protocol.Version1)
		explore.Must(finFrame.Frame != nil && finFrame.Frame.Fin, "setup: no frame with FIN popped")

		note := func(err error) {
			if err != nil {
				snd.errs = append(snd.errs, err)
			}
		}
		ackReset := func() {
			for {
				f, ok, more := str.getControlFrame(monotime.Now())
				if ok {
					if f.Handler != nil {
						f.Handler.OnAcked(f.Frame)
					}
				}
				if !more {
					return
				}
			}
		}
		step := func(name string) func() {
			switch name {
			case "ackfin":
				return func() { finFrame.Handler.OnAcked(finFrame.Frame) }
			case "readall":
				return func() { io.ReadAll(str) }
			case "cancelread":
				return func() { str.CancelRead(7) }
			case "rst":
				return func() {
					note(sm.HandleResetStreamFrame(&wire.ResetStreamFrame{StreamID: 1, ErrorCode: 3, FinalSize: peerBytes}, monotime.Now()))
				}
			case "fin":
				return func() {
					note(sm.HandleStreamFrame(&wire.StreamFrame{StreamID: 1, Offset: peerBytes, Fin: true}, monotime.Now()))
				}
			case "cancelw-ackrst":
				return func() { str.CancelWrite(9); ackReset() }
			case "stop-ackrst":
				return func() {
					note(sm.HandleStopSendingFrame(&wire.StopSendingFrame{StreamID: 1, ErrorCode: 4}))
					ackReset()
				}
			case "open2": // the peer uses its second stream, still within the advertised count
				return func() {
					note(sm.HandleStreamFrame(&wire.StreamFrame{StreamID: 5, Data: make([]byte, 10), Fin: true}, monotime.Now()))
				}
			}
			panic("unknown step " + name)
		}
		var threads []sched.Thread
		for i, names := range v.Threads {
			th := sched.Thread{Name: fmt.Sprintf("t%d", i)}
			for _, n := range names {
				th.Name += ":" + n
				th.Steps = append(th.Steps, step(n))
			}
			threads = append(threads, th)
		}
		check := func() *explore.Fail {
			for _, err := range snd.errs {
				return explore.Failf("e3:local-error-against-conformant-peer", "%s: the peer stays within the 2 bidirectional streams the client advertised and finishes them properly, the client raises: %v", v.Name, err)
			}
			return nil
		}
		return &sched.Scenario{
			Threads:   threads,
			AfterStep: check,
			Final: func(blocked []string) *explore.Fail {
				for _, b := range blocked {
					return explore.Failf("e3:call-not-returned", "%s: %s is still blocked although the stream has ended in both directions", v.Name, b)
				}
				if f := check(); f != nil {
					return f
				}
				if n := snd.completed[1]; n != 1 {
					return explore.Failf("e3:stream-completion-count", "%s: both halves of stream 1 are finished, the stream reported itself completed %d times (the streams map and the peer's stream credit depend on exactly one)", v.Name, n)
				}
				return nil
			},
			Cleanup: func() { sm.CloseWithError(io.ErrClosedPipe) },
			Outcome: func() string { return fmt.Sprintf("completed=%d ctrl=%d", snd.completed[1], len(ctrl)) },
		}
	}
}

func TestVerifC12E3(t *testing.T) {
	vsync.Hook = sched.Point
	vsync.UnlockHook = sched.Point
	const name = "e3-stream-completion-lockpoints"
	part := explore.Part{
		Name: name,
		Run: func(e explore.Env) *explore.Report {
			rep := &explore.Report{Level: "exploration", Exhaustive: true}
			bound := 2
			if e.Thorough() {
				bound = 3
			}
			outcomes := map[string]bool{}
			for vi, v := range c12e3Variants {
				explore.MarkCurrent(e, name, c12e3Replay{Variant: vi})
				r := sched.ExploreBounded(t, e, bound, 0, c12e3Scenario(v))
				rep.Evaluations += r.Executions
				rep.Transitions += r.Steps
				for o := range r.Outcomes {
					outcomes[v.Name+": "+o] = true
				}
				if r.Capped {
					rep.Exhaustive = false
					rep.Caps = append(rep.Caps, "deadline in "+v.Name)
				}
				if r.Fail != nil {
					rep.Violations = append(rep.Violations, explore.Violation{Key: r.Fail.Key, What: r.Fail.What, Replay: explore.JSON(c12e3Replay{vi, r.FailChoice}), Human: r.FailTrace})
				}
				rep.Samples = append(rep.Samples, fmt.Sprintf("%s: %d schedules", v.Name, r.Executions))
			}
			explore.ClearCurrent(e)
			for o := range outcomes {
				rep.Outcomes = append(rep.Outcomes, o)
			}
			rep.OutcomesN = int64(len(rep.Outcomes))
			rep.States = rep.OutcomesN
			rep.Traces = rep.Transitions
			rep.Rule = fmt.Sprintf("%d thread mixes on a real client-side streamsMap with one (two) real peer-initiated bidirectional Stream(s): the run loop (acknowledgement of the FIN / of the RESET_STREAM, RESET_STREAM, FIN, STOP_SENDING, a second stream) against the application (Read to the end, CancelRead, CancelWrite); every mutex Lock and Unlock of stream.go, send_stream.go, receive_stream.go, streams_map*.go and internal/flowcontrol is a scheduler point (files import-rewritten to vsync from the working tree): every schedule with at most %d preemptions", len(c12e3Variants), bound)
			rep.Bound = fmt.Sprintf("preemption bound %d completed", bound)
			return rep
		},
		Replay: func(e explore.Env, raw json.RawMessage) *explore.Violation {
			var rp c12e3Replay
			if err := json.Unmarshal(raw, &rp); err != nil {
				t.Fatal(err)
			}
			f, trace := sched.Replay(t, c12e3Scenario(c12e3Variants[rp.Variant]), rp.Choices)
			if f == nil {
				return nil
			}
			return &explore.Violation{Key: f.Key, What: f.What, Human: trace}
		},
	}
	explore.Main("C12", []explore.Part{part}, func(msg string) { t.Fatal(msg) })
}
