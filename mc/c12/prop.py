# ./check configuration for C12 (merged by mc/props.py)
PROP = dict(
    pkg=".", test="TestVerifC12", files=["mc/c12/*.go"], libs=["explore", "canon", "sim", "wireobs"],
    engine="E2 simx", level="fault_enumeration", shards="ncpu", gomaxprocs=1,
    env={"GODEBUG": "randseednop=0,asyncpreemptoff=1"},
    deterministic=False, crash_is_violation=True,
    deadline=dict(quick=150, thorough=1100),
    rule="whole client+server connections of the real implementation in a synctest bubble over a fault-injecting router; one execution per static fault map (slot -> fate)",
    assumptions=["goroutine interleavings inside the connection are chosen by the Go runtime (GOMAXPROCS=1), not enumerated; oracles are schedule-independent",
                 "crypto/rand pinned per run with cryptotest.SetGlobalRandom; math/rand seeded",
                 "the in-tree server never exceeds the limits the client advertised"],
    level_text="Exhaustive enumeration of (advertised-limit value x boundary scenario x user Config) on real endpoints in virtual time: generated transport-parameter lists vary one limit at a time over {absent, 0, small, Config default -1/0/+1, large}; the in-tree server, a conformant peer, is scripted to use each advertised limit (read off the wire by the independent observer) up to its boundary; the client must stay error-free and all advertised credit must be usable. All 7 built-in fingerprints run every scenario.",
    level_note="Trusted: the in-tree server as the conformant peer that exercises the limits; mc/lib/wireobs for the advertised values; windows are exercised up to 8 MB; connection ID issuance by the in-tree server is bounded by its cap of 6 and never uses Retire Prior To; the cids scenario therefore also runs, for the limit read off the wire, an exhaustive in-order search on a real connIDManager configured as u_connection.go does (every history of NEW_CONNECTION_ID with any Retire Prior To that keeps the peer within the limit, handshake completion and rotation, up to sequence number limit+3; mc/c12/c12_export_test.go); reordered and duplicate frames are C16's domain.",
    technique="exhaustive limit-value x boundary-scenario x Config enumeration on real endpoints in virtual time",
)
