# ./check configuration for C12 (merged by mc/props.py)
PROP = dict(
    libs=["explore", "canon", "sim", "wireobs", "wiremon"],
    targets=[
        dict(name="e2", pkg=".", test="TestVerifC12", files=["mc/c12/*.go"]),
        dict(name="e3", pkg=".", test="TestVerifC12E3", files=["mc/c12/e3/*.go"], parts=["e3-stream-completion-lockpoints"],
             libs=["explore", "canon", "sched", "vsync"], shards=1, gomaxprocs=0, env={},
             rewrite={f: [('"sync"', 'sync "github.com/refraction-networking/uquic/internal/verifmc/vsync"')]
                      for f in ("stream.go", "send_stream.go", "receive_stream.go", "streams_map.go", "streams_map_incoming.go", "streams_map_outgoing.go", "internal/flowcontrol/base_flow_controller.go")}),
    ],
    engine="E2 simx", level="fault_enumeration", shards="ncpu", gomaxprocs=1,
    env={"GODEBUG": "randseednop=0,asyncpreemptoff=1"},
    deterministic=False, crash_is_violation=True,
    deadline=dict(quick=150, thorough=1100),
    rule="whole client+server connections of the real implementation in a synctest bubble over a fault-injecting router; one execution per static fault map (slot -> fate)",
    assumptions=["goroutine interleavings inside the connection are chosen by the Go runtime (GOMAXPROCS=1), not enumerated; oracles are schedule-independent",
                 "crypto/rand pinned per run with cryptotest.SetGlobalRandom; math/rand seeded",
                 "the in-tree server never exceeds the limits the client advertised"],
    level_text="Exhaustive enumeration of (advertised-limit value x boundary scenario x user Config) on real endpoints in virtual time: generated transport-parameter lists vary one limit at a time over {absent, 0, small, Config default -1/0/+1, large}; the in-tree server, a conformant peer, is scripted to use each advertised limit (read off the wire by the independent observer) up to its boundary; the client must stay error-free and all advertised credit must be usable. All 7 built-in fingerprints run every scenario. Every execution is also read by the passive wire monitor (mc/lib/wiremon): each datagram either endpoint SENT is opened with independent packet protection (mc/lib/ref5, secrets from the TLS key log), its frames are parsed by an independent parser, and sender-side invariants are checked (packet numbers increase and stay decodable for what the sender knows to be acknowledged; ACK frames name only packets whose intact copy had arrived; retransmissions never change stream or CRYPTO bytes; data, stream counts and final sizes stay within the limits that had reached the sender, read from the ClientHello / EncryptedExtensions; frames fit their encryption level; 1-RTT packets use connection IDs the peer issued and the sender has not retired; nothing but CONNECTION_CLOSE after CONNECTION_CLOSE). What an endpoint can have received is over-approximated from fates and virtual times, so the monitor can miss but not invent a violation; exchanges with injected datagrams are not judged by it. Lock-point level (target e3): a real client-side streamsMap with real peer-initiated bidirectional Streams, the run loop (acknowledgement of the FIN / RESET_STREAM, RESET_STREAM, FIN, STOP_SENDING, a second stream) racing with the application (Read to the end, CancelRead, CancelWrite), every mutex Lock and Unlock of stream.go, send_stream.go, receive_stream.go, streams_map*.go and the flow controllers a scheduler point, every schedule with at most 2 [3] preemptions; the sender's onStreamCompleted is connection.go's (a failing DeleteStream is the local STREAM_STATE_ERROR).",
    level_note="Trusted: the in-tree server as the conformant peer that exercises the limits; mc/lib/wireobs for the advertised values; windows are exercised up to 8 MB; connection ID issuance by the in-tree server is bounded by its cap of 6 and never uses Retire Prior To; the cids scenario therefore also runs, for the limit read off the wire, an exhaustive in-order search on a real connIDManager configured as u_connection.go does (every history of NEW_CONNECTION_ID with any Retire Prior To that keeps the peer within the limit, handshake completion and rotation, up to sequence number limit+3; mc/c12/c12_export_test.go); reordered and duplicate frames are C16's domain.",
    technique="exhaustive limit-value x boundary-scenario x Config enumeration on real endpoints in virtual time",
)
