package quic_test

// C13: handshakes converge or fail cleanly; forged packets cannot change the outcome.
// E2: the fate of every handshake datagram and the position and content of an on-path
// attacker's forged packet are explorer choices; every combination within the bound runs
// on the real client and server in virtual time.

import (
	"bytes"
	"context"
	"encoding/json"
	"errors"
	"fmt"
	"io"
	"net"
	"strings"
	"sync"
	"testing"
	"time"

	quic "github.com/refraction-networking/uquic"
	"github.com/refraction-networking/uquic/internal/verifmc/explore"
	"github.com/refraction-networking/uquic/internal/verifmc/sim"
	"github.com/refraction-networking/uquic/internal/verifmc/wiremon"
	"github.com/refraction-networking/uquic/internal/verifmc/wireobs"
	tls "github.com/refraction-networking/utls"
)

// (new scenarios are appended: replay files and the quick-tier selections refer to scenarios by index)
var c13Scenarios = []string{"plain", "retry", "vn", "longchain", "resume", "0rtt-accept", "0rtt-reject",
	"0rtt-retry-accept", // resumption with 0-RTT against a server that validates the address with a Retry: the early data leaves before the Retry arrives
	"0rtt-retry-reject", // the same, and the server's configuration changed: Retry first, then 0-RTT is rejected
	// large early writes (c13BigPayload bytes: more than the pacer's burst and the initial congestion
	// window let out before the server's answer arrives, so the stream still has unsent data queued
	// when 0-RTT is accepted / rejected)
	"0rtt-accept-big",
	"0rtt-reject-big",
	"0rtt-retry-reject-big",
	// the same large early write against a ticket that remembered a small stream flow control window
	// (c13FCWindow): the early write is blocked on flow control when the rejection arrives
	"0rtt-reject-fc",
	// an early write that has left completely (c13CWPayload bytes, 4 packets) when the rejection
	// arrives, against a server that comes back with a connection-level receive window
	// (initial_max_data) just above that size (c13CWPayload + c13CWSlack): the request the
	// application sends again after NextConnection is twice as large, so it needs the whole
	// window of the new connection at once - none of it may still be charged with rejected bytes -
	// and must wait for the server's MAX_DATA for the rest - the limit remembered with the
	// ticket must be gone
	"0rtt-reject-cw",
	"0rtt-retry-reject-cw",
}

// scenario traits
func c13UsesRetry(scen string) bool {
	return scen == "retry" || strings.HasPrefix(scen, "0rtt-retry-")
}
func c13Early(scen string) bool { // DialEarly with a resumable session, stream data written before the handshake completes
	return strings.HasPrefix(scen, "0rtt-")
}
func c13Rejects0RTT(scen string) bool { return c13Early(scen) && strings.Contains(scen, "-reject") }
func c13TwoPhase(scen string) bool    { return scen == "resume" || c13Early(scen) }
func c13BigEarly(scen string) bool { // the early write is larger than what can leave before the server answers
	return strings.HasSuffix(scen, "-big") || c13FCBlocked(scen)
}
func c13FCBlocked(scen string) bool { return strings.HasSuffix(scen, "-fc") }

// c13CWTight: after the rejection the server grants a connection-level window just above the early data size
func c13CWTight(scen string) bool { return strings.HasSuffix(scen, "-cw") }

// c13KindsFor: the client kinds a scenario runs with.
func c13KindsFor(si int) []string {
	if c13TwoPhase(c13Scenarios[si]) {
		return []string{"plain"} // the built-in fingerprints carry no pre_shared_key extension
	}
	return []string{"plain", "chrome115"}
}

var c13Injections = []string{
	"vn-other-versions",   // Version Negotiation not listing the client's version
	"vn-with-our-version", // Version Negotiation that lists the version in use (must always be ignored)
	"retry-bad-tag",       // Retry with an invalid integrity tag (must always be ignored)
	"retry-valid-tag",     // Retry with a valid tag, attacker-chosen connection ID
	"retry-wrong-odcid",   // Retry whose tag was computed over a different original DCID
	"retry-replay",        // replay of the genuine Retry (scenarios with a Retry only)
	"initial-wrong-scid-close",
	"initial-wrong-scid-crypto",
	"dup-earlier",     // duplicate of the first genuine server datagram
	"corrupt-earlier", // corrupted copy of the first genuine server datagram
	// Initial packets built with the connection's REAL connection IDs (all visible on the wire) and
	// protected with the Initial keys in use (they follow from the destination connection ID of the
	// client's first Initial, after a Retry from the Retry's source connection ID). RFC 9001 4.9.1:
	// an endpoint that has discarded its Initial keys (client: when it first sends a Handshake
	// packet; server: when it first processes one) cannot be affected by such a packet any more.
	"initial-real-cids-close",         // server -> client, CONNECTION_CLOSE
	"initial-real-cids-crypto",        // server -> client, garbage CRYPTO
	"client-initial-real-cids-close",  // client -> server, CONNECTION_CLOSE
	"client-initial-real-cids-crypto", // client -> server, garbage CRYPTO
}

// c13RealCIDKind: forged Initial packets that are well formed for the connection under attack;
// c13ToServer: the ones addressed to the server.
func c13RealCIDKind(n string) bool {
	return n == "initial-real-cids-close" || n == "initial-real-cids-crypto" || c13ToServer(n)
}
func c13ToServer(n string) bool {
	return n == "client-initial-real-cids-close" || n == "client-initial-real-cids-crypto"
}

func c13PairKind(n string) bool {
	return n == "vn-other-versions" || n == "retry-valid-tag" || n == "initial-wrong-scid-close"
}

type c13Inject struct {
	Kind int      `json:"kind"`
	At   sim.Slot `json:"at"` // the forged packet is put on the wire when this datagram is sent
	// Rel == "hs": At.Idx counts the datagrams of direction At.Dir from the moment the client's
	// first Handshake packet leaves (C2S #0 = the datagram that carries it, S2C #0 = the first
	// server datagram sent at or after that instant); "" = ordinal within the handshake.
	Rel string `json:"rel,omitempty"`
}

func (in *c13Inject) String() string {
	rel := ""
	if in.Rel != "" {
		rel = in.Rel + "+"
	}
	return fmt.Sprintf("%s@%v#%s%d", c13Injections[in.Kind], in.At.Dir, rel, in.At.Idx)
}

type c13Config struct {
	Scenario int          `json:"scenario"`
	Kind     string       `json:"kind"` // plain | chrome115
	Faults   sim.FaultMap `json:"faults"`
	Inject   *c13Inject   `json:"inject,omitempty"`
	Inject2  *c13Inject   `json:"inject2,omitempty"` // a second forged packet in the same execution
	Seed     uint64       `json:"seed"`
}

func (c c13Config) String() string {
	s := fmt.Sprintf("%s/%s faults=%v", c13Scenarios[c.Scenario], c.Kind, c.Faults)
	if c.Inject != nil {
		s += " inject=" + c.Inject.String()
	}
	if c.Inject2 != nil {
		s += " inject2=" + c.Inject2.String()
	}
	return s
}

type c13Result struct {
	DialErr      string
	DialTook     time.Duration
	Completed    bool // both sides completed the handshake
	Client       string
	Server       string
	ZeroRTTSeen  int // times the server application received the 0-RTT payload
	ZeroRTTPart  int // streams on which the server application received a proper, non-empty prefix of the 0-RTT payload
	ZeroRTTErr   string
	ResendErr    string // 0-RTT rejected: what went wrong when the application sent its request again after NextConnection
	Leaked       int    // server routing entries left after everything was closed and timeouts passed
	ClientLeaked int
	InjectedAt   time.Duration
	InjectedAt2  time.Duration
	GenuineAt    time.Duration // delivery time of the first intact genuine server datagram (-1: none)
	ClientHSAt   time.Duration // instant at which the client's first Handshake packet left (-1: never): its Initial keys are gone
	ServerHSAt   time.Duration // delivery time of the first intact genuine client datagram with a Handshake packet (-1: none): the server's Initial keys are gone
	Datagrams    [2]int
	Transcript   []string
	fail         *explore.Fail
}

func (r c13Result) outcome() string {
	if r.Completed {
		return "complete " + r.Client
	}
	return "failed " + r.DialErr
}

// c13Processable: the first thing a client can process from a server is an Initial, a Retry
// or a Version Negotiation packet; a datagram that starts with a Handshake or 1-RTT packet
// (the rest of a server flight whose first datagram was lost) is buffered undecryptable and
// does not make "a genuine packet has been processed" true.
func c13Processable(b []byte) bool {
	if len(b) < 5 || b[0]&0x80 == 0 {
		return false
	}
	v := uint32(b[1])<<24 | uint32(b[2])<<16 | uint32(b[3])<<8 | uint32(b[4])
	typ := (b[0] & 0x30) >> 4
	switch v {
	case 0:
		return true // Version Negotiation
	case 0x6b3343cf: // QUIC v2: Initial = 1, Retry = 0
		return typ == 1 || typ == 0
	default: // v1: Initial = 0, Retry = 3
		return typ == 0 || typ == 3
	}
}

const c13Payload = "zero-rtt-payload-0123456789"

const (
	c13BigPayload = 100 << 10 // bytes of a large early write: > 10 packet pacing burst, > 32 packet initial congestion window, < the default 512 KiB stream window
	c13FCWindow   = 8 << 10   // stream receive window remembered with the ticket in the -fc scenarios
	c13CWPayload  = 4 << 10   // early write of the -cw scenarios: 4 packets, all on the wire before the server answers
	c13CWSlack    = 64        // -cw: the server's new initial_max_data is c13CWPayload + c13CWSlack
)

// c13Payloads: what the client application writes on its first stream before the handshake
// completes (early) and what it sends, on a stream of the connection returned by
// NextConnection, after the early write was refused with Err0RTTRejected (resend). The two
// differ from the first byte on, so that the server application can tell early data apart.
func c13EarlySize(scen string) int {
	switch {
	case c13BigEarly(scen):
		return c13BigPayload
	case c13CWTight(scen):
		return c13CWPayload
	}
	return len(c13Payload)
}

func c13Payloads(scen string) (early, resend []byte) {
	early, resend = []byte(c13Payload), []byte("request-after-rejection-0123456789")
	if size := c13EarlySize(scen); size > len(early) {
		pad := func(b []byte, size int) []byte {
			out := make([]byte, size)
			n := copy(out, b)
			for i := n; i < len(out); i++ {
				out[i] = byte('a' + (i*7+i/251)%26)
			}
			return out
		}
		early, resend = pad(early, size), pad(resend, size)
		if c13CWTight(scen) {
			// twice the early size = almost twice the server's new initial_max_data: the first
			// window must go out on the transport parameters alone (nothing of the rejected attempt
			// charged to it), the rest only after the server's MAX_DATA (a sender that kept the
			// limit remembered with the ticket overruns the new one)
			resend = pad(resend, 2*size)
		}
	}
	return
}

// c13AfterRejection is the application's documented reaction to Err0RTTRejected: obtain the
// connection with NextConnection, open a stream again (0-RTT rejection reset the stream maps, so
// the stream IDs of the rejected attempt are handed out again) and send the request on it; the
// server application echoes it. Returns "" or a description of what did not work.
func c13AfterRejection(ctx context.Context, conn *quic.Conn, resend []byte) string {
	nc, err := conn.NextConnection(ctx)
	if err != nil {
		return "NextConnection: " + sim.ErrClass(err)
	}
	s, err := nc.OpenStreamSync(ctx)
	if err != nil {
		return "open stream: " + sim.ErrClass(err)
	}
	werr := make(chan error, 1)
	go func() {
		_, err := s.Write(resend)
		if err == nil {
			err = s.Close()
		}
		werr <- err
	}()
	// (no deadline: a connection on which nothing is transmitted ends with the idle timeout)
	echo, err := io.ReadAll(s)
	if err != nil {
		return "read echo: " + sim.ErrClass(err)
	}
	if !bytes.Equal(echo, resend) {
		return fmt.Sprintf("echo differs (%d of %d bytes)", len(echo), len(resend))
	}
	if err := <-werr; err != nil {
		return "write: " + sim.ErrClass(err)
	}
	return ""
}

func c13State(c *quic.Conn) string {
	s := c.ConnectionState()
	return fmt.Sprintf("v=%x alpn=%s 0rtt=%v resumed=%v", uint32(s.Version), s.TLS.NegotiatedProtocol, s.Used0RTT, s.TLS.DidResume)
}

func c13Run(t *testing.T, cfg c13Config) c13Result {
	var res c13Result
	scen := c13Scenarios[cfg.Scenario]
	res.GenuineAt, res.ClientHSAt, res.ServerHSAt = -1, -1, -1
	ok := sim.Run(t, "run", cfg.Seed, func(t *testing.T) {
		w := sim.NewWorld(nil)
		ctx, cancel := context.WithTimeout(context.Background(), 3*time.Minute)
		defer cancel()
		sconf := &quic.Config{Allow0RTT: c13Early(scen)}
		if c13FCBlocked(scen) {
			// the ticket remembers a small stream window: the large early write stops at it
			sconf.InitialStreamReceiveWindow = c13FCWindow
		}
		earlyPayload, resendPayload := c13Payloads(scen)
		cconf := &quic.Config{}
		if scen == "vn" {
			sconf.Versions = []quic.Version{quic.Version2}
			cconf.Versions = []quic.Version{quic.Version1, quic.Version2}
		}
		stls := w.ServerTLS(scen == "longchain")
		ln, err := w.ListenWith(stls, sconf, func(tr *quic.Transport) {
			if c13UsesRetry(scen) {
				tr.VerifySourceAddress = func(net.Addr) bool { return true }
			}
		})
		if err != nil {
			t.Fatal(err)
		}
		// server application: every connection, every stream: read all, count the 0-RTT payload
		var mu sync.Mutex
		var sconns []*quic.Conn
		var swg sync.WaitGroup
		acceptLoop := func(ln *quic.Listener) {
			defer swg.Done()
			for {
				c, err := ln.Accept(ctx)
				if err != nil {
					return
				}
				mu.Lock()
				sconns = append(sconns, c)
				mu.Unlock()
				swg.Add(1)
				go func() {
					defer swg.Done()
					for {
						s, err := c.AcceptStream(ctx)
						if err != nil {
							return
						}
						swg.Add(1)
						go func() {
							defer swg.Done()
							b, _ := io.ReadAll(s)
							if bytes.Equal(b, earlyPayload) {
								mu.Lock()
								res.ZeroRTTSeen++
								mu.Unlock()
							} else if len(b) > 0 && bytes.HasPrefix(earlyPayload, b) {
								mu.Lock()
								res.ZeroRTTPart++
								mu.Unlock()
							}
							s.Write(b) // echo
							s.Close()
						}()
					}
				}()
			}
		}
		swg.Add(1)
		go acceptLoop(ln)
		ctls := w.ClientTLS()
		ctls.ClientSessionCache = tls.NewLRUClientSessionCache(8)
		kind := sim.Plain
		if cfg.Kind == "chrome115" {
			kind = sim.Parrot("chrome115", quic.QUICChrome_115)
		}
		d, _, _ := w.NewDialer(kind)
		twoPhase := c13TwoPhase(scen)
		if twoPhase {
			// phase 1: a clean connection that obtains a session ticket
			c1, err := d.Dial(ctx, w.ServerAddr, ctls, cconf)
			if err != nil {
				res.fail = explore.Failf("setup-failed", "phase 1 dial failed: %v", err)
			} else {
				if err := sim.EchoOnceNoUni(ctx, c1, 3); err != nil {
					res.fail = explore.Failf("setup-failed", "phase 1 exchange failed: %v", err)
				}
				time.Sleep(200 * time.Millisecond)
				c1.CloseWithError(0, "")
				time.Sleep(100 * time.Millisecond)
			}
			if c13Rejects0RTT(scen) {
				// the server comes back with a different configuration: 0-RTT must be rejected
				ln.Close()
				sconf2 := &quic.Config{Allow0RTT: true, MaxIncomingStreams: 7}
				if c13CWTight(scen) {
					// the new connection-level window is just large enough for the request sent again
					sconf2.InitialConnectionReceiveWindow = c13CWPayload + c13CWSlack
				}
				ln, err = w.ServerTr.Listen(stls, sconf2)
				if err != nil {
					t.Fatal(err)
				}
				swg.Add(1)
				go acceptLoop(ln)
			}
		}
		// ---- the connection under test
		w.Router.StartPhase(cfg.Faults)
		phaseStart := time.Since(w.Router.StartTime())
		var clientEP net.Addr
		injected, injected2 := false, false
		hsSeen := false
		var relCount [2]int
		arrival := func(ev sim.Event) time.Duration { // when the router hands this datagram over (first copy)
			switch ev.Fate {
			case sim.Delay:
				return ev.T + sim.OneWay + 3*sim.OneWay
			case sim.DelayLong:
				return ev.T + sim.OneWay + 20*sim.OneWay
			}
			return ev.T + sim.OneWay
		}
		intact := func(ev sim.Event) bool {
			return ev.Fate == sim.Deliver || ev.Fate == sim.Dup || ev.Fate == sim.Delay || ev.Fate == sim.DelayLong
		}
		// fire puts one forged packet on the wire, addressed to the client or to the server
		fire := func(in *c13Inject, ev sim.Event, extra time.Duration) time.Duration {
			kind := c13Injections[in.Kind]
			pkt := c13Forge(w, kind)
			if pkt == nil || clientEP == nil {
				return 0
			}
			if c13ToServer(kind) {
				w.Router.Inject(clientEP, w.ServerAddr, pkt, extra)
			} else {
				w.Router.Inject(w.ServerAddr, clientEP, pkt, extra)
			}
			return ev.T + sim.OneWay + extra
		}
		var hookMu sync.Mutex // the hook is called from the send loops of both endpoints
		w.Router.OnSend = func(ev sim.Event) {
			hookMu.Lock()
			defer hookMu.Unlock()
			if ev.Dir == sim.C2S && clientEP == nil {
				clientEP = ev.From
			}
			if ev.Dir == sim.S2C && !ev.Injected && res.GenuineAt < 0 && c13Processable(ev.Data) && intact(ev) {
				res.GenuineAt = arrival(ev)
			}
			if ev.Injected {
				return
			}
			if ev.Dir == sim.C2S && c13HasHandshakePacket(ev.Data) {
				if !hsSeen {
					hsSeen = true
					res.ClientHSAt = ev.T
				}
				if res.ServerHSAt < 0 && intact(ev) {
					res.ServerHSAt = arrival(ev)
				}
			}
			rel := -1
			if hsSeen {
				rel = relCount[ev.Dir]
				relCount[ev.Dir]++
			}
			at := func(in *c13Inject) bool {
				if in.Rel == "hs" {
					return ev.Dir == in.At.Dir && rel == in.At.Idx
				}
				return ev.Dir == in.At.Dir && ev.Idx == in.At.Idx
			}
			if cfg.Inject != nil && !injected && at(cfg.Inject) {
				injected = true
				res.InjectedAt = fire(cfg.Inject, ev, time.Microsecond)
			}
			if cfg.Inject2 != nil && !injected2 && at(cfg.Inject2) {
				injected2 = true
				res.InjectedAt2 = fire(cfg.Inject2, ev, 2*time.Microsecond)
			}
		}
		t0 := time.Now()
		var conn *quic.Conn
		var derr error
		early := c13Early(scen)
		if early {
			conn, derr = d.DialEarly(ctx, w.ServerAddr, ctls, cconf)
		} else {
			conn, derr = d.Dial(ctx, w.ServerAddr, ctls, cconf)
		}
		if derr == nil && early {
			// 0-RTT data on a stream, before the handshake completes. The write runs beside the
			// handshake: a large one returns only when everything could be queued (the congestion
			// and flow control windows open with the server's answers), when 0-RTT is rejected or
			// when the connection ends.
			s, err := conn.OpenStream()
			wdone := make(chan error, 1)
			if err == nil {
				go func() {
					_, err := s.Write(earlyPayload)
					if err == nil {
						err = s.Close()
					}
					wdone <- err
				}()
			} else {
				wdone <- err
			}
			select {
			case <-conn.HandshakeComplete():
			case <-conn.Context().Done():
				derr = context.Cause(conn.Context())
			case <-ctx.Done():
				derr = ctx.Err()
			}
			// (the handshake is over here; the time the echo of the early data takes is judged by
			// the 0-RTT delivery oracle, not by the Dial deadline)
			res.DialTook = time.Since(t0)
			if derr == nil {
				err = <-wdone
				if err == nil {
					var echo []byte
					echo, err = io.ReadAll(s) // the server echoes once it has the whole payload
					if err == nil && !bytes.Equal(echo, earlyPayload) {
						err = fmt.Errorf("echo of the 0-RTT payload differs: %d bytes, %.40q", len(echo), echo)
					}
				}
				if err != nil {
					res.ZeroRTTErr = err.Error()
					if !errors.Is(err, quic.Err0RTTRejected) {
						res.ZeroRTTErr = "unexpected: " + res.ZeroRTTErr
					} else {
						// the application does what NextConnection documents: the same connection,
						// the request again on a fresh stream
						res.ResendErr = c13AfterRejection(ctx, conn, resendPayload)
					}
				}
			}
		}
		if !early {
			res.DialTook = time.Since(t0)
		}
		_ = phaseStart
		if derr != nil {
			res.DialErr = sim.ErrClass(derr)
			if conn != nil {
				conn.CloseWithError(0, "")
				conn = nil
			}
		} else {
			// the server side must complete as well
			deadline := time.After(15 * time.Second)
			var sc *quic.Conn
			for sc == nil {
				mu.Lock()
				want := 1
				if twoPhase {
					want = 2
				}
				if len(sconns) >= want {
					sc = sconns[len(sconns)-1]
				}
				mu.Unlock()
				if sc != nil {
					break
				}
				select {
				case <-deadline:
					res.DialErr = "server-never-accepted"
				case <-time.After(10 * time.Millisecond):
					continue
				}
				break
			}
			if sc != nil {
				res.Completed = true
				res.Client, res.Server = c13State(conn), c13State(sc)
				if !early {
					if err := sim.EchoOnceNoUni(ctx, conn, 5); err != nil {
						res.DialErr = "post-handshake-exchange: " + sim.ErrClass(err)
						res.Completed = false
					}
				} else if res.ResendErr != "" {
					// both sides agree that 0-RTT was rejected, but the connection the client was
					// handed for carrying on is not usable: not a completed establishment
					res.DialErr = "post-rejection-exchange: " + res.ResendErr
					res.Completed = false
				}
			}
		}
		time.Sleep(300 * time.Millisecond)
		// ---- teardown and resource accounting
		w.Router.SetOnSend(nil)
		if conn != nil {
			conn.CloseWithError(0, "")
		}
		mu.Lock()
		for _, c := range sconns {
			c.CloseWithError(0, "")
		}
		mu.Unlock()
		time.Sleep(40 * time.Second) // handshake timeouts and closing periods pass
		res.Leaked = quic.VerifHandlerCount(w.ServerTr)
		if tr, ok := d.(*quic.Transport); ok {
			res.ClientLeaked = quic.VerifHandlerCount(tr)
		} else if ut, ok := d.(*quic.UTransport); ok {
			res.ClientLeaked = quic.VerifHandlerCount(ut.Transport)
		}
		cancel()
		d.Close()
		ln.Close()
		w.ServerTr.Close()
		w.CloseEndpoints()
		swg.Wait()
		// passive wire monitor over everything either side sent (forged datagrams excluded)
		if mon := wiremon.Analyze(w.Router.FullLog(), w.KeyLog.Lines(), wiremon.Params{}); len(mon.Findings) > 0 && res.fail == nil {
			res.fail = explore.Failf(mon.Findings[0].Key, "%s", mon.Findings[0].What)
		}
		res.Datagrams = [2]int{w.Router.Count(sim.C2S), w.Router.Count(sim.S2C)}
		res.Transcript = w.Router.Transcript()
	})
	if !ok && res.fail == nil {
		res.fail = explore.Failf("bubble-failed", "the bubble did not terminate cleanly for %v", cfg)
	}
	return res
}

// c13Forge builds the attacker's packet from what an on-path observer has seen so far.
func c13Forge(w *sim.World, kind string) []byte {
	log := w.Router.Log()
	var firstC2S, firstS2C, genuineRetry []byte
	for _, e := range log {
		if e.Injected {
			continue
		}
		if e.Dir == sim.C2S && firstC2S == nil {
			firstC2S = e.Data
		}
		if e.Dir == sim.S2C {
			if firstS2C == nil {
				firstS2C = e.Data
			}
			if pk, _, err := wireobs.SplitDatagram(e.Data); err == nil && len(pk) > 0 && pk[0].Type == 3 && genuineRetry == nil {
				genuineRetry = e.Data
			}
		}
	}
	if firstC2S == nil {
		return nil
	}
	pk, _, err := wireobs.SplitDatagram(firstC2S)
	if err != nil || len(pk) == 0 {
		return nil
	}
	ci := pk[0]
	evilCID := []byte{0xee, 0xee, 0xee, 0xee, 0xee, 0xee, 0xee, 0xee}
	switch kind {
	case "vn-other-versions":
		return wireobs.VersionNegotiation(ci.DCID, ci.SCID, []uint32{0x1a2a3a4a, 0xff00001d})
	case "vn-with-our-version":
		return wireobs.VersionNegotiation(ci.DCID, ci.SCID, []uint32{0x1a2a3a4a, ci.Version})
	case "retry-bad-tag":
		return wireobs.Retry(ci.Version, ci.SCID, evilCID, ci.DCID, []byte("evil-token"), false)
	case "retry-valid-tag":
		return wireobs.Retry(ci.Version, ci.SCID, evilCID, ci.DCID, []byte("evil-token"), true)
	case "retry-wrong-odcid":
		return wireobs.Retry(ci.Version, ci.SCID, evilCID, append([]byte{0x42}, ci.DCID...), []byte("evil-token"), true)
	case "retry-replay":
		return genuineRetry
	case "initial-wrong-scid-close", "initial-wrong-scid-crypto":
		_, sk, err := wireobs.InitialKeys(ci.Version, ci.DCID)
		if err != nil {
			return nil
		}
		payload := wireobs.ConnectionCloseFrame(0x0a, "forged")
		if kind == "initial-wrong-scid-crypto" {
			payload = wireobs.CryptoFrame(0, bytes.Repeat([]byte{0x02, 0x00, 0x00}, 40))
		}
		// (a packet number the genuine server has not used, or duplicate detection drops the forgery)
		return wireobs.SealInitial(ci.Version, sk, ci.SCID, evilCID, nil, 77, payload, 1200)
	case "initial-real-cids-close", "initial-real-cids-crypto", "client-initial-real-cids-close", "client-initial-real-cids-crypto":
		ver, keyDCID, cliSCID, srvSCID := c13ObserveCIDs(log)
		if keyDCID == nil {
			return nil
		}
		ck, sk, err := wireobs.InitialKeys(ver, keyDCID)
		if err != nil {
			return nil
		}
		payload := wireobs.ConnectionCloseFrame(0x02, "forged") // CONNECTION_REFUSED
		if kind == "initial-real-cids-crypto" || kind == "client-initial-real-cids-crypto" {
			payload = wireobs.CryptoFrame(0, bytes.Repeat([]byte{0x02, 0x00, 0x00}, 40))
		}
		// (packet number 77: neither endpoint has used it, so duplicate detection does not hide the forgery)
		if c13ToServer(kind) {
			dcid := srvSCID
			if dcid == nil {
				dcid = keyDCID // no server packet seen yet: the connection is still addressed by the client's choice
			}
			return wireobs.SealInitial(ver, ck, dcid, cliSCID, nil, 77, payload, 1200)
		}
		if srvSCID == nil {
			return nil // the server's connection ID is not known yet (initial-wrong-scid-* cover that phase)
		}
		return wireobs.SealInitial(ver, sk, cliSCID, srvSCID, nil, 77, payload, 1200)
	case "dup-earlier":
		return firstS2C
	case "corrupt-earlier":
		if firstS2C == nil {
			return nil
		}
		c := append([]byte(nil), firstS2C...)
		c[len(c)/2] ^= 0x20
		return c
	}
	return nil
}

// c13HasHandshakePacket: the datagram contains a long header packet of type Handshake.
func c13HasHandshakePacket(b []byte) bool {
	pk, _, _ := wireobs.SplitDatagram(b)
	for _, p := range pk {
		if p.Type == 2 {
			return true
		}
	}
	return false
}

// c13ObserveCIDs reads, from the genuine datagrams an on-path observer has seen so far, what is
// needed to build an Initial packet that is well formed for the connection attempt in progress:
// the version, the connection ID the Initial keys derive from (the destination connection ID
// of the client's first Initial; after a Retry or a Version Negotiation the one of the first
// Initial of the new attempt), the client's source connection ID and the server's (nil while
// no server packet of this attempt has been seen).
func c13ObserveCIDs(log []sim.Event) (ver uint32, keyDCID, cliSCID, srvSCID []byte) {
	withToken := false
	for _, e := range log {
		if e.Injected {
			continue
		}
		pk, _, _ := wireobs.SplitDatagram(e.Data)
		for _, p := range pk {
			switch {
			case e.Dir == sim.C2S && p.Type == 0:
				if keyDCID == nil || p.Version != ver || (len(p.Token) > 0 && !withToken) {
					ver, keyDCID, cliSCID, srvSCID = p.Version, p.DCID, p.SCID, nil
					withToken = len(p.Token) > 0
				}
			case e.Dir == sim.S2C && p.Type != 3 && p.Version == ver && keyDCID != nil && srvSCID == nil:
				srvSCID = p.SCID
			}
		}
	}
	return
}

// c13Regime classifies, for the vacuity accounting, where a well-formed forged Initial met its
// receiver: while it still held the Initial keys or after it had discarded them.
func c13Regime(cfg c13Config, r c13Result) string {
	if cfg.Inject == nil || cfg.Inject2 != nil || r.InjectedAt <= 0 || !c13RealCIDKind(c13Injections[cfg.Inject.Kind]) {
		return ""
	}
	if c13ToServer(c13Injections[cfg.Inject.Kind]) {
		if r.ServerHSAt >= 0 && r.ServerHSAt < r.InjectedAt {
			return " [well-formed Initial met a server without Initial keys]"
		}
		return " [well-formed Initial met a server holding Initial keys]"
	}
	if r.ClientHSAt >= 0 && r.ClientHSAt < r.InjectedAt {
		return " [well-formed Initial met a client without Initial keys]"
	}
	return " [well-formed Initial met a client holding Initial keys]"
}

// c13Judge applies the oracle to one execution, given the execution without the forged packet.
func c13Judge(cfg c13Config, r, base c13Result) *explore.Fail {
	if r.fail != nil {
		return r.fail
	}
	scen := c13Scenarios[cfg.Scenario]
	key := func(k string) string {
		if cfg.Inject != nil {
			return scen + ":" + c13Injections[cfg.Inject.Kind] + ":" + k
		}
		return scen + ":" + k
	}
	// (1) Dial returns no later than the handshake timeouts allow
	limit := 10*time.Second + 500*time.Millisecond
	if scen == "vn" {
		limit *= 2 // the connection is re-created once for the negotiated version
	}
	if r.DialTook > limit {
		return explore.Failf(key("dial-hangs"), "%v: Dial returned after %v, the handshake timeout is %v", cfg, r.DialTook, limit)
	}
	// (2) both complete and agree, or the failing side returned an error
	if r.Completed {
		if r.Client != r.Server {
			return explore.Failf(key("endpoints-disagree"), "%v: handshake completed but client sees [%s], server sees [%s]", cfg, r.Client, r.Server)
		}
	} else if r.DialErr == "" {
		return explore.Failf(key("silent-failure"), "%v: handshake did not complete and Dial returned no error", cfg)
	}
	// (3) state is released
	if r.Leaked != 0 || r.ClientLeaked != 0 {
		return explore.Failf(key("state-not-released"), "%v: %d server and %d client routing entries remain 40 s after both sides closed", cfg, r.Leaked, r.ClientLeaked)
	}
	// (4) bounded faults never prevent convergence: with <= 2 faults and no forged packet the handshake completes
	benign := true // loss, duplication, reordering: packets that arrive are genuine
	for _, f := range cfg.Faults {
		if f.Fate != sim.Drop && f.Fate != sim.Dup && f.Fate != sim.Delay && f.Fate != sim.DelayLong {
			benign = false
		}
	}
	// (corruption of an unauthenticated Version Negotiation packet may legitimately end the attempt)
	if cfg.Inject == nil && r.ResendErr != "" && len(cfg.Faults) <= 2 && (benign || scen != "vn") {
		// client and server agreed that 0-RTT was rejected and the handshake completed, but the state of
		// the rejected attempt was not released: the stream the application opens on the connection
		// returned by NextConnection does not carry its request to the server
		return explore.Failf(key("unusable-after-0rtt-rejection"), "%v: the handshake completed with 0-RTT rejected (client stream error %q), but sending the request again after NextConnection failed: %s", cfg, r.ZeroRTTErr, r.ResendErr)
	}
	if cfg.Inject == nil && !r.Completed && len(cfg.Faults) <= 2 && (benign || scen != "vn") {
		return explore.Failf(key("no-convergence:"+r.DialErr), "%v: with %d faults and no attacker the handshake did not complete: %s", cfg, len(cfg.Faults), r.DialErr)
	}
	// (5) 0-RTT data exactly once if accepted, never if rejected
	switch {
	case c13Early(scen) && !c13Rejects0RTT(scen):
		if r.Completed && (r.ZeroRTTSeen != 1 || r.ZeroRTTErr != "") {
			return explore.Failf(key("0rtt-delivery"), "%v: 0-RTT accepted (%s) but the server application saw the payload %d times (stream error %q)", cfg, r.Client, r.ZeroRTTSeen, r.ZeroRTTErr)
		}
	case c13Rejects0RTT(scen):
		if r.ZeroRTTSeen != 0 || r.ZeroRTTPart != 0 {
			return explore.Failf(key("0rtt-delivered-after-rejection"), "%v: 0-RTT was rejected but the server application received the payload %d times (and a part of it %d times)", cfg, r.ZeroRTTSeen, r.ZeroRTTPart)
		}
		if r.Completed && r.ZeroRTTErr != quic.Err0RTTRejected.Error() {
			return explore.Failf(key("0rtt-rejection-not-reported"), "%v: 0-RTT rejected but the stream reported %q instead of Err0RTTRejected", cfg, r.ZeroRTTErr)
		}
	}
	// (6) forged packets
	if cfg.Inject != nil && r.InjectedAt > 0 {
		// every forged packet of the execution must be one that has to be ignored: by its kind, or
		// because it arrived after a genuine server packet
		mustIgnore := func(in *c13Inject, at time.Duration) (bool, string) {
			ik := c13Injections[in.Kind]
			if ik == "retry-bad-tag" || ik == "vn-with-our-version" || ik == "retry-wrong-odcid" || ik == "corrupt-earlier" || ik == "dup-earlier" {
				return true, ik + " must always be ignored"
			}
			if c13RealCIDKind(ik) {
				// A well-formed Initial is only demanded to be without effect once its receiver has
				// discarded the Initial keys (RFC 9001 4.9.1): the client when its first Handshake
				// packet left, the server when the first Handshake packet reached it. Before that an
				// on-path attacker who knows the public Initial keys can end the attempt; not judged.
				if c13ToServer(ik) {
					if r.ServerHSAt >= 0 && r.ServerHSAt < at {
						return true, fmt.Sprintf("%s reached the server at %v, after a genuine Handshake packet was delivered to it at %v (Initial keys discarded)", ik, at, r.ServerHSAt)
					}
					return false, ""
				}
				if r.ClientHSAt >= 0 && r.ClientHSAt < at {
					return true, fmt.Sprintf("%s reached the client at %v, after the client sent its first Handshake packet at %v (Initial keys discarded)", ik, at, r.ClientHSAt)
				}
				return false, ""
			}
			if r.GenuineAt >= 0 && r.GenuineAt < at {
				return true, fmt.Sprintf("%s arrived at %v, after a genuine server packet was delivered at %v", ik, at, r.GenuineAt)
			}
			return false, ""
		}
		ok, why := mustIgnore(cfg.Inject, r.InjectedAt)
		if ok && cfg.Inject2 != nil && r.InjectedAt2 > 0 {
			ok2, why2 := mustIgnore(cfg.Inject2, r.InjectedAt2)
			ok, why = ok2, why+"; "+why2
		}
		if ok && r.outcome() != base.outcome() {
			return explore.Failf(key("outcome-changed"), "%v: outcome [%s] differs from the run without the forged packet(s) [%s]; %s", cfg, r.outcome(), base.outcome(), why)
		}
	}
	return nil
}

func TestVerifC13(t *testing.T) {
	sim.InitCerts(t)
	baseCache := map[string]c13Result{}
	baseline := func(cfg c13Config) c13Result {
		b := cfg
		b.Inject, b.Inject2 = nil, nil
		k := b.String()
		if r, ok := baseCache[k]; ok {
			return r
		}
		r := c13Run(t, b)
		baseCache[k] = r
		return r
	}
	runOne := func(cfg c13Config) (c13Result, *explore.Fail) {
		r := c13Run(t, cfg)
		base := r
		if cfg.Inject != nil {
			base = baseline(cfg)
		}
		return r, c13Judge(cfg, r, base)
	}
	mkPart := func(name string, mk func(e explore.Env) ([]c13Config, string)) explore.Part {
		return explore.Part{
			Name: name,
			Run: func(e explore.Env) *explore.Report {
				cfgs, rule := mk(e)
				rep := explore.RunCases(e, len(cfgs), 1, false, func(i int) explore.CaseResult {
					explore.MarkCurrent(e, name, cfgs[i])
					r, f := runOne(cfgs[i])
					cr := explore.CaseResult{Outcome: c13Scenarios[cfgs[i].Scenario] + " " + r.outcome() + c13Regime(cfgs[i], r), Execs: 1, Trans: int64(r.Datagrams[0] + r.Datagrams[1]), Replay: cfgs[i]}
					if f != nil {
						cr.Fail = f
						cr.Human = append([]string{cfgs[i].String()}, r.Transcript...)
					}
					return cr
				})
				rep.Level, rep.Rule, rep.Bound = "fault_enumeration", rule, rule
				if len(cfgs) > 0 {
					rep.Samples = []any{cfgs[0].String(), cfgs[len(cfgs)/2].String(), cfgs[len(cfgs)-1].String()}
				}
				return rep
			},
			Replay: func(e explore.Env, raw json.RawMessage) *explore.Violation {
				var cfg c13Config
				if err := json.Unmarshal(raw, &cfg); err != nil {
					t.Fatal(err)
				}
				r, f := runOne(cfg)
				if f == nil {
					return nil
				}
				return &explore.Violation{Key: f.Key, What: f.What, Human: append([]string{cfg.String()}, r.Transcript...)}
			},
		}
	}
	kindsFor := c13KindsFor
	allFates := []sim.Fate{sim.Drop, sim.Dup, sim.Delay, sim.DelayLong, sim.Flip0, sim.Flip7, sim.FlipMid, sim.FlipLast, sim.Trunc1, sim.Trunc20, sim.TruncLast, sim.FlipSCID}
	few := []sim.Fate{sim.Drop, sim.Dup, sim.Delay}
	parts := []explore.Part{
		mkPart("faults", func(e explore.Env) ([]c13Config, string) {
			var cfgs []c13Config
			n := [2]int{6, 6}
			for si := range c13Scenarios {
				for _, k := range kindsFor(si) {
					base := c13Config{Scenario: si, Kind: k, Seed: uint64(e.Seed) + 21}
					cfgs = append(cfgs, base)
					for _, m := range sim.AllFaultMaps(n, allFates, 1) {
						if len(m) == 1 {
							c := base
							c.Faults = m
							cfgs = append(cfgs, c)
						}
					}
					if e.Thorough() {
						for _, m := range sim.AllFaultMaps([2]int{5, 5}, few, 2) {
							if len(m) == 2 {
								c := base
								c.Faults = m
								cfgs = append(cfgs, c)
							}
						}
					}
				}
			}
			return cfgs, fmt.Sprintf("%d scenarios (no Retry, Retry, version negotiation, long certificate chain, resumption, 0-RTT accepted, 0-RTT rejected, 0-RTT accepted after a Retry, 0-RTT rejected after a Retry, and with a 100 KiB early write - more than the pacing burst and the initial congestion window let out before the server answers - 0-RTT accepted, rejected, rejected after a Retry, and rejected while the write is blocked on an 8 KiB stream flow control window remembered with the ticket; with a 4 KiB early write that has left completely when the server answers: 0-RTT rejected, directly and after a Retry, by a server whose new connection-level receive window (initial_max_data) is 4 KiB + 64 bytes, and the request sent again is 8 KiB: it needs the whole window at once and a MAX_DATA for the rest; in the 0-RTT scenarios the early stream data is written from the moment DialEarly returns, and after a rejection the application calls NextConnection and sends its request again on a newly opened stream) x client kinds x every fault map with 1 fault (12 fates, one of them a bit flip in the source connection ID) among the first 6 handshake datagrams of each direction (thorough: also 2 faults from {drop,dup,delay} among the first 5)", len(c13Scenarios))
		}),
		mkPart("injections", func(e explore.Env) ([]c13Config, string) {
			var cfgs []c13Config
			for si := range c13Scenarios {
				for _, k := range kindsFor(si) {
					for ik, iname := range c13Injections {
						if iname == "retry-replay" && !c13UsesRetry(c13Scenarios[si]) {
							continue
						}
						// injection points: the first 5 datagrams of either direction; for the well-formed
						// Initials also the datagrams from the client's first Handshake packet on (the
						// instant the client discards its Initial keys; the server does on receiving it)
						var points []c13Inject
						for d := sim.C2S; d <= sim.S2C; d++ {
							for idx := 0; idx < 5; idx++ {
								points = append(points, c13Inject{Kind: ik, At: sim.Slot{Dir: d, Idx: idx}})
							}
						}
						if c13RealCIDKind(iname) {
							for d := sim.C2S; d <= sim.S2C; d++ {
								for idx := 0; idx < 3; idx++ {
									points = append(points, c13Inject{Kind: ik, At: sim.Slot{Dir: d, Idx: idx}, Rel: "hs"})
								}
							}
						}
						for pi := range points {
							base := c13Config{Scenario: si, Kind: k, Seed: uint64(e.Seed) + 21, Inject: &points[pi]}
							cfgs = append(cfgs, base)
							if e.Thorough() || (si <= 1 && k == "plain") {
								// one fault in addition to the forged packet
								for _, m := range sim.AllFaultMaps([2]int{3, 3}, few, 1) {
									if len(m) == 1 {
										c := base
										c.Faults = m
										cfgs = append(cfgs, c)
									}
								}
							}
						}
					}
				}
			}
			// two forged packets in one execution (the second may meet state the first left behind,
			// or a connection re-created after a genuine Retry / Version Negotiation)
			slots := []sim.Slot{}
			for d := sim.C2S; d <= sim.S2C; d++ {
				for idx := 0; idx < 5; idx++ {
					if e.Thorough() || (d == sim.S2C && idx < 3) {
						slots = append(slots, sim.Slot{Dir: d, Idx: idx})
					}
				}
			}
			for si := range c13Scenarios {
				for _, k := range kindsFor(si) {
					if !e.Thorough() && (si > 2 || k != "plain") {
						continue
					}
					for k1, n1 := range c13Injections {
						for k2, n2 := range c13Injections {
							if (n1 == "retry-replay" || n2 == "retry-replay") && !c13UsesRetry(c13Scenarios[si]) {
								continue
							}
							if !e.Thorough() && !(c13PairKind(n1) && c13PairKind(n2)) {
								continue
							}
							for a := range slots {
								for b := a; b < len(slots); b++ {
									cfgs = append(cfgs, c13Config{Scenario: si, Kind: k, Seed: uint64(e.Seed) + 21,
										Inject: &c13Inject{Kind: k1, At: slots[a]}, Inject2: &c13Inject{Kind: k2, At: slots[b]}})
								}
							}
						}
					}
				}
			}
			return cfgs, fmt.Sprintf("every scenario x client kind x %d forged-packet kinds (Version Negotiation with/without the version in use, Retry with invalid tag / valid tag / tag over a wrong original DCID / replayed genuine Retry, Initial with a foreign source connection ID carrying CONNECTION_CLOSE or CRYPTO and protected with the public Initial keys, duplicate and corrupted copy of a genuine server datagram, Initial with the connection's real connection IDs and the Initial keys in use carrying CONNECTION_CLOSE or CRYPTO, addressed to the client or to the server) x injection point = each of the first 5 datagrams of either direction (well-formed Initials: also each of the first 3 datagrams of either direction counted from the datagram that carries the client's first Handshake packet), alone and combined with 1 fault from {drop,dup,delay} on the first 3 datagrams; two forged packets per execution: ordered pairs of kinds x unordered pairs of injection points (quick: plain client, scenarios plain/retry/vn, kinds {Version Negotiation, Retry with valid tag, forged Initial with CONNECTION_CLOSE}, first 3 server datagrams; thorough: everything)", len(c13Injections))
		}),
	}
	explore.Main("C13", parts, func(msg string) { t.Fatal(msg) })
}
