package handshake

// C13 E3: the Retry integrity tag is computed with process-wide state (one shared buffer,
// lazily created AEADs, one mutex) by every connection of the process: a client verifying a
// Retry, a server producing one, several of each at the same time. retry.go is rebuilt against
// the channel-based mutex of mc/lib/vsync; every Lock and every Unlock is a scheduler point,
// and every schedule of 2-3 goroutines with at most two preemptions is executed. Oracle: each
// call returns the tag that an independent implementation (mc/lib/ref5, RFC 9001 5.8 / RFC
// 9369 3.3.3) computes for ITS inputs - a wrong tag makes a client drop a genuine Retry or a
// server send one that is ignored, and the tag of another connection's packet would make an
// invalid Retry acceptable ("an invalid Retry integrity tag is always ignored").

import (
	"encoding/json"
	"fmt"
	"testing"

	"github.com/refraction-networking/uquic/internal/protocol"
	"github.com/refraction-networking/uquic/internal/verifmc/explore"
	"github.com/refraction-networking/uquic/internal/verifmc/ref5"
	"github.com/refraction-networking/uquic/internal/verifmc/sched"
	"github.com/refraction-networking/uquic/internal/verifmc/vsync"
)

type c13e3Call struct {
	Version protocol.Version
	ODCID   []byte
	Retry   []byte // Retry packet without the tag
}

type c13e3Variant struct {
	Name  string
	Calls []c13e3Call
}

func c13e3Packet(version uint32, fill byte, n int) []byte {
	b := []byte{0xf0, byte(version >> 24), byte(version >> 16), byte(version >> 8), byte(version), 4, fill, fill, fill, fill, 4, 1, 2, 3, 4}
	for i := 0; i < n; i++ {
		b = append(b, fill+byte(i))
	}
	return b
}

var c13e3Variants = []c13e3Variant{
	{"2xv1", []c13e3Call{{protocol.Version1, []byte{1, 2, 3, 4, 5, 6, 7, 8}, c13e3Packet(1, 0x11, 30)}, {protocol.Version1, []byte{9, 9, 9, 9}, c13e3Packet(1, 0x77, 12)}}},
	{"v1+v2", []c13e3Call{{protocol.Version1, []byte{1, 2, 3, 4, 5, 6, 7, 8}, c13e3Packet(1, 0x11, 30)}, {protocol.Version2, []byte{5, 5, 5, 5, 5}, c13e3Packet(0x6b3343cf, 0x33, 20)}}},
	{"3 calls", []c13e3Call{{protocol.Version1, []byte{1, 2, 3, 4}, c13e3Packet(1, 0x11, 8)}, {protocol.Version2, []byte{5, 5, 5, 5, 5}, c13e3Packet(0x6b3343cf, 0x33, 40)}, {protocol.Version1, nil, c13e3Packet(1, 0x55, 16)}}},
}

type c13e3Replay struct {
	Variant int   `json:"variant"`
	Choices []int `json:"choices"`
}

func c13e3Scenario(v c13e3Variant) func() *sched.Scenario {
	return func() *sched.Scenario {
		// the package-level mutex must belong to this execution's bubble (its channel is created
		// lazily on first use); the shared buffer starts empty as it does between calls
		retryMutex = vsync.Mutex{}
		retryBuf.Reset()
		got := make([]*[16]byte, len(v.Calls))
		var threads []sched.Thread
		for i, c := range v.Calls {
			threads = append(threads, sched.Thread{Name: fmt.Sprintf("T%d", i), Steps: []func(){func() {
				got[i] = GetRetryIntegrityTag(c.Retry, protocol.ParseConnectionID(c.ODCID), c.Version)
			}}})
		}
		return &sched.Scenario{
			Threads: threads,
			Final: func(blocked []string) *explore.Fail {
				if len(blocked) > 0 {
					return explore.Failf("e3:retry-tag-blocked", "%s: %v never returned from GetRetryIntegrityTag", v.Name, blocked)
				}
				for i, c := range v.Calls {
					want := ref5.RetryTag(uint32(c.Version), c.ODCID, c.Retry)
					if got[i] == nil || *got[i] != want {
						return explore.Failf("e3:retry-tag-wrong", "%s: call %d (version %#x, original destination connection ID %x, %d-byte Retry) returned tag %x, RFC 9001 5.8 gives %x", v.Name, i, uint32(c.Version), c.ODCID, len(c.Retry), got[i], want)
					}
				}
				return nil
			},
			Outcome: func() string { return "all tags correct" },
		}
	}
}

func TestVerifC13E3(t *testing.T) {
	vsync.Hook = sched.Point
	vsync.UnlockHook = sched.Point
	part := explore.Part{
		Name: "e3-retry-tag",
		Run: func(e explore.Env) *explore.Report {
			rep := &explore.Report{Level: "exploration", Exhaustive: true}
			bound := 2
			if e.Thorough() {
				bound = 3
			}
			outcomes := map[string]bool{}
			for vi, v := range c13e3Variants {
				explore.MarkCurrent(e, "e3-retry-tag", c13e3Replay{Variant: vi})
				r := sched.ExploreBounded(t, e, bound, 0, c13e3Scenario(v))
				rep.Evaluations += r.Executions
				rep.Transitions += r.Steps
				for o := range r.Outcomes {
					outcomes[v.Name+": "+o] = true
				}
				outcomes[fmt.Sprintf("%s: %d schedules", v.Name, r.Executions)] = true
				if r.Capped {
					rep.Exhaustive = false
					rep.Caps = append(rep.Caps, "deadline in "+v.Name)
				}
				if r.Fail != nil {
					rep.Violations = append(rep.Violations, explore.Violation{Key: r.Fail.Key, What: r.Fail.What, Replay: explore.JSON(c13e3Replay{vi, r.FailChoice}), Human: r.FailTrace})
				}
			}
			explore.ClearCurrent(e)
			for o := range outcomes {
				rep.Outcomes = append(rep.Outcomes, o)
			}
			rep.OutcomesN = int64(len(rep.Outcomes))
			rep.Traces = rep.Transitions
			rep.Rule = fmt.Sprintf("%d thread mixes of concurrent GetRetryIntegrityTag calls (QUIC v1 / v2, different inputs) with every mutex Lock and Unlock of internal/handshake/retry.go as a scheduler point (file import-rewritten to vsync from the working tree): every schedule with at most %d preemptions; each returned tag compared with mc/lib/ref5", len(c13e3Variants), bound)
			rep.Bound = fmt.Sprintf("preemption bound %d completed", bound)
			return rep
		},
		Replay: func(e explore.Env, raw json.RawMessage) *explore.Violation {
			var rp c13e3Replay
			if err := json.Unmarshal(raw, &rp); err != nil {
				t.Fatal(err)
			}
			f, trace := sched.Replay(t, c13e3Scenario(c13e3Variants[rp.Variant]), rp.Choices)
			if f == nil {
				return nil
			}
			return &explore.Violation{Key: f.Key, What: f.What, Human: trace}
		},
	}
	explore.Main("C13", []explore.Part{part}, func(msg string) { t.Fatal(msg) })
}
