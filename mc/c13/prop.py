# ./check configuration for C13 (merged by mc/props.py)
PROP = dict(
    libs=["explore", "canon", "sim", "wireobs", "wiremon"],
    targets=[
        dict(name="e2", pkg=".", test="TestVerifC13", files=["mc/c13/*.go"], parts=["faults", "injections"]),
        dict(name="e3", pkg="internal/handshake", test="TestVerifC13E3", files=["mc/c13/e3/*.go"], parts=["e3-retry-tag"],
             libs=["explore", "canon", "sched", "vsync", "ref5"], shards=1, gomaxprocs=0, env={},
             rewrite={"internal/handshake/retry.go": [('"sync"', 'sync "github.com/refraction-networking/uquic/internal/verifmc/vsync"')]}),
        dict(name="race", pkg=".", test="TestVerifC13Race", files=["mc/c13/*.go", "mc/c13/race/*.go"], parts=["handshake-race-pass"],
             race=True, shards=4, gomaxprocs=4, env={"GORACE": "halt_on_error=1", "GODEBUG": "randseednop=0"}),
    ],
    engine="E2 simx", level="fault_enumeration", shards="ncpu", gomaxprocs=1,
    env={"GODEBUG": "randseednop=0,asyncpreemptoff=1"},
    deterministic=False, crash_is_violation=True,
    deadline=dict(quick=150, thorough=1100),
    rule="whole client+server connections of the real implementation in a synctest bubble over a fault-injecting router; one execution per static fault map (slot -> fate)",
    assumptions=["goroutine interleavings inside the connection are chosen by the Go runtime (GOMAXPROCS=1), not enumerated; oracles are schedule-independent",
                 "crypto/rand pinned per run with cryptotest.SetGlobalRandom; math/rand seeded",
                 "attacker limited to one forged packet per execution (two in the thorough tier are not built)"],
    level_text="Exhaustive enumeration, on real client and server in virtual time, of (handshake scenario x client kind x every single fault on the first handshake datagrams) and (scenario x forged-packet kind x injection point, alone and with one fault); each execution is judged against the same execution without the forged packet (differential oracle): completion with agreeing version / ALPN / 0-RTT / resumption state, or a returned error within the handshake timeouts, routing state released, 0-RTT payload delivered exactly once or never. Every execution is also read by the passive wire monitor (mc/lib/wiremon): each datagram either endpoint SENT is opened with independent packet protection (mc/lib/ref5, secrets from the TLS key log), its frames are parsed by an independent parser, and sender-side invariants are checked (packet numbers increase and stay decodable for what the sender knows to be acknowledged; ACK frames name only packets whose intact copy had arrived; retransmissions never change stream or CRYPTO bytes; data, stream counts and final sizes stay within the limits that had reached the sender, read from the ClientHello / EncryptedExtensions; frames fit their encryption level; 1-RTT packets use connection IDs the peer issued and the sender has not retired; nothing but CONNECTION_CLOSE after CONNECTION_CLOSE). What an endpoint can have received is over-approximated from fates and virtual times, so the monitor can miss but not invent a violation; exchanges with injected datagrams are not judged by it.",
    level_note="Trusted: simnet + synctest virtual time; the attacker toolkit in mc/lib/wireobs (forged Version Negotiation / Retry / Initial packets built from what an on-path observer sees); a genuine packet counts as processed when an intact genuine server datagram was delivered strictly before the forged one; resumption and 0-RTT only with the plain client (the built-in fingerprints carry no pre_shared_key extension).",
    technique="exhaustive fault-schedule x attacker-injection enumeration on real endpoints with a differential oracle",
)
