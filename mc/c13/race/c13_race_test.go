package quic_test

// C13 free-running race pass (see mc/c17/race): every handshake scenario and client kind,
// fault-free and with each single drop / duplicate / delay on the first 6 datagrams of each
// direction, under `go test -race` with several Ps. Handshakes are where the TLS goroutine,
// the run loop, the transport's receive loop and the application's Dial / Accept meet. Sampled
// supporting pass; a race report kills the worker and is a violation.

import (
	"encoding/json"
	"fmt"
	"sync"
	"testing"

	"github.com/refraction-networking/uquic/internal/verifmc/explore"
	"github.com/refraction-networking/uquic/internal/verifmc/sim"
)

func TestVerifC13Race(t *testing.T) {
	sim.InitCerts(t)
	part := explore.Part{Name: "handshake-race-pass"}
	part.Run = func(e explore.Env) *explore.Report {
		var cfgs []c13Config
		for si := range c13Scenarios {
			for _, k := range c13KindsFor(si) {
				base := c13Config{Scenario: si, Kind: k, Seed: uint64(e.Seed) + 21}
				cfgs = append(cfgs, base)
				for _, m := range sim.AllFaultMaps([2]int{6, 6}, []sim.Fate{sim.Drop, sim.Dup, sim.Delay}, 1) {
					if len(m) == 1 {
						c := base
						c.Faults = m
						cfgs = append(cfgs, c)
					}
				}
			}
		}
		step := 4
		if e.Thorough() {
			step = 1
		}
		rep := &explore.Report{Level: "exploration", Supporting: true}
		oc := map[string]bool{}
		for i := e.Shard; i < len(cfgs); i += step * max(e.Shards, 1) {
			if e.Expired() {
				break
			}
			explore.MarkCurrent(e, "handshake-race-pass", cfgs[i])
			r := c13Run(t, cfgs[i])
			rep.Evaluations++
			oc[c13Scenarios[cfgs[i].Scenario]+" "+r.outcome()] = true
			if f := c13Judge(cfgs[i], r, r); f != nil {
				rep.Violations = append(rep.Violations, explore.Violation{Key: "race-pass:" + f.Key, What: f.What, Replay: explore.JSON(cfgs[i]), Human: []string{cfgs[i].String()}})
				break
			}
		}
		// Process-wide state (the Retry integrity tag computation shares one buffer and lazily
		// created AEADs across all connections of the process): several Retry handshakes at the
		// same time, each in its own bubble.
		retryIdx := -1
		for i, sc := range c13Scenarios {
			if sc == "retry" {
				retryIdx = i
			}
		}
		sim.Unpinned.Store(true) // concurrent bubbles: no process-global randomness pinning
		for round := 0; retryIdx >= 0 && round < 3 && len(rep.Violations) == 0 && !e.Expired(); round++ {
			var wg sync.WaitGroup
			var mu sync.Mutex
			for g := 0; g < 4; g++ {
				cfg := c13Config{Scenario: retryIdx, Kind: []string{"plain", "chrome115"}[g%2], Seed: uint64(e.Seed) + 100 + uint64(4*round+g)}
				explore.MarkCurrent(e, "handshake-race-pass", cfg)
				wg.Add(1)
				go func() {
					defer wg.Done()
					r := c13Run(t, cfg)
					f := c13Judge(cfg, r, r)
					mu.Lock()
					defer mu.Unlock()
					rep.Evaluations++
					oc["concurrent retry "+r.outcome()] = true
					if f != nil && len(rep.Violations) == 0 {
						rep.Violations = append(rep.Violations, explore.Violation{Key: "race-pass:concurrent:" + f.Key, What: f.What, Replay: explore.JSON(cfg), Human: []string{cfg.String()}})
					}
				}()
			}
			wg.Wait()
		}
		sim.Unpinned.Store(false)
		explore.ClearCurrent(e)
		for o := range oc {
			rep.Outcomes = append(rep.Outcomes, o)
		}
		rep.OutcomesN = int64(len(rep.Outcomes))
		rep.Rule = fmt.Sprintf("every %d-th of %d fault-free / single-fault handshake configurations under the race detector with 4 Ps (sampled supporting pass)", step, len(cfgs))
		rep.Caps = []string{"sampled: validates the no-data-race assumption of the GOMAXPROCS=1 E2 parts"}
		return rep
	}
	part.Replay = func(e explore.Env, raw json.RawMessage) *explore.Violation {
		var cfg c13Config
		if err := json.Unmarshal(raw, &cfg); err != nil {
			t.Fatal(err)
		}
		r := c13Run(t, cfg)
		if f := c13Judge(cfg, r, r); f != nil {
			return &explore.Violation{Key: "race-pass:" + f.Key, What: f.What, Human: []string{cfg.String()}}
		}
		return nil
	}
	explore.Main("C13", []explore.Part{part}, func(msg string) { t.Fatal(msg) })
}
