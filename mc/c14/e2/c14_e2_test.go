package quic_test

// C14, whole-connection (E2) part: the real server in a synctest bubble; what it sends is
// measured on the simulated wire (router byte counters), never read from the handler.
//  (a) conformant clients (plain, Chrome_115, Chrome_146 = two-datagram ClientHello) against a
//      server with a long certificate chain, every schedule of <= k faults restricted to
//      client-to-server datagrams (lost client Initial / Handshake packets);
//  (b) a scripted client that owns the Initial keys: the ClientHello split over two Initial
//      packets, with junk 0-RTT datagrams (which the server has to queue as "not yet
//      decryptable") in between, in every order and size of a small alphabet.
// Oracle, at every datagram the server sends before it has received a client Handshake
// packet: bytes sent so far (this datagram included) <= 3 x bytes delivered to it + the one
// datagram that was already permitted.

import (
	"context"
	"os"
	"encoding/binary"
	"encoding/json"
	"fmt"
	"net"
	"testing"
	"time"

	quic "github.com/refraction-networking/uquic"
	"github.com/refraction-networking/uquic/internal/verifmc/explore"
	"github.com/refraction-networking/uquic/internal/verifmc/sim"
	"github.com/refraction-networking/uquic/internal/verifmc/wireobs"
	"github.com/refraction-networking/uquic/testutils/simnet"
)

const c14MaxDatagram = 1452

type c14Config struct {
	Mode   string       `json:"mode"` // "client" | "raw"
	Kind   string       `json:"kind"`
	Retry  bool         `json:"retry"`
	Faults sim.FaultMap `json:"faults"`
	Script []int        `json:"script"` // raw mode: sequence of datagram kinds
	Seed   uint64       `json:"seed"`
}

var c14ScriptKinds = []string{"initial-A", "initial-B", "junk0rtt-100", "junk0rtt-400", "junk0rtt-1200", "dup-initial-A"}

func (c c14Config) String() string {
	if c.Mode == "raw" {
		s := "raw["
		for i, k := range c.Script {
			if i > 0 {
				s += " "
			}
			s += c14ScriptKinds[k]
		}
		return s + "]"
	}
	return fmt.Sprintf("client/%s retry=%v faults=%v", c.Kind, c.Retry, c.Faults)
}

// c14Ledger checks the 3x bound on the router log.
func c14Ledger(log []sim.Event) (*explore.Fail, string) {
	var rcvd, sent int
	validated, sawRetry := false, false
	worst := 0.0
	for _, e := range log {
		if e.Dir == sim.C2S {
			if e.Fate == sim.Drop {
				continue
			}
			n := len(e.Data)
			if e.Fate == sim.Trunc1 || e.Fate == sim.Trunc20 || e.Fate == sim.TruncLast {
				continue // what is delivered is shorter; count nothing (conservative for the server is the other way, so skip these fates in the fault alphabet)
			}
			if e.Fate == sim.Dup {
				n *= 2
			}
			rcvd += n
			// a delivered datagram that carries a Handshake packet validates the address
			if pk, _, err := wireobs.SplitDatagram(e.Data); err == nil {
				for _, p := range pk {
					if p.Type == 2 && !e.Injected {
						validated = true
					}
					// an Initial carrying the token of this server's Retry validates the address as well
					if p.Type == 0 && len(p.Token) > 0 && sawRetry {
						validated = true
					}
				}
			} else if len(e.Data) > 0 && e.Data[0]&0x80 == 0 {
				validated = true // short header packets follow the handshake
			}
			continue
		}
		if validated {
			break
		}
		if pk, _, err := wireobs.SplitDatagram(e.Data); err == nil && len(pk) > 0 && pk[0].Type == 3 {
			sawRetry = true
		}
		sent += len(e.Data)
		// (received bytes are counted at send time although they arrive one latency later: this
		// over-counts what the server has seen, so it can only hide violations, never invent one)
		if sent > 3*rcvd+c14MaxDatagram {
			return explore.Failf("amplification:wire", "before any client Handshake packet was delivered the server had sent %d bytes having received at most %d (3x = %d, plus one %d-byte datagram = %d)", sent, rcvd, 3*rcvd, c14MaxDatagram, 3*rcvd+c14MaxDatagram), ""
		}
		if rcvd > 0 {
			if r := float64(sent) / float64(rcvd); r > worst {
				worst = r
			}
		}
	}
	return nil, fmt.Sprintf("ratio~%.1f validated=%v rcvd~%dkB", float64(int(worst*2))/2, validated, rcvd/1000)
}

func c14LongHeader(typ byte, version uint32, dcid, scid []byte, payloadLen int) []byte {
	b := []byte{0xc0 | typ<<4 | 0x03}
	b = binary.BigEndian.AppendUint32(b, version)
	b = append(b, byte(len(dcid)))
	b = append(b, dcid...)
	b = append(b, byte(len(scid)))
	b = append(b, scid...)
	b = wireobs.AppendVarint(b, uint64(payloadLen))
	for i := 0; i < payloadLen; i++ {
		b = append(b, byte(0x5a+i))
	}
	return b
}

func c14Run(t *testing.T, cfg c14Config) (fail *explore.Fail, class string, n int) {
	ok := sim.Run(t, "run", cfg.Seed, func(t *testing.T) {
		w := sim.NewWorld(cfg.Faults)
		ctx, cancel := context.WithTimeout(context.Background(), 15*time.Second)
		defer cancel()
		ln, err := w.ListenWith(w.ServerTLS(true), &quic.Config{}, func(tr *quic.Transport) {
			if cfg.Retry {
				tr.VerifySourceAddress = func(net.Addr) bool { return true }
			}
		})
		if err != nil {
			t.Fatal(err)
		}
		go func() {
			for {
				c, err := ln.Accept(ctx)
				if err != nil {
					return
				}
				defer c.CloseWithError(0, "")
			}
		}()
		if cfg.Mode == "client" {
			kind := sim.Plain
			switch cfg.Kind {
			case "chrome115":
				kind = sim.Parrot("chrome115", quic.QUICChrome_115)
			case "chrome146":
				kind = sim.Parrot("chrome146", quic.QUICChrome_146)
			}
			d, _, _ := w.NewDialer(kind)
			conn, err := d.Dial(ctx, w.ServerAddr, w.ClientTLS(), &quic.Config{})
			if err == nil {
				time.Sleep(100 * time.Millisecond)
				conn.CloseWithError(0, "")
			}
			time.Sleep(200 * time.Millisecond)
			cancel()
			d.Close()
		} else {
			// obtain a genuine ClientHello and connection IDs from a real client's first flight
			pd, _, _ := w.NewDialer(sim.Plain)
			w.Router.SetBlackhole(sim.C2S, true)
			pctx, pcancel := context.WithTimeout(ctx, 50*time.Millisecond)
			pd.Dial(pctx, w.ServerAddr, w.ClientTLS(), &quic.Config{})
			pcancel()
			pd.Close()
			w.Router.SetBlackhole(sim.C2S, false)
			var first []sim.Event
			for _, e := range w.Router.Log() {
				if e.Dir == sim.C2S && e.T == 0 { // the whole first flight (the scrambler defers parts of the ClientHello)
					first = append(first, e)
				}
			}
			obs, err := sim.ObserveInitials(first)
			if err != nil || len(obs) == 0 {
				t.Fatalf("cannot read the probe client's Initial: %v", err)
			}
			var fr []wireobs.Frame
			for _, o := range obs {
				fr = append(fr, o.Frames...)
			}
			ch, err := wireobs.Reassemble(fr)
			if err != nil {
				t.Fatal(err)
			}
			// the ClientHello's transport parameters name the probe client's source connection ID
			dcid, scid := obs[0].Pkt.DCID, obs[0].Pkt.SCID
			ck, _, _ := wireobs.InitialKeys(wireobs.V1, dcid)
			half := len(ch) / 2
			raw := simnet.NewBlockingSimConn(&net.UDPAddr{IP: net.IPv4(10, 0, 9, 9), Port: 50000}, w.Router)
			w.Router.StartPhase(nil)
			pn := uint64(0)
			for _, k := range cfg.Script {
				var dg []byte
				switch c14ScriptKinds[k] {
				case "initial-A", "dup-initial-A":
					dg = wireobs.SealInitial(wireobs.V1, ck, dcid, scid, nil, pn, wireobs.CryptoFrame(0, ch[:half]), 1200)
					pn++
				case "initial-B":
					dg = wireobs.SealInitial(wireobs.V1, ck, dcid, scid, nil, pn, wireobs.CryptoFrame(uint64(half), ch[half:]), 1200)
					pn++
				case "junk0rtt-100":
					dg = c14LongHeader(1, wireobs.V1, dcid, scid, 100-20)
				case "junk0rtt-400":
					dg = c14LongHeader(1, wireobs.V1, dcid, scid, 400-20)
				case "junk0rtt-1200":
					dg = c14LongHeader(1, wireobs.V1, dcid, scid, 1200-20)
				}
				raw.WriteTo(dg, w.ServerAddr)
				time.Sleep(time.Millisecond)
			}
			// let the server run through its retransmissions until it gives up
			time.Sleep(12 * time.Second)
			raw.Close()
			cancel()
		}
		log := w.Router.Log()
		if os.Getenv("VERIF_DEBUG") != "" {
			for _, l := range w.Router.Transcript() {
				fmt.Println("  ", l)
			}
		}
		fail, class = c14Ledger(log)
		n = len(log)
		ln.Close()
		w.ServerTr.Close()
		w.CloseEndpoints()
	})
	if !ok && fail == nil {
		fail = explore.Failf("bubble-failed", "bubble did not terminate for %v", cfg)
	}
	return
}

func c14Scripts(maxJunk int) [][]int {
	// initial-A ... initial-B with every sequence of <= maxJunk junk / duplicate datagrams in
	// between, and the same junk after initial-B (control)
	var out [][]int
	mid := [][]int{{}}
	for l := 1; l <= maxJunk; l++ {
		var next [][]int
		for _, m := range mid {
			if len(m) != l-1 {
				continue
			}
			for k := 2; k < len(c14ScriptKinds); k++ {
				next = append(next, append(append([]int{}, m...), k))
			}
		}
		mid = append(mid, next...)
	}
	for _, m := range mid {
		out = append(out, append(append([]int{0}, m...), 1))
		if len(m) > 0 {
			out = append(out, append([]int{0, 1}, m...))
		}
	}
	return out
}

func TestVerifC14E2(t *testing.T) {
	sim.InitCerts(t)
	mkPart := func(name string, mk func(e explore.Env) ([]c14Config, string)) explore.Part {
		return explore.Part{
			Name: name,
			Run: func(e explore.Env) *explore.Report {
				cfgs, rule := mk(e)
				rep := explore.RunCases(e, len(cfgs), 1, false, func(i int) explore.CaseResult {
					explore.MarkCurrent(e, name, cfgs[i])
					f, class, n := c14Run(t, cfgs[i])
					cr := explore.CaseResult{Outcome: cfgs[i].Mode + " " + class, Execs: 1, Trans: int64(n), Replay: cfgs[i]}
					if f != nil {
						cr.Fail, cr.Human = f, []string{cfgs[i].String()}
					}
					return cr
				})
				rep.Level, rep.Rule, rep.Bound = "fault_enumeration", rule, rule
				if len(cfgs) > 0 {
					rep.Samples = []any{cfgs[0].String(), cfgs[len(cfgs)/2].String(), cfgs[len(cfgs)-1].String()}
				}
				return rep
			},
			Replay: func(e explore.Env, raw json.RawMessage) *explore.Violation {
				var cfg c14Config
				if err := json.Unmarshal(raw, &cfg); err != nil {
					t.Fatal(err)
				}
				f, _, _ := c14Run(t, cfg)
				if f == nil {
					return nil
				}
				return &explore.Violation{Key: f.Key, What: f.What, Human: []string{cfg.String()}}
			},
		}
	}
	parts := []explore.Part{
		mkPart("e2-clients", func(e explore.Env) ([]c14Config, string) {
			var cfgs []c14Config
			k, n := 2, 6
			if e.Thorough() {
				k, n = 3, 7
			}
			fates := []sim.Fate{sim.Drop, sim.Dup, sim.Delay}
			for _, kind := range []string{"plain", "chrome115", "chrome146"} {
				for _, retry := range []bool{false, true} {
					for _, m := range sim.AllFaultMaps([2]int{n, 0}, fates, k) {
						cfgs = append(cfgs, c14Config{Mode: "client", Kind: kind, Retry: retry, Faults: m, Seed: uint64(e.Seed) + 41})
					}
				}
			}
			return cfgs, fmt.Sprintf("conformant clients {plain, Chrome_115, Chrome_146 (two-datagram ClientHello)} x {no Retry, Retry} against a server with a long certificate chain: every fault map with <= %d faults from {drop, duplicate, delay} among the first %d client-to-server datagrams", k, n)
		}),
		mkPart("e2-scripted-client", func(e explore.Env) ([]c14Config, string) {
			maxJunk := 2
			if e.Thorough() {
				maxJunk = 4
			}
			var cfgs []c14Config
			for _, s := range c14Scripts(maxJunk) {
				cfgs = append(cfgs, c14Config{Mode: "raw", Script: s, Seed: uint64(e.Seed) + 41})
			}
			return cfgs, fmt.Sprintf("a client that owns the Initial keys sends the ClientHello in two Initial packets with every sequence of <= %d datagrams from {junk 0-RTT of 100 / 400 / 1200 bytes, duplicate of the first Initial} in between (and after, as control); the server runs through its retransmissions for 12 s", maxJunk)
		}),
	}
	explore.Main("C14", parts, func(msg string) { t.Fatal(msg) })
}
