# ./check configuration for C14 (merged by mc/props.py)
PROP = dict(
        libs=["explore", "canon"],
        level="model_checking", shards=1,
        targets=[
            dict(name="sph", pkg="internal/ackhandler", test="TestVerifC14Sph", files=["mc/c14/sph/*.go"],
                 parts=["amp-full", "amp-core", "amp-lean", "amp-deep"]),
        ],
        level_text="TODO",
        level_note="TODO",
        technique="explicit-state BFS over the real implementation with reference-model oracle; bounded-exhaustive input enumeration",
        deadline=dict(quick=60, thorough=600),
        rule="TODO",
        assumptions=[],
    )
