# ./check configuration for C14 (merged by mc/props.py)
PROP = dict(
        libs=["explore", "canon"],
        level="model_checking", shards=1,
        inject={"internal/verifmc/c14util": ["mc/c14/util/*.go"]},
        targets=[
            dict(name="sph", pkg="internal/ackhandler", test="TestVerifC14Sph", files=["mc/c14/sph/*.go"],
                 parts=["amp-full", "amp-core", "amp-lean", "amp-deep"]),
            dict(name="tok", pkg="internal/handshake", test="TestVerifC14Tok", files=["mc/c14/tok/*.go"],
                 parts=["tok-mutate", "tok-bitpairs"]),
            dict(name="srv", pkg=".", test="TestVerifC14Srv", files=["mc/c14/srv/*.go"],
                 parts=["srv-initial"]),
        ],
        level_text="TODO",
        level_note="TODO",
        technique="explicit-state BFS over the real implementation with reference-model oracle; bounded-exhaustive input enumeration",
        deadline=dict(quick=60, thorough=600),
        rule="TODO",
        assumptions=[],
    )
