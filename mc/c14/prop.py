# ./check configuration for C14 (merged by mc/props.py)
PROP = dict(
        libs=["explore", "canon"],
        level="model_checking", shards=1,
        # shared helper package of the two token harnesses (address set, reference relation
        # "same address", mutation enumerator) as a virtual package
        inject={"internal/verifmc/c14util": ["mc/c14/util/*.go"]},
        targets=[
            dict(name="sph", pkg="internal/ackhandler", test="TestVerifC14Sph", files=["mc/c14/sph/*.go"],
                 parts=["amp-deep", "amp-full", "amp-core", "amp-lean"]),
            dict(name="tok", pkg="internal/handshake", test="TestVerifC14Tok", files=["mc/c14/tok/*.go"],
                 parts=["tok-mutate", "tok-bitpairs"]),
            dict(name="srv", pkg=".", test="TestVerifC14Srv", files=["mc/c14/srv/*.go"],
                 parts=["srv-initial"]),
            # whole-connection part (E2): router byte counters on real endpoints in virtual time
            dict(name="e2", pkg=".", test="TestVerifC14E2", files=["mc/c14/e2/*.go"],
                 parts=["e2-clients", "e2-scripted-client"], libs=["explore", "canon", "sim"],
                 shards="ncpu", gomaxprocs=1, env={"GODEBUG": "randseednop=0,asyncpreemptoff=1"}),
        ],
        crash_is_violation=True,
        level_text="E1 (sequential) parts of C14, all executed on the real code. (a) Explicit-state BFS over the real server-perspective sentPacketHandler driven exactly like connection.go's run/send loop (ReceivedBytes before processing, DropPackets(Initial)+ReceivedPacket on the first Handshake packet, OnLossDetectionTimeout at the alarm, SendMode consulted before every datagram and obeyed: none / any / ack-only / PTO probe after QueueProbePacket) against a byte ledger: on every prefix, until a Handshake packet is processed, SendMode is none whenever sent >= 3 x received, so sent <= 3 x received + the one datagram begun below the limit. (b) Bounded-exhaustive input enumeration on the real TokenGenerator/tokenProtector and on the real baseServer.handleInitialImpl (decode -> validateToken -> Retry / INVALID_TOKEN / new connection, connection constructor replaced by a recorder): every single-bit flip, every pair of bit flips, every truncation, every one-byte extension, deletions/insertions/substitutions, re-sealing under other keys, splices of valid tokens, every ordered pair (issued for, presented from) of a 37-address set, ages {0, lifetime-1s, lifetime, lifetime+1s} on a synctest virtual clock. The address set holds unrelated addresses (other IPv4 / IPv6 host, other port, non-UDP, no IP) AND addresses in different encodings that share bytes: the 4-byte IPv4 reference address against its IPv4-mapped 16-byte form, against the 16-byte IPv6 addresses that carry the same four bytes at every byte position 0..12 (as suffix: NAT64 64:ff9b::/96, 6to4, ISATAP, IPv4-compatible, arbitrary prefix; in the middle: RFC 6052 /32 prefix; as prefix), against 16-byte addresses one bit / one byte off the IPv4-mapped prefix and the IPv4-mapped form of a neighbouring IPv4 address, IPv6 hosts sharing the interface identifier, and non-UDP addresses whose string equals the raw 4 / 16 IP bytes; tokens of the first 14 addresses get the full mutation enumeration, tokens of the 23 byte-sharing addresses are presented unmodified only. Right level because both halves are finite quantifications (op sequences over a small alphabet around the 3x boundary; an explicit mutation list) over sequential code with no concurrency; the whole-connection wire-level part (E2) is a separate check.",
        level_note="Trusted: the ledger / address-relation reference models in mc/c14, the reflective canonicaliser (connStats write-only counters, logger and qlogger are left out of the state key; times are keyed relative to the harness clock), the depth bounds, testing/synctest's virtual clock. The handler-level ledger counts what ReceivedBytes is told: whether connection.go reports every wire byte exactly once is the E2 part's business (read-only lead: queued undecryptable packets pass through handleOnePacket, hence ReceivedBytes, twice). Token nonces come from crypto/rand; no verdict depends on them (AEAD forgery by a listed mutation has probability 2^-128).",
        technique="explicit-state BFS over the real implementation with a ledger oracle; bounded-exhaustive input enumeration (token mutations x addresses x ages) with a reference relation",
        deadline=dict(quick=90, thorough=600),
        rule="per target: sph = BFS transitions executed on the real sentPacketHandler; tok = calls into the real TokenGenerator (DecodeToken of every mutation; ValidateRemoteAddr for every ordered pair of the 37-address set, per token kind); srv = calls of the real baseServer.handleInitialImpl (every mutation from the issue address; the unmodified token from each of the 37 addresses at each of 4 ages)",
        assumptions=[
            "the amplification limit is read as in the anchor: while the address is unvalidated and sent >= 3 x received nothing more may be begun (SendMode none); a datagram begun below the limit may overshoot it by at most its own size; a coalesced Initial+Handshake datagram counts as the one permitted packet",
            "the sentPacketHandler, pacer and congestion controller depend on time differences only (state keys are clock-translation invariant); the first skipped 1-RTT packet number, drawn from crypto/rand at construction, is pinned to its largest possible value",
            "address identity of the reference model: UDP addresses by IP bytes (port ignored), other addresses by String(); for the same IP written in another byte form (the 4-byte form vs its IPv4-mapped ::ffff:a.b.c.d 16-byte form, i.e. net.IP.Equal) and for age == lifetime exactly the statement is silent and both behaviours are accepted; every other IPv6 address that merely embeds the four bytes of an IPv4 address (NAT64, 6to4, ISATAP, IPv4-compatible, any window of the 16 bytes, near misses of the mapped prefix) is a different address: a token issued for the one must not validate for the other, in either direction",
            "address-sharing is exercised around one IPv4 reference address (1.2.3.4) and one IPv6 reference address (2001:db8::1): comparisons that would confuse only other specific byte values are outside the bound",
            "Retry-token lifetime = the server's configured Config.maxRetryTokenAge() (handshake timeout), NEW_TOKEN lifetime = Transport.MaxTokenAge as passed to the server; default and short values are both used",
        ],
    )
