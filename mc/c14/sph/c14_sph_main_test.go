package ackhandler

import (
	"testing"

	"github.com/refraction-networking/uquic/internal/verifmc/explore"
)

func TestVerifC14Sph(t *testing.T) {
	full := c14Cfg{rbSizes: []int{1, 400, 1200}, sendSizes: []int{40, 1200, 1452}, ticksMS: []int{1, 250}, oneRTT: true, zeroRTT: true, coalesced: true, acks: true}
	core := c14Cfg{rbSizes: []int{1, 400, 1200}, sendSizes: []int{40, 1200, 1452}, ticksMS: []int{250}, coalesced: true, acks: true}
	lean := c14Cfg{rbSizes: []int{1, 400, 1200}, sendSizes: []int{40, 1200, 1452}}
	deep := c14Cfg{rbSizes: []int{1, 1200}, sendSizes: []int{1200}, noAckOnly: true, noRpInit: true}
	// (name, alphabet, depth quick, depth thorough, share of the thorough deadline, shares left)
	explore.Main("C14", []explore.Part{
		c14SphPart("amp-deep", deep, 14, 20, 2, 10),
		c14SphPart("amp-full", full, 5, 7, 4, 8),
		c14SphPart("amp-core", core, 6, 7, 1, 4),
		c14SphPart("amp-lean", lean, 7, 9, 3, 3),
	}, func(msg string) { t.Fatal(msg) })
}
