package ackhandler

// C14 part E1-a: explicit-state search over the real server-perspective sentPacketHandler.
//
// The harness plays the role of connection.go's run loop / send loop:
//   * handleOnePacket: ReceivedBytes(size of the datagram) before anything else;
//   * handleUnpackedLongHeaderPacket: (server, first Handshake packet) DropPackets(Initial),
//     then the frames (ReceivedAck for an ACK frame), then ReceivedPacket(level);
//   * run loop: OnLossDetectionTimeout(now) when the alarm is set and not after now;
//   * triggerSending: SendMode(now) is consulted before every datagram:
//       SendNone                     -> nothing is sent
//       SendAny                      -> one (possibly coalesced) packet, ack-eliciting or not
//       SendAck / SendPacingLimited  -> at most an ACK-only packet
//       SendPTOInitial / Handshake   -> QueueProbePacket(level), then an ack-eliciting probe
//                                       packet of that level
//
// Reference model: a ledger (bytes received R, bytes sent S, "a Handshake packet was
// processed"). Oracle on every prefix until the address is validated:
//   (O1) while S >= 3*R the handler's SendMode is SendNone (nothing more is permitted once
//        the limit is reached);
//   (O2) every datagram the send loop emits was begun while S < 3*R, i.e.
//        S_after <= 3*R + size of that single datagram.

import (
	"encoding/json"
	"fmt"
	"time"

	"github.com/refraction-networking/uquic/internal/monotime"
	"github.com/refraction-networking/uquic/internal/protocol"
	"github.com/refraction-networking/uquic/internal/utils"
	"github.com/refraction-networking/uquic/internal/verifmc/canon"
	"github.com/refraction-networking/uquic/internal/verifmc/explore"
	"github.com/refraction-networking/uquic/internal/wire"
)

const c14Base = monotime.Time(1_000_000_000_000_000) // harness-owned clock origin (never the wall clock)

// c14FrameHandler is the retransmission sink of the frames the harness sends. Stateless on
// purpose (it is reachable from the handler's object graph).
type c14FrameHandler struct{}

func (c14FrameHandler) OnAcked(wire.Frame) {}
func (c14FrameHandler) OnLost(wire.Frame)  {}

type c14Cfg struct {
	rbSizes   []int
	sendSizes []int
	ticksMS   []int
	oneRTT    bool // the server also sends 0.5-RTT (1-RTT level) packets
	zeroRTT   bool // ReceivedPacket(0-RTT) is part of the alphabet
	coalesced bool
	acks      bool
	noAckOnly bool // leave the 40-byte ACK-only packets out of the SendAny alphabet
	noRpInit  bool // leave ReceivedPacket(Initial) (a no-op for the limit) out
}

type c14SphInst struct {
	cfg c14Cfg
	h   *sentPacketHandler
	now monotime.Time

	// reference model
	R, S      int64
	validated bool

	outcome string
}

var c14Levels = []protocol.EncryptionLevel{protocol.EncryptionInitial, protocol.EncryptionHandshake, protocol.Encryption1RTT, protocol.Encryption0RTT}

func newC14SphInst(cfg c14Cfg) *c14SphInst {
	h := NewSentPacketHandler(
		0,
		protocol.InitialPacketSize,
		utils.NewRTTStats(),
		&utils.ConnectionStats{},
		false, // no address validation token: the amplification limit applies
		false,
		func(protocol.PacketNumber) {},
		protocol.PerspectiveServer,
		nil,
		utils.DefaultLogger,
	).(*sentPacketHandler)
	// The application-data packet number generator picks the first packet number to skip
	// from crypto/rand (3 .. 3+2*256-1). Pin it to the largest value it can draw, so that
	// construction is deterministic; the depth bound stays far below it.
	g := h.appDataPackets.pns.(*skippingPacketNumberGenerator)
	g.nextToSkip = 3 + 2*protocol.SkipPacketInitialPeriod - 1
	g.rng = utils.Rand{}
	return &c14SphInst{cfg: cfg, h: h, now: c14Base}
}

func (in *c14SphInst) limited() bool { return !in.validated && in.S >= 3*in.R }

func (in *c14SphInst) Ops() []explore.Op {
	if in.validated {
		// The property speaks about the time until the address is validated.
		return nil
	}
	var ops []explore.Op
	for _, n := range in.cfg.rbSizes {
		ops = append(ops, explore.Op{N: "rb", A: n})
	}
	if !in.cfg.noRpInit {
		ops = append(ops, explore.Op{N: "rp", A: 0})
	}
	ops = append(ops, explore.Op{N: "rp", A: 1})
	if in.cfg.zeroRTT {
		ops = append(ops, explore.Op{N: "rp", A: 3})
	}
	if !in.h.GetLossDetectionTimeout().IsZero() {
		ops = append(ops, explore.Op{N: "timeout"})
	}
	for _, ms := range in.cfg.ticksMS {
		ops = append(ops, explore.Op{N: "tick", A: ms})
	}
	if in.cfg.acks && in.h.initialPackets != nil && in.h.initialPackets.history.Len() > 0 &&
		in.h.initialPackets.largestSent != protocol.InvalidPacketNumber {
		ops = append(ops, explore.Op{N: "ack", A: 0}, explore.Op{N: "ack", A: 1})
	}
	levels := 2
	if in.cfg.oneRTT {
		levels = 3
	}
	switch mode := in.h.SendMode(in.now); mode {
	case SendNone:
	case SendAny:
		for l := 0; l < levels && !in.cfg.noAckOnly; l++ {
			ops = append(ops, explore.Op{N: "send", A: 40, B: l, C: 0}) // ACK-only
		}
		for _, sz := range in.cfg.sendSizes {
			for l := 0; l < levels; l++ {
				ops = append(ops, explore.Op{N: "send", A: sz, B: l, C: 1})
			}
		}
		if in.cfg.coalesced {
			ops = append(ops, explore.Op{N: "sendco", A: 400, B: 800})
		}
	case SendAck, SendPacingLimited:
		for l := 0; l < levels; l++ {
			ops = append(ops, explore.Op{N: "send", A: 40, B: l, C: 0})
		}
	case SendPTOInitial, SendPTOHandshake:
		l := 0
		if mode == SendPTOHandshake {
			l = 1
		}
		for _, sz := range in.cfg.sendSizes {
			ops = append(ops, explore.Op{N: "probe", A: sz, B: l})
		}
	case SendPTOAppData:
		for _, sz := range in.cfg.sendSizes {
			ops = append(ops, explore.Op{N: "probe", A: sz, B: 2})
		}
	default:
		explore.Must(false, "unknown send mode %d", mode)
	}
	return ops
}

// sentPacket registers one packet exactly as sendPackedCoalescedPacket does.
func (in *c14SphInst) sentPacket(size int, level protocol.EncryptionLevel, ackEliciting bool) {
	pn := in.h.PopPacketNumber(level)
	var frames []Frame
	largestAcked := protocol.InvalidPacketNumber
	if ackEliciting {
		frames = []Frame{{Frame: &wire.PingFrame{}, Handler: c14FrameHandler{}}}
	} else {
		largestAcked = 0 // an ACK-only packet
	}
	in.h.SentPacket(in.now, pn, largestAcked, nil, frames, level, protocol.ECNUnsupported, protocol.ByteCount(size), false, false)
	in.S += int64(size)
}

// beginDatagram is the ledger side of "the send loop is about to emit one datagram".
func (in *c14SphInst) beginDatagram(what string, size int) *explore.Fail {
	mode := in.h.SendMode(in.now)
	explore.Must(mode != SendNone, "harness sent although SendMode is none")
	if !in.validated && in.S >= 3*in.R {
		return explore.Failf(fmt.Sprintf("amplification-ledger:%s:mode=%s:exact=%v", what, mode, in.S == 3*in.R),
			"%s of %d bytes was permitted (SendMode=%s) although the limit was already reached: sent %d >= 3 x received %d, address not validated",
			what, size, mode, in.S, in.R)
	}
	return nil
}

func (in *c14SphInst) Apply(op explore.Op) *explore.Fail {
	before := in.h.SendMode(in.now)
	switch op.N {
	case "rb":
		in.h.ReceivedBytes(protocol.ByteCount(op.A), in.now)
		in.R += int64(op.A)
	case "rp":
		l := c14Levels[op.A]
		if l == protocol.EncryptionHandshake && in.h.initialPackets != nil {
			in.h.DropPackets(protocol.EncryptionInitial, in.now) // connection.go: first Handshake packet on the server
		}
		in.h.ReceivedPacket(l, in.now)
		if l == protocol.EncryptionHandshake {
			in.validated = true
		}
	case "ack":
		sp := in.h.initialPackets
		largest := sp.largestSent
		smallest := largest
		if op.A == 1 {
			smallest = 0
		}
		_, err := in.h.ReceivedAck(&wire.AckFrame{AckRanges: []wire.AckRange{{Smallest: smallest, Largest: largest}}}, protocol.EncryptionInitial, in.now)
		explore.Must(err == nil, "ReceivedAck: %v", err)
	case "timeout":
		if t := in.h.GetLossDetectionTimeout(); t.After(in.now) {
			in.now = t
		}
		err := in.h.OnLossDetectionTimeout(in.now)
		explore.Must(err == nil, "OnLossDetectionTimeout: %v", err)
	case "tick":
		in.now = in.now.Add(time.Duration(op.A) * time.Millisecond)
	case "send":
		if fl := in.beginDatagram("packet", op.A); fl != nil {
			return fl
		}
		in.sentPacket(op.A, c14Levels[op.B], op.C == 1)
	case "sendco":
		if fl := in.beginDatagram("coalesced-datagram", op.A+op.B); fl != nil {
			return fl
		}
		in.sentPacket(op.A, protocol.EncryptionInitial, true)
		in.sentPacket(op.B, protocol.EncryptionHandshake, true)
	case "probe":
		if fl := in.beginDatagram("pto-probe", op.A); fl != nil {
			return fl
		}
		l := c14Levels[op.B]
		in.h.QueueProbePacket(l)
		in.sentPacket(op.A, l, true)
	default:
		explore.Must(false, "unknown op %v", op)
	}
	after := in.h.SendMode(in.now)
	armed := !in.h.GetLossDetectionTimeout().IsZero()
	in.outcome = fmt.Sprintf("%s: %s -> %s limited=%v alarm=%v pto=%d validated=%v", op.N, before, after, in.limited(), armed, min(in.h.ptoCount, 3), in.validated)
	if in.limited() && after != SendNone {
		return explore.Failf(fmt.Sprintf("amplification-sendmode:after=%s:mode=%s:exact=%v", op.N, after, in.S == 3*in.R),
			"after %v: sent %d >= 3 x received %d and the address is not validated, but SendMode is %s (must be none)", op, in.S, in.R, after)
	}
	return nil
}

func (in *c14SphInst) Outcome() string { return in.outcome }

func c14SkipField(typ, field string) bool {
	switch field {
	case "connStats": // write-only statistics counters (never read by ackhandler / congestion)
		return typ == "ackhandler.sentPacketHandler" || typ == "congestion.cubicSender"
	case "qlogger", "logger":
		return true
	}
	return false
}

func (in *c14SphInst) Key() string {
	// Times are dumped relative to the harness clock: the handler, the pacer and the
	// congestion controller only ever subtract / compare times.
	return canon.Dump(in.h, canon.Options{TimeBase: int64(in.now), SkipField: c14SkipField}) +
		fmt.Sprintf("|R=%d S=%d v=%v", in.R, in.S, in.validated)
}

// c14SphPart builds one BFS part. In the thorough tier the deadline of the process is shared
// out between the parts (weight / sum of the weights of the parts still to run; unused time
// rolls over), so that a loaded machine shortens every search a little instead of starving
// the last one. The budget only bounds how deep the BFS gets; no verdict depends on it.
func c14SphPart(name string, cfg c14Cfg, dq, dt int, weight, weightLeft float64) explore.Part {
	mk := func(e explore.Env) explore.BFSSpec {
		d := dq
		if e.Thorough() {
			d = dt
		}
		return explore.BFSSpec{
			New:              func() explore.Instance { return newC14SphInst(cfg) },
			MaxDepth:         d,
			PanicIsViolation: true,
			Rule: fmt.Sprintf("BFS to depth %d over the real server-side sentPacketHandler (no token); alphabet: ReceivedBytes%v, ReceivedPacket(Initial|Handshake%s) with DropPackets(Initial) before the first Handshake packet, ACK of the Initial space (largest only | all, %v), OnLossDetectionTimeout at the alarm, clock steps %v ms, and - only as SendMode allows, like connection.go - packets of %v bytes at Initial/Handshake%s level (ack-eliciting or 40-byte ACK-only), PTO probes after QueueProbePacket, coalesced Initial+Handshake datagram (%v); state = canon(handler, times relative to now) + ledger",
				d, cfg.rbSizes, map[bool]string{true: "|0-RTT", false: ""}[cfg.zeroRTT], cfg.acks, cfg.ticksMS, cfg.sendSizes, map[bool]string{true: "/1-RTT", false: ""}[cfg.oneRTT], cfg.coalesced),
		}
	}
	return explore.Part{
		Name: name,
		Run: func(e explore.Env) *explore.Report {
			if e.Thorough() && !e.Deadline.IsZero() {
				if left := time.Until(e.Deadline); left > 0 {
					e.Deadline = time.Now().Add(time.Duration(float64(left) * weight / weightLeft))
				}
			}
			return explore.BFS(e, mk(e))
		},
		Replay: func(e explore.Env, raw json.RawMessage) *explore.Violation { return explore.ReplayBFS(mk(e), raw) },
	}
}
