package quic

// C14 part E1-b (server side): the real baseServer.handleInitialImpl (token decode ->
// validateToken -> Retry / INVALID_TOKEN / new connection) is driven with every token
// mutation, every address of the address set and the ages {0, lifetime-1s, lifetime,
// lifetime+1s}. Every case runs in a testing/synctest bubble: the time.Now() of
// NewRetryToken / NewToken and the time.Since() of validateToken read a harness-chosen
// virtual clock. The connection constructor is replaced by a recorder (the field
// baseServer.newConn exists for exactly that), so what is observed is the decision the real
// server code takes:
//   "retry"          the Initial is answered with a Retry (token treated as absent / ignored)
//   "invalid-token"  the Initial is answered with INVALID_TOKEN
//   "conn"           a connection is created, with the flag "client address validated by a
//                    token" and the original-destination / retry-source connection IDs
//
// Oracle (reference model: c14util.Relation + the age):
//   * unmodified token, presented from the address it was issued for, younger than its
//     lifetime: a connection is created with the address marked as validated, and a Retry
//     token hands exactly its two connection IDs to the connection;
//   * unmodified token from another address, or older than its lifetime: never "validated";
//   * mutated token (any age): never "validated"; if a connection is created it is created as
//     if no token had been sent (no retry source connection ID, the client's own DCID);
//   * same IP in another byte form (4 bytes vs IPv4-mapped 16 bytes), and age == lifetime
//     exactly: the statement is silent, every behaviour is accepted (recorded as outcome
//     classes only).
// The address set contains addresses in different encodings that share bytes (see
// c14util.Addrs): every ordered pair (issued for, presented from) is presented.

import (
	"context"
	tls "github.com/refraction-networking/utls"
	"encoding/json"
	"fmt"
	"net"
	"testing"
	"testing/synctest"
	"time"

	"github.com/refraction-networking/uquic/internal/handshake"
	"github.com/refraction-networking/uquic/internal/protocol"
	"github.com/refraction-networking/uquic/internal/utils"
	"github.com/refraction-networking/uquic/internal/verifmc/c14util"
	"github.com/refraction-networking/uquic/internal/verifmc/explore"
	"github.com/refraction-networking/uquic/internal/wire"
	"github.com/refraction-networking/uquic/qlogwriter"
)

// --- wrappedConn hooks (the package's own conn_wrapped_test.go is not part of the harness build)

func (c *wrappedConn) run() error {
	if c.testHooks == nil {
		return c.Conn.run()
	}
	return nil
}

func (c *wrappedConn) earlyConnReady() <-chan struct{} {
	if c.testHooks == nil {
		return c.Conn.earlyConnReady()
	}
	return nil
}

func (c *wrappedConn) Context() context.Context {
	if c.testHooks == nil {
		return c.Conn.Context()
	}
	return c.testHooks.context()
}

func (c *wrappedConn) HandshakeComplete() <-chan struct{} {
	if c.testHooks == nil {
		return c.Conn.HandshakeComplete()
	}
	return nil
}

func (c *wrappedConn) closeWithTransportError(code TransportErrorCode) {
	if c.testHooks == nil {
		c.Conn.closeWithTransportError(code)
	}
}

func (c *wrappedConn) destroy(e error) {
	if c.testHooks == nil {
		c.Conn.destroy(e)
	}
}

func (c *wrappedConn) handlePacket(p receivedPacket) {
	if c.testHooks == nil {
		c.Conn.handlePacket(p)
	}
}

// --- a rawConn that is never read from / written to by handleInitialImpl

type c14RawConn struct{}

func (c14RawConn) ReadPacket() (receivedPacket, error) { select {} }
func (c14RawConn) WritePacket(b []byte, _ net.Addr, _ []byte, _ uint16, _ protocol.ECN) (int, error) {
	return len(b), nil
}
func (c14RawConn) LocalAddr() net.Addr             { return &net.UDPAddr{IP: net.IP{127, 0, 0, 1}, Port: 4433} }
func (c14RawConn) SetReadDeadline(time.Time) error { return nil }
func (c14RawConn) Close() error                    { return nil }
func (c14RawConn) capabilities() connCapabilities  { return connCapabilities{} }

// --- the observed decision

type c14Verdict struct {
	kind     string // retry | invalid-token | conn | refused | nothing
	verified bool
	odcid    protocol.ConnectionID
	rscid    *protocol.ConnectionID
	rtt      time.Duration
}

func (v c14Verdict) String() string {
	if v.kind != "conn" {
		return v.kind
	}
	rs := "none"
	if v.rscid != nil {
		rs = v.rscid.String()
	}
	return fmt.Sprintf("conn(validated=%v odcid=%s rscid=%s)", v.verified, v.odcid, rs)
}

func (v c14Verdict) class(clientDCID protocol.ConnectionID) string {
	if v.kind != "conn" {
		return v.kind
	}
	return fmt.Sprintf("conn validated=%v rscid-set=%v odcid-is-client-dcid=%v rtt-restored=%v", v.verified, v.rscid != nil, v.odcid == clientDCID, v.rtt != 0)
}

type c14Server struct {
	s       *baseServer
	tr      *Transport
	last    *c14Verdict
	doneCtx context.Context
}

var c14ClientDCID = protocol.ParseConnectionID([]byte{0xc1, 0xc2, 0xc3, 0xc4, 0xc5, 0xc6, 0xc7, 0xc8, 0xc9, 0xca})
var c14ClientSCID = protocol.ParseConnectionID([]byte{5, 4, 3, 2, 1})

func newC14Server(useRetry bool, maxTokenAge time.Duration, conf *Config) *c14Server {
	ctx, cancel := context.WithCancel(context.Background())
	cancel()
	cs := &c14Server{doneCtx: ctx}
	cs.tr = &Transport{}
	cs.tr.handlers = make(map[protocol.ConnectionID]packetHandler)
	cs.tr.logger = utils.DefaultLogger
	s := &baseServer{
		conn:                   c14RawConn{},
		tr:                     (*packetHandlerMap)(cs.tr),
		tlsConf:                &tls.Config{},
		config:                 populateConfig(conf),
		tokenGenerator:         handshake.NewTokenGenerator(handshake.TokenProtectorKey(c14util.Key1())),
		maxTokenAge:            maxTokenAge,
		connIDGenerator:        &protocol.DefaultConnectionIDGenerator{ConnLen: 4},
		statelessResetter:      &statelessResetter{},
		invalidTokenQueue:      make(chan rejectedPacket, 4),
		connectionRefusedQueue: make(chan rejectedPacket, 4),
		retryQueue:             make(chan rejectedPacket, 8),
		logger:                 utils.DefaultLogger,
	}
	if useRetry {
		s.verifySourceAddress = func(net.Addr) bool { return true }
	}
	s.newConn = func(
		_ context.Context,
		_ context.CancelCauseFunc,
		_ sendConn,
		_ connRunner,
		origDestConnID protocol.ConnectionID,
		retrySrcConnID *protocol.ConnectionID,
		_ protocol.ConnectionID,
		_ protocol.ConnectionID,
		_ protocol.ConnectionID,
		_ ConnectionIDGenerator,
		_ *statelessResetter,
		_ *Config,
		_ *tls.Config,
		_ *handshake.TokenGenerator,
		clientAddressValidated bool,
		rtt time.Duration,
		_ qlogwriter.Trace,
		_ utils.Logger,
		_ protocol.Version,
	) *wrappedConn {
		v := &c14Verdict{kind: "conn", verified: clientAddressValidated, odcid: origDestConnID, rtt: rtt}
		if retrySrcConnID != nil {
			c := *retrySrcConnID
			v.rscid = &c
		}
		cs.last = v
		return &wrappedConn{testHooks: &connTestHooks{context: func() context.Context { return cs.doneCtx }}}
	}
	cs.s = s
	return cs
}

// present hands one Initial packet carrying token, received from addr, to the real
// handleInitialImpl and reports what the server decided.
func (cs *c14Server) present(token []byte, addr net.Addr) c14Verdict {
	buf := getPacketBuffer()
	buf.Data = buf.Data[:protocol.MinInitialPacketSize]
	p := receivedPacket{buffer: buf, remoteAddr: addr, data: buf.Data}
	hdr := &wire.Header{
		Type:             protocol.PacketTypeInitial,
		SrcConnectionID:  c14ClientSCID,
		DestConnectionID: c14ClientDCID,
		Length:           protocol.MinInitialPacketSize,
		Token:            token,
		Version:          protocol.Version1,
	}
	cs.last = nil
	err := cs.s.handleInitialImpl(p, hdr)
	explore.Must(err == nil, "handleInitialImpl: %v", err)
	cs.s.handshakingCount.Wait()
	clear(cs.tr.handlers)
	v := c14Verdict{kind: "nothing"}
	n := 0
	if cs.last != nil {
		v = *cs.last
		n++
	}
	select {
	case <-cs.s.retryQueue:
		v = c14Verdict{kind: "retry"}
		n++
	default:
	}
	select {
	case <-cs.s.invalidTokenQueue:
		v = c14Verdict{kind: "invalid-token"}
		n++
	default:
	}
	select {
	case <-cs.s.connectionRefusedQueue:
		v = c14Verdict{kind: "refused"}
		n++
	default:
	}
	explore.Must(n == 1, "handleInitialImpl took %d decisions for one packet", n)
	if v.kind != "conn" {
		buf.Release()
	}
	return v
}

type c14SrvCase struct {
	retry    bool // Retry token (else NEW_TOKEN token)
	addr     int
	cid      int
	useRetry bool // the server demands address validation (answers token-less Initials with a Retry)
	lvl      c14util.Level
	short    bool // short lifetimes (2 s Retry lifetime, 1 min NEW_TOKEN lifetime) instead of the defaults
}

func (c c14SrvCase) kind() string {
	if c.retry {
		return "retry"
	}
	return "new_token"
}

func c14SrvBubble(t *testing.T, f func()) (panicked any) {
	synctest.Test(t, func(*testing.T) {
		defer func() { panicked = recover() }()
		f()
	})
	return panicked
}

func c14RunSrvCase(t *testing.T, c c14SrvCase, idx int, outcomes *explore.OutcomeSet) explore.CaseResult {
	var fail *explore.Fail
	failf := func(key, format string, a ...any) {
		if fail == nil {
			fail = explore.Failf(key, format, a...)
		}
	}
	var execs int64
	addrs := c14util.Addrs()
	issuedFor := addrs[c.addr]
	cp := c14util.CIDPairs()[c.cid]
	mode := map[bool]string{true: "retry-required", false: "no-retry"}[c.useRetry]
	p := c14SrvBubble(t, func() {
		conf := &Config{}
		maxTokenAge := 24 * time.Hour
		if c.short {
			conf.HandshakeIdleTimeout = time.Second
			maxTokenAge = time.Minute
		}
		cs := newC14Server(c.useRetry, maxTokenAge, conf)
		lifetime := maxTokenAge
		if c.retry {
			lifetime = cs.s.config.maxRetryTokenAge() // the lifetime the server is configured with (= the handshake timeout)
		}
		time.Sleep(time.Duration(idx+1)*time.Minute + time.Duration(idx)*time.Nanosecond)
		var tok []byte
		var err error
		if c.retry {
			tok, err = cs.s.tokenGenerator.NewRetryToken(issuedFor.Addr, protocol.ParseConnectionID(cp.ODCID), protocol.ParseConnectionID(cp.RSCID))
		} else {
			tok, err = cs.s.tokenGenerator.NewToken(issuedFor.Addr, 37*time.Millisecond)
		}
		explore.Must(err == nil, "mint: %v", err)
		issue := time.Now()

		type agePoint struct {
			name string
			age  time.Duration
			in   int // 1: within the lifetime, 0: expired, -1: exactly at the lifetime (statement silent)
		}
		ages := []agePoint{{"0", 0, 1}, {"lifetime-1s", lifetime - time.Second, 1}, {"lifetime", lifetime, -1}, {"lifetime+1s", lifetime + time.Second, 0}}
		for _, ap := range ages {
			time.Sleep(ap.age - time.Since(issue))
			explore.Must(time.Since(issue) == ap.age, "virtual clock: age %v, want %v", time.Since(issue), ap.age)

			// the unmodified token from every address
			for _, pa := range addrs {
				execs++
				v := cs.present(tok, pa.Addr)
				rel := c14util.Relation(issuedFor.Addr, pa.Addr)
				proof := v.kind == "conn" && v.verified
				outcomes.Add(fmt.Sprintf("%s/%s/unmodified age=%s relation=%d -> %s", c.kind(), mode, ap.name, rel, v.class(c14ClientDCID)))
				switch {
				case rel == c14util.Same && ap.in == 1:
					if !proof {
						failf(fmt.Sprintf("valid-token-not-accepted:%s:%s:age=%s", c.kind(), mode, ap.name),
							"unmodified %s token issued for %s, presented from %s at age %s (lifetime %s): server decided %s, want a connection with a validated address",
							c.kind(), issuedFor.Name, pa.Name, ap.name, lifetime, v)
					} else if c.retry {
						if v.odcid != protocol.ParseConnectionID(cp.ODCID) {
							failf(fmt.Sprintf("retry-token-odcid:len=%d", len(cp.ODCID)), "Retry token issued with original destination connection ID %x gave the connection %s", cp.ODCID, v.odcid)
						}
						if v.rscid == nil || *v.rscid != protocol.ParseConnectionID(cp.RSCID) {
							failf(fmt.Sprintf("retry-token-rscid:len=%d", len(cp.RSCID)), "Retry token issued with retry source connection ID %x gave the connection %v", cp.RSCID, v)
						}
					}
				case rel == c14util.Different && proof:
					failf(fmt.Sprintf("token-proves-other-address:%s:%s->%s", c.kind(), issuedFor.Name, pa.Name),
						"unmodified %s token issued for %s, presented from %s at age %s: the server treats the address as validated (%s)", c.kind(), issuedFor.Name, pa.Name, ap.name, v)
				case ap.in == 0 && proof:
					failf(fmt.Sprintf("expired-token-accepted:%s:%s", c.kind(), mode),
						"unmodified %s token issued for %s, presented from %s at age %s = %s (lifetime %s): the server treats the address as validated (%s)", c.kind(), issuedFor.Name, pa.Name, ap.name, ap.age, lifetime, v)
				}
			}

			// every mutated token, from the address the original was issued for
			check := func(m c14util.Mutation) {
				execs++
				v := cs.present(m.Data, issuedFor.Addr)
				outcomes.Add(fmt.Sprintf("%s/%s/%s age=%s -> %s", c.kind(), mode, m.Class, ap.name, v.class(c14ClientDCID)))
				if v.kind != "conn" {
					return
				}
				if v.verified {
					failf(fmt.Sprintf("mutated-token-accepted:%s:%s:%s", c.kind(), m.Class, m.Where),
						"%s token issued for %s, %s, age %s: the server treats the address as validated (%s)", c.kind(), issuedFor.Name, m.Desc, ap.name, v)
				} else if v.rscid != nil || v.odcid != c14ClientDCID {
					failf(fmt.Sprintf("mutated-token-used:%s:%s:%s", c.kind(), m.Class, m.Where),
						"%s token issued for %s, %s, age %s: not treated as absent, its connection IDs reach the connection (%s)", c.kind(), issuedFor.Name, m.Desc, ap.name, v)
				}
			}
			c14util.Mutations(tok, c.lvl, check)
			for _, ok := range c14util.OtherKeys() {
				g2 := handshake.NewTokenGenerator(handshake.TokenProtectorKey(ok.Key))
				var forged []byte
				if c.retry {
					forged, err = g2.NewRetryToken(issuedFor.Addr, protocol.ParseConnectionID(cp.ODCID), protocol.ParseConnectionID(cp.RSCID))
				} else {
					forged, err = g2.NewToken(issuedFor.Addr, 37*time.Millisecond)
				}
				explore.Must(err == nil, "mint: %v", err)
				check(c14util.Mutation{Class: "resealed", Where: ok.Name, Desc: "fresh token sealed under the key " + ok.Name, Data: forged})
			}
		}
	})
	if p != nil {
		if fmt.Sprintf("%T", p) == "explore.harnessErr" {
			panic(p) // a harness error, never a verdict: handled by the library
		}
		failf("panic:handleInitialImpl:"+c.kind(), "panic while the server handled a %s token issued for %s: %v", c.kind(), issuedFor.Name, p)
	}
	cr := explore.CaseResult{Fail: fail, Execs: execs, Trans: execs, Replay: idx, Outcome: "case"}
	if fail != nil {
		cr.Human = []string{fmt.Sprintf("%s token issued for %s (cid pair %d), server %s, short lifetimes=%v", c.kind(), issuedFor.Name, c.cid, mode, c.short), fail.What}
	}
	return cr
}

func c14SrvCases(thorough bool) []c14SrvCase {
	var cs []c14SrvCase
	for a := range c14util.Addrs() {
		for _, useRetry := range []bool{true, false} {
			for _, short := range []bool{false, true} {
				if !thorough && short != (a%2 == 1) {
					continue // quick tier: default lifetimes for even, short lifetimes for odd address indices
				}
				lvl := c14util.Core
				if thorough && (a == 0 || a == 5 || a == 10) {
					lvl = c14util.Extended
				}
				if a >= c14util.NBase {
					// the addresses that share bytes with others in another encoding: the token
					// is presented unmodified from every address, at every age (no mutations)
					lvl = c14util.AddrOnly
				}
				cs = append(cs, c14SrvCase{retry: false, addr: a, useRetry: useRetry, short: short, lvl: lvl})
				for cid := range c14util.CIDPairs() {
					if !thorough && cid != a%len(c14util.CIDPairs()) && cid != 0 {
						continue
					}
					l := lvl
					if cid > 0 && l > c14util.Core {
						l = c14util.Core
					}
					cs = append(cs, c14SrvCase{retry: true, addr: a, cid: cid, useRetry: useRetry, short: short, lvl: l})
				}
			}
		}
	}
	return cs
}

func c14SrvPart(t *testing.T) explore.Part {
	run := func(e explore.Env, only int) (*explore.Report, *explore.CaseResult) {
		cases := c14SrvCases(e.Thorough())
		outcomes := explore.NewOutcomeSet()
		if only >= 0 {
			cr := c14RunSrvCase(t, cases[only], only, outcomes)
			return nil, &cr
		}
		rep := explore.RunCases(e, len(cases), 0, false, func(i int) explore.CaseResult {
			return c14RunSrvCase(t, cases[i], i, outcomes)
		})
		rep.Outcomes = outcomes.List()
		rep.OutcomesN = int64(len(rep.Outcomes))
		rep.States = rep.OutcomesN
		rep.Rule = fmt.Sprintf("explicit case list: %d (token kind, connection-ID pair, issue address, server with/without mandatory Retry, default/short lifetimes) cases; per case the token is minted by the real generator at a harness-chosen virtual instant and, at each age in {0, lifetime-1s, lifetime, lifetime+1s}, presented to the real baseServer.handleInitialImpl unmodified from each of the %d addresses (every ordered pair issued-for x presented-from, including the 16-byte IPv6 addresses that carry the bytes of the IPv4 reference address at every position, NAT64 / 6to4 / ISATAP / IPv4-compatible forms and near misses of the IPv4-mapped prefix) and re-sealed under 4 other keys; for the first %d issue addresses also - from the issue address - in every single-bit flip, truncation (front/back), one-byte extension (256 values, front/back)%s; evaluations = handleInitialImpl calls",
			len(cases), len(c14util.Addrs()), c14util.NBase, map[bool]string{true: ", for the reference addresses also every one-byte deletion / insertion / substitution", false: ""}[e.Thorough()])
		rep.Bound = fmt.Sprintf("all %d cases x 4 ages x (all addresses + all mutations)", len(cases))
		rep.Samples = []any{
			"Retry token for a, presented from a at age lifetime-1s -> conn(validated=true, odcid/rscid as issued)",
			"Retry token for a, presented from a at age lifetime+1s -> invalid-token",
			"NEW_TOKEN token for a, bit 5 of byte 40 flipped, server requires Retry -> retry (token treated as absent)",
			fmt.Sprintf("Retry token for %s, presented from %s at age 0 -> invalid-token", c14util.Addrs()[0].Name, c14util.Addrs()[c14util.NBase].Name),
		}
		return rep, nil
	}
	return explore.Part{
		Name: "srv-initial",
		Run:  func(e explore.Env) *explore.Report { r, _ := run(e, -1); return r },
		Replay: func(e explore.Env, raw json.RawMessage) *explore.Violation {
			_, cr := run(e, explore.ReplayIndex(raw))
			if cr.Fail == nil {
				return nil
			}
			return &explore.Violation{Key: cr.Fail.Key, What: cr.Fail.What, Human: cr.Human}
		},
	}
}

func TestVerifC14Srv(t *testing.T) {
	explore.Main("C14", []explore.Part{c14SrvPart(t)}, func(msg string) { t.Fatal(msg) })
}
