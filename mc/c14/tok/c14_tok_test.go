package handshake

// C14 part E1-b (TokenGenerator / tokenProtector): bounded-exhaustive enumeration of token
// mutations, addresses and connection IDs on the real TokenGenerator.
//
// Every case runs in a testing/synctest bubble, so that the time.Now() inside
// NewRetryToken / NewToken is a harness-chosen virtual instant (never the wall clock).
// The nonce of every token comes from crypto/rand; no verdict depends on its value.
//
// Oracle (reference model in c14util):
//   * the unmodified token decodes to a token of the same kind, with SentTime == the issue
//     instant and - for a Retry token - exactly the original destination / retry source
//     connection IDs it was issued with;
//   * ValidateRemoteAddr(b) is true iff b is the address the token was issued for (UDP: same
//     IP, any port; other addresses: same string); where the same IP is merely written in
//     another byte form (4 bytes vs its IPv4-mapped 16 bytes) the statement is silent and
//     both answers are accepted. The address set (c14util.Addrs) contains, besides unrelated
//     addresses, addresses in different encodings that SHARE BYTES: every ordered pair
//     (issued for, presented from) is evaluated, e.g. 1.2.3.4 in 4 bytes against the IPv6
//     addresses carrying 01 02 03 04 at every byte position (NAT64, 6to4, ISATAP, ...);
//   * every mutated token (bit flip, truncation, extension, ... , re-sealed under another
//     key, spliced from two valid tokens) decodes to an error or to "no token", never to a
//     token.

import (
	"bytes"
	"encoding/json"
	"fmt"
	"net"
	"strings"
	"testing"
	"testing/synctest"
	"time"

	"github.com/refraction-networking/uquic/internal/protocol"
	"github.com/refraction-networking/uquic/internal/verifmc/c14util"
	"github.com/refraction-networking/uquic/internal/verifmc/explore"
)

const c14TokRTT = 37 * time.Millisecond

// c14Bubble runs f inside a synctest bubble and returns what it panicked with (nil if not).
func c14Bubble(t *testing.T, f func()) (panicked any) {
	synctest.Test(t, func(*testing.T) {
		defer func() { panicked = recover() }()
		f()
	})
	return panicked
}

type c14TokCase struct {
	retry bool
	addr  int // index into c14util.Addrs(): the address the token is issued for
	cid   int // index into c14util.CIDPairs() (Retry tokens only)
	lvl   c14util.Level
	// for the pair-of-bit-flips part: only pairs whose first bit is firstBit
	firstBit int
}

func (c c14TokCase) kind() string {
	if c.retry {
		return "retry"
	}
	return "new_token"
}

func c14Mint(g *TokenGenerator, c c14TokCase, addr net.Addr) []byte {
	var tok []byte
	var err error
	if c.retry {
		p := c14util.CIDPairs()[c.cid]
		tok, err = g.NewRetryToken(addr, protocol.ParseConnectionID(p.ODCID), protocol.ParseConnectionID(p.RSCID))
	} else {
		tok, err = g.NewToken(addr, c14TokRTT)
	}
	explore.Must(err == nil && len(tok) > c14util.NonceLen+c14util.TagLen, "minting a token failed: %v (len %d)", err, len(tok))
	return tok
}

func c14ErrClass(err error) string {
	s := err.Error()
	if i := strings.IndexAny(s, "0123456789"); i > 0 {
		s = s[:i] + "N"
	}
	if len(s) > 60 {
		s = s[:60]
	}
	return s
}

type c14TokRun struct {
	outcomes *explore.OutcomeSet
	execs    int64
	fail     *explore.Fail
}

func (r *c14TokRun) failf(key, format string, a ...any) {
	if r.fail == nil {
		r.fail = explore.Failf(key, format, a...)
	}
}

// mustReject presents one mutated token to the real generator.
func (r *c14TokRun) mustReject(g *TokenGenerator, c c14TokCase, issued string, m c14util.Mutation) {
	r.execs++
	tok, err := g.DecodeToken(m.Data)
	switch {
	case tok != nil:
		r.failf(fmt.Sprintf("mutated-token-decoded:%s:%s:%s", c.kind(), m.Class, m.Where),
			"%s token issued for %s, %s: DecodeToken returned a token (retry=%v sent=%v odcid=%s rscid=%s, err=%v) instead of an error / no token",
			c.kind(), issued, m.Desc, tok.IsRetryToken, tok.SentTime, tok.OriginalDestConnectionID, tok.RetrySrcConnectionID, err)
	case err != nil:
		r.outcomes.Add(fmt.Sprintf("%s/%s/%s -> error: %s", c.kind(), m.Class, m.Where, c14ErrClass(err)))
	default:
		r.outcomes.Add(fmt.Sprintf("%s/%s/%s -> no token (nil, nil)", c.kind(), m.Class, m.Where))
	}
}

func c14RunTokCase(t *testing.T, c c14TokCase, idx int, outcomes *explore.OutcomeSet, pairsOnly bool) explore.CaseResult {
	r := &c14TokRun{outcomes: outcomes}
	addrs := c14util.Addrs()
	issuedFor := addrs[c.addr]
	p := c14Bubble(t, func() {
		g := NewTokenGenerator(TokenProtectorKey(c14util.Key1()))
		// harness-chosen issue instant: bubble epoch + a case-specific offset
		time.Sleep(time.Duration(idx+1)*time.Hour + time.Duration(7*idx+1)*time.Nanosecond)
		issue := time.Now()
		tok := c14Mint(g, c, issuedFor.Addr)
		if pairsOnly {
			n := len(tok)
			buf := make([]byte, n)
			i := c.firstBit
			if i >= 8*n {
				return
			}
			for j := i + 1; j < 8*n; j++ {
				copy(buf, tok)
				buf[i/8] ^= 1 << (i % 8)
				buf[j/8] ^= 1 << (j % 8)
				r.mustReject(g, c, issuedFor.Name, c14util.Mutation{Class: "bitflip2", Where: c14util.Region(i/8, n) + "+" + c14util.Region(j/8, n),
					Desc: fmt.Sprintf("bits %d and %d flipped", i, j), Data: buf})
			}
			return
		}

		// 1. the unmodified token, decoded at the issue instant and again an hour later
		for pass := 0; pass < 2; pass++ {
			r.execs++
			dec, err := g.DecodeToken(tok)
			if err != nil || dec == nil {
				r.failf("valid-token-rejected:"+c.kind(), "unmodified %s token issued for %s does not decode: token=%v err=%v", c.kind(), issuedFor.Name, dec, err)
				return
			}
			if dec.IsRetryToken != c.retry {
				r.failf("token-kind-confused:"+c.kind(), "%s token decodes with IsRetryToken=%v", c.kind(), dec.IsRetryToken)
			}
			if !dec.SentTime.Equal(issue) {
				r.failf("token-sent-time:"+c.kind(), "%s token issued at %v decodes with SentTime %v (decoded %v after issue)", c.kind(), issue, dec.SentTime, time.Since(issue))
			}
			if c.retry {
				cp := c14util.CIDPairs()[c.cid]
				if !bytes.Equal(dec.OriginalDestConnectionID.Bytes(), cp.ODCID) || dec.OriginalDestConnectionID.Len() != len(cp.ODCID) {
					r.failf(fmt.Sprintf("retry-token-odcid:len=%d", len(cp.ODCID)), "Retry token issued with original destination connection ID %x returns %s", cp.ODCID, dec.OriginalDestConnectionID)
				}
				if !bytes.Equal(dec.RetrySrcConnectionID.Bytes(), cp.RSCID) || dec.RetrySrcConnectionID.Len() != len(cp.RSCID) {
					r.failf(fmt.Sprintf("retry-token-rscid:len=%d", len(cp.RSCID)), "Retry token issued with retry source connection ID %x returns %s", cp.RSCID, dec.RetrySrcConnectionID)
				}
				outcomes.Add(fmt.Sprintf("retry/unmodified -> token odcid-len=%d rscid-len=%d", dec.OriginalDestConnectionID.Len(), dec.RetrySrcConnectionID.Len()))
			} else {
				outcomes.Add(fmt.Sprintf("new_token/unmodified -> token rtt-kept=%v", dec.RTT == c14TokRTT))
			}
			// 2. the address the token proves
			for _, pa := range addrs {
				r.execs++
				got := dec.ValidateRemoteAddr(pa.Addr)
				rel := c14util.Relation(issuedFor.Addr, pa.Addr)
				outcomes.Add(fmt.Sprintf("%s/addr relation=%d -> %v", c.kind(), rel, got))
				if rel == c14util.Different && got {
					r.failf(fmt.Sprintf("token-proves-other-address:%s:%s->%s", c.kind(), issuedFor.Name, pa.Name),
						"%s token issued for %s validates for %s", c.kind(), issuedFor.Name, pa.Name)
				}
				if rel == c14util.Same && !got {
					r.failf(fmt.Sprintf("token-rejects-own-address:%s:%s->%s", c.kind(), issuedFor.Name, pa.Name),
						"%s token issued for %s does not validate for %s", c.kind(), issuedFor.Name, pa.Name)
				}
			}
			time.Sleep(time.Hour)
		}

		// 3. every mutation
		c14util.Mutations(tok, c.lvl, func(m c14util.Mutation) { r.mustReject(g, c, issuedFor.Name, m) })

		// 4. re-sealed under another key, and presented to a server holding another key
		for _, ok := range c14util.OtherKeys() {
			g2 := NewTokenGenerator(TokenProtectorKey(ok.Key))
			forged := c14Mint(g2, c, issuedFor.Addr)
			r.mustReject(g, c, issuedFor.Name, c14util.Mutation{Class: "resealed", Where: ok.Name, Desc: "the same contents sealed under the key " + ok.Name, Data: forged})
			r.mustReject(g2, c, issuedFor.Name, c14util.Mutation{Class: "foreign-server-key", Where: ok.Name, Desc: "presented to a generator keyed with " + ok.Name, Data: tok})
			// sanity of the harness: the second key does produce tokens it accepts itself
			dec, err := g2.DecodeToken(forged)
			explore.Must(err == nil && dec != nil, "second generator rejects its own token")
		}

		// 5. spliced from two valid tokens (nonce of one, sealed body of the other)
		other := c14Mint(g, c, addrs[(c.addr+2)%len(addrs)].Addr)
		r.mustReject(g, c, issuedFor.Name, c14util.Mutation{Class: "splice", Where: "nonce-of-other", Desc: "nonce of a token for another address + body of this one", Data: c14util.Splice(other, tok)})
		r.mustReject(g, c, issuedFor.Name, c14util.Mutation{Class: "splice", Where: "body-of-other", Desc: "nonce of this token + body of a token for another address", Data: c14util.Splice(tok, other)})
	})
	if p != nil {
		if fmt.Sprintf("%T", p) == "explore.harnessErr" {
			panic(p) // a harness error, never a verdict: handled by the library
		}
		r.failf("panic:token:"+c.kind(), "panic while handling a %s token issued for %s: %v", c.kind(), issuedFor.Name, p)
	}
	cr := explore.CaseResult{Fail: r.fail, Execs: r.execs, Trans: r.execs, Replay: idx,
		Outcome: fmt.Sprintf("case %s addr=%d", c.kind(), c.addr)}
	if r.fail != nil {
		cr.Human = []string{fmt.Sprintf("%s token issued for %s (cid pair %d)", c.kind(), issuedFor.Name, c.cid), r.fail.What}
	}
	return cr
}

func c14TokCases(thorough bool) []c14TokCase {
	var cs []c14TokCase
	nAddr := len(c14util.Addrs())
	nCID := len(c14util.CIDPairs())
	for a := 0; a < nAddr; a++ {
		if a >= c14util.NBase {
			// the addresses that share bytes with others in another encoding: the token is
			// presented unmodified from every address (no mutations: the AEAD does not look at
			// the address); one Retry connection-ID pair per address (all pairs in the thorough tier)
			cs = append(cs, c14TokCase{retry: false, addr: a, lvl: c14util.AddrOnly})
			for cid := 0; cid < nCID; cid++ {
				if thorough || cid == a%nCID {
					cs = append(cs, c14TokCase{retry: true, addr: a, cid: cid, lvl: c14util.AddrOnly})
				}
			}
			continue
		}
		lvl := c14util.Core
		if thorough || a == 0 || a == 5 || a == 10 {
			lvl = c14util.Extended
		}
		cs = append(cs, c14TokCase{retry: false, addr: a, lvl: lvl})
		for cid := range c14util.CIDPairs() {
			l := lvl
			if !thorough && cid > 0 {
				l = c14util.Core
			}
			cs = append(cs, c14TokCase{retry: true, addr: a, cid: cid, lvl: l})
		}
	}
	return cs
}

func c14TokPart(t *testing.T) explore.Part {
	run := func(e explore.Env, only int) (*explore.Report, *explore.CaseResult) {
		cases := c14TokCases(e.Thorough())
		outcomes := explore.NewOutcomeSet()
		if only >= 0 {
			cr := c14RunTokCase(t, cases[only], only, outcomes, false)
			return nil, &cr
		}
		rep := explore.RunCases(e, len(cases), 0, false, func(i int) explore.CaseResult {
			return c14RunTokCase(t, cases[i], i, outcomes, false)
		})
		rep.Outcomes = outcomes.List()
		rep.OutcomesN = int64(len(rep.Outcomes))
		rep.States = rep.OutcomesN
		rep.Rule = fmt.Sprintf("explicit case list: %d tokens = {NEW_TOKEN, Retry x connection-ID pairs (%d pairs, lengths 0,1,8,20)} x %d issue addresses (the first %d with all pairs and all mutations; the other %d - the 16-byte IPv6 addresses that carry the bytes of the IPv4 reference address at every position 0..12, NAT64 / 6to4 / ISATAP / IPv4-compatible forms, near misses of the IPv4-mapped prefix, the IPv4-mapped form of another IPv4 address - unmodified only, %s), each minted by the real TokenGenerator at a harness-chosen virtual instant; per token: decode (twice, 1 h apart), ValidateRemoteAddr against all %d addresses (every ordered pair issued-for x presented-from), re-sealing under 4 other keys (both directions), splices of two valid tokens; per token of the first %d addresses also every single-bit flip, every truncation (front and back), every one-byte extension (256 values, front and back)%s; evaluations = calls into the real TokenGenerator",
			len(cases), len(c14util.CIDPairs()), len(c14util.Addrs()), c14util.NBase, len(c14util.Addrs())-c14util.NBase,
			map[bool]string{true: "all connection-ID pairs", false: "one connection-ID pair each"}[e.Thorough()],
			len(c14util.Addrs()), c14util.NBase,
			map[bool]string{true: ", every one-byte deletion / insertion / substitution (255 values per byte), 25 two-byte extensions", false: " (for the three reference addresses also every one-byte deletion / insertion / substitution)"}[e.Thorough()])
		rep.Bound = fmt.Sprintf("all %d cases, all mutations of each", len(cases))
		rep.Samples = []any{
			fmt.Sprintf("Retry token for %s with ODCID %x / RSCID %x: 1 bit flipped in the tag -> cipher: message authentication failed", c14util.Addrs()[0].Name, c14util.CIDPairs()[0].ODCID, c14util.CIDPairs()[0].RSCID),
			fmt.Sprintf("NEW_TOKEN token for %s presented from %s -> ValidateRemoteAddr false", c14util.Addrs()[0].Name, c14util.Addrs()[4].Name),
			fmt.Sprintf("Retry token for %s presented from %s -> ValidateRemoteAddr false", c14util.Addrs()[0].Name, c14util.Addrs()[c14util.NBase].Name),
			fmt.Sprintf("NEW_TOKEN token for %s presented from %s -> ValidateRemoteAddr false", c14util.Addrs()[c14util.NBase].Name, c14util.Addrs()[0].Name),
		}
		return rep, nil
	}
	return explore.Part{
		Name: "tok-mutate",
		Run:  func(e explore.Env) *explore.Report { r, _ := run(e, -1); return r },
		Replay: func(e explore.Env, raw json.RawMessage) *explore.Violation {
			_, cr := run(e, explore.ReplayIndex(raw))
			if cr.Fail == nil {
				return nil
			}
			return &explore.Violation{Key: cr.Fail.Key, What: cr.Fail.What, Human: cr.Human}
		},
	}
}

// c14TokPairsPart: every pair of bit flips of one Retry and one NEW_TOKEN token.
func c14TokPairsPart(t *testing.T) explore.Part {
	mk := func(e explore.Env) []c14TokCase {
		// quick tier: the reference address, first connection-ID pair; thorough tier: three
		// issue addresses (UDP4, UDP6, non-UDP) x two connection-ID pairs
		addrs, cids := []int{0}, []int{0}
		if e.Thorough() {
			addrs, cids = []int{0, 5, 10}, []int{0, 1}
		}
		var cs []c14TokCase
		for _, a := range addrs {
			for _, retry := range []bool{false, true} {
				for _, cid := range cids {
					if !retry && cid != cids[0] {
						continue
					}
					proto := c14TokCase{retry: retry, addr: a, cid: cid}
					n := c14TokLen(t, proto)
					for i := 0; i < 8*n; i++ {
						c := proto
						c.firstBit = i
						cs = append(cs, c)
					}
				}
			}
		}
		return cs
	}
	run := func(e explore.Env, only int) (*explore.Report, *explore.CaseResult) {
		cases := mk(e)
		outcomes := explore.NewOutcomeSet()
		if only >= 0 {
			cr := c14RunTokCase(t, cases[only], only, outcomes, true)
			return nil, &cr
		}
		rep := explore.RunCases(e, len(cases), 0, false, func(i int) explore.CaseResult {
			return c14RunTokCase(t, cases[i], i, outcomes, true)
		})
		rep.Outcomes = outcomes.List()
		rep.OutcomesN = int64(len(rep.Outcomes))
		rep.States = rep.OutcomesN
		rep.Rule = fmt.Sprintf("explicit case list: %d (token kind, first flipped bit) cases; per case every second flipped bit above the first, i.e. every pair of bit flips of every token, decoded by the real TokenGenerator; quick tier: NEW_TOKEN + Retry token for the reference address, thorough tier: 3 issue addresses x (NEW_TOKEN + 2 Retry tokens)", len(cases))
		rep.Bound = fmt.Sprintf("all %d cases", len(cases))
		rep.Samples = []any{"Retry token, bits 0 and 300 flipped -> cipher: message authentication failed"}
		return rep, nil
	}
	return explore.Part{
		Name: "tok-bitpairs",
		Run:  func(e explore.Env) *explore.Report { r, _ := run(e, -1); return r },
		Replay: func(e explore.Env, raw json.RawMessage) *explore.Violation {
			_, cr := run(e, explore.ReplayIndex(raw))
			if cr.Fail == nil {
				return nil
			}
			return &explore.Violation{Key: cr.Fail.Key, What: cr.Fail.What, Human: cr.Human}
		},
	}
}

// c14TokLen is the length of the token the pairs part works on (it does not depend on the nonce).
func c14TokLen(t *testing.T, c c14TokCase) int {
	n := 0
	c14Bubble(t, func() {
		time.Sleep(time.Hour + time.Nanosecond)
		n = len(c14Mint(NewTokenGenerator(TokenProtectorKey(c14util.Key1())), c, c14util.Addrs()[c.addr].Addr))
	})
	return n
}

func TestVerifC14Tok(t *testing.T) {
	explore.Main("C14", []explore.Part{
		c14TokPart(t),
		c14TokPairsPart(t),
	}, func(msg string) { t.Fatal(msg) })
}
