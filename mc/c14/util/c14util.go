// Package c14util holds what the two token harnesses of property C14 (package handshake and
// the root package) share: the address set, the relation "same address" of the reference
// model, and the exhaustive enumeration of token mutations.
package c14util

import (
	"bytes"
	"fmt"
	"net"
)

// StrAddr is a net.Addr that is not a *net.UDPAddr.
type StrAddr struct{ S string }

func (a StrAddr) Network() string { return "c14" }
func (a StrAddr) String() string  { return a.S }

type NamedAddr struct {
	Name string
	Addr net.Addr
}

// NBase is the number of leading entries of Addrs() whose tokens are additionally put through
// the full mutation enumeration (the AEAD does not look at the address; the three encodings
// 4-byte IP / 16-byte IP / string are all among them). The tokens of the remaining addresses
// are minted, decoded and presented unmodified from every address (level AddrOnly).
const NBase = 14

// Addrs is the address set. Index 0 is the reference client address "a" = 1.2.3.4 in the
// 4-byte form a udp4 socket reports. Every address is used both as the address a token is
// issued for and as the address a token is presented from.
//
// Entries NBase.. are addresses in ANOTHER ENCODING THAT SHARE BYTES with "a" (or with each
// other): the 16-byte IPv6 addresses that carry the four bytes 1.2.3.4 somewhere inside
// (RFC 6052 NAT64 with the well-known and with a /32 prefix, 6to4, ISATAP, the deprecated
// IPv4-compatible form, an unrelated host whose low 32 bits happen to be equal, and - as a
// systematic family - one address per position 0..12 at which the four bytes can sit in 16
// bytes), 16-byte addresses one bit / one byte off the IPv4-mapped prefix, the IPv4-mapped
// form of a neighbouring IPv4 address, two IPv6 hosts with the same interface identifier in
// different prefixes, and a non-UDP address whose string is the 16 raw bytes of an IPv6
// address. Different addresses by any reading of the statement; only a comparison that
// looks at a part of the bytes (suffix, prefix, window, "is some IPv4-in-IPv6 form") can
// confuse them.
func Addrs() []NamedAddr {
	as := []NamedAddr{
		{"a=udp4:1.2.3.4:1000", &net.UDPAddr{IP: net.IP{1, 2, 3, 4}, Port: 1000}},
		{"same-ip-other-port=udp4:1.2.3.4:2000", &net.UDPAddr{IP: net.IP{1, 2, 3, 4}, Port: 2000}},
		{"other-ip-last-byte=udp4:1.2.3.5:1000", &net.UDPAddr{IP: net.IP{1, 2, 3, 5}, Port: 1000}},
		{"other-ip-first-byte=udp4:2.2.3.4:1000", &net.UDPAddr{IP: net.IP{2, 2, 3, 4}, Port: 1000}},
		{"ipv6-sharing-prefix=udp6:[102:304::1]:1000", &net.UDPAddr{IP: net.IP{1, 2, 3, 4, 0, 0, 0, 0, 0, 0, 0, 0, 0, 0, 0, 1}, Port: 1000}},
		{"ipv6=udp6:[2001:db8::1]:1000", &net.UDPAddr{IP: net.ParseIP("2001:db8::1"), Port: 1000}},
		{"ipv6-other-port=udp6:[2001:db8::1]:2000", &net.UDPAddr{IP: net.ParseIP("2001:db8::1"), Port: 2000}},
		{"ipv6-other-ip=udp6:[2001:db8::2]:1000", &net.UDPAddr{IP: net.ParseIP("2001:db8::2"), Port: 1000}},
		{"v4-mapped-16-byte-form=udp:[::ffff:1.2.3.4]:1000", &net.UDPAddr{IP: net.IPv4(1, 2, 3, 4), Port: 1000}},
		{"udp-without-ip=udp::1000", &net.UDPAddr{Port: 1000}},
		{"non-udp=str:1.2.3.4:1000", StrAddr{"1.2.3.4:1000"}},
		{"non-udp-other-port=str:1.2.3.4:2000", StrAddr{"1.2.3.4:2000"}},
		{"non-udp-raw-ip-bytes=str:\\x01\\x02\\x03\\x04", StrAddr{"\x01\x02\x03\x04"}},
		{"non-udp-empty=str:", StrAddr{""}},
	}
	if len(as) != NBase {
		panic("c14util: NBase out of date")
	}
	ip6 := func(s string) net.IP {
		ip := net.ParseIP(s)
		if len(ip) != net.IPv6len {
			panic("c14util: bad address " + s)
		}
		return ip
	}
	udp6 := func(name, s string) NamedAddr {
		return NamedAddr{name + "=udp6:[" + s + "]:1000", &net.UDPAddr{IP: ip6(s), Port: 1000}}
	}
	as = append(as,
		// the four bytes of "a" as the low 32 bits of an IPv6 address
		udp6("nat64-well-known-prefix", "64:ff9b::102:304"),
		udp6("6to4", "2002:102:304::102:304"),
		udp6("isatap", "fe80::5efe:102:304"),
		udp6("v4-compatible", "::102:304"),
		// ... in the middle (RFC 6052 with a /32 prefix)
		udp6("nat64-32-bit-prefix", "2001:db8:102:304::"),
		// next to the IPv4-mapped prefix ::ffff:0:0/96, but not in it
		udp6("mapped-prefix-one-bit-off", "::fffe:102:304"),
		udp6("mapped-prefix-first-byte-set", "100::ffff:102:304"),
		// the IPv4-mapped form of the neighbouring IPv4 address 1.2.3.5
		NamedAddr{"v4-mapped-of-other-ip=udp:[::ffff:1.2.3.5]:1000", &net.UDPAddr{IP: net.IPv4(1, 2, 3, 5), Port: 1000}},
		// same interface identifier as 2001:db8::1 in another prefix
		udp6("ipv6-other-prefix-same-iid", "2001:db9::1"),
		// a non-UDP address whose string is the 16 raw bytes of 2001:db8::1
		NamedAddr{"non-udp-raw-ip6-bytes=str:<16 bytes of 2001:db8::1>", StrAddr{string(ip6("2001:db8::1"))}},
	)
	// one IPv6 address per position of the four bytes inside 16 bytes, in an unrelated filler
	filler := ip6("2001:db8:a1a2:a3a4:a5a6:a7a8:a9aa:abac")
	for off := 0; off+net.IPv4len <= net.IPv6len; off++ {
		ip := append(net.IP{}, filler...)
		copy(ip[off:], []byte{1, 2, 3, 4})
		as = append(as, NamedAddr{fmt.Sprintf("ipv6-carrying-a-at-byte-%d=udp6:[%s]:1000", off, ip), &net.UDPAddr{IP: ip, Port: 1000}})
	}
	return as
}

const (
	Different = 0  // a token issued for the one must not validate for the other
	Same      = 1  // same address: the unmodified, unexpired token validates
	SameIPRep = -1 // same IP written in another byte form (4 vs 16 bytes): the statement is silent
)

// Relation is the reference model of "the address the token was issued for": UDP addresses
// are identified by their IP (the port is not part of it), every other address by its
// string form.
func Relation(issued, presented net.Addr) int {
	iu, iok := issued.(*net.UDPAddr)
	pu, pok := presented.(*net.UDPAddr)
	switch {
	case iok && pok:
		if bytes.Equal(iu.IP, pu.IP) {
			return Same
		}
		if len(iu.IP) > 0 && len(pu.IP) > 0 && iu.IP.Equal(pu.IP) {
			return SameIPRep
		}
		return Different
	case !iok && !pok:
		if issued.String() == presented.String() {
			return Same
		}
		return Different
	default:
		return Different
	}
}

// CIDPair is one (original destination, retry source) connection ID pair.
type CIDPair struct{ ODCID, RSCID []byte }

func seq(n int, start byte) []byte {
	b := make([]byte, n)
	for i := range b {
		b[i] = start + byte(i)
	}
	return b
}

func CIDPairs() []CIDPair {
	return []CIDPair{
		{seq(8, 0xd0), seq(4, 0x50)},
		{seq(20, 0x01), seq(20, 0x81)},
		{seq(0, 0), seq(20, 0x21)},
		{seq(20, 0x41), seq(0, 0)},
		{seq(1, 0x00), seq(1, 0xff)},
		{seq(8, 0x00), seq(8, 0x00)}, // both identical
	}
}

// Keys: the server's key and the keys an attacker might re-seal under.
func Key1() (k [32]byte) {
	for i := range k {
		k[i] = byte(3*i + 1)
	}
	return
}

type NamedKey struct {
	Name string
	Key  [32]byte
}

func OtherKeys() []NamedKey {
	a := Key1()
	a[0] ^= 1
	b := Key1()
	b[31] ^= 0x80
	var z [32]byte
	var c [32]byte
	for i := range c {
		c[i] = byte(0xa5 ^ i)
	}
	return []NamedKey{{"first-bit-differs", a}, {"last-bit-differs", b}, {"all-zero", z}, {"unrelated", c}}
}

// NonceLen / TagLen describe the layout nonce | ciphertext | tag of a sealed token (used only
// to name the region a mutation falls in).
const (
	NonceLen = 32
	TagLen   = 16
)

func Region(pos, n int) string {
	switch {
	case pos < NonceLen:
		return "nonce"
	case pos >= n-TagLen:
		return "tag"
	default:
		return "ciphertext"
	}
}

type Mutation struct {
	Class string // bitflip, truncate, append, prepend, ...
	Where string // region or detail (part of the violation key)
	Desc  string // exact description
	Data  []byte
}

type Level int

const (
	AddrOnly Level = iota - 1 // no mutations: the token is only presented unmodified
	Core                      // bit flips, truncations, one-byte extensions
	Extended                  // + deletions, insertions, byte substitutions
	Pairs                     // + every pair of bit flips
)

// Mutations calls visit for every mutation of tok in the chosen level. The slice passed to
// visit is only valid during the call.
func Mutations(tok []byte, lvl Level, visit func(Mutation)) {
	if lvl < Core {
		return
	}
	n := len(tok)
	buf := make([]byte, n+2)
	// every single-bit flip
	for i := 0; i < 8*n; i++ {
		b := buf[:n]
		copy(b, tok)
		b[i/8] ^= 1 << (i % 8)
		visit(Mutation{"bitflip", Region(i/8, n), fmt.Sprintf("bit %d of byte %d flipped", i%8, i/8), b})
	}
	// every truncation (0 .. n-1 bytes kept), from the end and from the front
	for k := 0; k < n; k++ {
		where := "inside"
		switch {
		case k == 0:
			where = "to-empty"
		case k < NonceLen:
			where = "inside-nonce"
		}
		visit(Mutation{"truncate", where, fmt.Sprintf("truncated to the first %d of %d bytes", k, n), tok[:k]})
		if k > 0 {
			visit(Mutation{"truncate-front", where, fmt.Sprintf("truncated to the last %d of %d bytes", k, n), tok[n-k:]})
		}
	}
	// every one-byte extension, at the end and at the front
	for v := 0; v < 256; v++ {
		b := buf[:n+1]
		copy(b, tok)
		b[n] = byte(v)
		visit(Mutation{"append", "1-byte", fmt.Sprintf("byte %#02x appended", v), b})
		b[0] = byte(v)
		copy(b[1:], tok)
		visit(Mutation{"prepend", "1-byte", fmt.Sprintf("byte %#02x prepended", v), b})
	}
	if lvl < Extended {
		return
	}
	// deletion of one byte, insertion of one byte (0x00 / 0xff) at every position
	for i := 0; i < n; i++ {
		b := buf[:n-1]
		copy(b, tok[:i])
		copy(b[i:], tok[i+1:])
		visit(Mutation{"delete", Region(i, n), fmt.Sprintf("byte %d deleted", i), b})
	}
	for i := 0; i <= n; i++ {
		for _, v := range []byte{0x00, 0xff} {
			b := buf[:n+1]
			copy(b, tok[:i])
			b[i] = v
			copy(b[i+1:], tok[i:])
			visit(Mutation{"insert", Region(min(i, n-1), n), fmt.Sprintf("byte %#02x inserted at %d", v, i), b})
		}
	}
	// every byte replaced by every other value
	for i := 0; i < n; i++ {
		for v := 0; v < 256; v++ {
			if byte(v) == tok[i] {
				continue
			}
			b := buf[:n]
			copy(b, tok)
			b[i] = byte(v)
			visit(Mutation{"substitute", Region(i, n), fmt.Sprintf("byte %d replaced by %#02x", i, v), b})
		}
	}
	// two-byte extension (a sample of values: all pairs of {0x00,0x01,0x7f,0x80,0xff})
	for _, v := range []byte{0x00, 0x01, 0x7f, 0x80, 0xff} {
		for _, w := range []byte{0x00, 0x01, 0x7f, 0x80, 0xff} {
			b := buf[:n+2]
			copy(b, tok)
			b[n], b[n+1] = v, w
			visit(Mutation{"append", "2-byte", fmt.Sprintf("bytes %#02x %#02x appended", v, w), b})
		}
	}
	if lvl < Pairs {
		return
	}
	for i := 0; i < 8*n; i++ {
		for j := i + 1; j < 8*n; j++ {
			b := buf[:n]
			copy(b, tok)
			b[i/8] ^= 1 << (i % 8)
			b[j/8] ^= 1 << (j % 8)
			visit(Mutation{"bitflip2", Region(i/8, n) + "+" + Region(j/8, n), fmt.Sprintf("bits %d and %d flipped", i, j), b})
		}
	}
}

// Splice returns nonce(x) | body(y): a token assembled from two valid ones.
func Splice(x, y []byte) []byte {
	if len(x) < NonceLen || len(y) < NonceLen {
		return nil
	}
	return append(append([]byte{}, x[:NonceLen]...), y[NonceLen:]...)
}
