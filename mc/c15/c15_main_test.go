package quic

import (
	"fmt"
	"testing"

	"github.com/refraction-networking/uquic/internal/protocol"
	"github.com/refraction-networking/uquic/internal/verifmc/explore"
)

func c15PersName(p protocol.Perspective) string {
	if p == protocol.PerspectiveServer {
		return "srv"
	}
	return "cli"
}

func c15KindList(ks []int) string {
	s := ""
	for i, k := range ks {
		if i > 0 {
			s += "/"
		}
		s += c15KindName[k]
	}
	return s
}

func (cfg *c15Cfg) rule() string {
	s := fmt.Sprintf("BFS over the real streamsMap (perspective %s, incoming limits bidi=%d uni=%d) with real streams and flow controllers; alphabet:", c15PersName(cfg.pers), cfg.lim[0], cfg.lim[1])
	for c := 0; c < 4; c++ {
		if cfg.frameMax[c] > 0 {
			s += fmt.Sprintf(" peer frames {%s} for %s stream numbers 1..%d;", c15KindList(cfg.frameKinds[c]), c15ClassName[c], cfg.frameMax[c])
		}
	}
	for t := 0; t < 2; t++ {
		if len(cfg.maxStreams[t]) > 0 {
			s += fmt.Sprintf(" MAX_STREAMS(%s) %v (stale values included);", c15TypeName[t], cfg.maxStreams[t])
		}
	}
	if cfg.tparams {
		s += fmt.Sprintf(" HandleTransportParameters(max streams %v);", cfg.tp)
	}
	for t := 0; t < 2; t++ {
		if cfg.open[t] {
			s += fmt.Sprintf(" Open%sStream;", map[int]string{0: "", 1: "Uni"}[t])
		}
		if cfg.accept[t] {
			s += fmt.Sprintf(" Accept%sStream (with a live context when the model says a stream is queued, with a cancelled context otherwise);", map[int]string{0: "", 1: "Uni"}[t])
		}
	}
	if cfg.tpStart {
		s += fmt.Sprintf(" the peer's transport parameters (max streams %v, reset_stream_at=%v) are delivered before the first operation;", cfg.tp, cfg.rsa)
	} else if cfg.tparams && cfg.rsa {
		s += " the transport parameters carry reset_stream_at;"
	}
	if cfg.restore {
		s += " 0-RTT: the remembered transport parameters (same stream limits, no reset_stream_at) are restored before the first operation;"
	}
	if cfg.zeroWin {
		s += " streams start with a send window of 0;"
	}
	if cfg.app && !cfg.fine {
		s += " per held stream: Read-to-error, CancelRead, Close, CancelWrite, flush (pop + acknowledge FIN / RESET_STREAM) - completion reaches the map through the streams' own onStreamCompleted;"
	}
	if cfg.app && cfg.fine {
		cr := " CancelRead,"
		if cfg.noCancelR {
			cr = ""
		}
		s += fmt.Sprintf(" per held stream: Read-to-error,%s Write (%d bytes, up to %d times), SetReliableBoundary, Close, CancelWrite, pop the next STREAM frame, pop the queued RESET_STREAM / RESET_STREAM_AT frame, acknowledge or lose any frame in flight (up to %d per stream, any order) - completion reaches the map through the streams' own onStreamCompleted;", cr, c15WriteLen, c15MaxWrites, c15MaxInFlight)
	}
	if cfg.direct {
		s += " DeleteStream called directly for any open incoming stream, accepted or not;"
	}
	if cfg.reset0rtt {
		s += " ResetFor0RTT (once) + UseResetMaps;"
	}
	if cfg.closeErr {
		s += " CloseWithError;"
	}
	if cfg.depth == 0 {
		return s + " run to closure"
	}
	return s + fmt.Sprintf(" depth %d", cfg.depth)
}

func c15Part(name string, mk func(thorough bool) *c15Cfg) explore.Part {
	return explore.BFSPart(name, func(e explore.Env) explore.BFSSpec {
		cfg := mk(e.Thorough())
		return explore.BFSSpec{
			New:              func() explore.Instance { return newC15Inst(cfg) },
			MaxDepth:         cfg.depth,
			PanicIsViolation: true,
			Rule:             cfg.rule(),
		}
	})
}

func c15Pick(thorough bool, q, t int) int {
	if thorough {
		return t
	}
	return q
}

// in-uni: incoming unidirectional streams, real completion path.
func c15InUni(p protocol.Perspective, lim, dq, dt int) func(bool) *c15Cfg {
	return func(th bool) *c15Cfg {
		cfg := &c15Cfg{pers: p, lim: [2]int{2, lim}, app: true, acceptNone: true, depth: c15Pick(th, dq, dt)}
		cfg.frameMax[1] = lim + 2
		cfg.frameKinds[1] = []int{c15KStream, c15KFin, c15KReset, c15KStop, c15KBlocked}
		cfg.accept[1] = true
		return cfg
	}
}

// in-bidi: incoming bidirectional streams, real completion path (both halves).
func c15InBidi(p protocol.Perspective, lim, dq, dt int) func(bool) *c15Cfg {
	return func(th bool) *c15Cfg {
		cfg := &c15Cfg{pers: p, lim: [2]int{lim, 2}, app: true, depth: c15Pick(th, dq, dt)}
		cfg.frameMax[0] = lim + 2
		cfg.frameKinds[0] = []int{c15KFin, c15KReset, c15KStop, c15KMaxData}
		cfg.accept[0] = true
		return cfg
	}
}

// out: locally opened streams of both types against the peer's MAX_STREAMS.
func c15Out(p protocol.Perspective, tp [2]int, ms [2][]int, dq, dt int) func(bool) *c15Cfg {
	return func(th bool) *c15Cfg {
		cfg := &c15Cfg{pers: p, lim: [2]int{2, 2}, app: true, tparams: true, tp: tp, closeErr: true, depth: c15Pick(th, dq, dt)}
		cfg.frameMax[2], cfg.frameMax[3] = 3, 3
		cfg.frameKinds[2] = []int{c15KFin, c15KReset, c15KStop, c15KMaxData}
		cfg.frameKinds[3] = []int{c15KStream, c15KReset, c15KStop, c15KMaxData}
		cfg.maxStreams = ms
		if th {
			cfg.maxStreams = [2][]int{{1, 2, 3}, {1, 2, 3}}
		}
		cfg.open = [2]bool{true, true}
		return cfg
	}
}

// direct: the credit formula and the deferred deletion. Completion = DeleteStream called
// directly (what connection.onStreamCompleted does), which is also possible before the
// application accepted the stream. Frames that only open streams keep the per-stream
// state trivial, so the reachable state set closes.
func c15Direct(p protocol.Perspective, t, lim int) func(bool) *c15Cfg {
	return func(th bool) *c15Cfg {
		cfg := &c15Cfg{pers: p, lim: [2]int{2, 2}, direct: true, acceptNone: true}
		cfg.lim[t] = lim
		cfg.frameMax[t] = lim + c15Pick(th, 4, 10)
		cfg.frameKinds[t] = []int{c15KBlocked}
		if t == 0 {
			cfg.frameKinds[t] = []int{c15KBlocked, c15KMaxData}
		}
		cfg.accept[t] = true
		return cfg
	}
}

// zero: an incoming limit of 0 (Config.MaxIncomingStreams / MaxIncomingUniStreams < 0, i.e.
// initial_max_streams_* = 0: the peer may open NO stream of that type) as start state. Every
// frame kind is offered for the first stream numbers of the class with limit 0 - the very first
// stream is already beyond the advertised MAX_STREAMS, and no credit may ever be issued for
// it -; the other incoming class (limit 0 as well, or 2) only gets frames that open streams
// and is completed through DeleteStream directly, so that the state set closes. 0-RTT
// rejection re-creates the maps with the same limits.
func c15Zero(p protocol.Perspective, lim [2]int) func(bool) *c15Cfg {
	return func(th bool) *c15Cfg {
		cfg := &c15Cfg{pers: p, lim: lim, direct: true, acceptNone: true, reset0rtt: true, closeErr: true}
		for t := 0; t < 2; t++ {
			cfg.accept[t] = true
			if lim[t] == 0 {
				cfg.frameMax[t] = c15Pick(th, 2, 3)
				cfg.frameKinds[t] = []int{c15KStream, c15KFin, c15KReset, c15KStop, c15KMaxData, c15KBlocked}
				continue
			}
			cfg.frameMax[t] = lim[t] + c15Pick(th, 2, 4)
			cfg.frameKinds[t] = []int{c15KBlocked}
			if t == 0 {
				cfg.frameKinds[t] = []int{c15KBlocked, c15KMaxData}
			}
		}
		return cfg
	}
}

// rel-in: incoming bidirectional streams whose send half is transmitted one frame at a time
// (c15_rel_test.go): the peer negotiated RESET_STREAM_AT, streams start blocked on flow control.
func c15RelIn(p protocol.Perspective, lim int, small int, dq, dt int) func(bool) *c15Cfg {
	return func(th bool) *c15Cfg {
		cfg := &c15Cfg{pers: p, lim: [2]int{lim, 2}, app: true, fine: true, rsa: true, tpStart: true, zeroWin: true, noCancelR: true, tp: [2]int{1, 1}, depth: c15Pick(th, dq, dt)}
		cfg.frameMax[0] = lim + 1
		cfg.frameKinds[0] = []int{c15KFin, c15KStop, small, c15KMaxData}
		cfg.accept[0] = true
		return cfg
	}
}

// rel-out: locally opened streams. zeroRTT (client only): the remembered transport parameters
// (without reset_stream_at) were restored, the server's actual ones (with reset_stream_at)
// arrive as an operation - before or after the streams were opened, written to and reset.
// Otherwise the peer's transport parameters are there from the start.
func c15RelOut(p protocol.Perspective, t int, zeroRTT bool, small int, dq, dt int) func(bool) *c15Cfg {
	return func(th bool) *c15Cfg {
		cfg := &c15Cfg{pers: p, lim: [2]int{2, 2}, app: true, fine: true, rsa: true, tparams: zeroRTT, restore: zeroRTT, tpStart: !zeroRTT, zeroWin: true, noCancelR: true, tp: [2]int{1, 1}, depth: c15Pick(th, dq, dt)}
		cfg.frameMax[2+t] = 1
		cfg.frameKinds[2+t] = []int{c15KStop, small, c15KMaxData}
		if t == 0 {
			cfg.frameKinds[2+t] = []int{c15KFin, c15KStop, small, c15KMaxData}
		}
		cfg.open[t] = true
		return cfg
	}
}

// mixed: everything together, including 0-RTT rejection and CloseWithError.
func c15Mixed(p protocol.Perspective, kinds []int, dq, dt int) func(bool) *c15Cfg {
	return func(th bool) *c15Cfg {
		cfg := &c15Cfg{pers: p, lim: [2]int{2, 2}, app: true, reset0rtt: true, closeErr: true, depth: c15Pick(th, dq, dt)}
		cfg.frameMax = [4]int{3, 3, 2, 2}
		for c := 0; c < 4; c++ {
			cfg.frameKinds[c] = kinds
		}
		cfg.maxStreams = [2][]int{{1}, {1}}
		cfg.open = [2]bool{true, true}
		cfg.accept = [2]bool{true, true}
		return cfg
	}
}

func TestVerifC15(t *testing.T) {
	srv, cli := protocol.PerspectiveServer, protocol.PerspectiveClient
	explore.Main("C15", []explore.Part{
		c15Part("direct-bidi-srv-l2", c15Direct(srv, 0, 2)),
		c15Part("direct-bidi-cli-l3", c15Direct(cli, 0, 3)),
		c15Part("direct-uni-srv-l3", c15Direct(srv, 1, 3)),
		c15Part("direct-uni-cli-l2", c15Direct(cli, 1, 2)),
		c15Part("direct-bidi-srv-l1", c15Direct(srv, 0, 1)),
		c15Part("direct-uni-cli-l1", c15Direct(cli, 1, 1)),
		c15Part("zero-bidi-srv-l0", c15Zero(srv, [2]int{0, 2})),
		c15Part("zero-bidi-cli-l0", c15Zero(cli, [2]int{0, 2})),
		c15Part("zero-uni-srv-l0", c15Zero(srv, [2]int{2, 0})),
		c15Part("zero-uni-cli-l0", c15Zero(cli, [2]int{2, 0})),
		c15Part("zero-both-srv-l0", c15Zero(srv, [2]int{0, 0})),
		c15Part("zero-both-cli-l0", c15Zero(cli, [2]int{0, 0})),
		c15SyncPart("sync-bidi-cli", c15Sync(cli, 0), t),
		c15SyncPart("sync-uni-srv", c15Sync(srv, 1), t),
		c15Part("out-srv", c15Out(srv, [2]int{1, 2}, [2][]int{{1, 2}, {2, 3}}, 6, 7)),
		c15Part("out-cli", c15Out(cli, [2]int{2, 1}, [2][]int{{2, 3}, {1, 2}}, 5, 7)),
		c15Part("in-uni-srv-l2", c15InUni(srv, 2, 8, 11)),
		c15Part("in-uni-cli-l3", c15InUni(cli, 3, 6, 9)),
		c15Part("in-bidi-cli-l2", c15InBidi(cli, 2, 7, 9)),
		c15Part("in-bidi-srv-l3", c15InBidi(srv, 3, 5, 8)),
		c15Part("rel-in-bidi-srv-l1", c15RelIn(srv, 1, c15KMaxData1, 11, 13)),
		c15Part("rel-in-bidi-cli-l2", c15RelIn(cli, 2, c15KMaxData3, 7, 9)),
		c15Part("rel-out-uni-cli", c15RelOut(cli, 1, true, c15KMaxData1, 10, 12)),
		c15Part("rel-out-bidi-srv", c15RelOut(srv, 0, false, c15KMaxData3, 10, 11)),
		c15Part("mixed-srv", c15Mixed(srv, []int{c15KFin, c15KStop}, 5, 6)),
		c15Part("mixed-cli", c15Mixed(cli, []int{c15KReset, c15KMaxData}, 5, 6)),
	}, func(msg string) { t.Fatal(msg) })
}
