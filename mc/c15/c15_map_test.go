package quic

// C15, sequential (E1) part: explicit-state search over the real streamsMap (both
// perspectives) with real Stream / SendStream / ReceiveStream objects and real flow
// controllers. The control-frame queue and the streamSender are recorders; the recorder's
// onStreamCompleted does what connection.go does (streamsMap.DeleteStream).
//
// Index conventions used everywhere in this file:
//   type  t: 0 = bidirectional, 1 = unidirectional
//   class c: 0 = peer-initiated bidi, 1 = peer-initiated uni, 2 = locally initiated bidi,
//            3 = locally initiated uni      (c = 2*local + t)
//   num   n: 1-based stream number inside its class (id = first(class) + 4*(n-1))

import (
	"context"
	"errors"
	"fmt"
	"sort"
	"strconv"
	"strings"
	"sync/atomic"
	"time"

	"github.com/refraction-networking/uquic/internal/flowcontrol"
	"github.com/refraction-networking/uquic/internal/monotime"
	"github.com/refraction-networking/uquic/internal/protocol"
	"github.com/refraction-networking/uquic/internal/qerr"
	"github.com/refraction-networking/uquic/internal/utils"
	"github.com/refraction-networking/uquic/internal/verifmc/canon"
	"github.com/refraction-networking/uquic/internal/verifmc/explore"
	"github.com/refraction-networking/uquic/internal/wire"
)

const c15Now = monotime.Time(1_000_000_000_000)

var errC15Close = errors.New("c15 connection closed")

// peer frame kinds
const (
	c15KStream   = iota // STREAM, 1 byte at offset 0, no FIN
	c15KFin             // STREAM, 1 byte at offset 0, FIN
	c15KReset           // RESET_STREAM, final size 1
	c15KStop            // STOP_SENDING
	c15KMaxData         // MAX_STREAM_DATA
	c15KBlocked         // STREAM_DATA_BLOCKED
	c15KMaxData1        // MAX_STREAM_DATA(1): opens the send window for a single byte
	c15KMaxData3        // MAX_STREAM_DATA(3)
	c15NKinds
)

var c15KindName = [c15NKinds]string{"STREAM", "STREAM+FIN", "RESET_STREAM", "STOP_SENDING", "MAX_STREAM_DATA", "STREAM_DATA_BLOCKED", "MAX_STREAM_DATA(1)", "MAX_STREAM_DATA(3)"}
var c15ClassName = [4]string{"peer-bidi", "peer-uni", "local-bidi", "local-uni"}
var c15TypeName = [2]string{"bidi", "uni"}
var c15CallName = [2]string{"", "Uni"}

func c15KindIsRecv(k int) bool {
	return k == c15KStream || k == c15KFin || k == c15KReset || k == c15KBlocked
}

// c15Cfg selects the alphabet of one part.
type c15Cfg struct {
	pers       protocol.Perspective
	lim        [2]int   // our incoming stream limits (bidi, uni)
	frameMax   [4]int   // highest stream number named by peer frames, per class (0: none)
	frameKinds [4][]int // peer frame kinds offered per class
	maxStreams [2][]int // MAX_STREAMS values the peer may send, per type
	tparams    bool     // HandleTransportParameters(tp) offered
	tp         [2]int   // initial_max_streams_{bidi,uni} in the transport parameters
	open       [2]bool  // OpenStream / OpenUniStream offered
	accept     [2]bool  // AcceptStream / AcceptUniStream offered
	acceptNone bool     // Accept also offered when the model says nothing is queued
	app        bool     // application-level stream calls (Read, CancelRead, Close, CancelWrite, flush)
	direct     bool     // completion = DeleteStream called directly (also for not-yet-accepted streams)
	reset0rtt  bool     // ResetFor0RTT (once) + UseResetMaps offered
	closeErr   bool     // CloseWithError offered
	depth      int
	// fine-grained send path (file c15_rel_test.go): Write, SetReliableBoundary, and the
	// transmission of a send half one frame at a time (pop a STREAM frame / the RESET_STREAM
	// frame, acknowledge or lose any frame in flight) instead of the atomic flush
	fine      bool
	rsa       bool // the peer's transport parameters carry reset_stream_at (RESET_STREAM_AT extension)
	tpStart   bool // the transport parameters are delivered before the first operation
	restore   bool // 0-RTT: remembered transport parameters (same limits, no reset_stream_at) are restored before the first operation; the server's actual ones arrive with the tparams op
	zeroWin   bool // streams start with a send window of 0 (initial_max_stream_data_* = 0): data stays buffered until MAX_STREAM_DATA
	noCancelR bool // CancelRead not offered (keeps the receive half small)
}

// c15Sender is the recording streamSender. Completion is routed exactly as in
// connection.go: onStreamCompleted -> streamsMap.DeleteStream.
type c15Sender struct {
	m    *streamsMap
	done []c15Done
}

type c15Done struct {
	id  protocol.StreamID
	err error
}

func (s *c15Sender) onHasConnectionData()                                                {}
func (s *c15Sender) onHasStreamData(protocol.StreamID, *SendStream)                      {}
func (s *c15Sender) onHasStreamControlFrame(protocol.StreamID, streamControlFrameGetter) {}
func (s *c15Sender) onStreamCompleted(id protocol.StreamID) {
	s.done = append(s.done, c15Done{id, s.m.DeleteStream(id)})
}

// c15Str is the reference model of one stream (and the application's handle to it).
type c15Str struct {
	id       protocol.StreamID
	class    int
	num      int
	bidi     *Stream
	ss       *SendStream
	rs       *ReceiveStream
	accepted bool // the application holds the handle
	// receive half
	fin, rst, rstEff, cancR, readErr bool
	// send half
	closed, cancW, sreset, pendFIN, pendRST bool
	// latches (SendStream.completed / ReceiveStream.completed / deleted from the map).
	// sDone: the send half MUST have completed; sMay: it MAY have completed. The two differ
	// only with the fine-grained send path (c15_rel_test.go).
	sDone, sMay, rDone, done bool
	// fine-grained send path, see c15_rel_test.go
	fine bool
	snd  c15Snd
}

func (s *c15Str) hasRecv() bool { return s.class != 3 }
func (s *c15Str) hasSend() bool { return s.class != 1 }
func (s *c15Str) recvDone() bool {
	return (s.fin || s.rst) && (s.cancR || s.readErr)
}

// sendDone: (the send half may be complete, it must be complete).
func (s *c15Str) sendDone() (may, must bool) {
	if s.fine {
		return s.fineSendDone()
	}
	d := (s.closed || s.cancW) && !s.pendFIN && !s.pendRST
	return d, d
}

// update refreshes the latches.
func (s *c15Str) update() {
	if s.recvDone() {
		s.rDone = true
	}
	may, must := s.sendDone()
	if may {
		s.sMay = true
	}
	if must {
		s.sDone, s.sMay = true, true
	}
}

// mayBeDone: the frames and calls the stream has seen allow it to be fully complete.
func (s *c15Str) mayBeDone() bool {
	return (!s.hasRecv() || s.rDone) && (!s.hasSend() || s.sMay)
}

// fullyDone: the stream is fully complete, it has to be reported so.
func (s *c15Str) fullyDone() bool {
	return (!s.hasRecv() || s.rDone) && (!s.hasSend() || s.sDone)
}
func (s *c15Str) sendStr() *SendStream {
	if s.bidi != nil {
		return s.bidi.sendStr
	}
	return s.ss
}
func (s *c15Str) recvStr() *ReceiveStream {
	if s.bidi != nil {
		return s.bidi.receiveStr
	}
	return s.rs
}

type c15Inst struct {
	cfg    *c15Cfg
	m      *streamsMap
	sender *c15Sender
	queued []wire.Frame

	// reference model (reset on 0-RTT rejection)
	adv       [2]int // advertised MAX_STREAMS (incoming), as stream count
	opened    [2]int // number of incoming streams the peer has opened
	accepted  [2]int
	nDone     [2]int // incoming streams that fully completed
	nDoneAcc  [2]int // ... and were accepted
	peerMax   [2]int // MAX_STREAMS granted by the peer
	lastLocal [2]int // highest locally opened stream number
	localSet  [2]map[int]bool
	blocked   [2]map[int]bool // STREAMS_BLOCKED limit values already signalled
	strs      map[protocol.StreamID]*c15Str

	resetFlag bool // between ResetFor0RTT and UseResetMaps
	usedReset bool
	tpSeen    bool
	closed    bool
	dead      bool
	outcome   string
	tags      []string

	openAtLimit int // type of an Open call that just failed at the peer's limit, or -1
}

func newC15Inst(cfg *c15Cfg) *c15Inst {
	in := &c15Inst{cfg: cfg, openAtLimit: -1}
	rtt := utils.NewRTTStats()
	cfc := flowcontrol.NewConnectionFlowController(1<<20, 1<<20, func(protocol.ByteCount) bool { return true }, rtt, utils.DefaultLogger)
	cfc.UpdateSendWindow(1 << 20)
	in.sender = &c15Sender{}
	in.m = newStreamsMap(
		context.Background(),
		in.sender,
		func(f wire.Frame) { in.queued = append(in.queued, f) },
		func(id protocol.StreamID) flowcontrol.StreamFlowController {
			win := protocol.ByteCount(1 << 20)
			if cfg.zeroWin {
				win = 0
			}
			return flowcontrol.NewStreamFlowController(id, cfc, 1<<20, 1<<20, win, rtt, utils.DefaultLogger)
		},
		uint64(cfg.lim[0]), uint64(cfg.lim[1]),
		cfg.pers,
	)
	in.sender.m = in.m
	in.resetModel()
	if cfg.tpStart {
		in.doTParams(cfg.rsa)
	}
	if cfg.restore {
		in.doTParams(false) // connection.restoreTransportParameters
		in.tpSeen = false
	}
	return in
}

func (in *c15Inst) resetModel() {
	in.adv = in.cfg.lim
	in.opened, in.accepted, in.nDone, in.nDoneAcc = [2]int{}, [2]int{}, [2]int{}, [2]int{}
	in.peerMax, in.lastLocal = [2]int{}, [2]int{}
	for t := 0; t < 2; t++ {
		in.localSet[t] = map[int]bool{}
		in.blocked[t] = map[int]bool{}
	}
	in.strs = map[protocol.StreamID]*c15Str{}
	in.tpSeen = false
}

func c15StreamType(t int) protocol.StreamType {
	if t == 0 {
		return protocol.StreamTypeBidi
	}
	return protocol.StreamTypeUni
}

// firstID is computed from RFC 9000 section 2.1 (bit 0: initiator, bit 1: direction),
// independently of internal/protocol.
func (in *c15Inst) firstID(class int) protocol.StreamID {
	local := class >= 2
	t := class % 2
	server := (in.cfg.pers == protocol.PerspectiveServer) == local
	id := protocol.StreamID(0)
	if server {
		id |= 1
	}
	if t == 1 {
		id |= 2
	}
	return id
}

func (in *c15Inst) idOf(class, num int) protocol.StreamID {
	return in.firstID(class) + 4*protocol.StreamID(num-1)
}

// classOf decodes an id (again straight from the RFC bit layout).
func (in *c15Inst) classOf(id protocol.StreamID) (class, num int) {
	byServer := id&1 == 1
	local := byServer == (in.cfg.pers == protocol.PerspectiveServer)
	class = int(id&2) / 2
	if local {
		class += 2
	}
	return class, int(id/4) + 1
}

func (in *c15Inst) sortedStrs() []*c15Str {
	l := make([]*c15Str, 0, len(in.strs))
	for _, s := range in.strs {
		l = append(l, s)
	}
	sort.Slice(l, func(i, j int) bool { return l[i].id < l[j].id })
	return l
}

func (in *c15Inst) Ops() []explore.Op {
	if in.dead {
		return nil
	}
	cfg := in.cfg
	var ops []explore.Op
	for t := 0; t < 2; t++ {
		if cfg.accept[t] && (cfg.acceptNone || in.accepted[t] < in.opened[t]) {
			ops = append(ops, explore.Op{N: "accept", A: t})
		}
	}
	for t := 0; t < 2; t++ {
		if cfg.open[t] {
			ops = append(ops, explore.Op{N: "open", A: t})
		}
	}
	if in.closed {
		return ops
	}
	for class := 0; class < 4; class++ {
		for num := 1; num <= cfg.frameMax[class]; num++ {
			for _, k := range cfg.frameKinds[class] {
				ops = append(ops, explore.Op{N: "frame", A: k, B: class, C: num})
			}
		}
	}
	for t := 0; t < 2; t++ {
		for _, n := range cfg.maxStreams[t] {
			ops = append(ops, explore.Op{N: "maxstreams", A: t, B: n})
		}
	}
	if cfg.tparams && !in.tpSeen {
		ops = append(ops, explore.Op{N: "tparams"})
	}
	for _, s := range in.sortedStrs() {
		if s.done {
			continue
		}
		if cfg.direct && s.class < 2 {
			ops = append(ops, explore.Op{N: "delete", A: int(s.id)})
		}
		if !cfg.app || !s.accepted {
			continue
		}
		if s.hasRecv() && !s.readErr {
			if s.fin || s.rstEff || s.cancR {
				ops = append(ops, explore.Op{N: "read", A: int(s.id)})
			}
			if !s.cancR && !cfg.noCancelR {
				ops = append(ops, explore.Op{N: "cancelr", A: int(s.id)})
			}
		}
		if s.hasSend() {
			if !s.closed && !s.cancW {
				ops = append(ops, explore.Op{N: "close", A: int(s.id)})
			}
			if !s.cancW {
				ops = append(ops, explore.Op{N: "cancelw", A: int(s.id)})
			}
			if cfg.fine {
				ops = in.fineOps(ops, s)
			} else if s.pendFIN || s.pendRST {
				ops = append(ops, explore.Op{N: "flush", A: int(s.id)})
			}
		}
	}
	if cfg.reset0rtt && !in.usedReset {
		ops = append(ops, explore.Op{N: "reset0rtt"})
	}
	if in.resetFlag {
		ops = append(ops, explore.Op{N: "usereset"})
	}
	if cfg.closeErr {
		ops = append(ops, explore.Op{N: "closeerr"})
	}
	return ops
}

func c15TransportCode(err error) (qerr.TransportErrorCode, bool) {
	var te *qerr.TransportError
	if errors.As(err, &te) && te != nil {
		return te.ErrorCode, true
	}
	return 0, false
}

var c15Blocked atomic.Int32

// c15Call runs f in its own goroutine. It is only used for calls that the model says
// cannot block; such a call gets 30 s of wall clock before it is declared blocked (2 s once
// one call of this process has been found blocked: the verdict exists already).
func c15Call(f func()) bool {
	done := make(chan struct{})
	go func() { f(); close(done) }()
	d := 30 * time.Second
	if c15Blocked.Load() > 0 {
		d = 2 * time.Second
	}
	tm := time.NewTimer(d)
	defer tm.Stop()
	select {
	case <-done:
		return true
	case <-tm.C:
		c15Blocked.Add(1)
		return false
	}
}

// doTParams delivers the peer's transport parameters.
func (in *c15Inst) doTParams(rsa bool) {
	win := protocol.ByteCount(1 << 20)
	if in.cfg.zeroWin {
		win = 0
	}
	in.m.HandleTransportParameters(&wire.TransportParameters{
		InitialMaxStreamDataBidiLocal:  win,
		InitialMaxStreamDataBidiRemote: win,
		InitialMaxStreamDataUni:        win,
		InitialMaxData:                 1 << 20,
		MaxBidiStreamNum:               protocol.StreamNum(in.cfg.tp[0]),
		MaxUniStreamNum:                protocol.StreamNum(in.cfg.tp[1]),
		EnableResetStreamAt:            rsa,
	})
	in.tpSeen = true
	for t := 0; t < 2; t++ {
		if in.cfg.tp[t] > in.peerMax[t] {
			in.peerMax[t] = in.cfg.tp[t]
		}
	}
}

func (in *c15Inst) tag(format string, a ...any) { in.tags = append(in.tags, fmt.Sprintf(format, a...)) }

func (in *c15Inst) Apply(op explore.Op) *explore.Fail {
	in.tags = in.tags[:0]
	in.outcome = op.N
	fl := in.apply(op)
	if fl == nil {
		fl = in.settle(op)
	}
	if len(in.tags) > 0 {
		in.outcome += " " + strings.Join(in.tags, ",")
	}
	return fl
}

func (in *c15Inst) apply(op explore.Op) *explore.Fail {
	switch op.N {
	case "frame":
		return in.applyFrame(op.A, op.B, op.C)
	case "maxstreams":
		t, n := op.A, op.B
		in.m.HandleMaxStreamsFrame(&wire.MaxStreamsFrame{Type: c15StreamType(t), MaxStreamNum: protocol.StreamNum(n)})
		in.outcome = "maxstreams " + c15TypeName[t]
		if n > in.peerMax[t] {
			in.peerMax[t] = n
			in.tag("raised")
		} else {
			in.tag("stale")
		}
	case "tparams":
		in.doTParams(in.cfg.rsa)
	case "open":
		return in.applyOpen(op.A)
	case "accept":
		return in.applyAccept(op.A)
	case "delete":
		// what connection.onStreamCompleted does, invoked directly: the stream counts as
		// fully completed from now on (also when the application has not accepted it yet)
		s := in.strs[protocol.StreamID(op.A)]
		explore.Must(s != nil && !s.done && s.class < 2, "delete of untracked stream %d", op.A)
		in.outcome = "delete " + c15ClassName[s.class]
		if s.accepted {
			in.tag("accepted")
		} else {
			in.tag("not-yet-accepted")
		}
		in.sender.onStreamCompleted(s.id)
		// the model marks both halves as finished, so that fullyDone() holds from now on
		s.fin, s.cancR, s.closed, s.pendFIN, s.pendRST = true, true, true, false, false
	case "read", "cancelr", "close", "cancelw", "flush":
		return in.applyApp(op.N, protocol.StreamID(op.A))
	case "write", "setrel", "popdata", "popctl", "ack", "lost":
		return in.applyFine(op)
	case "reset0rtt":
		in.m.ResetFor0RTT()
		in.usedReset = true
		in.resetFlag = true
		in.resetModel()
	case "usereset":
		in.m.UseResetMaps()
		in.resetFlag = false
	case "closeerr":
		in.m.CloseWithError(errC15Close)
		in.closed = true
	default:
		explore.Must(false, "unknown op %v", op)
	}
	return nil
}

// applyFrame delivers one peer frame the way connection.handleFrame(s) does and checks
// the returned error against the statement.
func (in *c15Inst) applyFrame(kind, class, num int) *explore.Fail {
	id := in.idOf(class, num)
	t := class % 2
	var err error
	switch kind {
	case c15KStream, c15KFin:
		err = in.m.HandleStreamFrame(&wire.StreamFrame{StreamID: id, Data: []byte{'x'}, Fin: kind == c15KFin, DataLenPresent: true}, c15Now)
	case c15KReset:
		err = in.m.HandleResetStreamFrame(&wire.ResetStreamFrame{StreamID: id, ErrorCode: 7, FinalSize: 1}, c15Now)
	case c15KStop:
		err = in.m.HandleStopSendingFrame(&wire.StopSendingFrame{StreamID: id, ErrorCode: 9})
	case c15KMaxData:
		err = in.m.HandleMaxStreamDataFrame(&wire.MaxStreamDataFrame{StreamID: id, MaximumStreamData: 1 << 20})
	case c15KMaxData1:
		err = in.m.HandleMaxStreamDataFrame(&wire.MaxStreamDataFrame{StreamID: id, MaximumStreamData: 1})
	case c15KMaxData3:
		err = in.m.HandleMaxStreamDataFrame(&wire.MaxStreamDataFrame{StreamID: id, MaximumStreamData: 3})
	case c15KBlocked:
		err = in.m.HandleStreamDataBlockedFrame(&wire.StreamDataBlockedFrame{StreamID: id, MaximumStreamData: 1})
	default:
		explore.Must(false, "unknown frame kind %d", kind)
	}
	what := fmt.Sprintf("%s for %s stream %d (number %d)", c15KindName[kind], c15ClassName[class], id, num)
	keyv := fmt.Sprintf("%s/%s", c15KindName[kind], c15ClassName[class])
	in.outcome = "frame " + keyv
	code, isTE := c15TransportCode(err)

	wrongDir := (class == 1 && !c15KindIsRecv(kind)) || (class == 3 && c15KindIsRecv(kind))
	var allowed []qerr.TransportErrorCode
	why, whyKey := "", ""
	switch {
	case wrongDir:
		allowed = append(allowed, qerr.StreamStateError)
		why, whyKey = "of the wrong direction for this frame type", "wrong-direction"
		if class == 1 && num > in.adv[t] {
			allowed = append(allowed, qerr.StreamLimitError) // the statement demands both; either is accepted
		}
	case class < 2 && num > in.adv[t]:
		allowed = append(allowed, qerr.StreamLimitError)
		why, whyKey = fmt.Sprintf("beyond the advertised MAX_STREAMS %d", in.adv[t]), "beyond-limit"
	case class >= 2 && num > in.lastLocal[t]:
		allowed = append(allowed, qerr.StreamStateError)
		why, whyKey = fmt.Sprintf("a local stream that was never opened (highest opened number %d)", in.lastLocal[t]), "never-opened"
	case class >= 2 && !in.localSet[t][num]:
		// a number that OpenStream skipped: the statement does not say what happens
		if err != nil {
			in.dead = true
		}
		in.tag("skipped-local-id")
		return nil
	}
	if len(allowed) > 0 {
		if err == nil {
			return explore.Failf("missing-reject:"+keyv+":"+whyKey, "%s was accepted although it is %s; expected %v", what, why, allowed)
		}
		for _, c := range allowed {
			if isTE && code == c {
				in.dead = true // the connection is closed with this error
				in.tag("%s %s", code.String(), whyKey)
				return nil
			}
		}
		return explore.Failf("wrong-reject:"+keyv+":"+whyKey, "%s is %s: got %v, expected %v", what, why, err, allowed)
	}
	if err != nil {
		return explore.Failf("spurious-reject:"+keyv, "%s is valid (advertised MAX_STREAMS %d, opened locally up to %d) but was rejected: %v", what, in.adv[t], in.lastLocal[t], err)
	}
	// accepted: model effects
	if class < 2 && num > in.opened[t] {
		for n := in.opened[t] + 1; n <= num; n++ {
			sid := in.idOf(class, n)
			in.strs[sid] = in.newStr(&c15Str{id: sid, class: class, num: n})
		}
		in.tag("opens %d", num-in.opened[t])
		in.opened[t] = num
	}
	s := in.strs[id]
	explore.Must(s != nil, "model lost stream %d", id)
	if s.done {
		in.tag("stream-gone")
		return nil
	}
	in.tag("delivered")
	switch kind {
	case c15KFin:
		s.fin = true
	case c15KReset:
		if !s.rst && !s.cancR {
			s.rstEff = true
		}
		s.rst = true
	case c15KStop:
		if !s.sreset {
			s.sreset, s.pendRST, s.pendFIN = true, true, false
		}
		// (fine-grained send path) a RESET_STREAM frame may have been queued, also when the
		// stream was reset before: a RESET_STREAM_AT is superseded by a plain RESET_STREAM
		s.snd.maybeRST, s.snd.relStale = true, true
	case c15KMaxData, c15KMaxData1, c15KMaxData3:
		if s.snd.wr > 0 {
			s.snd.maybeData = true // (fine-grained send path) buffered data may have become sendable
		}
	}
	return nil
}

func (in *c15Inst) applyOpen(t int) *explore.Fail {
	class := 2 + t
	var id protocol.StreamID
	var err error
	var bs *Stream
	var us *SendStream
	if t == 0 {
		bs, err = in.m.OpenStream()
		if bs != nil {
			id = bs.StreamID()
		}
	} else {
		us, err = in.m.OpenUniStream()
		if us != nil {
			id = us.StreamID()
		}
	}
	in.outcome = "open " + c15TypeName[t]
	got := bs != nil || us != nil
	if got != (err == nil) {
		return explore.Failf("open-result:"+c15TypeName[t], "Open%sStream returned stream=%v err=%v", c15CallName[t], got, err)
	}
	normal := !in.closed && !in.resetFlag
	if got {
		gc, gn := in.classOf(id)
		if gc != class || id != in.idOf(class, gn) {
			return explore.Failf("open-wrong-class:"+c15TypeName[t], "locally opened %s stream got id %d, which is a %s id", c15TypeName[t], id, c15ClassName[gc])
		}
		if gn <= in.lastLocal[t] {
			return explore.Failf("open-not-increasing:"+c15TypeName[t], "locally opened %s stream got id %d (number %d) after number %d was already used", c15TypeName[t], id, gn, in.lastLocal[t])
		}
		if gn > in.peerMax[t] {
			return explore.Failf("open-beyond-peer-limit:"+c15TypeName[t], "locally opened %s stream id %d is number %d, the peer's MAX_STREAMS is %d", c15TypeName[t], id, gn, in.peerMax[t])
		}
		in.lastLocal[t] = gn
		in.localSet[t][gn] = true
		in.strs[id] = in.newStr(&c15Str{id: id, class: class, num: gn, bidi: bs, ss: us, accepted: true})
		in.tag("ok")
		return nil
	}
	var lim *StreamLimitReachedError
	var lim2 StreamLimitReachedError
	isLimit := errors.As(err, &lim) || errors.As(err, &lim2)
	switch {
	case !normal:
		in.tag("refused closed/0rtt")
	case in.lastLocal[t] < in.peerMax[t]:
		if isLimit {
			return explore.Failf("open-limit-error-with-credit:"+c15TypeName[t], "Open%sStream failed with %q although only %d of the %d streams granted by the peer were opened", c15CallName[t], err, in.lastLocal[t], in.peerMax[t])
		}
		in.tag("failed other")
	default:
		in.tag("limit")
		in.openAtLimit = t
	}
	return nil
}

func (in *c15Inst) applyAccept(t int) *explore.Fail {
	class := t
	avail := in.accepted[t] < in.opened[t]
	must := avail && !in.closed && !in.resetFlag
	// Accept is first called with a context that is already cancelled: it cannot block, and
	// the real implementation hands out a queued stream before it looks at the context.
	// Only if that call comes back empty although the model says a stream is queued, it is
	// repeated with a live context (an implementation may legitimately look at the context
	// first); that second call must not block: 30 s guard, afterwards the context is
	// cancelled so that the call returns. Once one Accept has been found blocked in this
	// process the second call is skipped (the verdict exists already).
	var id protocol.StreamID
	var err error
	var bs *Stream
	var us *ReceiveStream
	call := func(ctx context.Context) {
		if t == 0 {
			bs, err = in.m.AcceptStream(ctx)
			if bs != nil {
				id = bs.StreamID()
			}
		} else {
			us, err = in.m.AcceptUniStream(ctx)
			if us != nil {
				id = us.StreamID()
			}
		}
	}
	ctx, cancel := context.WithCancel(context.Background())
	cancel()
	call(ctx)
	ok := true
	if must && bs == nil && us == nil && err != nil && c15Blocked.Load() == 0 {
		ctx2, cancel2 := context.WithCancel(context.Background())
		defer cancel2()
		ok = c15Call(func() { call(ctx2) })
	}
	in.outcome = "accept " + c15TypeName[t]
	if !ok {
		in.dead = true
		return explore.Failf("accept-missed:"+c15TypeName[t], "Accept%sStream blocked although the peer has opened %d streams and %d were accepted", c15CallName[t], in.opened[t], in.accepted[t])
	}
	got := bs != nil || us != nil
	if got != (err == nil) {
		return explore.Failf("accept-result:"+c15TypeName[t], "Accept returned stream=%v err=%v", got, err)
	}
	if !got {
		if must {
			return explore.Failf("accept-missed:"+c15TypeName[t], "Accept%sStream returned %v although the peer has opened %d streams and only %d were accepted", c15CallName[t], err, in.opened[t], in.accepted[t])
		}
		switch {
		case in.closed:
			in.tag("refused closed")
		case in.resetFlag:
			in.tag("refused 0rtt")
		default:
			in.tag("none")
		}
		return nil
	}
	want := in.idOf(class, in.accepted[t]+1)
	if !avail {
		return explore.Failf("accept-phantom:"+c15TypeName[t], "Accept%sStream returned stream %d although all %d streams opened by the peer were accepted already", c15CallName[t], id, in.opened[t])
	}
	if id != want {
		return explore.Failf("accept-order:"+c15TypeName[t], "Accept%sStream returned stream %d, the next stream in id order is %d", c15CallName[t], id, want)
	}
	s := in.strs[id]
	explore.Must(s != nil, "model lost stream %d", id)
	in.accepted[t]++
	s.accepted = true
	s.bidi, s.rs = bs, us
	if s.done {
		in.nDoneAcc[t]++
		in.tag("completed-before-accept")
	} else {
		in.tag("ok")
	}
	return nil
}

func (in *c15Inst) applyApp(name string, id protocol.StreamID) *explore.Fail {
	s := in.strs[id]
	explore.Must(s != nil && s.accepted && !s.done, "app op %s on stream %d without handle", name, id)
	in.outcome = name + " " + c15ClassName[s.class]
	switch name {
	case "read":
		rs := s.recvStr()
		if !c15Call(func() {
			buf := make([]byte, 8)
			for {
				if _, err := rs.Read(buf); err != nil {
					return
				}
			}
		}) {
			in.dead = true
			return explore.Failf("read-blocked:"+c15ClassName[s.class], "Read on stream %d blocked (model: fin=%v reset=%v cancelled=%v): the frames did not reach this stream", id, s.fin, s.rstEff, s.cancR)
		}
		s.readErr = true
	case "cancelr":
		s.recvStr().CancelRead(5)
		s.cancR = true
	case "close":
		s.sendStr().Close()
		s.closed = true
		if !s.sreset {
			s.pendFIN = true
		}
		s.snd.maybeData = true
	case "cancelw":
		s.sendStr().CancelWrite(6)
		s.cancW = true
		if !s.sreset {
			s.sreset, s.pendRST, s.pendFIN = true, true, false
			s.snd.maybeRST = true
		}
	case "flush":
		// send everything this stream's send half has queued and acknowledge it
		ss := s.sendStr()
		for i := 0; ; i++ {
			explore.Must(i < 8, "stream %d keeps producing STREAM frames", id)
			f, _, _ := ss.popStreamFrame(1200, protocol.Version1)
			if f.Frame == nil {
				break
			}
			f.Handler.OnAcked(f.Frame)
		}
		for i := 0; ; i++ {
			explore.Must(i < 8, "stream %d keeps producing control frames", id)
			f, ok, _ := ss.getControlFrame(c15Now)
			if !ok {
				break
			}
			if f.Handler != nil {
				f.Handler.OnAcked(f.Frame)
			}
		}
		s.pendFIN, s.pendRST = false, false
	}
	return nil
}

// settle evaluates everything that is observed after an operation: stream completions
// (the recorder's DeleteStream calls), queued control frames and the invariants.
func (in *c15Inst) settle(op explore.Op) *explore.Fail {
	// 1. completions: the model decides which streams are fully complete
	expect := map[protocol.StreamID]bool{}
	for _, s := range in.strs {
		s.update()
		if s.fullyDone() && !s.done {
			expect[s.id] = true
		}
	}
	dones := in.sender.done
	in.sender.done = nil
	for _, d := range dones {
		class, _ := in.classOf(d.id)
		if s := in.strs[d.id]; s == nil || s.done || !s.mayBeDone() {
			key, why := "completion-unexpected:"+c15ClassName[class], ""
			if s != nil && !s.done && s.fine {
				k, w := s.fineWhyNot()
				key, why = key+":"+k, " ("+w+")"
			}
			return explore.Failf(key, "stream %d was reported complete (DeleteStream) after %v, but according to the frames and calls it received it is not fully complete%s", d.id, op, why)
		}
		delete(expect, d.id)
		if d.err != nil {
			return explore.Failf("delete-failed:"+c15ClassName[class], "DeleteStream(%d) for a stream that completed exactly once failed: %v", d.id, d.err)
		}
		s := in.strs[d.id]
		s.done = true
		if s.class < 2 {
			in.nDone[s.class]++
			if s.accepted {
				in.nDoneAcc[s.class]++
			}
		}
		in.tag("completes %s", c15ClassName[s.class])
	}
	for _, s := range in.sortedStrs() {
		id := s.id
		if !expect[id] {
			continue
		}
		class, _ := in.classOf(id)
		return explore.Failf("completion-missing:"+c15ClassName[class], "stream %d is fully complete after %v but was not deleted from the streams map", id, op)
	}

	// 2. control frames queued by the streams map
	q := in.queued
	in.queued = nil
	for _, f := range q {
		switch fr := f.(type) {
		case *wire.MaxStreamsFrame:
			t := 1
			if fr.Type == protocol.StreamTypeBidi {
				t = 0
			}
			n := int(fr.MaxStreamNum)
			if n <= in.adv[t] {
				return explore.Failf("max-streams-not-increasing:"+c15TypeName[t], "MAX_STREAMS(%s, %d) queued after %d was advertised already", c15TypeName[t], n, in.adv[t])
			}
			if n > in.cfg.lim[t]+in.nDone[t] {
				return explore.Failf("credit-without-completion:"+c15TypeName[t], "MAX_STREAMS(%s, %d) queued with limit %d and only %d fully completed streams: the peer could hold %d open streams", c15TypeName[t], n, in.cfg.lim[t], in.nDone[t], n-in.nDone[t])
			}
			in.adv[t] = n
			in.tag("MAX_STREAMS %s", c15TypeName[t])
		case *wire.StreamsBlockedFrame:
			t := 1
			if fr.Type == protocol.StreamTypeBidi {
				t = 0
			}
			l := int(fr.StreamLimit)
			if l != in.peerMax[t] {
				return explore.Failf("streams-blocked-wrong-limit:"+c15TypeName[t], "STREAMS_BLOCKED(%s, %d) queued while the peer's limit is %d", c15TypeName[t], l, in.peerMax[t])
			}
			if in.blocked[t][l] {
				return explore.Failf("streams-blocked-duplicate:"+c15TypeName[t], "STREAMS_BLOCKED(%s, %d) queued a second time for the same limit", c15TypeName[t], l)
			}
			in.blocked[t][l] = true
			in.tag("STREAMS_BLOCKED %s", c15TypeName[t])
		default:
			explore.Must(false, "unexpected control frame %T from the streams map", f)
		}
	}

	// 3. invariants
	for t := 0; t < 2; t++ {
		if open := in.opened[t] - in.nDone[t]; open > in.cfg.lim[t] {
			return explore.Failf("too-many-open:"+c15TypeName[t], "%d incoming %s streams are open, the limit is %d", open, c15TypeName[t], in.cfg.lim[t])
		}
		if !in.closed && in.adv[t] < in.cfg.lim[t]+in.nDoneAcc[t] {
			return explore.Failf("credit-not-issued:"+c15TypeName[t], "%d accepted incoming %s streams fully completed but the advertised MAX_STREAMS is still %d (limit %d)", in.nDoneAcc[t], c15TypeName[t], in.adv[t], in.cfg.lim[t])
		}
	}
	// a failed open because of the peer's limit must have been signalled once
	if in.openAtLimit >= 0 {
		t := in.openAtLimit
		in.openAtLimit = -1
		if !in.blocked[t][in.peerMax[t]] {
			return explore.Failf("streams-blocked-missing:"+c15TypeName[t], "Open%sStream failed at the peer's limit %d but no STREAMS_BLOCKED was ever queued for this limit", c15CallName[t], in.peerMax[t])
		}
	}
	return nil
}

func (in *c15Inst) Outcome() string { return in.outcome }

// c15Skip drops fields that are constant for the lifetime of an instance and owned by the
// harness (the recording sender and its per-half wrappers, the never-updated RTT
// statistics, the logger): they cannot distinguish two states.
func c15Skip(typ, field string) bool {
	switch field {
	case "sender":
		return typ == "quic.streamsMap" || typ == "quic.Stream" || typ == "quic.SendStream" || typ == "quic.ReceiveStream"
	case "rttStats", "logger":
		return typ == "flowcontrol.baseFlowController"
	case "nextFrame":
		// rendered by Key() itself, see there
		return typ == "quic.SendStream"
	}
	return false
}

func c15B(sb *strings.Builder, bs ...bool) {
	for _, b := range bs {
		if b {
			sb.WriteByte('1')
		} else {
			sb.WriteByte('0')
		}
	}
}

func (in *c15Inst) Key() string {
	var sb strings.Builder
	sb.WriteString(canon.Dump(in.m, canon.Options{SkipField: c15Skip}))
	fmt.Fprintf(&sb, "|adv=%v op=%v acc=%v dn=%v da=%v pm=%v ll=%v|", in.adv, in.opened, in.accepted, in.nDone, in.nDoneAcc, in.peerMax, in.lastLocal)
	c15B(&sb, in.resetFlag, in.usedReset, in.tpSeen, in.closed, in.dead)
	for t := 0; t < 2; t++ {
		sb.WriteString("|ls=")
		for n := 1; n <= in.lastLocal[t]; n++ {
			c15B(&sb, in.localSet[t][n])
		}
		sb.WriteString(" bl=")
		for n := 0; n <= in.peerMax[t]; n++ {
			c15B(&sb, in.blocked[t][n])
		}
	}
	for _, s := range in.sortedStrs() {
		sb.WriteByte('|')
		sb.WriteString(strconv.Itoa(int(s.id)))
		sb.WriteByte(':')
		c15B(&sb, s.accepted, s.fin, s.rst, s.rstEff, s.cancR, s.readErr, s.closed, s.cancW, s.sreset, s.pendFIN, s.pendRST, s.sDone, s.rDone, s.done)
		if s.fine {
			c15B(&sb, s.sMay)
			s.snd.key(&sb)
		}
		// SendStream.nextFrame (the data buffered by Write) is rendered here instead of by the
		// reflective dump: the frame comes from wire's sync.Pool and its Fin flag is whatever the
		// frame's previous user left there (it is assigned when the frame is popped and never
		// read before), so the reflective dump would make the key depend on the pool's history.
		if s.accepted && !s.done && s.hasSend() {
			if ss := s.sendStr(); ss != nil && ss.nextFrame != nil {
				nf := ss.nextFrame
				fmt.Fprintf(&sb, "nf(%d,%d,%q,%v)", nf.StreamID, nf.Offset, nf.Data, nf.DataLenPresent)
			}
		}
	}
	return sb.String()
}
