package quic

// C15, fine-grained send path (parts rel-*).
//
// "further credit is issued ... only as streams fully complete": the other parts finish the send
// half of a stream with an atomic flush (the queued FIN / RESET_STREAM is popped and acknowledged
// in one step, nothing was ever written). Here the application writes data, marks it reliable
// (SetReliableBoundary, RESET_STREAM_AT extension negotiated through the peer's transport
// parameters), closes or cancels, and the transmission is taken apart: one op pops the next STREAM
// frame (streams start with a send window of 0, so data stays buffered until the peer's
// MAX_STREAM_DATA - for 1 byte, 3 bytes or everything - arrives), one pops the queued
// RESET_STREAM(_AT) frame, and every frame in flight can be acknowledged or declared lost in any
// order.
//
// Oracle (wire level only - what the peer can know): a send half MAY be complete only if
//   - a FIN was sent and acknowledged and every byte below the final size was acknowledged, or
//   - the application knows about the reset (CancelWrite, Close, or a Write that returned the
//     error), a RESET_STREAM frame was acknowledged, and every byte below the smallest reliable
//     size among the acknowledged RESET_STREAM(_AT) frames was acknowledged (that is what the
//     peer was promised: until then the peer still has the stream open and counts it against
//     the limit);
// it MUST be complete once, in addition, nothing of it is in flight, no RESET_STREAM frame can be
// queued (one pop attempt was made after the last event that may queue one) and the most recently
// sent RESET_STREAM frame is the acknowledged one. Between MAY and MUST both answers are accepted.
// The reliable size and the offsets are read from the frames the real stream produced.

import (
	"fmt"
	"strings"

	"github.com/refraction-networking/uquic/internal/ackhandler"
	"github.com/refraction-networking/uquic/internal/protocol"
	"github.com/refraction-networking/uquic/internal/verifmc/explore"
	"github.com/refraction-networking/uquic/internal/wire"
)

const (
	c15MaxWrites   = 2 // Write calls per stream
	c15WriteLen    = 2 // bytes per Write call
	c15MaxInFlight = 3 // frames of one stream in flight at the same time
)

// c15Fl is a frame of a send half that was popped (sent) and neither acknowledged nor lost yet.
type c15Fl struct {
	ctl     bool // RESET_STREAM(_AT); otherwise STREAM
	off, n  int  // STREAM: offset and length
	fin     bool
	r       int // RESET_STREAM: reliable size
	seq     int // RESET_STREAM: how many were popped before, plus 1
	frame   wire.Frame
	handler ackhandler.FrameHandler
}

// c15Snd is the wire-level ledger of one send half.
type c15Snd struct {
	nWr       int  // Write calls made
	wr        int  // bytes accepted by Write
	wErr      bool // a Write call returned the reset error: the application knows
	relStale  bool // bytes were written (or a STOP_SENDING arrived) since the last SetReliableBoundary
	fl        []c15Fl
	sent      int    // highest offset sent
	acked     uint32 // bit i: byte i was acknowledged
	finSent   bool
	finOff    int // final size announced by the FIN
	finAcked  bool
	nRst      int  // RESET_STREAM frames popped
	rLast     int  // reliable size of the most recent one
	lastAcked bool // ... which was acknowledged
	rstAcked  bool // some RESET_STREAM frame was acknowledged
	minR      int  // smallest reliable size among the acknowledged ones
	maybeData bool // an event that can make a STREAM frame available happened since the last empty pop
	maybeRST  bool // an event that can queue a RESET_STREAM frame happened since the last pop attempt
}

func (d *c15Snd) all(n int) bool {
	m := uint32(1)<<uint(n) - 1
	return d.acked&m == m
}

func (d *c15Snd) key(sb *strings.Builder) {
	fmt.Fprintf(sb, "{w%d/%d s%d a%x f%d r%d m%d ", d.nWr, d.wr, d.sent, d.acked, d.finOff, d.rLast, d.minR)
	c15B(sb, d.wErr, d.relStale, d.finSent, d.finAcked, d.nRst > 0, d.lastAcked, d.rstAcked, d.maybeData, d.maybeRST)
	for _, f := range d.fl {
		if f.ctl {
			fmt.Fprintf(sb, " R%d", f.r)
			c15B(sb, f.seq == d.nRst)
		} else {
			fmt.Fprintf(sb, " D%d+%d", f.off, f.n)
			c15B(sb, f.fin)
		}
	}
	sb.WriteByte('}')
}

func (in *c15Inst) newStr(s *c15Str) *c15Str {
	s.fine = in.cfg.fine
	return s
}

func (s *c15Str) fineSendDone() (may, must bool) {
	d := &s.snd
	flag := s.closed || s.cancW || d.wErr
	finPath := s.closed && d.finSent && d.finAcked && d.all(d.finOff)
	rstPath := flag && d.rstAcked && d.all(d.minR)
	may = finPath || rstPath
	if s.sreset {
		must = flag && len(d.fl) == 0 && !d.maybeRST && d.nRst > 0 && d.lastAcked && d.all(d.rLast)
	} else {
		must = finPath && len(d.fl) == 0
	}
	return may || must, must
}

// fineWhyNot names the reason why the stream cannot be fully complete (key suffix, text).
func (s *c15Str) fineWhyNot() (string, string) {
	d := &s.snd
	if s.hasRecv() && !s.rDone {
		return "receive-half-open", "the receive half is not finished"
	}
	state := fmt.Sprintf("%d bytes written, sent up to offset %d, acknowledged byte mask %b", d.wr, d.sent, d.acked)
	switch {
	case d.rstAcked && !d.all(d.minR):
		return "reliable-data-unacked", fmt.Sprintf("a RESET_STREAM_AT with reliable size %d was acknowledged, but not all of these bytes were delivered: %s - the peer still waits for them and has the stream open", d.minR, state)
	case s.sreset || d.nRst > 0:
		if !(s.closed || s.cancW || d.wErr) {
			return "reset-unknown-to-application", "the send half was reset by STOP_SENDING and the application neither saw the error nor closed or cancelled the stream"
		}
		return "reset-unacked", fmt.Sprintf("no RESET_STREAM frame was acknowledged (%d sent): %s", d.nRst, state)
	case d.finSent:
		return "fin-or-data-unacked", fmt.Sprintf("the FIN (final size %d, acknowledged: %v) or data below it is unacknowledged: %s", d.finOff, d.finAcked, state)
	case s.closed:
		return "fin-unsent", "the FIN was not sent: " + state
	}
	return "send-half-open", "the send half was neither closed nor reset"
}

func (in *c15Inst) fineOps(ops []explore.Op, s *c15Str) []explore.Op {
	d := &s.snd
	id := int(s.id)
	if !s.closed && !s.cancW {
		if d.nWr < c15MaxWrites {
			ops = append(ops, explore.Op{N: "write", A: id})
		}
		if d.wr > 0 && d.relStale {
			ops = append(ops, explore.Op{N: "setrel", A: id})
		}
	}
	if len(d.fl) < c15MaxInFlight {
		if d.maybeData {
			ops = append(ops, explore.Op{N: "popdata", A: id})
		}
		if d.maybeRST {
			ops = append(ops, explore.Op{N: "popctl", A: id})
		}
	}
	for i := range d.fl {
		ops = append(ops, explore.Op{N: "ack", A: id, B: i})
	}
	for i := range d.fl {
		ops = append(ops, explore.Op{N: "lost", A: id, B: i})
	}
	return ops
}

func (in *c15Inst) applyFine(op explore.Op) *explore.Fail {
	id := protocol.StreamID(op.A)
	s := in.strs[id]
	explore.Must(s != nil && s.accepted && !s.done && s.hasSend() && s.fine, "op %v on stream %d without handle", op, id)
	in.outcome = op.N + " " + c15ClassName[s.class]
	d := &s.snd
	ss := s.sendStr()
	switch op.N {
	case "write":
		buf := make([]byte, c15WriteLen)
		for i := range buf {
			buf[i] = byte('a' + d.wr + i)
		}
		var n int
		var err error
		if !c15Call(func() { n, err = ss.Write(buf) }) {
			// a blocked Write is not this property's business; nothing more can be said about this history
			in.dead = true
			in.tag("blocked")
			return nil
		}
		d.nWr++
		d.wr += n
		if n > 0 {
			d.relStale, d.maybeData = true, true
		}
		switch {
		case err == nil:
			in.tag("buffered")
		case s.sreset:
			d.wErr = true
			in.tag("reset-error")
		default:
			in.tag("error")
		}
	case "setrel":
		ss.SetReliableBoundary()
		d.relStale = false
		if s.sreset {
			in.tag("after-stop-sending")
		}
	case "popdata":
		f, _, _ := ss.popStreamFrame(1200, protocol.Version1)
		if f.Frame == nil {
			d.maybeData = false
			in.tag("nothing")
			break
		}
		fl := c15Fl{off: int(f.Frame.Offset), n: int(f.Frame.DataLen()), fin: f.Frame.Fin, frame: f.Frame, handler: f.Handler}
		explore.Must(fl.off+fl.n <= 30, "stream %d sent up to offset %d", id, fl.off+fl.n)
		d.fl = append(d.fl, fl)
		if fl.off+fl.n > d.sent {
			d.sent = fl.off + fl.n
			in.tag("new-data")
		} else if fl.n > 0 {
			in.tag("retransmission")
		}
		if fl.fin {
			d.finSent, d.finOff = true, fl.off+fl.n
			s.pendFIN = false
			in.tag("FIN")
		}
		if s.sreset {
			in.tag("after-reset")
		}
	case "popctl":
		f, ok, _ := ss.getControlFrame(c15Now)
		d.maybeRST = false
		s.pendRST = false
		if !ok {
			in.tag("nothing")
			break
		}
		rsf, isRst := f.Frame.(*wire.ResetStreamFrame)
		explore.Must(isRst, "send half of stream %d produced a %T", id, f.Frame)
		d.nRst++
		d.rLast, d.lastAcked = int(rsf.ReliableSize), false
		explore.Must(d.rLast <= 30, "reliable size %d", d.rLast)
		d.fl = append(d.fl, c15Fl{ctl: true, r: d.rLast, seq: d.nRst, frame: f.Frame, handler: f.Handler})
		switch {
		case d.rLast == 0:
			in.tag("RESET_STREAM")
		case d.rLast <= d.sent:
			in.tag("RESET_STREAM_AT reliable-part-sent")
		default:
			in.tag("RESET_STREAM_AT reliable-part-unsent")
		}
	case "ack", "lost":
		explore.Must(op.B < len(d.fl), "op %v: only %d frames in flight", op, len(d.fl))
		fl := d.fl[op.B]
		d.fl = append(append([]c15Fl{}, d.fl[:op.B]...), d.fl[op.B+1:]...)
		what := "STREAM"
		if fl.ctl {
			what = "RESET_STREAM"
			if fl.r > 0 {
				what = "RESET_STREAM_AT"
			}
		}
		in.outcome = op.N + " " + what + " " + c15ClassName[s.class]
		if s.sreset && !fl.ctl {
			in.tag("after-reset")
		}
		if op.N == "ack" {
			if fl.handler != nil {
				fl.handler.OnAcked(fl.frame)
			}
			if fl.ctl {
				if fl.seq == d.nRst {
					d.lastAcked = true
				} else {
					in.tag("superseded")
				}
				if !d.rstAcked || fl.r < d.minR {
					d.minR = fl.r
				}
				d.rstAcked = true
			} else {
				d.acked |= (uint32(1)<<uint(fl.n) - 1) << uint(fl.off)
				if fl.fin {
					d.finAcked = true
				}
			}
		} else {
			if fl.handler != nil {
				fl.handler.OnLost(fl.frame)
			}
			if fl.ctl {
				d.maybeRST = true
			} else {
				d.maybeData = true
			}
		}
	default:
		explore.Must(false, "unknown op %v", op)
	}
	return nil
}
