package quic

// C15 part "sync-*": blocking OpenStreamSync / OpenUniStreamSync callers, covered
// sequentially at quiescence granularity. Every operation sequence of a fixed length is
// executed on a fresh real streamsMap inside a testing/synctest bubble; after every
// operation the bubble is run to quiescence (synctest.Wait) and the reference model
// (FIFO queue of waiting callers, credit ledger) is compared with what the callers got.
// Interleavings *inside* an operation (lock-point preemption) are not explored here.

import (
	"context"
	"encoding/json"
	"fmt"
	"strings"
	"sync"
	"testing"
	"testing/synctest"

	"github.com/refraction-networking/uquic/internal/flowcontrol"
	"github.com/refraction-networking/uquic/internal/protocol"
	"github.com/refraction-networking/uquic/internal/utils"
	"github.com/refraction-networking/uquic/internal/verifmc/explore"
	"github.com/refraction-networking/uquic/internal/wire"
)

type c15SyncCfg struct {
	pers    protocol.Perspective
	t       int // stream type under test
	callers int // max number of OpenStreamSync callers
	maxN    int // MAX_STREAMS values 1..maxN
	length  int // operations per sequence
}

type c15Caller struct {
	cancel   context.CancelFunc
	returned bool // result observed by the model
	mu       sync.Mutex
	done     bool
	id       protocol.StreamID
	got      bool
	err      error
	canceled bool
}

type c15SyncRun struct {
	cfg     *c15SyncCfg
	m       *streamsMap
	queued  []wire.Frame
	callers []*c15Caller
	waiting []int // indices of blocked callers in arrival order
	peerMax int
	last    int // highest stream number handed out
	blocked map[int]bool
	closed  bool
	first   protocol.StreamID
	tags    []string
}

func (r *c15SyncRun) ops() []explore.Op {
	if r.closed {
		return nil
	}
	var ops []explore.Op
	if len(r.callers) < r.cfg.callers {
		ops = append(ops, explore.Op{N: "sync"})
	}
	ops = append(ops, explore.Op{N: "open"})
	for n := 1; n <= r.cfg.maxN; n++ {
		ops = append(ops, explore.Op{N: "maxstreams", A: n})
	}
	for _, k := range r.waiting {
		ops = append(ops, explore.Op{N: "cancel", A: k})
	}
	ops = append(ops, explore.Op{N: "closeerr"})
	return ops
}

func (r *c15SyncRun) tag(format string, a ...any) { r.tags = append(r.tags, fmt.Sprintf(format, a...)) }

func (r *c15SyncRun) checkID(id protocol.StreamID, who string) *explore.Fail {
	tn := c15TypeName[r.cfg.t]
	if id < r.first || (id-r.first)%4 != 0 {
		return explore.Failf("open-wrong-class:"+tn, "%s got stream id %d, not a locally initiated %s id (first is %d)", who, id, tn, r.first)
	}
	n := int((id-r.first)/4) + 1
	if n <= r.last {
		return explore.Failf("open-not-increasing:"+tn, "%s got stream id %d (number %d) after number %d was handed out", who, id, n, r.last)
	}
	if n > r.peerMax {
		return explore.Failf("open-beyond-peer-limit:"+tn, "%s got stream id %d (number %d), the peer's MAX_STREAMS is %d", who, id, n, r.peerMax)
	}
	r.last = n
	return nil
}

func (r *c15SyncRun) apply(op explore.Op) *explore.Fail {
	tn := c15TypeName[r.cfg.t]
	r.tags = r.tags[:0]
	switch op.N {
	case "sync":
		ctx, cancel := context.WithCancel(context.Background())
		c := &c15Caller{cancel: cancel}
		r.callers = append(r.callers, c)
		go func() {
			var id protocol.StreamID
			var got bool
			var err error
			if r.cfg.t == 0 {
				var s *Stream
				if s, err = r.m.OpenStreamSync(ctx); s != nil {
					id, got = s.StreamID(), true
				}
			} else {
				var s *SendStream
				if s, err = r.m.OpenUniStreamSync(ctx); s != nil {
					id, got = s.StreamID(), true
				}
			}
			c.mu.Lock()
			c.done, c.id, c.got, c.err = true, id, got, err
			c.mu.Unlock()
		}()
		r.waiting = append(r.waiting, len(r.callers)-1)
	case "open":
		var id protocol.StreamID
		var got bool
		var err error
		if r.cfg.t == 0 {
			var s *Stream
			if s, err = r.m.OpenStream(); s != nil {
				id, got = s.StreamID(), true
			}
		} else {
			var s *SendStream
			if s, err = r.m.OpenUniStream(); s != nil {
				id, got = s.StreamID(), true
			}
		}
		if got != (err == nil) {
			return explore.Failf("open-result:"+tn, "OpenStream returned stream=%v err=%v", got, err)
		}
		if got {
			if len(r.waiting) > 0 {
				return explore.Failf("sync-overtaken:"+tn, "non-blocking OpenStream got stream %d while %d OpenStreamSync callers that arrived earlier are still waiting", id, len(r.waiting))
			}
			if f := r.checkID(id, "OpenStream"); f != nil {
				return f
			}
			r.tag("open ok")
		} else {
			r.tag("open refused")
		}
	case "maxstreams":
		r.m.HandleMaxStreamsFrame(&wire.MaxStreamsFrame{Type: c15StreamType(r.cfg.t), MaxStreamNum: protocol.StreamNum(op.A)})
		if op.A > r.peerMax {
			r.peerMax = op.A
			r.tag("raised")
		} else {
			r.tag("stale")
		}
	case "cancel":
		r.callers[op.A].canceled = true
		r.callers[op.A].cancel()
	case "closeerr":
		r.m.CloseWithError(errC15Close)
		r.closed = true
	default:
		explore.Must(false, "unknown op %v", op)
	}
	synctest.Wait()

	// control frames
	q := r.queued
	r.queued = nil
	for _, f := range q {
		fr, ok := f.(*wire.StreamsBlockedFrame)
		explore.Must(ok, "unexpected control frame %T", f)
		want := protocol.StreamTypeUni
		if r.cfg.t == 0 {
			want = protocol.StreamTypeBidi
		}
		if fr.Type != want {
			return explore.Failf("streams-blocked-wrong-type:"+tn, "STREAMS_BLOCKED of type %v queued for %s streams", fr.Type, tn)
		}
		l := int(fr.StreamLimit)
		if l != r.peerMax {
			return explore.Failf("streams-blocked-wrong-limit:"+tn, "STREAMS_BLOCKED(%s, %d) queued while the peer's limit is %d", tn, l, r.peerMax)
		}
		if r.blocked[l] {
			return explore.Failf("streams-blocked-duplicate:"+tn, "STREAMS_BLOCKED(%s, %d) queued a second time for the same limit", tn, l)
		}
		r.blocked[l] = true
		r.tag("STREAMS_BLOCKED")
	}

	// results of the waiting callers, in arrival order
	var still []int
	for _, k := range r.waiting {
		c := r.callers[k]
		c.mu.Lock()
		done, id, got, err := c.done, c.id, c.got, c.err
		c.mu.Unlock()
		if !done {
			still = append(still, k)
			continue
		}
		c.returned = true
		if got != (err == nil) {
			return explore.Failf("open-result:"+tn, "OpenStreamSync returned stream=%v err=%v", got, err)
		}
		if !got {
			switch {
			case r.closed:
				r.tag("caller closed")
			case c.canceled:
				r.tag("caller cancelled")
			default:
				r.tag("caller failed")
			}
			continue
		}
		if len(still) > 0 {
			return explore.Failf("sync-fifo:"+tn, "OpenStreamSync caller #%d was served (stream %d) while caller #%d, which arrived earlier, is still waiting", k, id, still[0])
		}
		// ids are handed out in arrival order: checkID demands id > every id given before,
		// and callers are visited in arrival order
		if f := r.checkID(id, fmt.Sprintf("OpenStreamSync caller #%d", k)); f != nil {
			if strings.HasPrefix(f.Key, "open-not-increasing") {
				f.Key = "sync-fifo-ids:" + tn
				f.What += " (a caller that arrived earlier got the higher id)"
			}
			return f
		}
		r.tag("caller served")
	}
	r.waiting = still
	if len(still) > 0 && !r.closed {
		if r.last < r.peerMax {
			return explore.Failf("sync-not-served:"+tn, "after %v the peer's limit is %d and only %d streams are open, but %d OpenStreamSync callers are still blocked", op, r.peerMax, r.last, len(still))
		}
		if !r.blocked[r.peerMax] {
			return explore.Failf("streams-blocked-missing:"+tn, "%d OpenStreamSync callers are blocked at the peer's limit %d but no STREAMS_BLOCKED was queued for this limit", len(still), r.peerMax)
		}
		r.tag("waiting %d", len(still))
	}
	if op.N == "open" && !r.closed && len(r.tags) > 0 && r.tags[0] == "open refused" {
		if r.last < r.peerMax && len(still) == 0 {
			return explore.Failf("open-limit-error-with-credit:"+tn, "OpenStream failed although only %d of the %d streams granted by the peer were opened and nobody is waiting", r.last, r.peerMax)
		}
		if r.last >= r.peerMax && !r.blocked[r.peerMax] {
			return explore.Failf("streams-blocked-missing:"+tn, "OpenStream failed at the peer's limit %d but no STREAMS_BLOCKED was queued for this limit", r.peerMax)
		}
	}
	return nil
}

// c15SyncExec runs one operation sequence inside a bubble. pick selects the next
// operation among the enabled ones (-1: stop).
func c15SyncExec(tt *testing.T, cfg *c15SyncCfg, pick func(step int, ops []explore.Op) int) (trace []explore.Op, outs []string, fail *explore.Fail) {
	defer func() {
		if x := recover(); x != nil && fail == nil {
			fail = explore.Failf("panic:sync", "panic while running %v: %v", trace, x)
		}
	}()
	synctest.Test(tt, func(*testing.T) {
		defer func() {
			if x := recover(); x != nil {
				fail = explore.Failf("panic:sync-op", "panic in %v: %v", trace, x)
			}
		}()
		r := &c15SyncRun{cfg: cfg, blocked: map[int]bool{}}
		rtt := utils.NewRTTStats()
		cfc := flowcontrol.NewConnectionFlowController(1<<20, 1<<20, func(protocol.ByteCount) bool { return true }, rtt, utils.DefaultLogger)
		sender := &c15Sender{}
		r.m = newStreamsMap(context.Background(), sender,
			func(f wire.Frame) { r.queued = append(r.queued, f) },
			func(id protocol.StreamID) flowcontrol.StreamFlowController {
				return flowcontrol.NewStreamFlowController(id, cfc, 1<<20, 1<<20, 1<<20, rtt, utils.DefaultLogger)
			}, 2, 2, cfg.pers)
		sender.m = r.m
		r.first = (&c15Inst{cfg: &c15Cfg{pers: cfg.pers}}).firstID(2 + cfg.t)
		for step := 0; step < cfg.length && fail == nil; step++ {
			ops := r.ops()
			if len(ops) == 0 {
				break
			}
			k := pick(step, ops)
			if k < 0 {
				break
			}
			op := ops[k]
			trace = append(trace, op)
			fail = r.apply(op)
			outs = append(outs, op.N+" "+strings.Join(r.tags, ","))
		}
		// tear down: every caller must be able to leave the bubble
		if !r.closed {
			r.m.CloseWithError(errC15Close)
		}
		for _, c := range r.callers {
			c.cancel()
		}
		synctest.Wait()
		for k, c := range r.callers {
			c.mu.Lock()
			done := c.done
			c.mu.Unlock()
			if !done && fail == nil {
				fail = explore.Failf("sync-caller-stuck", "OpenStreamSync caller #%d did not return after CloseWithError and cancellation of its context", k)
			}
		}
	})
	return trace, outs, fail
}

func c15OpsHuman(p []explore.Op) []string {
	h := make([]string, len(p))
	for i, o := range p {
		h[i] = o.String()
	}
	return h
}

func c15SyncPart(name string, mk func(thorough bool) *c15SyncCfg, tt *testing.T) explore.Part {
	rule := func(cfg *c15SyncCfg) string {
		return fmt.Sprintf("every operation sequence of length %d (DFS over the enabled operations) on the real streamsMap (perspective %s, %s streams) inside a testing/synctest bubble, run to quiescence after every operation; alphabet: start an Open%sStreamSync caller (up to %d), non-blocking Open, MAX_STREAMS 1..%d (stale included), cancel the context of a waiting caller, CloseWithError",
			cfg.length, c15PersName(cfg.pers), c15TypeName[cfg.t], map[int]string{0: "", 1: "Uni"}[cfg.t], cfg.callers, cfg.maxN)
	}
	return explore.Part{
		Name: name,
		Run: func(e explore.Env) *explore.Report {
			cfg := mk(e.Thorough())
			// top-level cases: the first two operations (indices into the enabled lists; the
			// second list depends on the first op, so its size is over-approximated and
			// out-of-domain pairs are skipped); the rest is enumerated by DFS inside the case
			maxOps := 3 + cfg.maxN + cfg.callers
			outcomes := explore.NewOutcomeSet()
			var mu sync.Mutex
			var samples []any
			rep := explore.RunCases(e, maxOps*maxOps, 0, false, func(i int) explore.CaseResult {
				var cr explore.CaseResult
				a, b := i/maxOps, i%maxOps
				explore.EnumerateChoices(-1, 0, func() bool { return cr.Fail != nil || e.Expired() }, func(c *explore.Chooser) {
					skip := false
					trace, outs, fl := c15SyncExec(tt, cfg, func(step int, ops []explore.Op) int {
						k := 0
						switch step {
						case 0:
							k = a
						case 1:
							k = b
						default:
							return c.ChooseCost(len(ops), 0)
						}
						if k >= len(ops) {
							skip = true
							return -1
						}
						return k
					})
					if skip {
						return
					}
					cr.Trans += int64(len(trace))
					cr.Execs++
					for _, o := range outs {
						outcomes.Add(o)
					}
					if fl != nil && cr.Fail == nil {
						cr.Fail = fl
						cr.Replay = trace
						cr.Human = c15OpsHuman(trace)
					}
					if cr.Execs == 7 && (a+b)%3 == 0 {
						mu.Lock()
						if len(samples) < 3 {
							samples = append(samples, map[string]any{"ops": c15OpsHuman(trace), "observed": outs})
						}
						mu.Unlock()
					}
				})
				return cr
			})
			rep.Rule = rule(cfg)
			rep.Outcomes = outcomes.List()
			rep.OutcomesN = int64(len(rep.Outcomes))
			rep.States = rep.OutcomesN
			rep.Samples = samples
			rep.Bound = fmt.Sprintf("all operation sequences of length %d", cfg.length)
			return rep
		},
		Replay: func(e explore.Env, raw json.RawMessage) *explore.Violation {
			cfg := *mk(e.Thorough())
			var path []explore.Op
			explore.Must(json.Unmarshal(raw, &path) == nil, "bad replay")
			cfg.length = len(path)
			_, _, fl := c15SyncExec(tt, &cfg, func(step int, ops []explore.Op) int {
				for k, o := range ops {
					if o == path[step] {
						return k
					}
				}
				explore.Must(false, "replay divergence: %v is not enabled at step %d", path[step], step)
				return -1
			})
			if fl == nil {
				return nil
			}
			return &explore.Violation{Key: fl.Key, What: fl.What, Replay: raw, Human: c15OpsHuman(path)}
		},
	}
}

func c15Sync(p protocol.Perspective, t int) func(bool) *c15SyncCfg {
	return func(th bool) *c15SyncCfg {
		return &c15SyncCfg{pers: p, t: t, callers: c15Pick(th, 3, 4), maxN: c15Pick(th, 3, 4), length: c15Pick(th, 6, 8)}
	}
}
