package quic

// C15 / C17 part E3: interleavings of real goroutines on one real streamsMap.
// Threads: up to three OpenStreamSync callers (one with a cancellable context), a thread of
// non-blocking OpenStream calls (thread "N": one call per step, each call is a caller of its
// own in the ledger), one AcceptStream caller, an event thread (MAX_STREAMS frames, the
// cancellation, an incoming stream) and optionally CloseWithError. Every order of their
// steps is executed at quiescence granularity (each call runs until it returns or durably
// blocks).

import (
	"context"
	"encoding/json"
	"errors"
	"fmt"
	"slices"
	"sort"
	"strings"
	"testing"

	"github.com/refraction-networking/uquic/internal/flowcontrol"
	"github.com/refraction-networking/uquic/internal/protocol"
	"github.com/refraction-networking/uquic/internal/utils"
	"github.com/refraction-networking/uquic/internal/verifmc/explore"
	"github.com/refraction-networking/uquic/internal/verifmc/sched"
	"github.com/refraction-networking/uquic/internal/wire"
)

type c15e3Sender struct{}

func (c15e3Sender) onHasConnectionData()                                                {}
func (c15e3Sender) onHasStreamData(protocol.StreamID, *SendStream)                      {}
func (c15e3Sender) onHasStreamControlFrame(protocol.StreamID, streamControlFrameGetter) {}
func (c15e3Sender) onStreamCompleted(protocol.StreamID)                                 {}

var errC15E3Closed = errors.New("c15e3: connection closed")

type c15e3Caller struct {
	name    string
	nonblk  bool // a non-blocking OpenStream / OpenUniStream call (never waits)
	started int  // global sequence number of the moment OpenStream(Sync) was called (0: not yet)
	waiting int  // sequence number of the moment the call was first seen waiting (0: never waited)
	ret     bool
	id      protocol.StreamID
	err     error
}

type c15e3World struct {
	m        *streamsMap
	frames   []wire.Frame
	callers  []*c15e3Caller
	seq      int
	granted  int  // largest MAX_STREAMS value delivered
	closed   bool // CloseWithError has returned
	closing  bool // CloseWithError has been called (its effects may be visible)
	cancels  map[string]bool
	accepted []protocol.StreamID
	acceptEr error
	acceptRt bool
	incoming int
}

// c15e3Variant selects the thread mix.
type c15e3Variant struct {
	Name       string
	Callers    int // OpenStreamSync callers (the second one is cancellable)
	Opens      int // non-blocking OpenStream calls made one after the other by one more thread ("N")
	Events     []string
	Close      bool // the connection closes its streams map ...
	CloseAfter int  // ... after this many events
	Acceptor   bool
	Acceptor2  bool // a second goroutine blocked in AcceptStream at the same time
	Uni        bool
}

var c15e3Variants = func() []c15e3Variant {
	base := []c15e3Variant{
		{Name: "3callers-2credits-cancel", Callers: 3, Events: []string{"max1", "cancel", "max2"}},
		{Name: "3callers-3credits", Callers: 3, Events: []string{"max1", "max3"}},
		{Name: "2callers-stale-max", Callers: 2, Events: []string{"max2", "max1", "max2"}},
		{Name: "3callers-close", Callers: 3, Events: []string{"max1"}, Close: true},
		{Name: "2callers-cancel-close", Callers: 2, Events: []string{"cancel", "max1"}, Close: true},
		{Name: "acceptor-incoming-close", Callers: 1, Events: []string{"incoming", "max1", "incoming"}, Close: true, Acceptor: true},
		{Name: "uni-3callers-2credits-cancel", Callers: 3, Events: []string{"max1", "cancel", "max2"}, Uni: true},
		{Name: "2acceptors-2incoming", Callers: 0, Events: []string{"incoming", "incoming"}, Acceptor: true, Acceptor2: true},
		{Name: "2acceptors-incoming-close", Callers: 0, Events: []string{"incoming"}, Close: true, Acceptor: true, Acceptor2: true},
		// non-blocking OpenStream against queued OpenStreamSync callers while credit arrives
		{Name: "1caller-open-1credit", Callers: 1, Opens: 1, Events: []string{"max1"}},
		{Name: "uni-1caller-open-1credit", Callers: 1, Opens: 1, Events: []string{"max1"}, Uni: true},
		{Name: "2callers-open-2credits", Callers: 2, Opens: 1, Events: []string{"max1", "max2"}},
		{Name: "2callers-open-cancel-1credit", Callers: 2, Opens: 1, Events: []string{"cancel", "max1"}},
		{Name: "1caller-2opens-close", Callers: 1, Opens: 2, Events: []string{"max1"}, Close: true},
	}
	var out []c15e3Variant
	for _, v := range base {
		if !v.Close {
			out = append(out, v)
			continue
		}
		for pos := 0; pos <= len(v.Events); pos++ {
			c := v
			c.CloseAfter = pos
			c.Name = fmt.Sprintf("%s@%d", v.Name, pos)
			out = append(out, c)
		}
	}
	return out
}()

func c15e3Scenario(v c15e3Variant) func() *sched.Scenario {
	return func() *sched.Scenario {
		w := &c15e3World{cancels: map[string]bool{}}
		rtt := utils.NewRTTStats()
		cfc := flowcontrol.NewConnectionFlowController(1<<20, 1<<20, func(protocol.ByteCount) bool { return true }, rtt, utils.DefaultLogger)
		w.m = newStreamsMap(context.Background(), c15e3Sender{}, func(f wire.Frame) { w.frames = append(w.frames, f) },
			func(id protocol.StreamID) flowcontrol.StreamFlowController {
				return flowcontrol.NewStreamFlowController(id, cfc, 1<<16, 1<<16, 1<<16, rtt, utils.DefaultLogger)
			}, 4, 4, protocol.PerspectiveClient)
		st := protocol.StreamTypeBidi
		if v.Uni {
			st = protocol.StreamTypeUni
		}
		cctx, cancel := context.WithCancel(context.Background())
		var threads []sched.Thread
		for i := 0; i < v.Callers; i++ {
			c := &c15e3Caller{name: string(rune('A' + i))}
			w.callers = append(w.callers, c)
			ctx := context.Background()
			if i == 1 {
				ctx = cctx
			}
			threads = append(threads, sched.Thread{Name: c.name, Steps: []func(){func() {
				w.seq++
				c.started = w.seq
				if v.Uni {
					s, err := w.m.OpenUniStreamSync(ctx)
					if err == nil {
						c.id = s.StreamID()
					}
					c.err = err
				} else {
					s, err := w.m.OpenStreamSync(ctx)
					if err == nil {
						c.id = s.StreamID()
					}
					c.err = err
				}
				c.ret = true
			}}})
		}
		if v.Opens > 0 {
			var steps []func()
			for i := 0; i < v.Opens; i++ {
				c := &c15e3Caller{name: fmt.Sprintf("N#%d", i+1), nonblk: true}
				w.callers = append(w.callers, c)
				steps = append(steps, func() {
					w.seq++
					c.started = w.seq
					if v.Uni {
						s, err := w.m.OpenUniStream()
						if err == nil {
							c.id = s.StreamID()
						}
						c.err = err
					} else {
						s, err := w.m.OpenStream()
						if err == nil {
							c.id = s.StreamID()
						}
						c.err = err
					}
					c.ret = true
				})
			}
			threads = append(threads, sched.Thread{Name: "N", Steps: steps})
		}
		var ev []func()
		for _, e := range v.Events {
			switch e {
			case "max1", "max2", "max3":
				n := int(e[3] - '0')
				ev = append(ev, func() {
					if n > w.granted { // model first: the call's effects may become visible before it returns
						w.granted = n
					}
					w.m.HandleMaxStreamsFrame(&wire.MaxStreamsFrame{Type: st, MaxStreamNum: protocol.StreamNum(n)})
				})
			case "cancel":
				ev = append(ev, func() { w.cancels["B"] = true; cancel() })
			case "incoming":
				ev = append(ev, func() {
					id := protocol.StreamID(1 + 4*w.incoming) // server-initiated bidirectional
					w.incoming++
					w.m.HandleStreamFrame(&wire.StreamFrame{StreamID: id, Data: []byte{1}}, 1)
				})
			}
		}
		for i, f := range ev {
			f := f
			// the run loop handles no frames after the connection has closed its streams map
			ev[i] = func() {
				if !w.closing {
					f()
				}
			}
		}
		if v.Close {
			// frames are handled and the streams map is closed by the same goroutine (the
			// connection's run loop), so the close is a step of the event thread; it may come
			// after any number of the events (the remaining ones are then never handled)
			closeStep := func() {
				if w.closing { // already closed by Cleanup (an execution that was cut short by a verdict)
					return
				}
				w.closing = true
				w.m.CloseWithError(errC15E3Closed)
				w.closed = true
			}
			pos := min(v.CloseAfter, len(ev))
			ev = append(append(append([]func(){}, ev[:pos]...), closeStep), ev[pos:]...)
		}
		threads = append(threads, sched.Thread{Name: "ev", Steps: ev})
		if v.Acceptor {
			threads = append(threads, sched.Thread{Name: "acc", Steps: []func(){func() {
				s, err := w.m.AcceptStream(context.Background())
				if err == nil {
					w.accepted = append(w.accepted, s.StreamID())
				}
				w.acceptEr, w.acceptRt = err, true
			}, func() {
				s, err := w.m.AcceptStream(context.Background())
				if err == nil {
					w.accepted = append(w.accepted, s.StreamID())
				}
				w.acceptEr = err
			}}})
		}
		if v.Acceptor2 {
			threads = append(threads, sched.Thread{Name: "acc2", Steps: []func(){func() {
				s, err := w.m.AcceptStream(context.Background())
				if err == nil {
					w.accepted = append(w.accepted, s.StreamID())
				}
				w.acceptEr = err
			}}})
		}
		check := func(final bool, blocked []string) *explore.Fail {
			// ids handed out so far: strictly increasing in call order, right type, within the limit
			var got []*c15e3Caller
			for _, c := range w.callers {
				if c.ret && c.err == nil {
					got = append(got, c)
				}
			}
			sort.Slice(got, func(i, j int) bool { return got[i].id < got[j].id })
			for i, c := range got {
				first := protocol.StreamID(0)
				if v.Uni {
					first = 2
				}
				if c15e3UnlockPoints && !final {
					break
				}
				if c.id != first+protocol.StreamID(4*i) {
					return explore.Failf("e3:stream-ids", "%s: %d-th stream handed out has id %d, want %d", v.Name, i, c.id, first+protocol.StreamID(4*i))
				}
				if i+1 > w.granted {
					return explore.Failf("e3:limit-exceeded", "%s: %d streams opened with MAX_STREAMS %d", v.Name, i+1, w.granted)
				}
				// FIFO: a caller served with a lower id must not have called later than an
				// uncancelled caller that was served with a higher id while both were waiting
				for _, d := range got[i+1:] {
					if !c15e3UnlockPoints && d.waiting != 0 && c.waiting != 0 && d.waiting < c.waiting && !w.cancels[d.name] && !w.cancels[c.name] {
						return explore.Failf("e3:not-fifo", "%s: caller %s (began to wait %d-th) got stream %d, caller %s (began to wait %d-th) got stream %d", v.Name, c.name, c.waiting, c.id, d.name, d.waiting, d.id)
					}
				}
			}
			// no queue jumping: a caller must not be handed a stream while a caller that was
			// already waiting when it arrived is still unserved (or served with a higher id)
			for _, c := range got {
				if c15e3UnlockPoints && !final {
					break
				}
				for _, d := range w.callers {
					if d == c || d.waiting == 0 || d.waiting > c.started || w.cancels[d.name] {
						continue
					}
					if !d.ret || (d.err == nil && d.id > c.id) {
						return explore.Failf("e3:queue-jumped", "%s: caller %s arrived (%d) after caller %s had begun to wait (%d) but was handed stream %d first", v.Name, c.name, c.started, d.name, d.waiting, c.id)
					}
				}
			}
			for _, c := range w.callers {
				if !c.ret {
					continue
				}
				var limitErr *StreamLimitReachedError
				if c.nonblk && errors.As(c.err, &limitErr) {
					continue // "opening blocks or fails instead": the non-blocking call failed
				}
				if c.err != nil && !errors.Is(c.err, context.Canceled) && !errors.Is(c.err, errC15E3Closed) {
					return explore.Failf("e3:unexpected-error", "%s: caller %s returned %v", v.Name, c.name, c.err)
				}
				if errors.Is(c.err, context.Canceled) && !w.cancels[c.name] {
					return explore.Failf("e3:spurious-cancel", "%s: caller %s returned context.Canceled without a cancellation", v.Name, c.name)
				}
				if errors.Is(c.err, errC15E3Closed) && !w.closing {
					return explore.Failf("e3:spurious-close-error", "%s: caller %s returned the close error before CloseWithError", v.Name, c.name)
				}
			}
			// accepted streams: each once, in id order. With two goroutines in AcceptStream the order
			// in which the two calls RETURN is not the order in which they were served (a caller can
			// be descheduled between leaving the map's critical section and returning): the ids
			// handed out must then be the lowest ones, each once.
			acc := append([]protocol.StreamID(nil), w.accepted...)
			if v.Acceptor2 {
				slices.Sort(acc)
				if c15e3UnlockPoints && !final {
					acc = nil // a served caller may not have returned yet
				}
			}
			for i, id := range acc {
				if id != protocol.StreamID(1+4*i) {
					return explore.Failf("e3:accept-order", "%s: %d-th accepted stream is %d (accepted so far, in order of return: %v)", v.Name, i, id, w.accepted)
				}
			}
			// STREAMS_BLOCKED: at most once per limit value (the frames are queued inside the map's
			// critical section, so this holds at every granularity)
			blockedAt := map[protocol.StreamNum]bool{}
			for _, f := range w.frames {
				if sb, ok := f.(*wire.StreamsBlockedFrame); ok && sb.Type == st {
					if blockedAt[sb.StreamLimit] {
						return explore.Failf("e3:streams-blocked-duplicate", "%s: STREAMS_BLOCKED(%d) queued a second time for the same limit", v.Name, sb.StreamLimit)
					}
					blockedAt[sb.StreamLimit] = true
				}
			}
			if !final {
				return nil
			}
			// nothing can run any more: nobody may be left waiting for something that is there
			for _, b := range blocked {
				if w.closed {
					return explore.Failf("e3:blocked-after-close", "%s: thread %s is still blocked after CloseWithError", v.Name, b)
				}
				if b == "acc" || b == "acc2" {
					if len(w.accepted) < w.incoming {
						return explore.Failf("e3:lost-wakeup-accept", "%s: AcceptStream is blocked although %d of %d incoming streams are unaccepted", v.Name, w.incoming-len(w.accepted), w.incoming)
					}
					continue
				}
				if w.cancels[b] {
					return explore.Failf("e3:blocked-after-cancel", "%s: caller %s is still blocked after its context was cancelled", v.Name, b)
				}
				if len(got) < w.granted {
					return explore.Failf("e3:lost-wakeup", "%s: caller %s is blocked, nothing can run, but only %d of %d permitted streams are open", v.Name, b, len(got), w.granted)
				}
				// the caller waits at the peer's current limit: the peer must have been told
				if !blockedAt[protocol.StreamNum(w.granted)] {
					return explore.Failf("e3:streams-blocked-missing", "%s: caller %s is blocked at the peer's limit %d, nothing can run, but no STREAMS_BLOCKED was queued for this limit", v.Name, b, w.granted)
				}
			}
			return nil
		}
		return &sched.Scenario{
			Observe: func(blocked []string) {
				for _, b := range blocked {
					for _, c := range w.callers {
						if c.name == b && c.waiting == 0 {
							w.seq++
							c.waiting = w.seq
						}
					}
				}
			},
			Threads:   threads,
			AfterStep: func() *explore.Fail { return check(false, nil) },
			Final:     func(blocked []string) *explore.Fail { return check(true, blocked) },
			Cleanup: func() {
				cancel()
				if !w.closing { // the connection closes its streams map exactly once
					w.closing = true
					w.m.CloseWithError(errC15E3Closed)
					w.closed = true
				}
			},
			AfterCleanup: func(stuck []string) *explore.Fail {
				return explore.Failf("e3:blocked-after-close", "%s: threads %v are still blocked after CloseWithError and context cancellation", v.Name, stuck)
			},
			Outcome: func() string {
				var p []string
				for _, c := range w.callers {
					switch {
					case !c.ret:
						p = append(p, c.name+":blocked")
					case c.err != nil:
						p = append(p, c.name+":"+strings.SplitN(c.err.Error(), ":", 2)[0])
					default:
						p = append(p, fmt.Sprintf("%s:%d", c.name, c.id))
					}
				}
				return strings.Join(p, " ") + fmt.Sprintf(" acc=%d", len(w.accepted))
			},
		}
	}
}

// c15e3UnlockPoints is set by the lock-point target when every Unlock is a scheduler point as
// well: a call can then be descheduled between leaving the map's critical section and
// returning (or between enqueuing itself and blocking), so "has returned" / "is blocked" lag
// behind "was served" / "has enqueued". Oracles that compare the order of returns are then
// only evaluated when nothing can run any more, and the order in which callers were seen to
// block is not taken for the order in which they enqueued.
var c15e3UnlockPoints bool

type c15e3Replay struct {
	Variant int   `json:"variant"`
	Choices []int `json:"choices"`
}

func c15e3Part(t *testing.T) explore.Part {
	return explore.Part{
		Name: "e3-interleavings",
		Run: func(e explore.Env) *explore.Report {
			rep := &explore.Report{Level: "exploration", Exhaustive: true}
			outcomes := map[string]bool{}
			for vi, v := range c15e3Variants {
				explore.MarkCurrent(e, "e3-interleavings", c15e3Replay{Variant: vi})
				r := sched.Explore(t, e, 0, c15e3Scenario(v))
				rep.Evaluations += r.Executions
				rep.Transitions += r.Steps
				for o := range r.Outcomes {
					outcomes[v.Name+": "+o] = true
				}
				if r.Capped {
					rep.Exhaustive = false
					rep.Caps = append(rep.Caps, "deadline in "+v.Name)
				}
				if r.Fail != nil {
					rep.Violations = append(rep.Violations, explore.Violation{Key: r.Fail.Key, What: r.Fail.What, Replay: explore.JSON(c15e3Replay{vi, r.FailChoice}), Human: r.FailTrace})
				}
				rep.Samples = append(rep.Samples, fmt.Sprintf("%s: %d schedules", v.Name, r.Executions))
			}
			rep.Traces = rep.Transitions
			for o := range outcomes {
				rep.Outcomes = append(rep.Outcomes, o)
			}
			rep.OutcomesN = int64(len(rep.Outcomes))
			rep.States = rep.OutcomesN
			rep.Rule = fmt.Sprintf("every interleaving, at quiescence granularity (each call runs until it returns or durably blocks, decided by synctest.Wait), of the threads of %d scenarios on a real streamsMap: up to 3 OpenStreamSync callers (one cancellable), a thread of up to 2 non-blocking OpenStream calls, an event thread (MAX_STREAMS incl. stale values, cancellation, incoming streams), an AcceptStream caller, CloseWithError", len(c15e3Variants))
			rep.Bound = "all schedules of every scenario (no preemption inside a call; lock-point preemption is not built)"
			return rep
		},
		Replay: func(e explore.Env, raw json.RawMessage) *explore.Violation {
			var rp c15e3Replay
			if err := json.Unmarshal(raw, &rp); err != nil {
				t.Fatal(err)
			}
			f, trace := sched.Replay(t, c15e3Scenario(c15e3Variants[rp.Variant]), rp.Choices)
			if f == nil {
				return nil
			}
			return &explore.Violation{Key: f.Key, What: f.What, Human: trace}
		},
	}
}

func TestVerifC15E3(t *testing.T) {
	explore.Main("C15", []explore.Part{c15e3Part(t)}, func(msg string) { t.Fatal(msg) })
}
