package quic

// C15 E3, lock-point preemption: streams_map*.go are built against vsync, every mutex
// acquisition and release inside a call is a scheduler point, and all schedules with at most two
// preemptions are executed.

import (
	"encoding/json"
	"fmt"
	"slices"
	"testing"

	"github.com/refraction-networking/uquic/internal/verifmc/explore"
	"github.com/refraction-networking/uquic/internal/verifmc/sched"
	"github.com/refraction-networking/uquic/internal/verifmc/vsync"
)

func TestVerifC15E3LP(t *testing.T) {
	vsync.Hook = sched.Point
	explore.Main("C15", []explore.Part{
		c15e3LPPart(t, "e3-lockpoints", false),
		c15e3LPPart(t, "e3-lock-unlock-points", true),
	}, func(msg string) { t.Fatal(msg) })
}

// c15e3LPPart: unlock=false makes every Lock a scheduler point (the full oracles apply: a call
// that has been served has returned); unlock=true makes every Unlock one as well, with the
// order oracles evaluated at the end of an execution only (see c15e3UnlockPoints).
func c15e3LPPart(t *testing.T, name string, unlock bool) explore.Part {
	set := func() {
		c15e3UnlockPoints = unlock
		vsync.UnlockHook = nil
		if unlock {
			vsync.UnlockHook = sched.Point
		}
	}
	part := explore.Part{
		Name: name,
		Run: func(e explore.Env) *explore.Report {
			set()
			rep := &explore.Report{Level: "exploration", Exhaustive: true}
			outcomes := map[string]bool{}
			bound := 1
			if e.Thorough() {
				bound = 2
			}
			for vi, v := range c15e3Variants {
				if unlock && slices.Contains(v.Events, "cancel") {
					// a cancelled context and a wake-up can both be ready in OpenStreamSync's select,
					// which then picks at random: not a choice the explorer owns
					continue
				}
				explore.MarkCurrent(e, name, c15e3Replay{Variant: vi})
				r := sched.ExploreBounded(t, e, bound, 0, c15e3Scenario(v))
				rep.Evaluations += r.Executions
				rep.Transitions += r.Steps
				for o := range r.Outcomes {
					outcomes[v.Name+": "+o] = true
				}
				if r.Capped {
					rep.Exhaustive = false
					rep.Caps = append(rep.Caps, "deadline in "+v.Name)
				}
				if r.Fail != nil {
					rep.Violations = append(rep.Violations, explore.Violation{Key: r.Fail.Key, What: r.Fail.What, Replay: explore.JSON(c15e3Replay{vi, r.FailChoice}), Human: r.FailTrace})
				}
				rep.Samples = append(rep.Samples, fmt.Sprintf("%s: %d schedules", v.Name, r.Executions))
			}
			rep.Traces = rep.Transitions
			for o := range outcomes {
				rep.Outcomes = append(rep.Outcomes, o)
			}
			rep.OutcomesN = int64(len(rep.Outcomes))
			rep.States = rep.OutcomesN
			rep.Rule = fmt.Sprintf("the %d streamsMap scenarios (OpenStreamSync callers, non-blocking OpenStream calls, AcceptStream callers, event thread) with every mutex %s of streams_map*.go as a scheduler point (files import-rewritten to vsync from the working tree): every schedule with at most %d preemptions (switching away from a thread that could continue)", len(c15e3Variants), map[bool]string{false: "acquisition", true: "acquisition and release (order oracles evaluated at the end of each execution)"}[unlock], bound)
			rep.Bound = fmt.Sprintf("preemption bound %d completed", bound)
			return rep
		},
		Replay: func(e explore.Env, raw json.RawMessage) *explore.Violation {
			set()
			var rp c15e3Replay
			if err := json.Unmarshal(raw, &rp); err != nil {
				t.Fatal(err)
			}
			f, trace := sched.Replay(t, c15e3Scenario(c15e3Variants[rp.Variant]), rp.Choices)
			if f == nil {
				return nil
			}
			return &explore.Violation{Key: f.Key, What: f.What, Human: trace}
		},
	}
	return part
}
