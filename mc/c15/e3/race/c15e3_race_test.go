package quic

// C15 E3, free-running race pass. The lock-point exploration (e3-lockpoints) switches
// threads only at mutex acquisitions; that is sufficient only if the code has no
// unsynchronised shared accesses. The cooperative scheduler's hand-offs are
// happens-before edges and blind the race detector, so the same thread mix (the calls of
// c15e3Scenario without the model bookkeeping) is run here as ordinary goroutines under
// `go test -race`, many rounds per variant with a varying start order. This pass decides
// nothing about the property by itself (it samples schedules); it validates the
// assumption under which the exhaustive parts are exhaustive. A report of the race
// detector kills the worker ("WARNING: DATA RACE"), which the driver turns into a
// violation.

import (
	"context"
	"encoding/json"
	"fmt"
	"sync"
	"testing"
	"time"

	"github.com/refraction-networking/uquic/internal/flowcontrol"
	"github.com/refraction-networking/uquic/internal/protocol"
	"github.com/refraction-networking/uquic/internal/utils"
	"github.com/refraction-networking/uquic/internal/verifmc/explore"
	"github.com/refraction-networking/uquic/internal/wire"
)

func c15e3RaceRound(v c15e3Variant, round int) (returned int, stuck bool) {
	var mu sync.Mutex
	var frames []wire.Frame
	rtt := utils.NewRTTStats()
	cfc := flowcontrol.NewConnectionFlowController(1<<20, 1<<20, func(protocol.ByteCount) bool { return true }, rtt, utils.DefaultLogger)
	m := newStreamsMap(context.Background(), c15e3Sender{}, func(f wire.Frame) { mu.Lock(); frames = append(frames, f); mu.Unlock() },
		func(id protocol.StreamID) flowcontrol.StreamFlowController {
			return flowcontrol.NewStreamFlowController(id, cfc, 1<<16, 1<<16, 1<<16, rtt, utils.DefaultLogger)
		}, 4, 4, protocol.PerspectiveClient)
	st := protocol.StreamTypeBidi
	if v.Uni {
		st = protocol.StreamTypeUni
	}
	cctx, cancel := context.WithCancel(context.Background())
	defer cancel()
	var bodies []func()
	var ret sync.WaitGroup
	var nret int
	for i := 0; i < v.Callers; i++ {
		ctx := context.Background()
		if i == 1 {
			ctx = cctx
		}
		bodies = append(bodies, func() {
			if v.Uni {
				m.OpenUniStreamSync(ctx)
			} else {
				m.OpenStreamSync(ctx)
			}
			mu.Lock()
			nret++
			mu.Unlock()
		})
	}
	if v.Opens > 0 {
		bodies = append(bodies, func() {
			for i := 0; i < v.Opens; i++ {
				if v.Uni {
					m.OpenUniStream()
				} else {
					m.OpenStream()
				}
			}
		})
	}
	var ev []func()
	incoming := 0
	for _, e := range v.Events {
		switch e {
		case "max1", "max2", "max3":
			n := int(e[3] - '0')
			ev = append(ev, func() {
				m.HandleMaxStreamsFrame(&wire.MaxStreamsFrame{Type: st, MaxStreamNum: protocol.StreamNum(n)})
			})
		case "cancel":
			ev = append(ev, cancel)
		case "incoming":
			ev = append(ev, func() {
				id := protocol.StreamID(1 + 4*incoming)
				incoming++
				m.HandleStreamFrame(&wire.StreamFrame{StreamID: id, Data: []byte{1}}, 1)
			})
		}
	}
	if v.Close {
		pos := min(v.CloseAfter, len(ev))
		ev = append(append(append([]func(){}, ev[:pos]...), func() { m.CloseWithError(errC15E3Closed) }), ev[pos:]...)
		ev = ev[:pos+1] // the run loop handles no frames after the close
	}
	bodies = append(bodies, func() {
		for _, f := range ev {
			f()
			if round%3 == 1 {
				time.Sleep(time.Duration(round%7) * 10 * time.Microsecond)
			}
		}
	})
	if v.Acceptor {
		bodies = append(bodies, func() {
			m.AcceptStream(cctx)
			m.AcceptStream(cctx)
		})
	}
	if v.Acceptor2 {
		bodies = append(bodies, func() { m.AcceptStream(cctx) })
	}
	// start order rotates with the round
	for i := range bodies {
		b := bodies[(i+round)%len(bodies)]
		ret.Add(1)
		go func() { defer ret.Done(); b() }()
	}
	done := make(chan struct{})
	go func() { ret.Wait(); close(done) }()
	select {
	case <-done:
	case <-time.After(20 * time.Millisecond):
		// whoever is still blocked is released the way the connection does it
		cancel()
		if !v.Close {
			m.CloseWithError(errC15E3Closed)
		}
		// every call returns once the map is closed and the context cancelled; a caller that is
		// still blocked then would keep this process alive until the test timeout (30 s guard)
		select {
		case <-done:
		case <-time.After(30 * time.Second):
			stuck = true // the blocked goroutines are abandoned
		}
	}
	mu.Lock()
	defer mu.Unlock()
	_ = frames
	return nret, stuck
}

func c15e3RaceStuck(v c15e3Variant) string {
	return fmt.Sprintf("%s (free-running goroutines): calls are still blocked 30 s after CloseWithError and the cancellation of every context", v.Name)
}

func TestVerifC15E3Race(t *testing.T) {
	part := explore.Part{
		Name: "e3-race-pass",
		Run: func(e explore.Env) *explore.Report {
			rounds := 150
			if e.Thorough() {
				rounds = 2000
			}
			rep := &explore.Report{Level: "exploration", Exhaustive: false, Supporting: true}
			oc := map[string]bool{}
			for vi, v := range c15e3Variants {
				explore.MarkCurrent(e, "e3-race-pass", c15e3Replay{Variant: vi})
				for r := 0; r < rounds && !e.Expired(); r++ {
					n, stuck := c15e3RaceRound(v, r)
					rep.Evaluations++
					if stuck {
						rep.Violations = append(rep.Violations, explore.Violation{Key: "e3:blocked-after-close", What: c15e3RaceStuck(v), Replay: explore.JSON(c15e3Replay{Variant: vi})})
						break
					}
					oc[fmt.Sprintf("%s: %d callers returned before release", v.Name, n)] = true
				}
			}
			for o := range oc {
				rep.Outcomes = append(rep.Outcomes, o)
			}
			rep.OutcomesN = int64(len(rep.Outcomes))
			rep.Caps = append(rep.Caps, fmt.Sprintf("sampled: %d free-running rounds per scenario under the race detector (supporting pass, not exhaustive)", rounds))
			rep.Rule = fmt.Sprintf("the %d E3 thread mixes as ordinary goroutines under -race (no cooperative scheduler), %d rounds each with rotating start order; only the race detector judges", len(c15e3Variants), rounds)
			rep.Bound = "none (sampling; validates the no-unsynchronised-access assumption of e3-lockpoints)"
			return rep
		},
		Replay: func(e explore.Env, raw json.RawMessage) *explore.Violation {
			// a race report kills the worker; the driver counts that as the reproduction
			var rp c15e3Replay
			if err := json.Unmarshal(raw, &rp); err != nil {
				t.Fatal(err)
			}
			for r := 0; r < 3000; r++ {
				if _, stuck := c15e3RaceRound(c15e3Variants[rp.Variant], r); stuck {
					return &explore.Violation{Key: "e3:blocked-after-close", What: c15e3RaceStuck(c15e3Variants[rp.Variant])}
				}
			}
			return nil
		},
	}
	explore.Main("C15", []explore.Part{part}, func(msg string) { t.Fatal(msg) })
}
