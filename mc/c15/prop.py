# ./check configuration for C15 (merged by mc/props.py)
PROP = dict(
        pkg=".", test="TestVerifC15", files=["mc/c15/*.go"], libs=["explore", "canon"],
        level="model_checking", shards=1,
        level_text="Explicit-state model checking of the real streamsMap (both perspectives, real Stream/SendStream/ReceiveStream objects, real flow controllers; the control-frame queue and the streamSender are recorders, the recorder's onStreamCompleted calls DeleteStream exactly like connection.go) against a counting reference model of the stream-id ledger. Every transition is executed on the real code, so there is no model/code gap. Right level because the property quantifies over all interleavings of peer frames, local calls and completions, which is a finite space for small limits and a bounded id universe.",
        level_note="Trusted: the reference model in mc/c15 (id arithmetic taken from RFC 9000 2.1, a per-stream completion model of the two halves), the reflective canonicaliser (nothing that is data is dropped), bounded id universe (stream numbers up to limit+2..4) and depth bounds for the parts that do not close. Sequential part only: blocking OpenStreamSync callers are covered at quiescence granularity by the part 'sync-*' (testing/synctest), not under lock-point preemption.",
        technique="explicit-state BFS over the real implementation with reference-model oracle",
        deadline=dict(quick=90, thorough=900),
        rule="explicit-state BFS over the real streamsMap; successor = fresh instance + replay of the shortest path + one op",
        assumptions=["a call that the model says cannot block (Accept with a queued stream, Read after FIN/reset) is given 30 s of wall clock before it is declared blocked",
                     "peer frames carry 1 byte at offset 0 / final size 1, so that no flow-control or final-size error interferes with the stream-id discipline under test",
                     "flush = the send half's queued FIN / RESET_STREAM is popped and acknowledged in one step (per-stream atomic, interleaved freely between streams)"],
    )
