# ./check configuration for C15 (merged by mc/props.py)
PROP = dict(
        libs=["explore", "canon"], crash_is_violation=True,
        targets=[
            dict(name="e1", pkg=".", test="TestVerifC15", files=["mc/c15/*.go"]),
            dict(name="e3", pkg=".", test="TestVerifC15E3", files=["mc/c15/e3/*.go"], parts=["e3-interleavings"],
                 libs=["explore", "canon", "sched"]),
            dict(name="e3lp", pkg=".", test="TestVerifC15E3LP", files=["mc/c15/e3/*.go", "mc/c15/e3/lp/*.go"], parts=["e3-lockpoints", "e3-lock-unlock-points"],
                 libs=["explore", "canon", "sched", "vsync"],
                 rewrite={f: [('"sync"', 'sync "github.com/refraction-networking/uquic/internal/verifmc/vsync"')]
                          for f in ("streams_map.go", "streams_map_incoming.go", "streams_map_outgoing.go")}),
            dict(name="e3race", pkg=".", test="TestVerifC15E3Race", files=["mc/c15/e3/*.go", "mc/c15/e3/race/*.go"], parts=["e3-race-pass"],
                 libs=["explore", "canon", "sched"], race=True, env={"GORACE": "halt_on_error=1"}),
        ],
        level="model_checking", shards=1,
        level_text="Explicit-state model checking of the real streamsMap (both perspectives, real Stream/SendStream/ReceiveStream objects, real flow controllers; the control-frame queue and the streamSender are recorders, the recorder's onStreamCompleted calls DeleteStream exactly like connection.go) against a counting reference model of the stream-id ledger: BFS with canonical-state merging over peer frames / local calls / completions (parts direct-* run to closure, the others to a depth bound), plus an exhaustive enumeration of all operation sequences of a fixed length with blocking OpenStreamSync callers inside testing/synctest bubbles, run to quiescence after every operation (parts sync-*). Every transition is executed on the real code, so there is no model/code gap. Right level because the property quantifies over all interleavings of peer frames, local calls and completions, which is a finite space for small limits and a bounded id universe.",
        level_note="Trusted: the reference model in mc/c15 (id arithmetic taken from the RFC 9000 2.1 bit layout, a per-stream completion model of the two halves, a FIFO queue of waiting callers), the reflective canonicaliser (only the harness-owned recording sender, the never-updated RTT statistics and the logger are skipped), the bounded id universe (stream numbers up to limit+2 .. limit+10) and the depth bounds of the parts that do not close. E3 targets: e3-interleavings executes every order of the steps of 15 thread mixes on real goroutines at quiescence granularity; e3-lockpoints rebuilds streams_map*.go against a channel-based mutex whose acquisitions are scheduler points and executes every schedule with at most 1 (thorough: 2) preemptions. Scheduling only at synchronisation operations is sufficient only if there are no unsynchronised shared accesses: the supporting pass e3-race-pass runs the same thread mixes as free goroutines under `go test -race` (sampled; it decides nothing by itself and is excluded from the counts; a race report is a violation).",
        technique="explicit-state BFS over the real implementation with reference-model oracle; bounded-exhaustive operation sequences in synctest bubbles",
        deadline=dict(quick=150, thorough=900),
        rule="explicit-state BFS over the real streamsMap (successor = fresh instance + replay of the shortest path + one op); sync-* parts: every operation sequence of a fixed length on a fresh instance",
        assumptions=["a call that the model says cannot block (Accept with a queued stream after a first non-blocking attempt came back empty, Read after FIN/reset) is given 30 s of wall clock before it is declared blocked",
                     "peer frames carry 1 byte at offset 0 / final size 1, so that no flow-control or final-size error interferes with the stream-id discipline under test",
                     "flush = the send half's queued FIN / RESET_STREAM is popped and acknowledged in one step (per-stream atomic, interleaved freely between streams)",
                     "statement readings: 'credit is issued as streams fully complete' is checked both ways (never more than limit + fully completed streams; at least limit + completed-and-accepted streams); a non-blocking Open that fails with StreamLimitReachedError while peer credit is unused and nobody waits is a violation; gaps in locally opened ids would be tolerated (the statement only says strictly increasing)"],
    )
