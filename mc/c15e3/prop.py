_VS = [('"sync"', 'sync "github.com/refraction-networking/uquic/internal/verifmc/vsync"')]
PROP = dict(libs=["explore", "canon", "sched"],
    engine="E3 schedx", level="exploration", shards=1, crash_is_violation=True, deadline=dict(quick=60, thorough=300),
    targets=[
        dict(name="q", pkg=".", test="TestVerifC15E3", files=["mc/c15e3/*.go"], parts=["e3-interleavings"]),
        dict(name="lp", pkg=".", test="TestVerifC15E3LP", files=["mc/c15e3/*.go", "mc/c15e3/lp/*.go"], parts=["e3-lockpoints"],
             libs=["explore", "canon", "sched", "vsync"],
             rewrite={"streams_map.go": _VS, "streams_map_incoming.go": _VS, "streams_map_outgoing.go": _VS}),
    ],
    rule="x", level_text="x", level_note="x", technique="x")
