PROP = dict(pkg=".", test="TestVerifC15E3", files=["mc/c15e3/*.go"], libs=["explore", "canon", "sched"],
    engine="E3 schedx", level="exploration", shards=1, crash_is_violation=True, deadline=dict(quick=60, thorough=300),
    rule="x", level_text="x", level_note="x", technique="x")
