package quic

// C16 part "coalesced": what reaches a real connection out of ONE UDP datagram that
// coalesces several QUIC packets with different Destination Connection IDs.
//
// The other parts look at the routing table (Transport.packetHandlerMap) with single-packet
// datagrams. The table is only consulted for the FIRST packet of a datagram (RFC 9000,
// 12.2); for every further packet the connection itself has to decide whether the packet
// is addressed to it (connection.go handleCountedPacket: "coalesced packet has different
// destination connection ID"). Long header packets carry their own DCID length, so a
// packet for a foreign, differently sized ID can sit behind a packet for the connection's
// own (possibly zero-length) ID.
//
// Pipeline, all real: datagram -> Transport.handlePacket (socketless Transport as in the
// "transport" part, ID length = the connection's) -> packetHandlerMap lookup ->
// Conn.handlePacket (receive queue) -> Conn.handlePackets -> Conn.handleOnePacket ->
// handleCountedPacket -> handleLongHeaderPacket / handleShortHeaderPacket -> unpacker.
// Packets the connection queues for later decryption (keys not yet available) are fed
// back through handleCountedPacket once keys arrive, the way Conn.run does it. The Conn is
// built by the real constructors (newClientConnection / newConnection / newUClientConnection
// with a shipped zero-length-SCID spec); only the unpacker (no keys exist without a peer),
// the sendConn (no socket) and the qlog recorder are harness objects. The harness unpacker
// decrypts nothing: it notes the raw bytes it was handed and answers with one PING frame
// (or ErrKeysNotYetAvailable).
//
// Alphabet: perspective {client, server, spec-driven client} x local ID length {0, 4} x
// key availability {all levels, Initial only} x every datagram of 1..3 packets (thorough:
// ..4), packet = kind {Initial, Handshake, 0-RTT, 1-RTT short header} x DCID class {own
// ID, the client's original DCID (server: also routed), ID of another connection on the
// same Transport (same length), unknown ID of the same length, unknown ID of another
// length, 8-byte ID that starts with the own ID, empty}. Nothing follows a short header
// packet (it has no length field: the rest of the datagram is its payload).
//
// Oracle (statement: "Packets are routed to a connection for precisely its issued and not
// yet expired IDs ... a retired or foreign ID never reaches the connection"): every packet
// handed to the connection's unpacker — read from the raw bytes the unpacker received:
// long header: the DCID field; short header: the first <local ID length> bytes after the
// first byte, which is all a receiver can know — carries an ID the connection has issued
// (its source connection ID; server: also the client's original DCID, which stays routed
// until the handshake completes; nothing is retired in this part). Which qlog drop reason
// is recorded, and whether packets for an own ID behind a dropped packet are still
// processed, is not in the statement: both are outcome classes only.

import (
	"context"
	"encoding/hex"
	"encoding/json"
	"fmt"
	"net"
	"strings"
	"time"

	"github.com/refraction-networking/uquic/internal/handshake"
	"github.com/refraction-networking/uquic/internal/monotime"
	"github.com/refraction-networking/uquic/internal/protocol"
	"github.com/refraction-networking/uquic/internal/utils"
	"github.com/refraction-networking/uquic/internal/verifmc/explore"
	"github.com/refraction-networking/uquic/internal/wire"
	"github.com/refraction-networking/uquic/qlog"
	"github.com/refraction-networking/uquic/qlogwriter"
	tls "github.com/refraction-networking/utls"
)

// ---- harness collaborators ----

type c16SendConn struct{ local, remote net.Addr }

func (s *c16SendConn) Write([]byte, uint16, protocol.ECN) error { return nil }
func (s *c16SendConn) WriteTo([]byte, net.Addr) error           { return nil }
func (s *c16SendConn) Close() error                             { return nil }
func (s *c16SendConn) LocalAddr() net.Addr                      { return s.local }
func (s *c16SendConn) RemoteAddr() net.Addr                     { return s.remote }
func (s *c16SendConn) ChangeRemoteAddr(net.Addr, packetInfo)    {}
func (s *c16SendConn) capabilities() connCapabilities           { return connCapabilities{} }

var _ sendConn = &c16SendConn{}

type c16Recorder struct{ events []qlogwriter.Event }

func (r *c16Recorder) RecordEvent(ev qlogwriter.Event) { r.events = append(r.events, ev) }
func (r *c16Recorder) Close() error                    { return nil }

type c16Trace struct{ r *c16Recorder }

func (t *c16Trace) AddProducer() qlogwriter.Recorder { return t.r }
func (t *c16Trace) SupportsSchemas(string) bool      { return true }

// c16Seen: one packet as the unpacker received it.
type c16Seen struct {
	kind byte
	dcid protocol.ConnectionID
	ok   bool // false: answered ErrKeysNotYetAvailable
}

// c16Unpacker stands in for packetUnpacker.
type c16Unpacker struct {
	c       *Conn
	l       int  // local connection ID length
	allKeys bool // false: only Initial keys are available
	pn      [8]protocol.PacketNumber
	seen    []c16Seen
}

func c16KindOf(t protocol.PacketType) (byte, protocol.EncryptionLevel) {
	switch t {
	case protocol.PacketTypeInitial:
		return 'I', protocol.EncryptionInitial
	case protocol.PacketTypeHandshake:
		return 'H', protocol.EncryptionHandshake
	case protocol.PacketType0RTT:
		return 'Z', protocol.Encryption0RTT
	}
	return '?', 0
}

func (u *c16Unpacker) UnpackLongHeader(hdr *wire.Header, data []byte) (*unpackedPacket, error) {
	kind, lvl := c16KindOf(hdr.Type)
	explore.Must(kind != '?', "unpacker got a long header packet of type %v", hdr.Type)
	// the DCID as it stands in the bytes (RFC 8999: byte 5 = length, then the ID)
	explore.Must(len(data) >= 6 && len(data) >= 6+int(data[5]), "unpacker got a truncated long header packet")
	s := c16Seen{kind: kind, dcid: protocol.ParseConnectionID(data[6 : 6+int(data[5])]), ok: u.allKeys || kind == 'I'}
	u.seen = append(u.seen, s)
	if !s.ok {
		return nil, handshake.ErrKeysNotYetAvailable
	}
	if kind == 'I' && u.c.droppedInitialKeys {
		// the real unpacker's answer once the connection has discarded the Initial keys
		// (server: on the first Handshake packet it processes)
		return nil, handshake.ErrKeysDropped
	}
	u.pn[lvl]++
	return &unpackedPacket{
		encryptionLevel: lvl,
		hdr:             &wire.ExtendedHeader{Header: *hdr, PacketNumber: u.pn[lvl], PacketNumberLen: protocol.PacketNumberLen1},
		data:            []byte{0x01}, // PING
	}, nil
}

func (u *c16Unpacker) UnpackShortHeader(_ monotime.Time, data []byte) (protocol.PacketNumber, protocol.PacketNumberLen, protocol.KeyPhaseBit, []byte, error) {
	explore.Must(len(data) >= 1+u.l, "unpacker got a truncated short header packet")
	s := c16Seen{kind: 'S', dcid: protocol.ParseConnectionID(data[1 : 1+u.l]), ok: u.allKeys}
	u.seen = append(u.seen, s)
	if !s.ok {
		return 0, 0, 0, nil, handshake.ErrKeysNotYetAvailable
	}
	u.pn[protocol.Encryption1RTT]++
	return u.pn[protocol.Encryption1RTT], protocol.PacketNumberLen1, protocol.KeyPhaseZero, []byte{0x01}, nil
}

var _ unpacker = &c16Unpacker{}

// ---- cases ----

type c16CoalPkt struct {
	K string `json:"k"` // I, H, Z, S
	C string `json:"c"` // DCID class
}

type c16CoalCase struct {
	Persp string       `json:"persp"` // client, server, uclient
	L     int          `json:"l"`
	Keys  string       `json:"keys"` // all, initial
	Pkts  []c16CoalPkt `json:"pkts"`
}

func (c c16CoalCase) String() string {
	var l []string
	for _, p := range c.Pkts {
		l = append(l, p.K+":"+p.C)
	}
	return fmt.Sprintf("%s len=%d keys=%s [%s]", c.Persp, c.L, c.Keys, strings.Join(l, " "))
}

var (
	c16OtherConnCID = protocol.ParseConnectionID([]byte{0xC0, 0x01, 0x16, 0x04})
	c16Foreign8CID  = protocol.ParseConnectionID([]byte{0xEE, 0xEE, 0x16, 0x05, 0xEE, 0xEE, 0x16, 0x05})
)

type c16CoalClass struct {
	name   string
	cid    protocol.ConnectionID
	issued bool // model: this connection issued the ID (it is in the routing table for it)
}

// c16CoalClasses: the DCID classes of one configuration, simplest first.
func c16CoalClasses(persp string, l int, thorough bool) []c16CoalClass {
	own := c16OwnCID(0, l)
	cl := []c16CoalClass{{"own", own, true}}
	if persp == "server" {
		cl = append(cl, c16CoalClass{"origdcid", c16ClientDCID, true})
	}
	if l > 0 {
		cl = append(cl,
			c16CoalClass{"otherconn", c16OtherConnCID, false}, // same length, routed to another connection
			c16CoalClass{"unknown", c16ForeignCID, false},     // same length, nobody's
			c16CoalClass{"foreign8", c16Foreign8CID, false},   // another length
			c16CoalClass{"empty", protocol.ConnectionID{}, false},
		)
		if thorough {
			cl = append(cl, c16CoalClass{"own+tail", protocol.ParseConnectionID(append(append([]byte{}, own.Bytes()...), 0x16, 0x06, 0x16, 0x06)), false})
		}
	} else {
		cl = append(cl,
			c16CoalClass{"foreign4", c16ForeignCID, false},
			c16CoalClass{"foreign8", c16Foreign8CID, false},
		)
	}
	return cl
}

func c16CoalCases(thorough bool) []c16CoalCase {
	var out []c16CoalCase
	maxN := 3
	if thorough {
		maxN = 4
	}
	for _, persp := range []string{"client", "server", "uclient"} {
		for _, l := range []int{0, 4} {
			if persp == "uclient" && l != 0 {
				continue // the shipped specs that fix the SCID use the empty one
			}
			cl := c16CoalClasses(persp, l, thorough)
			var one []c16CoalPkt
			for _, k := range []string{"I", "H", "Z", "S"} {
				for _, c := range cl {
					one = append(one, c16CoalPkt{k, c.name})
				}
			}
			var seqs [][]c16CoalPkt
			var rec func(prefix []c16CoalPkt)
			rec = func(prefix []c16CoalPkt) {
				if len(prefix) > 0 {
					seqs = append(seqs, append([]c16CoalPkt{}, prefix...))
				}
				if len(prefix) == maxN || (len(prefix) > 0 && prefix[len(prefix)-1].K == "S") {
					return
				}
				for _, p := range one {
					rec(append(prefix, p))
				}
			}
			rec(nil)
			for _, keys := range []string{"all", "initial"} {
				for _, s := range seqs {
					out = append(out, c16CoalCase{Persp: persp, L: l, Keys: keys, Pkts: s})
				}
			}
		}
	}
	return out
}

var (
	c16CoalRemote = &net.UDPAddr{IP: net.IPv4(192, 0, 2, 1), Port: 4433}
	c16CoalLocal  = &net.UDPAddr{IP: net.IPv4(127, 0, 0, 1), Port: 1234}
)

// c16CoalDatagram serialises the packets of the case, as a peer (or an off-path sender)
// would: long headers with wire.ExtendedHeader.Append, short header with
// wire.AppendShortHeader, 20 bytes of payload each.
func c16CoalDatagram(c c16CoalCase, classes map[string]c16CoalClass, peerSCID protocol.ConnectionID) []byte {
	payload := []byte("\x5a\x5a\x5a\x5a\x5a\x5a\x5a\x5a\x5a\x5a\x5a\x5a\x5a\x5a\x5a\x5a\x5a\x5a\x5a\x5a")
	var d []byte
	for i, p := range c.Pkts {
		cls, ok := classes[p.C]
		explore.Must(ok, "unknown DCID class %q", p.C)
		var err error
		if p.K == "S" {
			d, err = wire.AppendShortHeader(d, cls.cid, protocol.PacketNumber(i+1), protocol.PacketNumberLen1, protocol.KeyPhaseZero)
			explore.Must(err == nil, "AppendShortHeader: %v", err)
			d = append(d, payload...)
			continue
		}
		h := &wire.ExtendedHeader{
			Header: wire.Header{
				DestConnectionID: cls.cid,
				SrcConnectionID:  peerSCID,
				Version:          protocol.Version1,
				Length:           protocol.ByteCount(1 + len(payload)),
			},
			PacketNumber:    protocol.PacketNumber(i + 1),
			PacketNumberLen: protocol.PacketNumberLen1,
		}
		switch p.K {
		case "I":
			h.Type = protocol.PacketTypeInitial
		case "H":
			h.Type = protocol.PacketTypeHandshake
		case "Z":
			h.Type = protocol.PacketType0RTT
		default:
			explore.Must(false, "unknown packet kind %q", p.K)
		}
		d, err = h.Append(d, protocol.Version1)
		explore.Must(err == nil, "ExtendedHeader.Append: %v", err)
		d = append(d, payload...)
	}
	return d
}

func c16CoalRun(c c16CoalCase) explore.CaseResult {
	res := explore.CaseResult{Replay: c, Execs: 1, Trans: int64(len(c.Pkts)), Human: []string{c.String()}}
	classes := map[string]c16CoalClass{}
	issued := map[protocol.ConnectionID]bool{}
	for _, cl := range c16CoalClasses(c.Persp, c.L, true) {
		classes[cl.name] = cl
		if cl.issued {
			issued[cl.cid] = true
		}
	}

	// the part of Transport.init that does not need a socket (as in the "transport" part)
	tr := &Transport{
		handlers:            map[protocol.ConnectionID]packetHandler{},
		resetTokens:         map[protocol.StatelessResetToken]packetHandler{},
		closeQueue:          make(chan closePacket, 4),
		statelessResetQueue: make(chan receivedPacket, 4),
		connIDLen:           c.L,
		logger:              utils.DefaultLogger,
	}
	hm := (*packetHandlerMap)(tr)
	src := c16OwnCID(0, c.L)
	peerSCID := c16PeerCID(0, false)
	rec := &c16Recorder{}
	sc := &c16SendConn{local: c16CoalLocal, remote: c16CoalRemote}
	conf := populateConfig(&Config{DisablePathMTUDiscovery: true})
	var conn *Conn
	switch c.Persp {
	case "client":
		// transport.go doDial
		wc := newClientConnection(context.Background(), sc, hm, c16ClientDCID, src, &c16IDGen{l: c.L},
			newStatelessResetter(&c16ResetterKey), conf, &tls.Config{ServerName: "c16.test"}, 0, false, false,
			&c16Trace{rec}, utils.DefaultLogger, protocol.Version1)
		conn = wc.Conn
		tr.handlers[src] = conn
	case "uclient":
		spec, err := QUICID2Spec(QUICChrome_115)
		explore.Must(err == nil, "QUICID2Spec: %v", err)
		wc := newUClientConnection(context.Background(), sc, hm, c16ClientDCID, src, &c16IDGen{l: c.L},
			newStatelessResetter(&c16ResetterKey), conf, &tls.Config{ServerName: "c16.test"}, 0, false, false,
			&c16Trace{rec}, utils.DefaultLogger, protocol.Version1, &spec)
		conn = wc.Conn
		tr.handlers[src] = conn
	case "server":
		// server.go handleInitialImpl
		ctx, cancel := context.WithCancelCause(context.Background())
		wc := newConnection(ctx, cancel, sc, hm, c16ClientDCID, nil, c16ClientDCID, peerSCID, src, &c16IDGen{l: c.L},
			newStatelessResetter(&c16ResetterKey), conf, &tls.Config{}, handshake.NewTokenGenerator(handshake.TokenProtectorKey{}),
			false, 10*time.Millisecond, &c16Trace{rec}, utils.DefaultLogger, protocol.Version1)
		conn = wc.Conn
		explore.Must(hm.AddWithConnID(c16ClientDCID, src, conn), "AddWithConnID failed on an empty transport")
	default:
		explore.Must(false, "unknown perspective %q", c.Persp)
	}
	explore.Must(conn.srcConnIDLen == c.L, "connection has ID length %d, want %d", conn.srcConnIDLen, c.L)
	other := &c16Conn{}
	if c.L > 0 {
		tr.handlers[c16OtherConnCID] = other // another connection on the same Transport
	}
	// model == routing table before the datagram (the "transport" part checks this over histories)
	for id, h := range tr.handlers {
		explore.Must((h == packetHandler(conn)) == issued[id], "routing table entry %s does not match the model", id)
	}
	up := &c16Unpacker{c: conn, l: c.L, allKeys: c.Keys == "all"}
	conn.unpacker = up
	rec.events = nil

	raw := c16CoalDatagram(c, classes, peerSCID)
	buf := getPacketBuffer()
	buf.Data = append(buf.Data[:0], raw...)
	tr.handlePacket(receivedPacket{buffer: buf, data: buf.Data, remoteAddr: c16CoalRemote, rcvTime: c16TimeBase})

	var herr error
	routed := !conn.receivedPackets.Empty()
	if routed {
		_, herr = conn.handlePackets()
	}
	buffered := len(conn.undecryptablePackets)
	if herr == nil && buffered > 0 {
		// keys arrive: connection.go handleHandshakeEvents (EventReceivedReadKeys) + run loop, step 1
		up.allKeys = true
		queue := conn.undecryptablePackets
		conn.undecryptablePackets = nil
		for _, p := range queue {
			if _, herr = conn.handleCountedPacket(p.receivedPacket, p.datagramID); herr != nil {
				break
			}
		}
	}

	// oracle
	var reach []string
	for _, s := range up.seen {
		tag := "foreign"
		if issued[s.dcid] {
			tag = "issued"
		}
		if !s.ok {
			tag += "(nokeys)"
		}
		reach = append(reach, fmt.Sprintf("%c:%s", s.kind, tag))
		if !issued[s.dcid] && res.Fail == nil {
			first := "-"
			if len(c.Pkts) > 0 {
				first = c.Pkts[0].K + ":" + c.Pkts[0].C
			}
			cls := "?"
			for _, cl := range classes {
				if cl.cid == s.dcid {
					cls = cl.name
				}
			}
			res.Fail = explore.Failf(
				fmt.Sprintf("foreign-id-reached-connection:%s:len=%d:%c:%s:behind=%s", c.Persp, c.L, s.kind, cls, first),
				"%s: a %c packet with Destination Connection ID %s (len %d) was handed to the unpacker of a connection that issued only %s; datagram %s",
				c, s.kind, hex.EncodeToString(s.dcid.Bytes()), s.dcid.Len(), c16IssuedList(issued), hex.EncodeToString(raw))
		}
	}
	var drops []string
	for _, ev := range rec.events {
		if d, ok := ev.(qlog.PacketDropped); ok {
			drops = append(drops, string(d.Trigger))
		}
	}
	// outcome class: DCID classes by position (kinds folded), what reached the unpacker, drop reasons
	var shape []string
	for _, p := range c.Pkts {
		x := "f"
		if classes[p.C].issued {
			x = "i"
		}
		if p.K == "S" {
			x += "s"
		}
		shape = append(shape, x)
	}
	res.Outcome = fmt.Sprintf("%s len=%d keys=%s dcids=%s routed=%v other=%d reach=[%s] drops=[%s] buffered=%d err=%v",
		c.Persp, c.L, c.Keys, strings.Join(shape, ","), routed, other.handled.Load(), strings.Join(reach, " "), strings.Join(drops, ","), buffered, herr != nil)
	return res
}

func c16IssuedList(m map[protocol.ConnectionID]bool) string {
	var l []string
	for _, cl := range []protocol.ConnectionID{{}, c16OwnCID(0, 4), c16ClientDCID} {
		if m[cl] {
			l = append(l, fmt.Sprintf("%q", hex.EncodeToString(cl.Bytes())))
		}
	}
	return "{" + strings.Join(l, ", ") + "}"
}

func c16CoalPart(name string) explore.Part {
	return explore.Part{
		Name: name,
		Run: func(e explore.Env) *explore.Report {
			e = c16Slice(e, name)
			cases := c16CoalCases(e.Thorough())
			rep := explore.RunCases(e, len(cases), 0, true, func(i int) explore.CaseResult { return c16CoalRun(cases[i]) })
			maxN := 3
			if e.Thorough() {
				maxN = 4
			}
			rep.Rule = "explicit cases: every datagram of 1.." + fmt.Sprint(maxN) + " coalesced packets, packet = {Initial, Handshake, 0-RTT, 1-RTT} x DCID class {own, client's original DCID (server), another connection's ID, unknown same length, unknown other length, empty / own+tail}, x {client, server, spec-driven client} x local ID length {0, 4} x keys {all, Initial only}; real Transport.handlePacket -> real Conn.handlePackets -> harness unpacker; queued undecryptable packets are fed back once keys arrive"
			rep.Bound = fmt.Sprintf("%d datagrams", len(cases))
			for _, i := range []int{0, len(cases) / 3, len(cases) - 1} {
				cr := c16CoalRun(cases[i])
				rep.Samples = append(rep.Samples, map[string]any{"case": cases[i].String(), "outcome": cr.Outcome})
			}
			return rep
		},
		Replay: func(e explore.Env, raw json.RawMessage) *explore.Violation {
			var c c16CoalCase
			var idx int
			if json.Unmarshal(raw, &idx) == nil { // a case that panicked is recorded by its index
				cases := c16CoalCases(e.Thorough())
				explore.Must(idx >= 0 && idx < len(cases), "bad replay index %d", idx)
				c = cases[idx]
			} else {
				explore.Must(json.Unmarshal(raw, &c) == nil, "bad replay %s", raw)
			}
			cr := c16CoalRun(c)
			if cr.Fail == nil {
				return nil
			}
			return &explore.Violation{Key: cr.Fail.Key, What: cr.Fail.What, Replay: raw, Human: cr.Human}
		},
	}
}
