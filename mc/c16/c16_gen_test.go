package quic

// C16 parts "gen-server", "gen-client", "gen-zerolen": explicit-state search over the real
// connIDGenerator (connection IDs this endpoint issues) wired, exactly as connection.go
// wires it, to a harness connRunner that keeps the routing set the way the real
// packetHandlerMap does (Add does not overwrite, Remove deletes, ReplaceWithClosed swaps
// in a closed stand-in and deletes the IDs when the closing period is over). The harness
// owns the clock.
//
// Reference model: ledger of the IDs announced with NEW_CONNECTION_ID (plus sequence
// number 0), the set the peer retired with the expiry the connection passed in, the
// peer's active_connection_id_limit, handshake state.
//
// Oracle:
//   limit    issued − retired ≤ the peer's active_connection_id_limit, at every step;
//   routing  at every step the IDs routed to the connection on its own transport are
//            precisely: issued and not retired, retired and not yet expired (as of the last
//            RemoveRetiredConnIDs), and on a server the client's original destination ID
//            until handshake completion + its expiry. On a transport added later
//            (AddConnRunner) every unretired issued ID is routed and nothing else than the
//            set above;
//   close    once the closing period is over (immediately for RemoveAll) no ID is left in
//            any routing table.

import (
	"fmt"
	"sort"
	"strings"
	"time"

	"github.com/refraction-networking/uquic/internal/monotime"
	"github.com/refraction-networking/uquic/internal/protocol"
	"github.com/refraction-networking/uquic/internal/verifmc/explore"
	"github.com/refraction-networking/uquic/internal/wire"
)

const (
	c16TimeBase    = monotime.Time(1_000_000_000)
	c16Tick        = time.Millisecond
	c16ClosePeriod = 2 // ticks
)

type c16GenCfg struct {
	server bool
	zero   bool // this endpoint uses zero-length connection IDs
}

// c16IDGen is a deterministic ConnectionIDGenerator.
type c16IDGen struct {
	n, l int
}

func c16OwnCID(n, l int) protocol.ConnectionID {
	if l == 0 {
		return protocol.ConnectionID{}
	}
	return protocol.ParseConnectionID([]byte{0xA0, byte(n), 0x16, 0x01})
}

func (g *c16IDGen) GenerateConnectionID() (ConnectionID, error) {
	g.n++
	return c16OwnCID(g.n, g.l), nil
}
func (g *c16IDGen) ConnectionIDLen() int { return g.l }

var (
	c16ClientDCID  = protocol.ParseConnectionID([]byte{0xDC, 0xDC, 0x16, 0x02, 0xDC, 0xDC, 0x16, 0x02})
	c16ForeignCID  = protocol.ParseConnectionID([]byte{0xEE, 0xEE, 0x16, 0x03})
	c16ResetterKey = StatelessResetKey{1, 6, 1, 6}
)

type c16Timer struct {
	ids []protocol.ConnectionID
	at  int // tick
}

// c16Runner is the harness connRunner: a routing table with the semantics of the real
// packetHandlerMap.
type c16Runner struct {
	now    *int
	routes map[protocol.ConnectionID]byte // 'L' live connection, 'c' closed-local, 'r' closed-remote stand-in
	timers []c16Timer
	adds   int
	rems   int
	repl   int
}

var _ connRunner = &c16Runner{}

func (r *c16Runner) Add(id protocol.ConnectionID, _ packetHandler) bool {
	r.adds++
	if _, ok := r.routes[id]; ok {
		return false
	}
	r.routes[id] = 'L'
	return true
}
func (r *c16Runner) Remove(id protocol.ConnectionID) { r.rems++; delete(r.routes, id) }
func (r *c16Runner) ReplaceWithClosed(ids []protocol.ConnectionID, pkt []byte, expiry time.Duration) {
	r.repl++
	k := byte('r')
	if pkt != nil {
		k = 'c'
	}
	for _, id := range ids {
		r.routes[id] = k
	}
	r.timers = append(r.timers, c16Timer{ids: append([]protocol.ConnectionID{}, ids...), at: *r.now + int(expiry/c16Tick)})
}
func (r *c16Runner) AddResetToken(protocol.StatelessResetToken, packetHandler) {}
func (r *c16Runner) RemoveResetToken(protocol.StatelessResetToken)             {}

func (r *c16Runner) fire() {
	var keep []c16Timer
	for _, t := range r.timers {
		if t.at > *r.now {
			keep = append(keep, t)
			continue
		}
		for _, id := range t.ids {
			delete(r.routes, id)
		}
	}
	r.timers = keep
}

func (r *c16Runner) dump() string {
	l := make([]string, 0, len(r.routes))
	var sb strings.Builder
	for id, k := range r.routes {
		sb.Reset()
		c16PutCID(&sb, id)
		sb.WriteByte(k)
		l = append(l, sb.String())
	}
	sort.Strings(l)
	s := strings.Join(l, ",")
	for _, t := range r.timers {
		var ids []string
		for _, id := range t.ids {
			ids = append(ids, id.String())
		}
		sort.Strings(ids) // ReplaceWithClosed lists the IDs in map-iteration order
		s += fmt.Sprintf(" T%d%v", t.at, ids)
	}
	return s
}

type c16Pending struct {
	cid protocol.ConnectionID
	at  monotime.Time
}

// c16GenBounds is the alphabet of one tier.
type c16GenBounds struct {
	capSeq    uint64 // Retire is offered while the highest issued sequence number is below this
	maxT      int    // clock ticks while the connection is open
	allSeq    bool   // Retire for every seq 0..highest+1 (else 0, 1, 2, highest, highest+1)
	hcDelay   int    // SetHandshakeComplete expiry variants now+1..now+hcDelay
	setmaxMax int    // SetMaxActiveConnIDs calls per history
}

type c16Gen struct {
	cfg   c16GenCfg
	g     *connIDGenerator
	idgen *c16IDGen
	c16GenBounds
	setmaxN int
	tick    int
	run     []*c16Runner
	frames  []*wire.NewConnectionIDFrame // queued in the current step
	otherF  int

	// model
	issued  map[uint64]protocol.ConnectionID
	retired map[uint64]bool
	pending []c16Pending
	limit   int
	hc      bool
	phase   int // 0 open, 1 closing period running, 2 finished
	closeAt int
	outcome string
	ocOp    explore.Op
	ocRes   string
	ocUnret int
}

func (in *c16Gen) nowT() monotime.Time { return c16TimeBase.Add(time.Duration(in.tick) * c16Tick) }

func (in *c16Gen) callbacks(r *c16Runner) connRunnerCallbacks {
	// as in connection.go:303-307 / 432-436
	return connRunnerCallbacks{
		AddConnectionID:    func(id protocol.ConnectionID) { r.Add(id, nil) },
		RemoveConnectionID: r.Remove,
		ReplaceWithClosed:  r.ReplaceWithClosed,
	}
}

func newC16Gen(cfg c16GenCfg, b c16GenBounds) *c16Gen {
	in := &c16Gen{cfg: cfg, c16GenBounds: b, issued: map[uint64]protocol.ConnectionID{}, retired: map[uint64]bool{}}
	l := 4
	if cfg.zero {
		l = 0
	}
	in.idgen = &c16IDGen{l: l}
	r0 := &c16Runner{now: &in.tick, routes: map[protocol.ConnectionID]byte{}}
	in.run = []*c16Runner{r0}
	src := c16OwnCID(0, l)
	var dcid *protocol.ConnectionID
	// what the transport does before the connection exists: server.go AddWithConnID(clientDestConnID, srcConnID),
	// transport.go doDial handlers[srcConnID] = conn
	r0.routes[src] = 'L'
	if cfg.server {
		d := c16ClientDCID
		dcid = &d
		r0.routes[d] = 'L'
	}
	in.issued[0] = src
	in.g = newConnIDGenerator(r0, src, dcid, newStatelessResetter(&c16ResetterKey), in.callbacks(r0),
		func(f wire.Frame) {
			if n, ok := f.(*wire.NewConnectionIDFrame); ok {
				in.frames = append(in.frames, n)
				return
			}
			in.otherF++
		}, in.idgen)
	return in
}

func (in *c16Gen) highest() uint64 {
	h := uint64(0)
	for s := range in.issued {
		h = max(h, s)
	}
	return h
}

func (in *c16Gen) Ops() []explore.Op {
	switch in.phase {
	case 2:
		return nil
	case 1:
		return []explore.Op{{N: "tick"}}
	}
	var ops []explore.Op
	if in.tick < in.maxT {
		ops = append(ops, explore.Op{N: "tick"})
	}
	ops = append(ops, explore.Op{N: "rm"})
	if !in.hc {
		for d := 1; d <= in.hcDelay; d++ {
			ops = append(ops, explore.Op{N: "hc", A: d})
		}
	}
	// the peer's limit arrives with its transport parameters: once, or twice (remembered
	// 0-RTT parameters, then the handshake's, which must not be smaller)
	if in.setmaxN < in.setmaxMax {
		for l := max(in.limit, 2); l <= 8; l++ {
			ops = append(ops, explore.Op{N: "setmax", A: l})
		}
	}
	h := in.highest()
	if h < in.capSeq {
		for s := uint64(0); s <= h+1; s++ {
			if !in.allSeq && s > 2 && s < h {
				continue
			}
			ops = append(ops, explore.Op{N: "retire", A: int(s), C: 1})
			if s <= h {
				ops = append(ops, explore.Op{N: "retire", A: int(s), C: 2}, explore.Op{N: "retire", A: int(s), B: 1, C: 1})
			}
		}
	}
	if len(in.run) == 1 {
		ops = append(ops, explore.Op{N: "addrunner"})
	}
	ops = append(ops, explore.Op{N: "close", A: 0}, explore.Op{N: "close", A: 1}, explore.Op{N: "close", A: 2})
	return ops
}

func (in *c16Gen) Apply(op explore.Op) *explore.Fail {
	g := in.g
	in.frames, in.otherF = nil, 0
	in.outcome = ""
	for _, r := range in.run {
		r.adds, r.rems, r.repl = 0, 0, 0
	}
	res := ""
	switch op.N {
	case "tick":
		in.tick++
		for _, r := range in.run {
			r.fire()
		}
		if in.phase == 1 && in.tick >= in.closeAt+c16ClosePeriod {
			in.phase = 2
			return in.checkEmpty(op, "closing period over")
		}
	case "rm":
		now := in.nowT()
		g.RemoveRetiredConnIDs(now)
		var keep []c16Pending
		for _, p := range in.pending {
			if p.at.After(now) {
				keep = append(keep, p)
			}
		}
		res = fmt.Sprintf("expired=%d", len(in.pending)-len(keep))
		in.pending = keep
	case "hc":
		at := in.nowT().Add(time.Duration(op.A) * c16Tick)
		g.SetHandshakeComplete(at)
		if in.cfg.server {
			in.pending = append(in.pending, c16Pending{c16ClientDCID, at})
		}
		in.hc = true
	case "setmax":
		err := g.SetMaxActiveConnIDs(uint64(op.A))
		in.limit = op.A
		in.setmaxN++
		if err != nil {
			in.phase = 2
			in.outcome = "setmax:error"
			return nil
		}
	case "retire":
		seq := uint64(op.A)
		sentWith := c16ForeignCID
		if op.B == 1 || in.cfg.zero {
			// the RETIRE_CONNECTION_ID frame travelled in a packet addressed to the very ID it retires
			// (with zero-length IDs every packet is)
			sentWith = in.issued[seq]
		}
		at := in.nowT().Add(time.Duration(op.C) * c16Tick)
		err := g.Retire(seq, sentWith, at)
		if err != nil {
			// the connection is closed with this error; the statement does not say when a
			// RETIRE_CONNECTION_ID frame has to be refused
			in.phase = 2
			_, known := in.issued[seq]
			in.outcome = fmt.Sprintf("retire:%s issued=%v retired=%v own=%v", c16ErrClass(err), known, in.retired[seq], op.B == 1)
			return nil
		}
		cid, ok := in.issued[seq]
		res = fmt.Sprintf("issued=%v already=%v", ok, in.retired[seq])
		if ok && !in.retired[seq] {
			in.retired[seq] = true
			in.pending = append(in.pending, c16Pending{cid, at})
		}
	case "addrunner":
		r := &c16Runner{now: &in.tick, routes: map[protocol.ConnectionID]byte{}}
		in.run = append(in.run, r)
		g.AddConnRunner(r, in.callbacks(r))
	case "close":
		switch op.A {
		case 0: // closed by the peer
			g.ReplaceWithClosed(nil, c16ClosePeriod*c16Tick)
		case 1: // closed locally, CONNECTION_CLOSE packet is retransmitted by the stand-in
			g.ReplaceWithClosed([]byte{0xcc}, c16ClosePeriod*c16Tick)
		case 2: // immediate / before the first packet
			g.RemoveAll()
		}
		in.closeAt = in.tick
		in.phase = 1
		standins := 0
		for _, r := range in.run {
			for _, k := range r.routes {
				if k != 'L' {
					standins++
				}
			}
		}
		in.outcome = fmt.Sprintf("close(%d) standins=%d routed0=%d", op.A, standins, len(in.run[0].routes))
		if op.A == 2 {
			in.phase = 2
			return in.checkEmpty(op, "RemoveAll")
		}
		return nil
	default:
		explore.Must(false, "unknown op %v", op)
	}

	// ledger of announced IDs
	for _, f := range in.frames {
		if _, dup := in.issued[f.SequenceNumber]; dup {
			return explore.Failf("seq-reissued", "%v: NEW_CONNECTION_ID reuses sequence number %d", op, f.SequenceNumber)
		}
		in.issued[f.SequenceNumber] = f.ConnectionID
	}
	unretired := 0
	for s := range in.issued {
		if !in.retired[s] {
			unretired++
		}
	}
	if lim := max(in.limit, 2); unretired > lim {
		return explore.Failf(fmt.Sprintf("issued-over-peer-limit:limit=%d:%s", in.limit, op.N),
			"%v: %d connection IDs are issued and not retired (%s), the peer's active_connection_id_limit is %d", op, unretired, in.ledger(), lim)
	}
	if in.phase == 0 {
		if fl := in.checkRoutes(op); fl != nil {
			return fl
		}
	}
	in.ocOp, in.ocRes, in.ocUnret = op, res, unretired
	return nil
}

func (in *c16Gen) ledger() string {
	l := make([]string, 0, len(in.issued))
	var sb strings.Builder
	for s, c := range in.issued {
		sb.Reset()
		sb.WriteByte(byte('a' + s)) // sorts by sequence number (< 26)
		c16PutU(&sb, "", s)
		c16PutCID(&sb, c)
		if in.retired[s] {
			sb.WriteString("(retired)")
		}
		l = append(l, sb.String())
	}
	sort.Strings(l)
	return strings.Join(l, " ")
}

func (in *c16Gen) checkEmpty(op explore.Op, when string) *explore.Fail {
	in.outcome = fmt.Sprintf("%s:%s clean", op.N, when)
	for i, r := range in.run {
		if len(r.routes) != 0 {
			return explore.Failf(fmt.Sprintf("route-left-after-close:%s:runner%d", strings.Fields(when)[0], i),
				"%v: %s, but routing table %d still holds %s (ledger: %s, pending retirement: %d, handshake complete: %v)", op, when, i, r.dump(), in.ledger(), len(in.pending), in.hc)
		}
	}
	return nil
}

func (in *c16Gen) checkRoutes(op explore.Op) *explore.Fail {
	// want: 2 = must be routed everywhere (issued, not retired), 1 = routed on the
	// connection's own transport (retired but not expired, client's original ID)
	want := make(map[protocol.ConnectionID]byte, len(in.issued)+len(in.pending)+1)
	for _, p := range in.pending {
		want[p.cid] = 1
	}
	if in.cfg.server && !in.hc {
		want[c16ClientDCID] = 1
	}
	for s, c := range in.issued {
		if !in.retired[s] {
			want[c] = 2
		}
	}
	for i, r := range in.run {
		for id, k := range r.routes {
			if k != 'L' {
				return explore.Failf("standin-before-close", "%v: runner %d routes %s to a closed stand-in while the connection is open", op, i, id)
			}
			if want[id] == 0 {
				why := "was never issued"
				for s, c := range in.issued {
					if c == id && in.retired[s] {
						why = fmt.Sprintf("is sequence number %d, retired and expired", s)
					}
				}
				if id == c16ClientDCID {
					why = "is the client's original destination ID, expired after handshake completion"
				}
				return explore.Failf(fmt.Sprintf("routed-not-live:%s:runner%d", op.N, i),
					"%v: connection ID %s is routed to the connection on runner %d but it %s (ledger: %s)", op, id, i, why, in.ledger())
			}
		}
		for id, w := range want {
			if _, ok := r.routes[id]; ok {
				continue
			}
			if i > 0 && w != 2 {
				continue // an added transport is only required to route the unretired IDs
			}
			what := "retired, not yet expired / client's original destination ID before its expiry"
			if w == 2 {
				what = "issued, not retired"
			}
			return explore.Failf(fmt.Sprintf("live-not-routed:%s:runner%d", op.N, i),
				"%v: connection ID %s (%s) is not routed on runner %d; routed: %s; ledger: %s", op, id, what, i, r.dump(), in.ledger())
		}
	}
	return nil
}

// Outcome is formatted on demand (Apply runs many times per reported transition).
func (in *c16Gen) Outcome() string {
	if in.outcome != "" {
		return in.outcome
	}
	oc := fmt.Sprintf("%s:%s new=%d unretired=%d pending=%d add=%d rem=%d", in.ocOp.N, in.ocRes, len(in.frames), in.ocUnret, len(in.pending), in.run[0].adds, in.run[0].rems)
	if in.ocOp.N == "setmax" {
		oc += fmt.Sprintf(" L=%d", in.ocOp.A)
	}
	if in.otherF != 0 {
		oc += " other-frames"
	}
	return oc
}

func (in *c16Gen) Key() string {
	var sb strings.Builder
	c16GenDump(&sb, in.g)
	fmt.Fprintf(&sb, "|n=%d runners=%d t=%d lim=%d/%d hc=%v ph=%d ca=%d|%s|", in.idgen.n, len(in.g.connRunners), in.tick, in.limit, in.setmaxN, in.hc, in.phase, in.closeAt, in.ledger())
	for _, p := range in.pending {
		fmt.Fprintf(&sb, "%s@%d,", p.cid, p.at)
	}
	for _, r := range in.run {
		sb.WriteString("|" + r.dump())
	}
	return sb.String()
}

func c16GenPart(name string, cfg c16GenCfg) explore.Part {
	return c16Part(name, func(e explore.Env) explore.BFSSpec {
		c16CheckLayout()
		b, depth := c16GenBounds{capSeq: 7, maxT: 2, hcDelay: 1, setmaxMax: 1}, 5
		if e.Thorough() {
			b, depth = c16GenBounds{capSeq: 9, maxT: 3, hcDelay: 2, allSeq: true, setmaxMax: 2}, 5
		}
		if cfg.zero {
			b.allSeq, b.hcDelay, b.setmaxMax, depth = true, 2, 2, 0
		}
		bound := fmt.Sprintf("depth %d", depth)
		if depth == 0 {
			bound = "closure"
		}
		seqs := "0, 1, 2, highest, highest+1"
		if b.allSeq {
			seqs = "0..highest+1"
		}
		return explore.BFSSpec{
			New:              func() explore.Instance { return newC16Gen(cfg, b) },
			MaxDepth:         depth,
			PanicIsViolation: true,
			Rule: fmt.Sprintf("BFS (%s) over the real connIDGenerator (server=%v, zero-length=%v) with a harness connRunner and clock; alphabet: SetMaxActiveConnIDs(2..8; at most %d calls, non-decreasing), Retire(seq %s; sent with another / with the retired ID; expiry now+1|2 ticks) while highest < %d, SetHandshakeComplete(expiry now+1..%d), tick (<= %d), RemoveRetiredConnIDs(now), AddConnRunner, close by peer / local / RemoveAll followed by the closing period (%d ticks)",
				bound, cfg.server, cfg.zero, b.setmaxMax, seqs, b.capSeq, b.hcDelay, b.maxT, c16ClosePeriod),
		}
	})
}
