package quic

// Hand-written canonical dumps of connIDManager and connIDGenerator (every data field; the
// reflective canonicaliser spends most of the exploration time formatting the 20-byte ID
// arrays). c16CheckLayout pins the field lists: if a struct gains, loses or renames a
// field the harness stops with a harness error instead of silently dropping state.

import (
	"encoding/hex"
	"reflect"
	"sort"
	"strconv"
	"strings"

	"github.com/refraction-networking/uquic/internal/protocol"
	"github.com/refraction-networking/uquic/internal/utils"
	"github.com/refraction-networking/uquic/internal/verifmc/explore"
)

func c16Fields(v any) string {
	t := reflect.TypeOf(v)
	var l []string
	for i := 0; i < t.NumField(); i++ {
		l = append(l, t.Field(i).Name)
	}
	return strings.Join(l, ",")
}

func c16CheckLayout() {
	explore.Must(c16Fields(connIDManager{}) == "queue,highestProbingID,pathProbing,handshakeComplete,activeSequenceNumber,highestRetired,activeConnectionID,activeStatelessResetToken,rand,packetsSinceLastChange,packetsPerConnectionID,addStatelessResetToken,removeStatelessResetToken,queueControlFrame,closed,advertisedLimit",
		"connIDManager layout changed: %s", c16Fields(connIDManager{}))
	explore.Must(c16Fields(newConnID{}) == "SequenceNumber,ConnectionID,StatelessResetToken", "newConnID layout changed: %s", c16Fields(newConnID{}))
	explore.Must(c16Fields(connIDGenerator{}) == "generator,highestSeq,connRunners,activeSrcConnIDs,connIDsToRetire,initialClientDestConnID,statelessResetter,queueControlFrame",
		"connIDGenerator layout changed: %s", c16Fields(connIDGenerator{}))
	explore.Must(c16Fields(connIDToRetire{}) == "t,connID", "connIDToRetire layout changed: %s", c16Fields(connIDToRetire{}))
}

func c16PutU(sb *strings.Builder, tag string, x uint64) {
	sb.WriteString(tag)
	sb.WriteString(strconv.FormatUint(x, 10))
}

func c16PutB(sb *strings.Builder, tag string, b bool) {
	sb.WriteString(tag)
	if b {
		sb.WriteByte('T')
	} else {
		sb.WriteByte('F')
	}
}

func c16PutCID(sb *strings.Builder, c protocol.ConnectionID) {
	var buf [48]byte
	sb.WriteByte('#')
	sb.WriteString(strconv.Itoa(c.Len()))
	sb.WriteByte(':')
	sb.Write(hex.AppendEncode(buf[:0], c.Bytes()))
}

func c16PutTok(sb *strings.Builder, t *protocol.StatelessResetToken) {
	var buf [32]byte
	sb.WriteByte('~')
	sb.Write(hex.AppendEncode(buf[:0], t[:]))
}

func c16PutEntry(sb *strings.Builder, e *newConnID) {
	c16PutU(sb, "", e.SequenceNumber)
	c16PutCID(sb, e.ConnectionID)
	c16PutTok(sb, &e.StatelessResetToken)
	sb.WriteByte(',')
}

// c16MgrDump: every data field of the manager (rand.buf is zeroed by the harness; the three
// callbacks are constants of the harness).
func c16MgrDump(sb *strings.Builder, m *connIDManager) {
	c16PutU(sb, "a", m.activeSequenceNumber)
	c16PutU(sb, " hr", m.highestRetired)
	c16PutU(sb, " hp", m.highestProbingID)
	c16PutB(sb, " hc", m.handshakeComplete)
	c16PutB(sb, " cl", m.closed)
	c16PutU(sb, " al", m.advertisedLimit)
	c16PutU(sb, " ps", uint64(m.packetsSinceLastChange))
	c16PutU(sb, " pp", uint64(m.packetsPerConnectionID))
	c16PutB(sb, " rz", m.rand == utils.Rand{}) // the harness zeroes the scratch buffer after every step
	sb.WriteString(" ac")
	c16PutCID(sb, m.activeConnectionID)
	if m.activeStatelessResetToken != nil {
		c16PutTok(sb, m.activeStatelessResetToken)
	}
	if m.queue == nil {
		sb.WriteString(" q0[")
	} else {
		sb.WriteString(" q[")
	}
	for i := range m.queue {
		c16PutEntry(sb, &m.queue[i])
	}
	if m.pathProbing == nil {
		sb.WriteString("] p0{")
	} else {
		sb.WriteString("] p{")
	}
	if len(m.pathProbing) > 0 {
		ids := make([]int, 0, len(m.pathProbing))
		for id := range m.pathProbing {
			ids = append(ids, int(id))
		}
		sort.Ints(ids)
		for _, id := range ids {
			e := m.pathProbing[pathID(id)]
			c16PutU(sb, "", uint64(id))
			sb.WriteByte('=')
			c16PutEntry(sb, &e)
		}
	}
	sb.WriteByte('}')
}

// c16GenDump: every data field of the generator except the harness-owned collaborators
// (generator, connRunners, statelessResetter, queueControlFrame), which the callers add.
func c16GenDump(sb *strings.Builder, g *connIDGenerator) {
	c16PutU(sb, "hs", g.highestSeq)
	sb.WriteString(" act{")
	seqs := make([]int, 0, len(g.activeSrcConnIDs))
	for s := range g.activeSrcConnIDs {
		seqs = append(seqs, int(s))
	}
	sort.Ints(seqs)
	for _, s := range seqs {
		c16PutU(sb, "", uint64(s))
		c16PutCID(sb, g.activeSrcConnIDs[uint64(s)])
		sb.WriteByte(',')
	}
	sb.WriteString("} ret[")
	for _, c := range g.connIDsToRetire {
		sb.WriteString(strconv.FormatInt(int64(c.t), 10))
		c16PutCID(sb, c.connID)
		sb.WriteByte(',')
	}
	sb.WriteString("] dcid")
	if g.initialClientDestConnID != nil {
		c16PutCID(sb, *g.initialClientDestConnID)
	}
}
