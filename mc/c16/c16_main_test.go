package quic

import (
	"testing"

	"github.com/refraction-networking/uquic/internal/verifmc/explore"
)

// TestVerifC16 — connection IDs: limits honoured both ways, retirements reported, routing
// clean. See c16_mgr_test.go (peer-issued IDs), c16_gen_test.go (own IDs),
// c16_spec_test.go (limits advertised by the shipped uQUIC specs) and c16_tpt_test.go
// (both objects wired to the real Transport's packetHandlerMap inside a synctest bubble).
func TestVerifC16(t *testing.T) {
	explore.Main("C16", []explore.Part{
		c16MgrPart("mgr", c16MgrCfg{}),
		c16MgrPart("mgr-zerolen", c16MgrCfg{zero: true}),
		c16MgrPart("mgr-uquic", c16MgrCfg{uquic: true}),
		c16SpecPart("spec-limits"),
		c16GenPart("gen-server", c16GenCfg{server: true}),
		c16GenPart("gen-client", c16GenCfg{}),
		c16GenPart("gen-zerolen", c16GenCfg{server: true, zero: true}),
		c16TptPart("transport", t),
	}, func(msg string) { t.Fatal(msg) })
}
