package quic

import (
	"encoding/json"
	"testing"
	"time"

	"github.com/refraction-networking/uquic/internal/verifmc/explore"
)

// TestVerifC16 — connection IDs: limits honoured both ways, retirements reported, routing
// clean. See c16_mgr_test.go (peer-issued IDs), c16_gen_test.go (own IDs),
// c16_spec_test.go (limits advertised by the shipped uQUIC specs) and c16_tpt_test.go
// (both objects wired to the real Transport's packetHandlerMap inside a synctest bubble;
// part transport-paths: a client-side connection registered on two real Transports)
// and c16_coal_test.go (coalesced packets with differing DCIDs fed through the real
// Transport into a real Conn) and c16_spm_test.go (the real server-side pathManager wired to
// the real connIDManager: migrating client, lost / acknowledged PATH_CHALLENGEs). Own targets: e3/ (lock points of the outgoing path manager)
// and e2/ (whole connections: lifetime of the client's original Destination Connection ID
// in the server's routing table).
func TestVerifC16(t *testing.T) {
	explore.Main("C16", []explore.Part{
		c16MgrPart("mgr", c16MgrCfg{}),
		c16MgrPart("mgr-wide", c16MgrCfg{wide: true}),
		c16MgrPart("mgr-deep", c16MgrCfg{deep: true}),
		c16MgrPart("mgr-zerolen", c16MgrCfg{zero: true}),
		c16MgrPart("mgr-uquic", c16MgrCfg{uquic: true}),
		c16SpecPart("spec-limits"),
		c16GenPart("gen-server", c16GenCfg{server: true}),
		c16GenPart("gen-client", c16GenCfg{}),
		c16GenPart("gen-zerolen", c16GenCfg{server: true, zero: true}),
		c16TptPart("transport", t, c16WorldCfg{}),
		c16TptPart("transport-paths", t, c16WorldCfg{paths: true}),
		c16CoalPart("coalesced"),
		c16SpmPart("server-paths", false),
		c16SpmPart("server-paths-zerolen", true),
	}, func(msg string) { t.Fatal(msg) })
}

// Share of the run's deadline each part may use (the library's deadline is global; a part
// that is cut by its slice reports exhaustive=false for the depth it did not finish, the
// later parts still run). The bounds are chosen so that no slice is hit.
var c16Weights = []struct {
	name string
	w    float64
}{
	{"mgr", 3}, {"mgr-wide", 2}, {"mgr-deep", 2}, {"mgr-zerolen", 0.1}, {"mgr-uquic", 3.5}, {"spec-limits", 0.1},
	{"gen-server", 1.5}, {"gen-client", 1.2}, {"gen-zerolen", 0.1}, {"transport", 2.5}, {"transport-paths", 2.5}, {"coalesced", 1.5},
	{"server-paths", 2.5}, {"server-paths-zerolen", 0.3},
}

func c16Slice(e explore.Env, name string) explore.Env {
	if e.Deadline.IsZero() {
		return e
	}
	var mine, rest float64
	for _, x := range c16Weights {
		if x.name == name {
			mine = x.w
		}
		if mine > 0 {
			rest += x.w
		}
	}
	explore.Must(mine > 0, "no weight for part %s", name)
	rem := time.Until(e.Deadline)
	if rem > 0 {
		e.Deadline = time.Now().Add(time.Duration(float64(rem) * mine / rest))
	}
	return e
}

// c16Part is explore.BFSPart with a per-part slice of the deadline.
func c16Part(name string, mk func(e explore.Env) explore.BFSSpec) explore.Part {
	return explore.Part{
		Name:   name,
		Run:    func(e explore.Env) *explore.Report { return explore.BFS(c16Slice(e, name), mk(e)) },
		Replay: func(e explore.Env, raw json.RawMessage) *explore.Violation { return explore.ReplayBFS(mk(e), raw) },
	}
}
