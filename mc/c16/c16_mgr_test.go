package quic

// C16 parts "mgr", "mgr-zerolen", "mgr-uquic": explicit-state search over the real
// connIDManager (connection IDs issued by the peer).
//
// The harness plays the peer (NEW_CONNECTION_ID frames in any order, duplicates, gaps,
// Retire Prior To jumps, conflicting contents), the connection (Get after SentPacket,
// handshake completion, path probing, close) and the packet handler map (a token set fed
// by the add/remove callbacks, with the map semantics of the real Transport).
//
// Reference model (only what the property statement defines):
//   - which sequence numbers the peer has issued, with which contents, and the highest
//     Retire Prior To it has sent;
//   - which sequence numbers this endpoint has reported with RETIRE_CONNECTION_ID;
//   - the limit this endpoint advertised (plain endpoint: protocol.MaxActiveConnectionIDs,
//     what connection.go puts into its transport parameters; spec-driven client: the value
//     u_connection.go hands to SetConnectionIDLimit).
//
// Oracle:
//   accept   a NEW_CONNECTION_ID frame that does not conflict with an earlier one is only
//            allowed to fail if, after processing it, more IDs are active (issued, not below
//            Retire Prior To, not reported retired) than the advertised limit;
//   report   every sequence number that leaves the manager (active, queued or probing
//            before the step, gone after it) and every accepted frame that is not stored has
//            a RETIRE_CONNECTION_ID frame queued for it;
//   tokens   after every step the registered stateless-reset tokens are exactly the tokens
//            the peer supplied for the IDs in use (active ID + path-probing IDs), and none
//            after Close.

import (
	"errors"
	"fmt"
	"sort"
	"strings"

	"github.com/refraction-networking/uquic/internal/protocol"
	"github.com/refraction-networking/uquic/internal/qerr"
	"github.com/refraction-networking/uquic/internal/utils"
	"github.com/refraction-networking/uquic/internal/verifmc/explore"
	"github.com/refraction-networking/uquic/internal/wire"
)

const c16RotationPeriod = 2 // packets per connection ID, owned by the harness

type c16MgrCfg struct {
	wide  bool // wide alphabet (every Retire Prior To value, conflicts for every seq), shallow
	zero  bool // the peer uses zero-length connection IDs
	uquic bool // spec-driven client: first op advertises a limit through SetConnectionIDLimit
	deep  bool // first op replays a prefix of a connection's life cycle (c16Lifecycle): the search starts from states the depth bound does not reach from the initial one
}

// c16Lifecycle is the history whose prefixes are the start states of part mgr-deep: IDs
// issued, one handed to a path probe, handshake completion with the first rotation, packets
// sent up to the second rotation, more IDs, the probe retired.
var c16Lifecycle = []explore.Op{
	{N: "ncid", A: 1}, {N: "ncid", A: 2}, {N: "path", A: 1}, {N: "hc"}, {N: "get"},
	{N: "ncid", A: 3}, {N: "ncid", A: 4}, {N: "sent"}, {N: "sent"}, {N: "get"},
	{N: "ncid", A: 5}, {N: "sent"}, {N: "sent"}, {N: "get"}, {N: "rpath", A: 1},
}

// c16PeerCID is the connection ID the peer issues for seq (alt: a conflicting one).
func c16PeerCID(seq uint64, alt bool) protocol.ConnectionID {
	k := byte(0xB0)
	if alt {
		k = 0xB1
	}
	return protocol.ParseConnectionID([]byte{k, byte(seq), 0x16, 0x00})
}

func c16PeerToken(seq uint64, alt bool) protocol.StatelessResetToken {
	var t protocol.StatelessResetToken
	for i := range t {
		t[i] = byte(0x70 + i)
	}
	t[0], t[1] = 0x7e, byte(seq)
	if alt {
		t[2] = 0xff
	}
	return t
}

// c16TokenSeq decodes a token made by c16PeerToken.
func c16TokenSeq(t protocol.StatelessResetToken) (seq uint64, alt, ok bool) {
	if t[0] != 0x7e {
		return 0, false, false
	}
	seq = uint64(t[1])
	alt = t[2] == 0xff
	return seq, alt, t == c16PeerToken(seq, alt)
}

// c16MgrBounds is the alphabet of one part/tier.
type c16MgrBounds struct {
	S       uint64 // highest sequence number of the alphabet
	nPth    int    // path IDs 1..nPth
	allRPT  bool   // Retire Prior To: every value 0..seq (else 0, 2 and seq)
	confSeq uint64 // conflicting CID / token variants for sequence numbers 1..confSeq
	lean    bool   // Retire Prior To only 0 and seq; no SentPacket / SetStatelessResetToken / preferred address
}

type c16Mgr struct {
	cfg c16MgrCfg
	m   *connIDManager
	c16MgrBounds
	twice bool // sticky: the manager stored one sequence number in two places at some point

	// harness side of the callbacks
	tokens   map[protocol.StatelessResetToken]bool
	retires  []uint64 // RETIRE_CONNECTION_ID frames queued in the current step
	otherFr  int      // other frames queued in the current step
	tokAdd   int
	tokRem   int
	advLimit int // limit this endpoint advertised (0: not chosen yet)
	started  bool // mgr-deep: the start state was chosen

	// reference model
	issued   uint32   // bit s: the peer sent a frame for sequence number s (bit 0 always)
	cidSup   [16]byte // per seq: bit0 regular CID supplied, bit1 conflicting CID supplied
	tokSup   [16]byte // per seq: bit0 regular token supplied, bit1 conflicting token supplied
	maxRPT   uint64
	reported uint32 // bit s: RETIRE_CONNECTION_ID(s) was queued at least once
	dead     bool
	outcome  string
	ocOp     string
	ocRes    string
	ocRot    bool
	ocRIU    bool
}

func newC16Mgr(cfg c16MgrCfg, b c16MgrBounds) *c16Mgr {
	in := &c16Mgr{cfg: cfg, c16MgrBounds: b, tokens: map[protocol.StatelessResetToken]bool{}, issued: 1}
	init := c16PeerCID(0, false)
	if cfg.zero {
		init = protocol.ConnectionID{}
	}
	in.cidSup[0] = 1
	in.m = newConnIDManager(
		init,
		func(t protocol.StatelessResetToken) { in.tokens[t] = true; in.tokAdd++ },
		func(t protocol.StatelessResetToken) { delete(in.tokens, t); in.tokRem++ },
		func(f wire.Frame) {
			if r, ok := f.(*wire.RetireConnectionIDFrame); ok {
				in.retires = append(in.retires, r.SequenceNumber)
				if r.SequenceNumber < 32 {
					in.reported |= 1 << r.SequenceNumber
				}
				return
			}
			in.otherFr++
		},
	)
	if !cfg.uquic {
		// connection.go:346/473 and u_connection.go:163 advertise this constant
		in.advLimit = protocol.MaxActiveConnectionIDs
	}
	return in
}

// held returns the sequence numbers the real manager currently stores.
func (in *c16Mgr) held() (set uint32, inUse []uint64) {
	m := in.m
	n := 1
	set |= 1 << m.activeSequenceNumber
	inUse = append(inUse, m.activeSequenceNumber)
	for _, e := range m.queue {
		set |= 1 << e.SequenceNumber
		n++
	}
	var ps []uint64
	for _, e := range m.pathProbing {
		set |= 1 << e.SequenceNumber
		ps = append(ps, e.SequenceNumber)
		n++
	}
	sort.Slice(ps, func(i, j int) bool { return ps[i] < ps[j] })
	for _, s := range ps {
		if s != inUse[len(inUse)-1] {
			inUse = append(inUse, s)
		}
	}
	if n != len(c16Bits(set)) {
		in.twice = true
	}
	return set, inUse
}

// hist qualifies token / report violation keys with the history class they were reached in.
func (in *c16Mgr) hist() string {
	if in.twice {
		return ":id-stored-twice"
	}
	return ""
}

// rejectCause looks at what the manager stores at the moment it rejects a frame within the
// limit and names the discrepancy with the peer model (part of the violation key).
func (in *c16Mgr) rejectCause() string {
	held, _ := in.held()
	switch {
	case held&in.reported != 0:
		return ":holds-retired-id"
	case 1+len(in.m.queue)+len(in.m.pathProbing) != len(c16Bits(held)):
		return ":id-stored-twice"
	case held&(1<<in.maxRPT-1) != 0:
		return ":retire-prior-to-ignored"
	}
	return ""
}

func (in *c16Mgr) Ops() []explore.Op {
	if in.dead {
		return nil
	}
	if in.cfg.uquic && in.advLimit == 0 {
		var ops []explore.Op
		for l := 2; l <= 8; l++ {
			ops = append(ops, explore.Op{N: "advertise", A: l})
		}
		return ops
	}
	if in.cfg.deep && !in.started {
		var ops []explore.Op
		for k := 3; k <= len(c16Lifecycle); k++ {
			ops = append(ops, explore.Op{N: "start", A: k})
		}
		return ops
	}
	m := in.m
	ops := []explore.Op{{N: "get"}}
	if m.packetsSinceLastChange < c16RotationPeriod && !in.lean {
		ops = append(ops, explore.Op{N: "sent"})
	}
	if !m.handshakeComplete {
		ops = append(ops, explore.Op{N: "hc"})
	}
	if m.activeSequenceNumber == 0 && m.activeStatelessResetToken == nil && in.tokSup[0] == 0 && !in.lean {
		ops = append(ops, explore.Op{N: "settoken"})
	}
	if in.issued == 1 && in.maxRPT == 0 && !in.cfg.zero && !in.lean {
		ops = append(ops, explore.Op{N: "pref"})
	}
	for p := 1; p <= in.nPth; p++ {
		ops = append(ops, explore.Op{N: "path", A: p})
	}
	for p := 1; p <= in.nPth; p++ {
		ops = append(ops, explore.Op{N: "rpath", A: p})
	}
	for seq := uint64(1); seq <= in.S; seq++ {
		ops = append(ops, explore.Op{N: "ncid", A: int(seq)})
	}
	for seq := uint64(1); seq <= in.S; seq++ {
		for rpt := uint64(1); rpt <= seq; rpt++ {
			if in.allRPT || rpt == 2 && !in.lean || rpt == seq {
				ops = append(ops, explore.Op{N: "ncid", A: int(seq), B: int(rpt)})
			}
		}
	}
	if !in.cfg.zero {
		for seq := uint64(1); seq <= in.confSeq; seq++ {
			ops = append(ops, explore.Op{N: "ncid", A: int(seq), C: 1}, explore.Op{N: "ncid", A: int(seq), C: 2})
		}
	}
	ops = append(ops, explore.Op{N: "close"})
	return ops
}

func c16ErrClass(err error) string {
	if err == nil {
		return "ok"
	}
	var te *qerr.TransportError
	if errors.As(err, &te) {
		return te.ErrorCode.String()
	}
	return "error"
}

func (in *c16Mgr) Apply(op explore.Op) *explore.Fail {
	if op.N == "start" {
		in.started = true
		for _, o := range c16Lifecycle[:op.A] {
			if fl := in.Apply(o); fl != nil {
				return fl
			}
			explore.Must(!in.dead, "life cycle prefix %d ends the connection at %v", op.A, o)
		}
		in.ocOp, in.ocRes = "start", fmt.Sprint(op.A)
		return nil
	}
	m := in.m
	in.retires, in.otherFr, in.tokAdd, in.tokRem = in.retires[:0], 0, 0, 0
	in.outcome = ""
	heldBefore, _ := in.held()
	reportedBefore := in.reported
	activeBefore := m.activeSequenceNumber
	res := ""
	switch op.N {
	case "advertise":
		// u_connection.go:134: s.connIDManager.SetConnectionIDLimit(params.ActiveConnectionIDLimit)
		m.SetConnectionIDLimit(uint64(op.A))
		in.advLimit = op.A
	case "get":
		cid := m.Get()
		if cid != m.activeConnectionID {
			return explore.Failf("get-not-active", "Get returned %s, active connection ID is %s", cid, m.activeConnectionID)
		}
	case "sent":
		m.SentPacket()
	case "hc":
		m.SetHandshakeComplete()
	case "settoken":
		in.tokSup[0] |= 1
		m.SetStatelessResetToken(c16PeerToken(0, false))
	case "pref":
		in.issued |= 1 << 1
		in.cidSup[1] |= 1
		in.tokSup[1] |= 1
		if err := m.AddFromPreferredAddress(c16PeerCID(1, false), c16PeerToken(1, false)); err != nil {
			return explore.Failf("preferred-address-rejected", "AddFromPreferredAddress on a fresh manager returned %v", err)
		}
	case "path":
		cid, ok := m.GetConnIDForPath(pathID(op.A))
		res = fmt.Sprintf("ok=%v len=%d", ok, cid.Len())
	case "rpath":
		m.RetireConnIDForPath(pathID(op.A))
	case "close":
		m.Close()
		if len(in.tokens) != 0 {
			return explore.Failf("token-left-after-close", "after Close %d stateless-reset token(s) are still registered: %s", len(in.tokens), in.tokenList())
		}
		in.dead = true
		in.outcome = fmt.Sprintf("close tok-=%d", in.tokRem)
		return nil
	case "ncid":
		seq, rpt := uint64(op.A), uint64(op.B)
		f := &wire.NewConnectionIDFrame{
			SequenceNumber:      seq,
			RetirePriorTo:       rpt,
			ConnectionID:        c16PeerCID(seq, op.C == 1),
			StatelessResetToken: c16PeerToken(seq, op.C == 2),
		}
		in.issued |= 1 << seq
		if op.C == 1 {
			in.cidSup[seq] |= 2
		} else {
			in.cidSup[seq] |= 1
		}
		if op.C == 2 {
			in.tokSup[seq] |= 2
		} else {
			in.tokSup[seq] |= 1
		}
		in.maxRPT = max(in.maxRPT, rpt)
		err := m.Add(f)
		if err != nil {
			in.dead = true // the connection is closed with this error
			in.outcome = "ncid:" + c16ErrClass(err)
			switch {
			case in.cfg.zero:
				// the peer uses zero-length IDs and must not issue any: the statement is silent
				in.outcome += " zero-length"
			case in.cidSup[seq] == 3 || in.tokSup[seq] == 3:
				in.outcome += " conflicting"
			default:
				active := in.activeIssued()
				if len(active) <= in.advLimit {
					return explore.Failf(in.limitKey(),
						"NEW_CONNECTION_ID(seq=%d, retire_prior_to=%d) rejected with %v although only %d connection IDs %v are active (issued by the peer, not below Retire Prior To %d, not reported retired) and this endpoint advertised active_connection_id_limit=%d",
						seq, rpt, err, len(active), active, in.maxRPT, in.advLimit)
				}
				in.outcome += fmt.Sprintf(" over-limit active=%d", len(active))
			}
			return nil
		}
		heldAfter, _ := in.held()
		if heldAfter&(1<<seq) == 0 && in.reported&(1<<seq) == 0 {
			return explore.Failf(fmt.Sprintf("dropped-unreported:ncid(seq%sactive)", c16Rel(seq, m.activeSequenceNumber)),
				"NEW_CONNECTION_ID(seq=%d, retire_prior_to=%d) was accepted, the ID is not stored (active %d, queue %v) and no RETIRE_CONNECTION_ID(%d) was ever queued",
				seq, rpt, m.activeSequenceNumber, in.queueSeqs(), seq)
		}
		// Retire Prior To: once the frame is processed nothing below the highest value the peer
		// sent may still be stored (as active ID, queued, or in use for a path probe)
		below := heldAfter & (1<<in.maxRPT - 1)
		if len(m.queue) == 0 {
			// the active ID cannot be given up while the peer has supplied nothing to switch to
			below &^= 1 << m.activeSequenceNumber
		}
		if below != 0 {
			class := "new"
			switch {
			case heldBefore&(1<<seq) != 0:
				class = "duplicate"
			case heldAfter&(1<<seq) == 0:
				class = "retired-on-arrival"
			}
			where := "queue"
			lowest := uint64(c16Bits(below)[0])
			switch {
			case lowest == m.activeSequenceNumber:
				where = "active"
			case m.isProbing(lowest):
				where = "probing"
			}
			return explore.Failf("held-below-retire-prior-to:"+where+":frame-"+class,
				"NEW_CONNECTION_ID(seq=%d, retire_prior_to=%d) was accepted (frame %s), the highest Retire Prior To received is %d, but sequence number(s) %v are still stored (active %d, queue %v, probing %v)",
				seq, rpt, class, in.maxRPT, c16Bits(below), m.activeSequenceNumber, in.queueSeqs(), in.probingSeqs())
		}
		res = "accepted"
	default:
		explore.Must(false, "unknown op %v", op)
	}
	// own the rotation period (utils.Rand reads crypto/rand)
	if m.packetsPerConnectionID != 0 {
		m.packetsPerConnectionID = c16RotationPeriod
	}
	m.rand = utils.Rand{}

	// report: everything that left the manager has been reported
	heldAfter, inUse := in.held()
	if gone := heldBefore &^ heldAfter &^ in.reported; gone != 0 {
		return explore.Failf("retired-unreported:"+op.N+in.hist(),
			"%v: sequence number(s) %v left the manager (before %v, after %v) without a RETIRE_CONNECTION_ID frame", op, c16Bits(gone), c16Bits(heldBefore), c16Bits(heldAfter))
	}
	// tokens: exactly the tokens of the IDs in use
	if fl := in.checkTokens(op, inUse); fl != nil {
		return fl
	}
	in.ocOp, in.ocRes, in.ocRot = op.N, res, activeBefore != m.activeSequenceNumber
	in.ocRIU = false
	for _, s := range inUse {
		if (in.reported&^reportedBefore)&(1<<s) != 0 {
			in.ocRIU = true // informational: RETIRE_CONNECTION_ID queued for an ID that stays in use
		}
	}
	return nil
}

func c16Rel(a, b uint64) string {
	switch {
	case a < b:
		return "<"
	case a == b:
		return "="
	}
	return ">"
}

func (in *c16Mgr) limitKey() string {
	if c := in.rejectCause(); c != "" {
		return "rejected-within-advertised-limit" + c
	}
	if in.cfg.uquic {
		return fmt.Sprintf("advertised>enforced:active_connection_id_limit:SetConnectionIDLimit(%d)", in.advLimit)
	}
	return fmt.Sprintf("rejected-within-advertised-limit:active_connection_id_limit=%d", in.advLimit)
}

// activeIssued: sequence numbers the peer issued, not below the highest Retire Prior To,
// and not reported retired by this endpoint.
func (in *c16Mgr) activeIssued() []uint64 {
	var l []uint64
	for s := uint64(0); s < 32; s++ {
		if in.issued&(1<<s) != 0 && s >= in.maxRPT && in.reported&(1<<s) == 0 {
			l = append(l, s)
		}
	}
	return l
}

func (in *c16Mgr) checkTokens(op explore.Op, inUse []uint64) *explore.Fail {
	m := in.m
	if in.cfg.zero {
		// only the token from the transport parameters can be in use
		inUse = []uint64{0}
	}
	// the active connection ID must be one the peer supplied for the active sequence number
	if !in.cfg.zero {
		a := m.activeSequenceNumber
		okCID := in.cidSup[a]&1 != 0 && m.activeConnectionID == c16PeerCID(a, false) || in.cidSup[a]&2 != 0 && m.activeConnectionID == c16PeerCID(a, true)
		if !okCID {
			return explore.Failf("active-cid-not-issued", "%v: active connection ID %s was never issued for the active sequence number %d", op, m.activeConnectionID, a)
		}
	}
	want := map[uint64]bool{}
	for _, s := range inUse {
		if in.tokSup[s] != 0 {
			want[s] = true
		}
	}
	got := map[uint64]int{}
	for t := range in.tokens {
		s, alt, ok := c16TokenSeq(t)
		if !ok || in.tokSup[s] == 0 || alt && in.tokSup[s]&2 == 0 || !alt && in.tokSup[s]&1 == 0 {
			return explore.Failf("token-foreign", "%v: registered stateless-reset token %x was never supplied by the peer", op, t[:4])
		}
		got[s]++
	}
	for s := range got {
		if !want[s] {
			return explore.Failf("token-not-in-use:"+op.N+in.hist(),
				"%v: a stateless-reset token of sequence number %d is registered, but the IDs in use are %v (active %d, probing %v); registered: %s",
				op, s, inUse, m.activeSequenceNumber, in.probingSeqs(), in.tokenList())
		}
		// got[s] == 2 only if the peer supplied two different tokens for s: the statement is silent
	}
	for s := range want {
		if got[s] == 0 {
			return explore.Failf("token-missing:"+op.N+in.hist(),
				"%v: connection ID with sequence number %d is in use (active %d, probing %v) but its stateless-reset token is not registered; registered: %s",
				op, s, m.activeSequenceNumber, in.probingSeqs(), in.tokenList())
		}
	}
	return nil
}

func (in *c16Mgr) queueSeqs() []uint64 {
	var l []uint64
	for _, e := range in.m.queue {
		l = append(l, e.SequenceNumber)
	}
	return l
}

func (in *c16Mgr) probingSeqs() []string {
	var l []string
	for p, e := range in.m.pathProbing {
		l = append(l, fmt.Sprintf("path%d:%d", p, e.SequenceNumber))
	}
	sort.Strings(l)
	return l
}

func (in *c16Mgr) tokenList() string {
	var l []string
	for t := range in.tokens {
		s, alt, _ := c16TokenSeq(t)
		l = append(l, fmt.Sprintf("tok(%d,alt=%v)", s, alt))
	}
	sort.Strings(l)
	return "[" + strings.Join(l, " ") + "]"
}

func c16Bits(x uint32) []int {
	var l []int
	for i := 0; i < 32; i++ {
		if x&(1<<i) != 0 {
			l = append(l, i)
		}
	}
	return l
}

// Outcome is formatted on demand (Apply runs many times per reported transition).
func (in *c16Mgr) Outcome() string {
	if in.outcome != "" {
		return in.outcome
	}
	oc := fmt.Sprintf("%s:%s retire=%d tok+%d-%d rot=%v", in.ocOp, in.ocRes, len(in.retires), in.tokAdd, in.tokRem, in.ocRot)
	if in.otherFr != 0 {
		oc += " other-frames"
	}
	if in.ocRIU {
		oc += " reported-while-in-use"
	}
	return oc
}

func (in *c16Mgr) Key() string {
	var sb strings.Builder
	c16MgrDump(&sb, in.m)
	fmt.Fprintf(&sb, "|st=%v adv=%d iss=%x rpt=%d rep=%x dead=%v tw=%v cs=%x ts=%x|%s", in.started, in.advLimit, in.issued, in.maxRPT, in.reported, in.dead, in.twice,
		in.cidSup[:in.S+1], in.tokSup[:in.S+1], in.tokenList())
	return sb.String()
}

func c16MgrPart(name string, cfg c16MgrCfg) explore.Part {
	return c16Part(name, func(e explore.Env) explore.BFSSpec {
		c16CheckLayout()
		var b c16MgrBounds
		depth := 0
		switch {
		case cfg.zero:
			b = c16MgrBounds{S: 2, nPth: 1, allRPT: true}
			if e.Thorough() {
				b = c16MgrBounds{S: 3, nPth: 2, allRPT: true}
			}
		case cfg.uquic:
			b, depth = c16MgrBounds{S: 6, nPth: 1, lean: true}, 7
			if e.Thorough() {
				b, depth = c16MgrBounds{S: 8, nPth: 1, lean: true}, 9
			}
		case cfg.deep:
			b, depth = c16MgrBounds{S: 6, nPth: 1, allRPT: true}, 1+3
			if e.Thorough() {
				b, depth = c16MgrBounds{S: 7, nPth: 2, allRPT: true, confSeq: 1}, 1+4
			}
		case cfg.wide:
			b, depth = c16MgrBounds{S: 5, nPth: 2, allRPT: true, confSeq: 5}, 4
			if e.Thorough() {
				b, depth = c16MgrBounds{S: 6, nPth: 2, allRPT: true, confSeq: 6}, 5
			}
		default:
			b, depth = c16MgrBounds{S: 5, nPth: 1, confSeq: 1}, 7
			if e.Thorough() {
				b, depth = c16MgrBounds{S: 6, nPth: 2, confSeq: 1}, 8
			}
		}
		bound := fmt.Sprintf("depth %d", depth)
		if depth == 0 {
			bound = "closure"
		}
		rpt := "0, 2, seq"
		if b.allRPT {
			rpt = "0..seq"
		} else if b.lean {
			rpt = "0, seq; lean alphabet: no SentPacket / SetStatelessResetToken / AddFromPreferredAddress"
		}
		return explore.BFSSpec{
			New:              func() explore.Instance { return newC16Mgr(cfg, b) },
			MaxDepth:         depth,
			PanicIsViolation: true,
			Rule: fmt.Sprintf("BFS (%s) over the real connIDManager (zero-length=%v, spec-driven=%v); alphabet: NEW_CONNECTION_ID(seq 1..%d, retire_prior_to %s; conflicting CID / conflicting token for seq 1..%d), Get, SentPacket (rotation period owned: %d), SetHandshakeComplete, SetStatelessResetToken, AddFromPreferredAddress, GetConnIDForPath/RetireConnIDForPath(path 1..%d), Close%s; state = every field of the connIDManager + peer model + registered-token set",
				bound, cfg.zero, cfg.uquic, b.S, rpt, b.confSeq, c16RotationPeriod, b.nPth, map[bool]string{true: ", first op SetConnectionIDLimit(2..8) as u_connection.go does", false: ""}[cfg.uquic]+map[bool]string{true: fmt.Sprintf("; the first op replays a prefix (3..%d ops) of the life-cycle history %v, the depth counts from there", len(c16Lifecycle), c16Lifecycle), false: ""}[cfg.deep]),
		}
	})
}
