package quic

// C16 part "spec-limits": for the plain endpoint and for every client fingerprint shipped
// in u_parrot.go, take the active_connection_id_limit the endpoint really advertises (for
// a spec: the QUICTransportParametersExtension of its ClientHelloSpec, read with the same
// PopulateFromUQUIC call u_connection.go uses; absent parameter = RFC 9000 default 2),
// set the real connIDManager up the way the constructor does (spec-driven client:
// SetConnectionIDLimit(advertised)), and let an honest peer fill the advertised limit in
// three ways. Every frame must be accepted (oracle of c16_mgr_test.go).

import (
	"encoding/json"
	"fmt"

	"github.com/refraction-networking/uquic/internal/protocol"
	"github.com/refraction-networking/uquic/internal/verifmc/explore"
	"github.com/refraction-networking/uquic/internal/wire"
	tls "github.com/refraction-networking/utls"
)

type c16SpecCase struct {
	name string
	id   *QUICID // nil: plain endpoint, or a custom spec advertising lim
	lim  int
}

func c16SpecList() []c16SpecCase {
	l := []c16SpecCase{
		{"plain", nil, 0},
		{"QUICFirefox_116A", &QUICFirefox_116A, 0},
		{"QUICFirefox_116B", &QUICFirefox_116B, 0},
		{"QUICFirefox_116C", &QUICFirefox_116C, 0},
		{"QUICChrome_115_IPv4", &QUICChrome_115_IPv4, 0},
		{"QUICChrome_115_IPv6", &QUICChrome_115_IPv6, 0},
		{"QUICChrome_146_IPv4", &QUICChrome_146_IPv4, 0},
		{"QUICChrome_146_IPv6", &QUICChrome_146_IPv6, 0},
	}
	// a user-written QUICSpec may advertise any limit
	for lim := 2; lim <= 8; lim++ {
		l = append(l, c16SpecCase{fmt.Sprintf("custom-spec(limit=%d)", lim), nil, lim})
	}
	return l
}

// c16AdvertisedBySpec: the limit a client built from the spec puts on the wire.
func c16AdvertisedBySpec(id QUICID) (limit int, present bool, err error) {
	spec, err := QUICID2Spec(id)
	if err != nil {
		return 0, false, err
	}
	if spec.ClientHelloSpec == nil {
		return protocol.MaxActiveConnectionIDs, true, nil
	}
	for _, ext := range spec.ClientHelloSpec.Extensions {
		if q, ok := ext.(*tls.QUICTransportParametersExtension); ok {
			params := &wire.TransportParameters{}
			params.PopulateFromUQUIC(q.TransportParameters)
			if params.ActiveConnectionIDLimit == 0 {
				return protocol.DefaultActiveConnectionIDLimit, false, nil
			}
			return int(params.ActiveConnectionIDLimit), true, nil
		}
	}
	return 0, false, fmt.Errorf("spec has no QUICTransportParametersExtension")
}

const c16SpecScenarios = 4

// c16HonestPeer: op sequences of a peer that stays within limit L.
func c16HonestPeer(scn, L int) []explore.Op {
	var ops []explore.Op
	switch scn {
	case 0: // sequence numbers 1..L-1 right away (0 is the handshake ID)
		for s := 1; s <= L-1; s++ {
			ops = append(ops, explore.Op{N: "ncid", A: s})
		}
	case 1: // the endpoint rotates away from 0 and reports it; the peer refills up to L
		ops = append(ops, explore.Op{N: "hc"}, explore.Op{N: "ncid", A: 1}, explore.Op{N: "get"})
		for s := 2; s <= L; s++ {
			ops = append(ops, explore.Op{N: "ncid", A: s})
		}
	case 2: // the peer retires 0 itself with Retire Prior To and refills up to L
		for s := 1; s <= L-1; s++ {
			ops = append(ops, explore.Op{N: "ncid", A: s})
		}
		ops = append(ops, explore.Op{N: "ncid", A: L, B: 1})
	case 3: // one more than the limit (the statement does not say what happens; recorded as outcome)
		for s := 1; s <= L; s++ {
			ops = append(ops, explore.Op{N: "ncid", A: s})
		}
	}
	return ops
}

func c16SpecRun(i int) explore.CaseResult {
	specs := c16SpecList()
	sc, scn := specs[i/c16SpecScenarios], i%c16SpecScenarios
	var in *c16Mgr
	L := protocol.MaxActiveConnectionIDs
	note := "constant advertised by connection.go"
	var human []string
	if sc.id == nil && sc.lim == 0 {
		in = newC16Mgr(c16MgrCfg{}, c16MgrBounds{S: 12, nPth: 1})
	} else {
		if sc.id != nil {
			l, present, err := c16AdvertisedBySpec(*sc.id)
			explore.Must(err == nil, "spec %s: %v", sc.name, err)
			L = l
			note = fmt.Sprintf("in spec=%v", present)
		} else {
			L, note = sc.lim, "custom spec"
		}
		in = newC16Mgr(c16MgrCfg{uquic: true}, c16MgrBounds{S: 12, nPth: 1})
		op := explore.Op{N: "advertise", A: L}
		human = append(human, op.String())
		if fl := in.Apply(op); fl != nil {
			return explore.CaseResult{Fail: fl, Replay: i, Human: human}
		}
	}
	res := explore.CaseResult{Replay: i, Execs: 1}
	for _, op := range c16HonestPeer(scn, L) {
		human = append(human, op.String())
		res.Trans++
		if fl := in.Apply(op); fl != nil {
			key := fl.Key
			if sc.id != nil {
				key = fmt.Sprintf("advertised>enforced:active_connection_id_limit:QUIC%s_%s", sc.id.Client, sc.id.Version)
			}
			res.Fail = explore.Failf(key, "%s advertises active_connection_id_limit=%d (%s); honest peer, scenario %d: %s", sc.name, L, note, scn, fl.What)
			res.Human = human
			res.Outcome = fmt.Sprintf("%s L=%d scn=%d REJECTED at %v", sc.name, L, scn, op)
			return res
		}
		if in.dead {
			res.Human = human
			res.Outcome = fmt.Sprintf("%s L=%d scn=%d closed at %v: %s", sc.name, L, scn, op, in.Outcome())
			return res
		}
	}
	res.Human = human
	res.Outcome = fmt.Sprintf("%s L=%d scn=%d all accepted, queue=%d active=%d", sc.name, L, scn, len(in.m.queue), in.m.activeSequenceNumber)
	return res
}

func c16SpecPart(name string) explore.Part {
	n := len(c16SpecList()) * c16SpecScenarios
	return explore.Part{
		Name: name,
		Run: func(e explore.Env) *explore.Report {
			rep := explore.RunCases(e, n, 1, true, c16SpecRun)
			rep.Rule = fmt.Sprintf("explicit cases: {plain endpoint, 7 shipped QUIC specs, custom specs advertising 2..8} x %d peer strategies (fill the advertised limit straight / after rotation / with Retire Prior To; one ID beyond the limit); the advertised limit is read from the spec's transport parameters", c16SpecScenarios)
			rep.Bound = fmt.Sprintf("%d cases", n)
			for _, i := range []int{0, 4, 18} {
				cr := c16SpecRun(i)
				rep.Samples = append(rep.Samples, map[string]any{"case": i, "ops": cr.Human, "outcome": cr.Outcome})
			}
			return rep
		},
		Replay: func(e explore.Env, raw json.RawMessage) *explore.Violation {
			cr := c16SpecRun(explore.ReplayIndex(raw))
			if cr.Fail == nil {
				return nil
			}
			return &explore.Violation{Key: cr.Fail.Key, What: cr.Fail.What, Replay: raw, Human: cr.Human}
		},
	}
}
