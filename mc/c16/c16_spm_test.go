package quic

// C16 part "server-paths": explicit-state search over the real server-side pathManager
// (path_manager.go) wired to the real connIDManager the way connection.go wires them
// (newPathManager(connIDManager.GetConnIDForPath, connIDManager.RetireConnIDForPath)).
//
// The harness plays the migrating client and the network: packets from new / known remote
// addresses (probing or non-probing, with or without a PATH_CHALLENGE of the client), the
// PATH_RESPONSE for any PATH_CHALLENGE this endpoint sent (also a late one), the loss
// detector that declares the packet carrying a PATH_CHALLENGE acknowledged or lost — before
// AND after the PATH_RESPONSE arrived (spurious loss: the ACK was lost or reordered) —, the
// clock (path timeout, eviction), the connection that switches to a validated path when the
// highest-numbered non-probing packet came from there, packets sent (rotation of the active
// ID) and further NEW_CONNECTION_ID frames of a conformant peer.
//
// Reference model (a ledger): which peer sequence number GetConnIDForPath handed out for
// which path ID (recorded by the wrapper around the callback), how often each sequence
// number was reported with RETIRE_CONNECTION_ID, the registered token multiset.
//
// Oracle, after every step (only what the statement says: "reports every sequence number it
// retires (because of ... path probing) to the peer with RETIRE_CONNECTION_ID", "stateless-
// reset tokens are registered exactly for the peer IDs in use", "accepts from the peer every
// connection ID within the limit it advertised"):
//   - a path the path manager still knows keeps its ID: token registered, accepted by
//     IsActiveStatelessResetToken;
//   - a path the path manager has forgotten (PATH_CHALLENGE lost, evicted, the connection
//     switched to another path) holds no peer ID any more: the sequence number taken for it
//     has been reported with RETIRE_CONNECTION_ID, its token is neither registered nor
//     accepted;
//   - every sequence number the peer issued that is neither active, queued nor the ID of a
//     known path has been reported; no token of such an ID is registered;
//   - NEW_CONNECTION_ID frames of a peer that stays within the advertised limit (counting
//     what this endpoint reported retired) are accepted.
// The ID of the path the connection switched TO leaves the path manager without the path
// being abandoned (it is the connection's path now): the statement does not say whether that
// ID is still "in use", both behaviours are accepted and only recorded as outcome class.
// A second RETIRE_CONNECTION_ID for the same sequence number is not judged either.

import (
	"fmt"
	"net"
	"sort"
	"strings"
	"time"

	"github.com/refraction-networking/uquic/internal/ackhandler"
	"github.com/refraction-networking/uquic/internal/monotime"
	"github.com/refraction-networking/uquic/internal/protocol"
	"github.com/refraction-networking/uquic/internal/utils"
	"github.com/refraction-networking/uquic/internal/verifmc/explore"
	"github.com/refraction-networking/uquic/internal/wire"
)

const (
	c16SpmBase   = monotime.Time(1000 * int64(time.Second))
	c16SpmNAddr  = 5 // A, B, C, D and R (the remote address of the handshake)
	c16SpmOrigin = 4
)

type c16SpmBounds struct {
	S     uint64 // highest sequence number the peer issues
	zero  bool   // the peer (client) uses zero-length connection IDs
	depth int
}

type c16SpmChal struct {
	frame     ackhandler.Frame
	responded bool // the PATH_RESPONSE was delivered
	settled   bool // the packet that carried it was acknowledged or declared lost
}

type c16Spm struct {
	b  c16SpmBounds
	m  *connIDManager
	pm *pathManager

	now     int // in units of pathTimeout
	remote  int // address index of the connection's current remote address
	pending int // address whose last packet made HandlePacket return shouldSwitch (-1: none)
	nextSeq uint64

	tokens   map[protocol.StatelessResetToken]int
	retired  [32]int
	pathSeq  map[pathID]uint64 // sequence number handed out for the path
	chal     map[pathID]*c16SpmChal
	switched map[pathID]bool // paths the connection switched to
	respOut  *ackhandler.Frame

	// step
	nRetire, tokAdd, tokRem int
	oc                      string
	dead                    bool
}

func c16SpmAddr(i int) net.Addr {
	return &net.UDPAddr{IP: net.IPv4(10, 0, 0, byte(1+i)), Port: 4000 + i}
}

func c16SpmAddrIdx(a net.Addr) int {
	u, ok := a.(*net.UDPAddr)
	explore.Must(ok && u.Port >= 4000 && u.Port < 4000+c16SpmNAddr, "foreign address %v in the path manager", a)
	return u.Port - 4000
}

func newC16Spm(b c16SpmBounds) *c16Spm {
	in := &c16Spm{b: b, remote: c16SpmOrigin, pending: -1,
		tokens: map[protocol.StatelessResetToken]int{}, pathSeq: map[pathID]uint64{}, chal: map[pathID]*c16SpmChal{}, switched: map[pathID]bool{}}
	init := c16PeerCID(0, false)
	if b.zero {
		init = protocol.ConnectionID{}
	}
	in.m = newConnIDManager(
		init,
		func(t protocol.StatelessResetToken) { in.tokens[t]++; in.tokAdd++ },
		func(t protocol.StatelessResetToken) {
			// the Transport's map: removing deletes the entry
			delete(in.tokens, t)
			in.tokRem++
		},
		func(f wire.Frame) {
			if r, ok := f.(*wire.RetireConnectionIDFrame); ok && r.SequenceNumber < 32 {
				in.retired[r.SequenceNumber]++
				in.nRetire++
			}
		},
	)
	in.m.SetHandshakeComplete() // a server sees migration only after the handshake
	in.nextSeq = 1
	if !b.zero {
		for ; in.nextSeq <= 3; in.nextSeq++ {
			err := in.m.Add(&wire.NewConnectionIDFrame{SequenceNumber: in.nextSeq, ConnectionID: c16PeerCID(in.nextSeq, false), StatelessResetToken: c16PeerToken(in.nextSeq, false)})
			explore.Must(err == nil, "start state: NEW_CONNECTION_ID(%d): %v", in.nextSeq, err)
		}
	}
	// connection.go: newPathManager(c.connIDManager.GetConnIDForPath, c.connIDManager.RetireConnIDForPath, c.logger)
	in.pm = newPathManager(
		func(id pathID) (protocol.ConnectionID, bool) {
			cid, ok := in.m.GetConnIDForPath(id)
			if ok && cid.Len() > 0 {
				in.pathSeq[id] = uint64(cid.Bytes()[1])
			}
			return cid, ok
		},
		in.m.RetireConnIDForPath,
		utils.DefaultLogger,
	)
	return in
}

func (in *c16Spm) livePaths() map[pathID]*path {
	l := map[pathID]*path{}
	for _, p := range in.pm.paths {
		l[p.id] = p
	}
	return l
}

func (in *c16Spm) sortedPathIDs() []int {
	var ids []int
	for id := range in.chal {
		ids = append(ids, int(id))
	}
	sort.Ints(ids)
	return ids
}

func (in *c16Spm) distinctReported() int {
	n := 0
	for _, c := range in.retired {
		if c > 0 {
			n++
		}
	}
	return n
}

func (in *c16Spm) Ops() []explore.Op {
	if in.dead {
		return nil
	}
	var ops []explore.Op
	if in.pending >= 0 {
		ops = append(ops, explore.Op{N: "switch"})
	}
	for a := 0; a < c16SpmNAddr; a++ {
		if a == in.remote {
			continue // connection.go: packets from the current remote address never reach the path manager
		}
		for fl := 1; fl >= 0; fl-- { // non-probing first
			ops = append(ops, explore.Op{N: "pkt", A: a, B: fl})
		}
	}
	for a := 0; a < c16SpmNAddr; a++ {
		if a == in.remote {
			continue
		}
		for fl := 1; fl >= 0; fl-- {
			ops = append(ops, explore.Op{N: "pkt", A: a, B: fl, C: 1}) // the packet carries a PATH_CHALLENGE of the client
		}
	}
	for _, id := range in.sortedPathIDs() {
		c := in.chal[pathID(id)]
		if !c.responded {
			ops = append(ops, explore.Op{N: "resp", A: id})
		}
	}
	for _, id := range in.sortedPathIDs() {
		c := in.chal[pathID(id)]
		if !c.settled {
			ops = append(ops, explore.Op{N: "lost", A: id}, explore.Op{N: "acked", A: id})
		}
	}
	if in.respOut != nil {
		ops = append(ops, explore.Op{N: "rlost"})
	}
	ops = append(ops, explore.Op{N: "tick"}, explore.Op{N: "send"})
	if !in.b.zero && in.nextSeq <= in.b.S && int(in.nextSeq)+1-in.distinctReported() <= protocol.MaxActiveConnectionIDs {
		ops = append(ops, explore.Op{N: "ncid"})
	}
	return ops
}

func (in *c16Spm) t() monotime.Time {
	return c16SpmBase.Add(time.Duration(in.now) * pathTimeout)
}

func (in *c16Spm) Apply(op explore.Op) *explore.Fail {
	m, pm := in.m, in.pm
	in.nRetire, in.tokAdd, in.tokRem = 0, 0, 0
	before := in.livePaths()
	wasPending := in.pending
	in.pending = -1
	validatedBefore := false
	res := ""
	switch op.N {
	case "pkt":
		var pc *wire.PathChallengeFrame
		if op.C == 1 {
			pc = &wire.PathChallengeFrame{Data: [8]byte{0xc1, byte(op.A), 1, 2, 3, 4, 5, 6}}
		}
		nextID := pm.nextPathID
		cid, frames, sw := pm.HandlePacket(c16SpmAddr(op.A), in.t(), pc, op.B == 1)
		nCh, nResp := 0, 0
		for _, f := range frames {
			switch fr := f.Frame.(type) {
			case *wire.PathChallengeFrame:
				nCh++
				// a PATH_CHALLENGE is only sent for a path created in this call: it has the next path ID
				var owner *path
				for _, p := range pm.paths {
					if p.pathChallenge == fr.Data {
						owner = p
					}
				}
				if owner == nil || owner.id != nextID || in.chal[owner.id] != nil {
					return explore.Failf("spm:challenge-without-path", "%v: PATH_CHALLENGE %x sent, but the path manager knows no new path for it", op, fr.Data)
				}
				in.chal[owner.id] = &c16SpmChal{frame: f}
				if !in.b.zero {
					seq, ok := in.pathSeq[owner.id]
					if !ok || cid != c16PeerCID(seq, false) {
						return explore.Failf("spm:probe-cid-not-of-path", "%v: probe packet for path %d uses connection ID %s, GetConnIDForPath handed out sequence number %d (known %v)", op, owner.id, cid, seq, ok)
					}
					if seq == m.activeSequenceNumber {
						return explore.Failf("spm:probe-reuses-active-id", "%v: probe packet for path %d uses the active connection ID (sequence number %d)", op, owner.id, seq)
					}
				}
			case *wire.PathResponseFrame:
				nResp++
				g := f
				in.respOut = &g
			}
		}
		if sw {
			in.pending = op.A
		}
		res = fmt.Sprintf("ch=%d resp=%d sw=%v", nCh, nResp, sw)
	case "switch":
		// connection.go: shouldSwitchPath && pn == largestRcvdAppData
		explore.Must(wasPending >= 0, "switch without pending")
		var to *path
		for _, p := range pm.paths {
			if addrsEqual(p.addr, c16SpmAddr(wasPending)) {
				to = p
			}
		}
		if to == nil || !to.validated {
			return explore.Failf("spm:switch-to-unvalidated-path", "HandlePacket asked to switch to %v, which is not a validated path", c16SpmAddr(wasPending))
		}
		pm.SwitchToPath(c16SpmAddr(wasPending))
		in.switched[to.id] = true
		in.remote = wasPending
	case "resp":
		c := in.chal[pathID(op.A)]
		c.responded = true
		pm.HandlePathResponseFrame(&wire.PathResponseFrame{Data: c.frame.Frame.(*wire.PathChallengeFrame).Data})
	case "lost":
		c := in.chal[pathID(op.A)]
		c.settled = true
		validatedBefore = c.responded
		c.frame.Handler.OnLost(c.frame.Frame)
	case "acked":
		c := in.chal[pathID(op.A)]
		c.settled = true
		c.frame.Handler.OnAcked(c.frame.Frame)
	case "rlost":
		f := in.respOut
		in.respOut = nil
		f.Handler.OnLost(f.Frame)
	case "tick":
		in.now++
	case "send":
		m.SentPacket()
		if cid := m.Get(); cid != m.activeConnectionID {
			return explore.Failf("get-not-active", "Get returned %s, active connection ID is %s", cid, m.activeConnectionID)
		}
	case "ncid":
		seq := in.nextSeq
		in.nextSeq++
		if err := m.Add(&wire.NewConnectionIDFrame{SequenceNumber: seq, ConnectionID: c16PeerCID(seq, false), StatelessResetToken: c16PeerToken(seq, false)}); err != nil {
			return explore.Failf("spm:rejected-within-advertised-limit",
				"NEW_CONNECTION_ID(seq=%d) rejected with %v: the peer issued 0..%d, this endpoint reported %d of them retired, so at most %d are active", seq, err, seq, in.distinctReported(), protocol.MaxActiveConnectionIDs)
		}
	default:
		explore.Must(false, "unknown op %v", op)
	}
	if m.packetsPerConnectionID != 0 {
		m.packetsPerConnectionID = c16RotationPeriod
	}
	m.rand = utils.Rand{}

	// ---- oracle
	after := in.livePaths()
	if len(after) != len(pm.paths) {
		return explore.Failf("spm:path-id-twice", "%v: two paths share a path ID", op)
	}
	cause := func(id pathID) string {
		if _, ok := before[id]; !ok {
			return "earlier"
		}
		switch op.N {
		case "lost":
			if validatedBefore {
				return "challenge-lost-after-validation"
			}
			return "challenge-lost-before-validation"
		case "pkt":
			return "evicted"
		case "switch":
			return "switched-away"
		}
		return op.N
	}
	inUse := map[uint64]string{}
	if !in.b.zero {
		inUse[m.activeSequenceNumber] = "active"
		for _, e := range m.queue {
			inUse[e.SequenceNumber] = "queued"
		}
	}
	ids := make([]int, 0, len(in.pathSeq))
	for id := range in.pathSeq {
		ids = append(ids, int(id))
	}
	sort.Ints(ids)
	lenient := map[uint64]bool{}
	for _, i := range ids {
		id := pathID(i)
		seq := in.pathSeq[id]
		tok := c16PeerToken(seq, false)
		_, live := after[id]
		switch {
		case live:
			if w, dup := inUse[seq]; dup {
				return explore.Failf("spm:path-id-also-"+w, "%v: sequence number %d is the ID of path %d and %s at the same time", op, seq, id, w)
			}
			inUse[seq] = fmt.Sprintf("path%d", id)
			if in.tokens[tok] == 0 || !m.IsActiveStatelessResetToken(tok) {
				return explore.Failf("spm:path-token-missing:"+op.N, "%v: path %d is known to the path manager and uses sequence number %d, but its stateless-reset token is not registered / not accepted (registered %s)", op, id, seq, in.tokenList())
			}
			if in.retired[seq] != 0 {
				return explore.Failf("spm:path-id-retired-while-in-use:"+op.N, "%v: path %d is known to the path manager and uses sequence number %d, which was reported with RETIRE_CONNECTION_ID", op, id, seq)
			}
		case in.switched[id]:
			lenient[seq] = true
		default:
			if in.retired[seq] == 0 {
				return explore.Failf("spm:abandoned-path-id-not-retired:"+cause(id),
					"%v: the path manager has forgotten path %d (%s), the peer connection ID with sequence number %d that was taken for it is not used by anything any more, but no RETIRE_CONNECTION_ID(%d) was queued (reported so far: %v)", op, id, cause(id), seq, seq, in.reportedList())
			}
			if in.tokens[tok] != 0 || m.IsActiveStatelessResetToken(tok) {
				return explore.Failf("spm:abandoned-path-token-registered:"+cause(id),
					"%v: the path manager has forgotten path %d (%s), but the stateless-reset token of its connection ID (sequence number %d) is still registered=%v / accepted=%v", op, id, cause(id), seq, in.tokens[tok] != 0, m.IsActiveStatelessResetToken(tok))
			}
		}
	}
	// every issued sequence number is in use, or reported
	for seq := uint64(0); seq < in.nextSeq && !in.b.zero; seq++ {
		if _, ok := inUse[seq]; ok || lenient[seq] {
			continue
		}
		if in.retired[seq] == 0 {
			return explore.Failf("spm:retired-unreported:"+op.N, "%v: sequence number %d is neither active (%d), queued nor the ID of a known path, and was never reported with RETIRE_CONNECTION_ID", op, seq, m.activeSequenceNumber)
		}
	}
	// tokens: exactly those of the IDs in use (sequence number 0 has none: a client supplies no token for it)
	for tk := range in.tokens {
		seq, alt, ok := c16TokenSeq(tk)
		if !ok || alt || seq == 0 || seq >= in.nextSeq {
			return explore.Failf("token-foreign", "%v: registered stateless-reset token %x was never supplied by the peer", op, tk[:4])
		}
		if w, ok := inUse[seq]; (!ok || w == "queued") && !lenient[seq] {
			return explore.Failf("spm:token-not-in-use:"+op.N, "%v: the stateless-reset token of sequence number %d is registered, but that ID is not in use (active %d, paths %v)", op, seq, m.activeSequenceNumber, in.pathList())
		}
	}
	if a := m.activeSequenceNumber; a != 0 && in.tokens[c16PeerToken(a, false)] == 0 {
		return explore.Failf("spm:active-token-missing:"+op.N, "%v: the stateless-reset token of the active connection ID (sequence number %d) is not registered", op, a)
	}

	// outcome class
	gone := ""
	for id := range before {
		if _, ok := after[id]; !ok {
			if in.switched[id] {
				gone += " switched-to:"
				if in.b.zero {
					gone += "zero-length"
				} else if in.retired[in.pathSeq[id]] > 0 {
					gone += "retired"
				} else {
					gone += "kept"
				}
			} else {
				gone = " forgot:" + cause(id) + gone
			}
		}
	}
	twice := ""
	for _, c := range in.retired {
		if c > 1 {
			twice = " reported-twice"
		}
	}
	in.oc = fmt.Sprintf("%s %s paths=%d retire=%d tok+%d-%d%s%s", op.N, res, len(pm.paths), in.nRetire, in.tokAdd, in.tokRem, c16SortWords(gone), twice)
	return nil
}

func c16SortWords(s string) string {
	w := strings.Fields(s)
	sort.Strings(w)
	if len(w) == 0 {
		return ""
	}
	return " " + strings.Join(w, " ")
}

func (in *c16Spm) Outcome() string { return in.oc }

func (in *c16Spm) tokenList() string {
	var l []string
	for t, n := range in.tokens {
		s, _, _ := c16TokenSeq(t)
		l = append(l, fmt.Sprintf("%d*%d", s, n))
	}
	sort.Strings(l)
	return "[" + strings.Join(l, " ") + "]"
}

func (in *c16Spm) reportedList() []int {
	var l []int
	for s, c := range in.retired {
		for ; c > 0; c-- {
			l = append(l, s)
		}
	}
	return l
}

func (in *c16Spm) pathList() []string {
	var l []string
	for _, p := range in.pm.paths {
		l = append(l, fmt.Sprintf("path%d@%d:seq%d", p.id, c16SpmAddrIdx(p.addr), in.pathSeq[p.id]))
	}
	return l
}

func (in *c16Spm) Key() string {
	var sb strings.Builder
	c16MgrDump(&sb, in.m)
	pm := in.pm
	fmt.Fprintf(&sb, "|pm n=%d [", pm.nextPathID)
	for _, p := range pm.paths {
		age := 0
		if !p.lastPacketTime.Add(pathTimeout).After(in.t()) {
			age = 1 // only "older than pathTimeout or not" is ever read
		}
		own := "x"
		if c := in.chal[p.id]; c != nil && c.frame.Frame.(*wire.PathChallengeFrame).Data == p.pathChallenge {
			own = "o"
		}
		fmt.Fprintf(&sb, "%d@%d a%d v%v n%v %s,", p.id, c16SpmAddrIdx(p.addr), age, p.validated, p.rcvdNonProbing, own)
	}
	fmt.Fprintf(&sb, "]|rem=%d pend=%d next=%d resp=%v dead=%v ret=%v tok=%s|", in.remote, in.pending, in.nextSeq, in.respOut != nil, in.dead, in.retired[:in.b.S+1], in.tokenList())
	for _, i := range in.sortedPathIDs() {
		c := in.chal[pathID(i)]
		seq, ok := in.pathSeq[pathID(i)]
		fmt.Fprintf(&sb, "c%d:%v%v s%d%v sw%v,", i, c.responded, c.settled, seq, ok, in.switched[pathID(i)])
	}
	return sb.String()
}

func c16SpmPart(name string, zero bool) explore.Part {
	return c16Part(name, func(e explore.Env) explore.BFSSpec {
		c16CheckLayout()
		explore.Must(c16Fields(path{}) == "id,addr,lastPacketTime,pathChallenge,validated,rcvdNonProbing", "path layout changed: %s", c16Fields(path{}))
		explore.Must(c16Fields(pathManager{}) == "nextPathID,paths,getConnID,retireConnID,logger", "pathManager layout changed: %s", c16Fields(pathManager{}))
		explore.Must(maxPaths == 3, "maxPaths changed: %d", maxPaths)
		b := c16SpmBounds{S: 5, zero: zero, depth: 6}
		if e.Thorough() {
			b = c16SpmBounds{S: 7, zero: zero, depth: 8}
		}
		if zero {
			b.depth -= 1
		}
		return explore.BFSSpec{
			New:              func() explore.Instance { return newC16Spm(b) },
			MaxDepth:         b.depth,
			PanicIsViolation: true,
			Rule: fmt.Sprintf("BFS (depth %d) over the real server-side pathManager wired to the real connIDManager as connection.go wires them (zero-length peer IDs=%v; start: handshake complete, peer sequence numbers 0..3 issued); alphabet: packet from a remote address A..D or the handshake address (never the connection's current one) x {non-probing, probing} x {with, without a PATH_CHALLENGE of the client}, switch (SwitchToPath + change of the remote address, enabled right after a HandlePacket that returned shouldSwitch), PATH_RESPONSE for any PATH_CHALLENGE sent so far (once each), the packet that carried a PATH_CHALLENGE acknowledged / declared lost (once each; before or after the PATH_RESPONSE), the last PATH_RESPONSE frame sent declared lost, tick (pathTimeout), SentPacket+Get (rotation period owned: %d), NEW_CONNECTION_ID(next sequence number <= %d, no Retire Prior To) while the peer stays within the limit %d; state = every field of connIDManager and pathManager (path age as older / not older than pathTimeout) + ledger",
				b.depth, zero, c16RotationPeriod, b.S, protocol.MaxActiveConnectionIDs),
		}
	})
}
