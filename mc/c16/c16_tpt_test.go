package quic

// C16 part "transport": the real connIDGenerator and the real connIDManager of one
// server-side connection wired — with the very callbacks connection.go installs — to the
// real Transport's packetHandlerMap (Add / AddWithConnID / Remove / ReplaceWithClosed /
// AddResetToken / RemoveResetToken in transport.go), observed through the real
// Transport.handlePacket: after every step the harness injects one datagram per connection
// ID of the universe (every ID ever issued, the client's original destination ID, a
// foreign ID) and one stateless reset per peer token, and looks at what reached the
// (harness) connection object.
//
// ReplaceWithClosed arms a real time.AfterFunc for the closing period, so every execution
// runs inside a testing/synctest bubble: the harness advances the virtual clock with
// time.Sleep. The library BFS replays op paths on fresh instances; an instance here
// re-executes its whole path inside one fresh bubble on every Apply (timers cannot outlive
// a bubble), and caches key / enabled ops / outcome.
//
// Oracle (statement: "Packets are routed to a connection for precisely its issued and not
// yet expired IDs, and stateless-reset tokens are registered exactly for the peer IDs in
// use. After the connection closes, every ID and token is removed once the closing period
// ends, and a retired or foreign ID never reaches the connection"):
//   - open connection: a datagram reaches the connection iff its destination ID is in the
//     model's live set (ledger of c16_gen_test.go); Transport.handlers has exactly these keys;
//   - a stateless reset destroys the connection iff its token belongs to the peer ID in
//     use (active or path probing); Transport.resetTokens has exactly these keys;
//   - closing period over (RemoveAll: immediately): handlers and resetTokens are empty
//     and nothing reaches the connection; at no time does a retired+expired or foreign ID
//     reach it.
//
// Part "transport-paths" (c16WorldCfg.paths): a CLIENT-side connection (connection.go
// newClientConnection wiring, registered as Transport.doDial does) that is reachable through
// TWO real Transports: op "addpath" does what Conn.AddPath's enablePath callback does
// (connIDGenerator.AddConnRunner with the second Transport's packetHandlerMap), at any point
// of the history, i.e. after some IDs were issued / retired / expired. The same observations
// are made on both Transports. On the Transport added later the oracle is the statement read
// leniently, as in c16_gen_test.go: every issued, unretired ID must reach the connection,
// nothing but a live ID (issued and not yet expired) may; before "addpath" nothing may. After
// close: nothing retired+expired / foreign reaches the connection through either Transport,
// and when the closing period is over both handler maps and both token maps are empty (the
// closed stand-ins are gone). connIDGenerator.ReplaceWithClosed hands ONE id slice to every
// registered map and every map keeps it for its expiry timer: the harness passes the slice
// through untouched, and, when it went to two maps, keeps a copy and demands after every
// later step that no callee wrote to it (frame condition of the routing clauses: a map that
// edits the shared slice changes what the other map replaces / removes). connRunners is a Go
// map, so the real code tells the two Transports in either order: the harness forwards the
// two calls in an order chosen by the explorer (close op, B) and explores both.

import (
	"fmt"
	"net"
	"sort"
	"strings"
	"sync/atomic"
	"testing"
	"testing/synctest"
	"time"

	"github.com/refraction-networking/uquic/internal/monotime"
	"github.com/refraction-networking/uquic/internal/protocol"
	"github.com/refraction-networking/uquic/internal/qerr"
	"github.com/refraction-networking/uquic/internal/utils"
	"github.com/refraction-networking/uquic/internal/verifmc/explore"
	"github.com/refraction-networking/uquic/internal/wire"
)

type c16Conn struct {
	handled   atomic.Int64
	destroyed atomic.Int64
}

func (c *c16Conn) handlePacket(p receivedPacket) {
	c.handled.Add(1)
	p.buffer.Release()
}
func (c *c16Conn) destroy(error)                                   { c.destroyed.Add(1) }
func (c *c16Conn) closeWithTransportError(qerr.TransportErrorCode) {}

var _ packetHandler = &c16Conn{}

type c16WorldCfg struct {
	paths bool // client-side connection, a second real Transport can be added (Conn.AddPath)
}

// c16Handed is one id slice the generator handed to a packetHandlerMap.
type c16Handed struct {
	tr   int
	ids  []protocol.ConnectionID // the very slice
	snap []protocol.ConnectionID // its contents at the time of the call
}

type c16World struct {
	cfg       c16WorldCfg
	tr        *Transport
	hm        *packetHandlerMap
	tr2       *Transport // paths: the Transport of the second path
	hm2       *packetHandlerMap
	added2    bool // AddConnRunner(hm2) happened
	srt       bool // the server's stateless_reset_token transport parameter was processed
	handed    []c16Handed
	replCalls []c16ReplCall
	conn      *c16Conn
	g         *connIDGenerator
	m         *connIDManager
	idgen     *c16IDGen
	tick      int
	maxT      int
	capSq     uint64

	newFrames []*wire.NewConnectionIDFrame
	retires   int

	// model (own IDs: as in c16Gen)
	issued  map[uint64]protocol.ConnectionID
	retired map[uint64]bool
	pending []c16Pending
	limit   int
	hc      bool
	phase   int
	closeAt int
	peerIss uint32
	twice   bool // sticky, as in c16Mgr
	outcome string
}

func (w *c16World) nowT() monotime.Time { return c16TimeBase.Add(time.Duration(w.tick) * c16Tick) }

// c16Transport: the part of Transport.init that does not need a socket.
func c16Transport() *Transport {
	return &Transport{
		handlers:            map[protocol.ConnectionID]packetHandler{},
		resetTokens:         map[protocol.StatelessResetToken]packetHandler{},
		closeQueue:          make(chan closePacket, 4),
		statelessResetQueue: make(chan receivedPacket, 4),
		connIDLen:           4,
		logger:              utils.DefaultLogger,
	}
}

// callbacks: what connection.go (newConnection, newClientConnection, AddPath) installs for
// runner; ReplaceWithClosed passes the generator's slice through and remembers it.
func (w *c16World) callbacks(i int, runner *packetHandlerMap) connRunnerCallbacks {
	s := w.conn
	return connRunnerCallbacks{
		AddConnectionID:    func(connID protocol.ConnectionID) { runner.Add(connID, s) },
		RemoveConnectionID: runner.Remove,
		ReplaceWithClosed: func(ids []protocol.ConnectionID, pkt []byte, expiry time.Duration) {
			w.replCalls = append(w.replCalls, c16ReplCall{i, runner, ids, pkt, expiry})
		},
	}
}

// c16ReplCall is one ReplaceWithClosed call of the generator, on its way to a map.
type c16ReplCall struct {
	tr     int
	runner *packetHandlerMap
	ids    []protocol.ConnectionID
	pkt    []byte
	expiry time.Duration
}

// deliverRepl forwards the ReplaceWithClosed calls the generator just made. connRunners is a
// Go map: with two Transports registered the real code calls them in either order, and
// nothing happens between the calls, so forwarding them right after the generator's loop
// in an order chosen by the explorer (second Transport first: op.B == 1) is one of the two
// real executions, and both are explored.
func (w *c16World) deliverRepl(secondFirst bool) {
	sort.SliceStable(w.replCalls, func(a, b int) bool {
		if secondFirst {
			return w.replCalls[a].tr > w.replCalls[b].tr
		}
		return w.replCalls[a].tr < w.replCalls[b].tr
	})
	shared := len(w.replCalls) > 1
	for _, c := range w.replCalls {
		snap := append([]protocol.ConnectionID{}, c.ids...)
		c.runner.ReplaceWithClosed(c.ids, c.pkt, c.expiry)
		if shared { // a slice handed to one map only is that map's business
			w.handed = append(w.handed, c16Handed{tr: c.tr, ids: c.ids, snap: snap})
		}
	}
	w.replCalls = nil
}

func newC16World(cfg c16WorldCfg, maxT int, capSeq uint64) *c16World {
	w := &c16World{cfg: cfg, maxT: maxT, capSq: capSeq, issued: map[uint64]protocol.ConnectionID{}, retired: map[uint64]bool{}, conn: &c16Conn{}}
	w.tr = c16Transport()
	w.hm = (*packetHandlerMap)(w.tr)
	runner := w.hm
	s := w.conn
	w.idgen = &c16IDGen{l: 4}
	src := c16OwnCID(0, 4)
	dcid := c16ClientDCID
	w.issued[0] = src
	queue := func(f wire.Frame) {
		switch f := f.(type) {
		case *wire.NewConnectionIDFrame:
			w.newFrames = append(w.newFrames, f)
		case *wire.RetireConnectionIDFrame:
			w.retires++
		}
	}
	// connection.go:293-311 (newConnection, server side)
	w.m = newConnIDManager(
		c16PeerCID(0, false),
		func(token protocol.StatelessResetToken) { runner.AddResetToken(token, s) },
		runner.RemoveResetToken,
		queue,
	)
	if cfg.paths {
		// connection.go newClientConnection: no client destination ID to retire
		w.tr2 = c16Transport()
		w.hm2 = (*packetHandlerMap)(w.tr2)
		w.g = newConnIDGenerator(runner, src, nil, newStatelessResetter(&c16ResetterKey), w.callbacks(0, runner), queue, w.idgen)
		// transport.go doDial
		w.tr.mutex.Lock()
		w.tr.handlers[src] = s
		w.tr.mutex.Unlock()
		return w
	}
	w.g = newConnIDGenerator(runner, src, &dcid, newStatelessResetter(&c16ResetterKey), w.callbacks(0, runner), queue, w.idgen)
	// server.go: the new connection is registered under the client's destination ID and its own first ID
	explore.Must(runner.AddWithConnID(dcid, src, s), "AddWithConnID failed on an empty transport")
	return w
}

func (w *c16World) highest() uint64 {
	h := uint64(0)
	for s := range w.issued {
		h = max(h, s)
	}
	return h
}

func (w *c16World) ops() []explore.Op {
	switch w.phase {
	case 2:
		return nil
	case 1:
		return []explore.Op{{N: "sleep"}}
	}
	var ops []explore.Op
	if w.tick < w.maxT {
		ops = append(ops, explore.Op{N: "sleep"})
	}
	ops = append(ops, explore.Op{N: "rm"})
	if !w.hc && !w.cfg.paths {
		ops = append(ops, explore.Op{N: "hc"})
	}
	for _, l := range []int{2, 4} {
		if l >= w.limit && w.limit < 4 {
			ops = append(ops, explore.Op{N: "setmax", A: l})
		}
	}
	if h := w.highest(); h < w.capSq {
		for s := uint64(0); s <= min(h, 2); s++ {
			ops = append(ops, explore.Op{N: "retire", A: int(s)})
		}
	}
	if w.cfg.paths {
		// the peer-issued IDs (rotation, path probing, NEW_CONNECTION_ID) live on the first
		// Transport only and are explored by part "transport"; here: the server's
		// stateless_reset_token transport parameter, and the second path
		if !w.srt {
			ops = append(ops, explore.Op{N: "srt"})
		}
		if !w.added2 {
			ops = append(ops, explore.Op{N: "addpath", A: 0})
		}
		ops = append(ops, explore.Op{N: "addpath", A: 1}) // migrating back to the first Transport
		for k := 0; k <= 2; k++ {
			ops = append(ops, explore.Op{N: "close", A: k})
			if w.added2 && k < 2 {
				ops = append(ops, explore.Op{N: "close", A: k, B: 1}) // the second Transport is told first
			}
		}
		return ops
	}
	for s := 1; s <= 3; s++ {
		ops = append(ops, explore.Op{N: "ncid", A: s})
	}
	ops = append(ops, explore.Op{N: "get"}, explore.Op{N: "path"}, explore.Op{N: "rpath"})
	ops = append(ops, explore.Op{N: "close", A: 0}, explore.Op{N: "close", A: 1}, explore.Op{N: "close", A: 2})
	return ops
}

// c16Datagram builds a datagram addressed to cid: short header when the ID has the
// transport's ID length, long header (explicit length) otherwise.
func c16Datagram(cid protocol.ConnectionID, tail []byte) receivedPacket {
	buf := getPacketBuffer()
	d := buf.Data[:0]
	if cid.Len() == 4 {
		d = append(d, 0x40)
		d = append(d, cid.Bytes()...)
	} else {
		d = append(d, 0xc0, 0, 0, 0, 1, byte(cid.Len()))
		d = append(d, cid.Bytes()...)
		d = append(d, 0)
	}
	d = append(d, 0, 0, 0, 0)
	d = append(d, tail...)
	buf.Data = d
	return receivedPacket{buffer: buf, data: d, remoteAddr: &net.UDPAddr{IP: net.IPv4(192, 0, 2, 1), Port: 4433}}
}

func (w *c16World) probeCID(tr *Transport, cid protocol.ConnectionID) (reached, closeRetransmit bool) {
	before := w.conn.handled.Load()
	tr.handlePacket(c16Datagram(cid, nil))
	select {
	case <-tr.closeQueue:
		closeRetransmit = true
	default:
	}
	return w.conn.handled.Load() > before, closeRetransmit
}

func (w *c16World) probeToken(tr *Transport, tok protocol.StatelessResetToken) bool {
	before := w.conn.destroyed.Load()
	tr.handlePacket(c16Datagram(c16ForeignCID, tok[:]))
	synctest.Wait() // the transport calls destroy on its own goroutine
	return w.conn.destroyed.Load() > before
}

func (w *c16World) step(op explore.Op) *explore.Fail {
	w.newFrames, w.retires = nil, 0
	res := ""
	switch op.N {
	case "sleep":
		w.tick++
		time.Sleep(c16Tick)
		synctest.Wait()
	case "rm":
		now := w.nowT()
		w.g.RemoveRetiredConnIDs(now)
		var keep []c16Pending
		for _, p := range w.pending {
			if p.at.After(now) {
				keep = append(keep, p)
			}
		}
		res = fmt.Sprintf("expired=%d", len(w.pending)-len(keep))
		w.pending = keep
	case "hc":
		at := w.nowT().Add(c16Tick)
		w.m.SetHandshakeComplete()
		w.g.SetHandshakeComplete(at)
		w.pending = append(w.pending, c16Pending{c16ClientDCID, at})
		w.hc = true
	case "setmax":
		w.limit = op.A
		if err := w.g.SetMaxActiveConnIDs(uint64(op.A)); err != nil {
			w.phase = 2
			w.outcome = "setmax:error"
			return nil
		}
	case "retire":
		seq := uint64(op.A)
		at := w.nowT().Add(c16Tick)
		if err := w.g.Retire(seq, c16ForeignCID, at); err != nil {
			w.phase = 2
			w.outcome = "retire:" + c16ErrClass(err)
			return nil
		}
		cid, ok := w.issued[seq]
		res = fmt.Sprintf("issued=%v already=%v", ok, w.retired[seq])
		if ok && !w.retired[seq] {
			w.retired[seq] = true
			w.pending = append(w.pending, c16Pending{cid, at})
		}
	case "ncid":
		seq := uint64(op.A)
		w.peerIss |= 1 << seq
		err := w.m.Add(&wire.NewConnectionIDFrame{SequenceNumber: seq, ConnectionID: c16PeerCID(seq, false), StatelessResetToken: c16PeerToken(seq, false)})
		if err != nil {
			w.phase = 2
			w.outcome = "ncid:" + c16ErrClass(err)
			return nil
		}
	case "srt":
		// connection.go applyTransportParameters (client): the token for the server's first ID
		w.m.SetStatelessResetToken(c16PeerToken(0, false))
		w.srt = true
	case "addpath":
		// connection.go AddPath -> pathManagerOutgoing.NewPath(enablePath) -> Path.Probe / Switch
		runner, i := w.hm2, 1
		if op.A == 1 {
			runner, i = w.hm, 0
		}
		res = fmt.Sprintf("second=%v known=%v", op.A == 0, op.A == 1 || w.added2)
		w.g.AddConnRunner(runner, w.callbacks(i, runner))
		if op.A == 0 {
			w.added2 = true
		}
	case "get":
		w.m.Get()
	case "path":
		_, ok := w.m.GetConnIDForPath(1)
		res = fmt.Sprintf("ok=%v", ok)
	case "rpath":
		w.m.RetireConnIDForPath(1)
	case "close":
		// connection.go handleCloseError: generator first, connIDManager.Close deferred to the end
		period := c16ClosePeriod*c16Tick - c16Tick/2 // strictly between two harness ticks
		switch op.A {
		case 0:
			w.g.ReplaceWithClosed(nil, period)
			w.deliverRepl(op.B == 1)
		case 1:
			w.g.ReplaceWithClosed([]byte{0xcc}, period)
			w.deliverRepl(op.B == 1)
		case 2:
			w.g.RemoveAll()
		}
		w.m.Close()
		w.closeAt = w.tick
		w.phase = 1
	default:
		explore.Must(false, "unknown op %v", op)
	}
	if w.m.packetsPerConnectionID != 0 {
		w.m.packetsPerConnectionID = c16RotationPeriod
	}
	w.m.rand = utils.Rand{}
	for _, f := range w.newFrames {
		w.issued[f.SequenceNumber] = f.ConnectionID
	}
	held, n := uint32(1)<<w.m.activeSequenceNumber, 1+len(w.m.queue)+len(w.m.pathProbing)
	for _, e := range w.m.queue {
		held |= 1 << e.SequenceNumber
	}
	for _, e := range w.m.pathProbing {
		held |= 1 << e.SequenceNumber
	}
	if n != len(c16Bits(held)) {
		w.twice = true
	}
	hist := ""
	if w.twice {
		hist = ":id-stored-twice"
	}

	// expectations
	live := map[protocol.ConnectionID]bool{}
	if w.phase == 0 {
		for s, c := range w.issued {
			if !w.retired[s] {
				live[c] = true
			}
		}
		for _, p := range w.pending {
			live[p.cid] = true
		}
		if !w.hc && !w.cfg.paths {
			live[c16ClientDCID] = true
		}
	}
	over := w.phase == 1 && (op.N == "close" && op.A == 2 || w.tick >= w.closeAt+c16ClosePeriod)
	tokWant := map[protocol.StatelessResetToken]uint64{}
	if w.phase == 0 {
		if a := w.m.activeSequenceNumber; a > 0 || w.srt {
			tokWant[c16PeerToken(a, false)] = a
		}
		for _, e := range w.m.pathProbing {
			tokWant[c16PeerToken(e.SequenceNumber, false)] = e.SequenceNumber
		}
	}

	// observation 1: datagrams through Transport.handlePacket
	universe := []protocol.ConnectionID{c16ClientDCID, c16ForeignCID, c16OwnCID(w.idgen.n+1, 4)}
	for s := uint64(0); s <= w.highest(); s++ {
		universe = append(universe, w.issued[s])
	}
	reachedN, standinN := 0, 0
	for _, cid := range universe {
		reached, retr := w.probeCID(w.tr, cid)
		if reached {
			reachedN++
		}
		if retr {
			standinN++
		}
		switch {
		case w.phase == 0 && reached != live[cid]:
			if reached {
				return explore.Failf("transport:reached-not-live:"+op.N, "%v: a datagram for connection ID %s reaches the connection, but the ID is %s (ledger %s)", op, cid, w.why(cid), w.ledger())
			}
			return explore.Failf("transport:live-not-reached:"+op.N, "%v: a datagram for live connection ID %s does not reach the connection (ledger %s; handlers %s)", op, cid, w.ledger(), w.handlerDump())
		case w.phase == 1 && reached && (over || w.why(cid) != "live"):
			return explore.Failf(fmt.Sprintf("transport:reached-after-close:%v", over), "%v: a datagram for connection ID %s (%s) reaches the connection %d tick(s) after it was closed (closing period %d ticks)", op, cid, w.why(cid), w.tick-w.closeAt, c16ClosePeriod)
		}
	}
	// observation 2: stateless resets
	resetN := 0
	for s := uint64(0); s <= 3; s++ {
		tok := c16PeerToken(s, false)
		hit := w.probeToken(w.tr, tok)
		if hit {
			resetN++
		}
		_, want := tokWant[tok]
		switch {
		case w.phase == 0 && hit && !want:
			return explore.Failf("transport:reset-token-not-in-use:"+op.N+hist, "%v: a stateless reset with the token of peer sequence number %d destroys the connection, but the peer IDs in use are active=%d probing=%v", op, s, w.m.activeSequenceNumber, w.probing())
		case w.phase == 0 && !hit && want:
			return explore.Failf("transport:reset-token-missing:"+op.N+hist, "%v: peer sequence number %d is in use (active=%d probing=%v) but a stateless reset with its token is not recognised", op, s, w.m.activeSequenceNumber, w.probing())
		case over && hit:
			return explore.Failf("transport:reset-token-after-close", "%v: closing period over, a stateless reset with the token of peer sequence number %d still reaches the connection", op, s)
		}
	}
	// observation 3: the maps themselves
	w.tr.mutex.Lock()
	nH, nT := len(w.tr.handlers), len(w.tr.resetTokens)
	var extra []string
	for id, h := range w.tr.handlers {
		if w.phase == 0 && (!live[id] || h != packetHandler(w.conn)) {
			extra = append(extra, id.String())
		}
	}
	for tok := range w.tr.resetTokens {
		if _, ok := tokWant[tok]; w.phase == 0 && !ok {
			extra = append(extra, fmt.Sprintf("token %x", tok[:2]))
		}
	}
	w.tr.mutex.Unlock()
	sort.Strings(extra)
	switch {
	case w.phase == 0 && (len(extra) > 0 || nH != len(live) || nT != len(tokWant)):
		return explore.Failf("transport:map-mismatch:"+op.N+hist, "%v: Transport.handlers has %d entries (want the %d live IDs), resetTokens %d (want %d); unexpected: %v; handlers %s", op, nH, len(live), nT, len(tokWant), extra, w.handlerDump())
	case over && (nH != 0 || nT != 0):
		what := "closing period over"
		if op.N == "close" {
			what = "RemoveAll"
		}
		return explore.Failf("transport:left-after-close:"+strings.Fields(what)[0], "%v: %s, Transport.handlers still has %d entries (%s) and resetTokens %d", op, what, nH, w.handlerDump(), nT)
	}
	second := ""
	if w.cfg.paths {
		var fl *explore.Fail
		if second, fl = w.observeSecond(op, over, live, tokWant, universe); fl != nil {
			return fl
		}
	}
	// frame condition: an id slice the generator handed to more than one map is also the
	// other map's list of IDs to replace now and to remove at expiry: a map must not write to it
	for _, h := range w.handed {
		for i := range h.snap {
			if len(h.ids) != len(h.snap) || h.ids[i] != h.snap[i] {
				return explore.Failf(fmt.Sprintf("transport:handed-id-slice-modified:%s:transports=%d", op.N, len(w.g.connRunners)),
					"%v: connIDGenerator.ReplaceWithClosed handed %v to the packetHandlerMap of transport %d (the same slice goes to every registered Transport and stays referenced by each expiry timer); it now reads %v", op, h.snap, h.tr+1, h.ids)
			}
		}
	}
	if over {
		w.phase = 2
	}
	w.outcome = fmt.Sprintf("%s:%s ph=%d new=%d retire=%d reached=%d standin-retransmit=%d resets=%d handlers=%d tokens=%d%s", op.N, res, w.phase, len(w.newFrames), w.retires, reachedN, standinN, resetN, nH, nT, second)
	if op.N == "close" {
		w.outcome += fmt.Sprintf(" kind=%d order=%d", op.A, op.B)
	}
	return nil
}

// observeSecond makes the observations of step on the Transport of the second path.
// Statement, read leniently for a Transport that joined mid-history: every issued,
// unretired ID reaches the connection; only live IDs (issued, not yet expired) do; before
// AddConnRunner and after the closing period nothing is registered.
func (w *c16World) observeSecond(op explore.Op, over bool, live map[protocol.ConnectionID]bool, tokWant map[protocol.StatelessResetToken]uint64, universe []protocol.ConnectionID) (string, *explore.Fail) {
	must := map[protocol.ConnectionID]bool{}
	if w.phase == 0 && w.added2 {
		for s, c := range w.issued {
			if !w.retired[s] {
				must[c] = true
			}
		}
	}
	reachedN, standinN := 0, 0
	for _, cid := range universe {
		reached, retr := w.probeCID(w.tr2, cid)
		if reached {
			reachedN++
		}
		if retr {
			standinN++
		}
		switch {
		case w.phase == 0 && reached && !(w.added2 && live[cid]):
			return "", explore.Failf(fmt.Sprintf("transport:path2:reached-not-live:%s:added=%v", op.N, w.added2), "%v: a datagram for connection ID %s arriving on the second Transport (added: %v) reaches the connection, but the ID is %s (ledger %s)", op, cid, w.added2, w.why(cid), w.ledger())
		case w.phase == 0 && !reached && must[cid]:
			return "", explore.Failf("transport:path2:live-not-reached:"+op.N, "%v: a datagram for the issued, unretired connection ID %s arriving on the second Transport does not reach the connection (ledger %s; handlers %s)", op, cid, w.ledger(), w.handlerDump(w.tr2))
		case w.phase == 1 && reached && (over || w.why(cid) != "live"):
			return "", explore.Failf(fmt.Sprintf("transport:path2:reached-after-close:%v", over), "%v: a datagram for connection ID %s (%s) arriving on the second Transport reaches the connection %d tick(s) after it was closed (closing period %d ticks)", op, cid, w.why(cid), w.tick-w.closeAt, c16ClosePeriod)
		}
	}
	resetN := 0
	for s := uint64(0); s <= 3; s++ {
		tok := c16PeerToken(s, false)
		hit := w.probeToken(w.tr2, tok)
		if hit {
			resetN++
		}
		_, want := tokWant[tok]
		switch {
		case w.phase == 0 && hit && !want:
			return "", explore.Failf("transport:path2:reset-token-not-in-use:"+op.N, "%v: a stateless reset with the token of peer sequence number %d arriving on the second Transport destroys the connection, but the peer IDs in use are active=%d (token known: %v) probing=%v", op, s, w.m.activeSequenceNumber, w.srt, w.probing())
		case over && hit:
			return "", explore.Failf("transport:path2:reset-token-after-close", "%v: closing period over, a stateless reset with the token of peer sequence number %d arriving on the second Transport still reaches the connection", op, s)
		}
	}
	w.tr2.mutex.Lock()
	nH, nT := len(w.tr2.handlers), len(w.tr2.resetTokens)
	var extra []string
	for id, h := range w.tr2.handlers {
		if w.phase == 0 && (!w.added2 || !live[id] || h != packetHandler(w.conn)) {
			extra = append(extra, id.String())
		}
		delete(must, id)
	}
	for tok := range w.tr2.resetTokens {
		if _, ok := tokWant[tok]; w.phase == 0 && !ok {
			extra = append(extra, fmt.Sprintf("token %x", tok[:2]))
		}
	}
	w.tr2.mutex.Unlock()
	sort.Strings(extra)
	switch {
	case w.phase == 0 && (len(extra) > 0 || len(must) > 0):
		return "", explore.Failf("transport:path2:map-mismatch:"+op.N, "%v: second Transport (added: %v): handlers %s; entries that are not live IDs of the connection / tokens not in use: %v; unretired IDs missing: %d (ledger %s)", op, w.added2, w.handlerDump(w.tr2), extra, len(must), w.ledger())
	case over && (nH != 0 || nT != 0):
		what := "closing period over"
		if op.N == "close" {
			what = "RemoveAll"
		}
		return "", explore.Failf("transport:path2:left-after-close:"+strings.Fields(what)[0], "%v: %s, the second Transport's handlers still has %d entries (%s) and resetTokens %d", op, what, nH, w.handlerDump(w.tr2), nT)
	}
	return fmt.Sprintf(" | path2 added=%v reached=%d standin-retransmit=%d resets=%d handlers=%d tokens=%d", w.added2, reachedN, standinN, resetN, nH, nT), nil
}

func (w *c16World) why(cid protocol.ConnectionID) string {
	switch cid {
	case c16ForeignCID:
		return "foreign"
	case c16ClientDCID:
		if w.cfg.paths {
			return "foreign"
		}
		for _, p := range w.pending {
			if p.cid == cid {
				return "live"
			}
		}
		if !w.hc {
			return "live"
		}
		return "the client's original destination ID, expired"
	}
	for s, c := range w.issued {
		if c == cid {
			if !w.retired[s] {
				return "live"
			}
			for _, p := range w.pending {
				if p.cid == cid {
					return "live"
				}
			}
			return fmt.Sprintf("sequence number %d, retired and expired", s)
		}
	}
	return "not issued yet"
}

func (w *c16World) probing() []uint64 {
	var l []uint64
	for _, e := range w.m.pathProbing {
		l = append(l, e.SequenceNumber)
	}
	sort.Slice(l, func(i, j int) bool { return l[i] < l[j] })
	return l
}

func (w *c16World) ledger() string {
	var l []string
	for s, c := range w.issued {
		st := ""
		if w.retired[s] {
			st = "(retired)"
		}
		l = append(l, fmt.Sprintf("%d:%s%s", s, c, st))
	}
	sort.Strings(l)
	return strings.Join(l, " ")
}

func (w *c16World) handlerDump(trs ...*Transport) string {
	tr := w.tr
	if len(trs) == 1 {
		tr = trs[0]
	}
	tr.mutex.Lock()
	defer tr.mutex.Unlock()
	var l []string
	for id, h := range tr.handlers {
		k := "?"
		switch h := h.(type) {
		case *c16Conn:
			k = "L"
		case *closedLocalConn:
			k = fmt.Sprintf("c%d", h.counter.Load())
		case *closedRemoteConn:
			k = "r"
		}
		l = append(l, id.String()+":"+k)
	}
	sort.Strings(l)
	s := strings.Join(l, ",") + "|"
	var tl []string
	for tok := range tr.resetTokens {
		tl = append(tl, fmt.Sprintf("%x", tok[:3]))
	}
	sort.Strings(tl)
	return s + strings.Join(tl, ",")
}

func (w *c16World) key() string {
	var sb strings.Builder
	c16GenDump(&sb, w.g)
	sb.WriteByte('|')
	c16MgrDump(&sb, w.m)
	fmt.Fprintf(&sb, "|%s|n=%d t=%d lim=%d hc=%v ph=%d ca=%d pi=%x tw=%v|%s|", w.handlerDump(), w.idgen.n, w.tick, w.limit, w.hc, w.phase, w.closeAt, w.peerIss, w.twice, w.ledger())
	for _, p := range w.pending {
		fmt.Fprintf(&sb, "%s@%d,", p.cid, p.at)
	}
	if w.cfg.paths {
		fmt.Fprintf(&sb, "|path2 added=%v runners=%d srt=%v %s", w.added2, len(w.g.connRunners), w.srt, w.handlerDump(w.tr2))
	}
	return sb.String()
}

// c16Tpt is the BFS-facing instance: a recorded path, re-executed in one bubble per Apply.
type c16Tpt struct {
	t       *testing.T
	cfg     c16WorldCfg
	maxT    int
	capSeq  uint64
	path    []explore.Op
	k       string
	enabled []explore.Op
	outcome string
}

func (in *c16Tpt) exec() (fl *explore.Fail) {
	var harnessPanic any
	defer func() {
		if harnessPanic != nil {
			panic(harnessPanic) // explore.Must inside the bubble: re-raised on the caller's goroutine
		}
	}()
	synctest.Test(in.t, func(*testing.T) {
		defer func() {
			if x := recover(); x != nil {
				if fmt.Sprintf("%T", x) == "explore.harnessErr" {
					harnessPanic = x
					return
				}
				msg := fmt.Sprint(x)
				fl = explore.Failf("panic:transport:"+strings.SplitN(msg, "\n", 2)[0], "panic while executing %v: %v", in.path, msg)
			}
		}()
		w := newC16World(in.cfg, in.maxT, in.capSeq)
		for i, op := range in.path {
			f := w.step(op)
			if f != nil {
				explore.Must(i == len(in.path)-1, "replay divergence: prefix op %d (%v) of %v fails: %s", i, op, in.path, f.What)
				fl = f
				return
			}
		}
		in.k, in.enabled, in.outcome = w.key(), w.ops(), w.outcome
	})
	return fl
}

func (in *c16Tpt) Ops() []explore.Op { return in.enabled }
func (in *c16Tpt) Apply(op explore.Op) *explore.Fail {
	in.path = append(in.path, op)
	return in.exec()
}
func (in *c16Tpt) Key() string     { return in.k }
func (in *c16Tpt) Outcome() string { return in.outcome }

func c16TptPart(name string, t *testing.T, cfg c16WorldCfg) explore.Part {
	return c16Part(name, func(e explore.Env) explore.BFSSpec {
		maxT, capSeq, depth := 3, uint64(3), 6
		if e.Thorough() {
			maxT, capSeq, depth = 4, 4, 7
		}
		if cfg.paths {
			// close + the whole closing period must fit behind the shortest history with an ID
			// retired before and another one retired after the second Transport was added
			depth += 2
			return explore.BFSSpec{
				New: func() explore.Instance {
					in := &c16Tpt{t: t, cfg: cfg, maxT: maxT, capSeq: capSeq}
					fl := in.exec()
					explore.Must(fl == nil, "initial state violates the oracle: %v", fl)
					return in
				},
				MaxDepth:         depth,
				PanicIsViolation: true,
				Rule: fmt.Sprintf("BFS (depth %d) over the real connIDGenerator + connIDManager of a client-side connection wired to the packetHandlerMaps of TWO real Transports inside a synctest bubble; alphabet: AddConnRunner(second Transport) once at any point of the history, AddConnRunner(first Transport) again, SetMaxActiveConnIDs(2|4), peer RETIRE_CONNECTION_ID(seq 0..2) while highest < %d, RemoveRetiredConnIDs, the server's stateless_reset_token parameter, sleep one tick (<= %d), close by peer / local (each with the two Transports told in either order: connRunners is a map) / RemoveAll then sleep through the closing period; after every step one datagram per known/foreign connection ID and one stateless reset per peer token go through handlePacket of BOTH Transports; the id slices handed to the maps are compared with copies after every step",
					depth, capSeq, maxT),
			}
		}
		return explore.BFSSpec{
			New: func() explore.Instance {
				in := &c16Tpt{t: t, maxT: maxT, capSeq: capSeq}
				fl := in.exec()
				explore.Must(fl == nil, "initial state violates the oracle: %v", fl)
				return in
			},
			MaxDepth:         depth,
			PanicIsViolation: true,
			Rule: fmt.Sprintf("BFS (depth %d) over real connIDGenerator + connIDManager wired to the real Transport packetHandlerMap inside a synctest bubble (closing-period timer on the virtual clock); alphabet: SetMaxActiveConnIDs(2|4), handshake completion, peer RETIRE_CONNECTION_ID(seq 0..2) while highest < %d, RemoveRetiredConnIDs, NEW_CONNECTION_ID(1..3), Get, GetConnIDForPath/RetireConnIDForPath, sleep one tick (<= %d), close by peer / local / RemoveAll then sleep through the closing period; after every step one datagram per known/foreign connection ID and one stateless reset per peer token go through Transport.handlePacket",
				depth, capSeq, maxT),
		}
	})
}
