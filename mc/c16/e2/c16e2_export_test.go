package quic

import (
	"sort"
	"time"
)

// Export shim for the C16 E2 harness (package quic_test): read-only views of the routing
// table and the reset-token table of a Transport, and of the probe timeout of a connection.

// VerifC16Lookup returns the live connection a datagram carrying the Destination
// Connection ID id is handed to by t (nil if the ID is unknown or belongs to the stand-in
// of a closed connection).
func VerifC16Lookup(t *Transport, id ConnectionID) *Conn {
	t.mutex.Lock()
	defer t.mutex.Unlock()
	return verifC16Live(t.handlers[id])
}

// verifC16Live unwraps a routing entry: the server registers its connections as
// *wrappedConn (original Destination Connection ID, first own ID), the connection ID
// generator registers the *Conn itself.
func verifC16Live(h packetHandler) *Conn {
	switch c := h.(type) {
	case *Conn:
		return c
	case *wrappedConn:
		if c != nil {
			return c.Conn
		}
	}
	return nil
}

// VerifC16Conns returns the distinct live connections of the routing table (order of first
// discovery is irrelevant to the callers: they only count).
func VerifC16Conns(t *Transport) []*Conn {
	t.mutex.Lock()
	defer t.mutex.Unlock()
	seen := map[*Conn]bool{}
	var out []*Conn
	for _, h := range t.handlers {
		if c := verifC16Live(h); c != nil && !seen[c] {
			seen[c] = true
			out = append(out, c)
		}
	}
	return out
}

// VerifC16Tables returns the number of routing entries (stand-ins of closed connections
// included) and of registered stateless-reset tokens.
func VerifC16Tables(t *Transport) (ids, tokens int) {
	t.mutex.Lock()
	defer t.mutex.Unlock()
	return len(t.handlers), len(t.resetTokens)
}

// VerifC16PTO is the connection's current probe timeout without max_ack_delay: the unit of
// the retirement delay of connection IDs.
func VerifC16PTO(c *Conn) time.Duration { return c.rttStats.PTO(false) }

// VerifC16IDsOf lists (sorted, hex) the connection IDs that t routes to c.
func VerifC16IDsOf(t *Transport, c *Conn) []string {
	t.mutex.Lock()
	defer t.mutex.Unlock()
	var out []string
	for id, h := range t.handlers {
		if hc := verifC16Live(h); hc != nil && hc == c {
			out = append(out, id.String())
		}
	}
	sort.Strings(out)
	return out
}
