package quic

import "time"

// Export shim for the C16 E2 harness (package quic_test): read-only views of the routing
// table and the reset-token table of a Transport, and of the probe timeout of a connection.

// VerifC16Lookup returns the live connection a datagram carrying the Destination
// Connection ID id is handed to by t (nil if the ID is unknown or belongs to the stand-in
// of a closed connection).
func VerifC16Lookup(t *Transport, id ConnectionID) *Conn {
	t.mutex.Lock()
	defer t.mutex.Unlock()
	c, _ := t.handlers[id].(*Conn)
	return c
}

// VerifC16Conns returns the distinct live connections of the routing table (order of first
// discovery is irrelevant to the callers: they only count).
func VerifC16Conns(t *Transport) []*Conn {
	t.mutex.Lock()
	defer t.mutex.Unlock()
	seen := map[*Conn]bool{}
	var out []*Conn
	for _, h := range t.handlers {
		if c, ok := h.(*Conn); ok && !seen[c] {
			seen[c] = true
			out = append(out, c)
		}
	}
	return out
}

// VerifC16Tables returns the number of routing entries (stand-ins of closed connections
// included) and of registered stateless-reset tokens.
func VerifC16Tables(t *Transport) (ids, tokens int) {
	t.mutex.Lock()
	defer t.mutex.Unlock()
	return len(t.handlers), len(t.resetTokens)
}

// VerifC16PTO is the connection's current probe timeout without max_ack_delay: the unit of
// the retirement delay of connection IDs.
func VerifC16PTO(c *Conn) time.Duration { return c.rttStats.PTO(false) }
