package quic_test

// C16, E2 part 'e2-odcid-lifetime': whole connections (real client, real server, virtual
// time, mc/lib/sim) and the lifetime of the one routed ID the server did not issue itself:
// the Destination Connection ID of the client's first Initial.
//
// "Packets are routed to a connection for precisely its issued and not yet expired IDs":
// the client's original Destination Connection ID belongs to the server's connection from
// its creation; its retirement is scheduled when the handshake completes and it expires
// one retirement delay (3 PTO, the delay every retired ID of this implementation gets)
// later. Until then every datagram that carries it (a delayed, duplicated or replayed
// first flight) has to reach that connection and must not be taken for a new connection
// attempt; once it has expired and the connection has processed another packet it is not
// routed to the connection any more. After both sides closed and the closing period is
// over, no ID and no stateless-reset token is left in either Transport.
//
// Alphabet: client kind x path latency x duration of the server's certificate callback
// (stretches the handshake beyond the retirement delay) x traffic during the retention
// period (idle / one byte shortly before every inspection, which makes the server's run
// loop iterate) x the instant at which the network replays the client's first flight
// (never / at 0.25, 0.6, 0.9 of the retention period / after expiry), plus every single
// fault (drop, duplicate, two delays) on the first datagrams of either direction.

import (
	"context"
	"encoding/json"
	"fmt"
	"io"
	"runtime"
	"sync"
	"testing"
	"testing/synctest"
	"time"

	quic "github.com/refraction-networking/uquic"
	"github.com/refraction-networking/uquic/internal/verifmc/explore"
	"github.com/refraction-networking/uquic/internal/verifmc/sim"
	"github.com/refraction-networking/uquic/qlog"
	"github.com/refraction-networking/uquic/qlogwriter"
	tls "github.com/refraction-networking/utls"
)

const c16e2Part = "e2-odcid-lifetime"

// instants at which the first flight is replayed, as fractions of the retention period
// (index 0: never; the last one lies after the expiry)
var c16e2ReplayAt = []float64{0, 0.25, 0.6, 0.9, 1.6}

// instants at which the routing table is inspected inside the retention period
var c16e2Probes = []float64{0, 1.0 / 3, 2.0 / 3, 0.95}

type c16e2Config struct {
	Kind     string       `json:"kind"`     // plain | chrome115
	OneWayMs int          `json:"onewayMs"` // one-way latency of the path
	CertMs   int          `json:"certMs"`   // virtual time the server's GetCertificate callback takes
	Replay   int          `json:"replay"`   // index into c16e2ReplayAt
	Active   bool         `json:"active"`   // the client sends one byte shortly before every inspection
	Faults   sim.FaultMap `json:"faults"`   // fates of the first datagrams
	Seed     uint64       `json:"seed"`
}

func (c c16e2Config) String() string {
	return fmt.Sprintf("%s oneway=%dms cert=%dms replay@%.2f active=%v faults=%v", c.Kind, c.OneWayMs, c.CertMs, c16e2ReplayAt[c.Replay], c.Active, c.Faults)
}

type c16e2Result struct {
	fail    *explore.Fail
	class   string
	ndgrams int
	human   []string
}

// c16e2Trace is the server application's qlog sink: it only notes the instant the server
// connection reports the completion of its handshake (the ALPN event is recorded by
// handleHandshakeComplete on the connection's run loop).
type c16e2Trace struct{ onHandshakeComplete func() }

func (t *c16e2Trace) AddProducer() qlogwriter.Recorder { return t }
func (t *c16e2Trace) SupportsSchemas(string) bool      { return true }
func (t *c16e2Trace) Close() error                     { return nil }
func (t *c16e2Trace) RecordEvent(ev qlogwriter.Event) {
	switch ev.(type) {
	case qlog.ALPNInformation, *qlog.ALPNInformation:
		t.onHandshakeComplete()
	}
}

func c16e2Transport(d sim.Dialer) *quic.Transport {
	switch x := d.(type) {
	case *quic.Transport:
		return x
	case *quic.UTransport:
		return x.Transport
	}
	return nil
}

func c16e2Run(t *testing.T, cfg c16e2Config) c16e2Result {
	var res c16e2Result
	note := func(format string, a ...any) { res.human = append(res.human, fmt.Sprintf(format, a...)) }
	fail := func(key, format string, a ...any) {
		if res.fail == nil {
			res.fail = explore.Failf("e2:"+key, "%v: %s", cfg, fmt.Sprintf(format, a...))
			explore.NoteCurrent(explore.GetEnv(), res.fail.Key, res.fail.What)
		}
	}
	ok := sim.Run(t, "run", cfg.Seed, func(t *testing.T) {
		lat := time.Duration(cfg.OneWayMs) * time.Millisecond
		w := sim.NewWorld(cfg.Faults)
		w.Router.Latency = lat
		start := time.Now()
		since := func() time.Duration { return time.Since(start) }
		sleepUntil := func(d time.Duration) {
			if x := d - since(); x > 0 {
				time.Sleep(x)
			}
		}
		ctx, cancel := context.WithCancel(context.Background())
		defer cancel()

		// ---- server: certificate callback of a chosen duration, qlog sink
		var (
			mu        sync.Mutex
			attempts  int // connections the server started (one Tracer call each)
			firstID   quic.ConnectionID
			tHS       time.Duration = -1
			ptoHS     time.Duration
			hsConn    *quic.Conn
			certCalls int
		)
		hsCh := make(chan struct{})
		stls := w.ServerTLS(false)
		cert := stls.Certificates[0]
		stls.Certificates = nil
		stls.GetCertificate = func(*tls.ClientHelloInfo) (*tls.Certificate, error) {
			mu.Lock()
			certCalls++
			mu.Unlock()
			if cfg.CertMs > 0 {
				time.Sleep(time.Duration(cfg.CertMs) * time.Millisecond)
			}
			return &cert, nil
		}
		sconf := &quic.Config{Tracer: func(_ context.Context, _ bool, id quic.ConnectionID) qlogwriter.Trace {
			mu.Lock()
			attempts++
			n := attempts
			if n == 1 {
				firstID = id
			}
			mu.Unlock()
			if n != 1 {
				return nil
			}
			return &c16e2Trace{onHandshakeComplete: func() {
				// on the server connection's run loop, inside handleHandshakeComplete
				c := quic.VerifC16Lookup(w.ServerTr, id)
				if c == nil {
					if cs := quic.VerifC16Conns(w.ServerTr); len(cs) == 1 {
						c = cs[0]
					}
				}
				mu.Lock()
				defer mu.Unlock()
				if tHS >= 0 {
					return
				}
				tHS = since()
				hsConn = c
				if c != nil {
					ptoHS = quic.VerifC16PTO(c)
				}
				close(hsCh)
			}}
		}}
		ln, err := w.Listen(stls, sconf)
		if err != nil {
			t.Fatal(err)
		}
		var wg sync.WaitGroup
		var sconn *quic.Conn
		sready := make(chan struct{})
		wg.Add(1)
		go func() {
			defer wg.Done()
			c, err := ln.Accept(ctx)
			if err != nil {
				close(sready)
				return
			}
			sconn = c
			close(sready)
			for {
				s, err := c.AcceptStream(ctx)
				if err != nil {
					return
				}
				wg.Add(1)
				go func() { defer wg.Done(); io.Copy(s, s) }() // echo
			}
		}()

		// ---- client
		kind := sim.Plain
		if cfg.Kind == "chrome115" {
			kind = sim.Parrot("chrome115", quic.QUICChrome_115)
		}
		d, cep, _ := w.NewDialer(kind)
		var conn *quic.Conn
		teardown := func() {
			cancel()
			if conn != nil {
				conn.CloseWithError(0, "")
			}
			if sconn != nil {
				sconn.CloseWithError(0, "")
			}
			d.Close()
			ln.Close()
			if w.ServerTr != nil {
				w.ServerTr.Close()
			}
			w.CloseEndpoints()
			wg.Wait()
		}
		// after both sides closed and the closing period is over nothing is left
		closeAndCheckTables := func() {
			if conn != nil {
				conn.CloseWithError(0, "")
			}
			if sconn != nil {
				sconn.CloseWithError(0, "")
			}
			time.Sleep(60 * time.Second)
			synctest.Wait()
			if ids, toks := quic.VerifC16Tables(w.ServerTr); ids != 0 || toks != 0 {
				fail("left-after-close:server", "60 s after both sides closed the server's Transport still holds %d routing entries and %d stateless-reset tokens", ids, toks)
			}
			if tr := c16e2Transport(d); tr != nil {
				if ids, toks := quic.VerifC16Tables(tr); ids != 0 || toks != 0 {
					fail("left-after-close:client", "60 s after both sides closed the client's Transport still holds %d routing entries and %d stateless-reset tokens", ids, toks)
				}
			}
			res.ndgrams = w.Router.Count(sim.C2S) + w.Router.Count(sim.S2C)
		}

		dctx, dcancel := context.WithTimeout(ctx, 30*time.Second)
		conn, err = d.Dial(dctx, w.ServerAddr, w.ClientTLS(), &quic.Config{})
		dcancel()
		if err != nil {
			res.class = "no connection: " + sim.ErrClass(err)
			closeAndCheckTables()
			teardown()
			return
		}
		str, err := conn.OpenStreamSync(ctx)
		written, echoed := 0, 0
		echo := make(chan struct{}, 64)
		if err == nil {
			_, err = str.Write([]byte{0})
			written++
			wg.Add(1)
			go func() {
				defer wg.Done()
				b := make([]byte, 1)
				for {
					if _, err := io.ReadFull(str, b); err != nil {
						return
					}
					echo <- struct{}{}
				}
			}()
		}
		if err != nil {
			res.class = "no stream: " + sim.ErrClass(err)
			closeAndCheckTables()
			teardown()
			return
		}
		select {
		case <-hsCh:
		case <-time.After(8 * time.Second):
		}
		select {
		case <-sready:
		case <-time.After(time.Second):
		}
		synctest.Wait()
		mu.Lock()
		hsAt, pto, hc := tHS, ptoHS, hsConn
		mu.Unlock()
		if hsAt < 0 || sconn == nil {
			res.class = "the server did not complete the handshake"
			closeAndCheckTables()
			teardown()
			return
		}

		// ---- the client's first flight as the network saw it, and the ID it carries
		var flight [][]byte
		var t0 time.Duration = -1
		for _, ev := range w.Router.FullLog() {
			if ev.Dir != sim.C2S || ev.Injected {
				continue
			}
			if t0 < 0 {
				t0 = ev.T
			}
			if ev.T == t0 {
				flight = append(flight, ev.Data)
			}
		}
		explore.Must(len(flight) > 0 && len(flight[0]) > 7 && flight[0][0]&0x80 != 0 && 6+int(flight[0][5]) <= len(flight[0]), "first client datagram is not a long-header packet")
		odcid := quic.ConnectionIDFromBytes(flight[0][6 : 6+int(flight[0][5])])
		explore.Must(odcid == firstID, "the server's Tracer was called with %v, the first Initial carries %v", firstID, odcid)

		if hc == nil {
			fail("odcid-not-routed:at-handshake-completion", "when the server completed the handshake (t=%v) the client's original Destination Connection ID %v was routed to no connection and the Transport held %d connections", hsAt, odcid, len(quic.VerifC16Conns(w.ServerTr)))
			closeAndCheckTables()
			teardown()
			return
		}
		// The retention period: scheduled at handshake completion, one retirement delay long.
		retention := 3 * pto
		hsClass := "handshake<=3PTO"
		if hsAt-t0-lat > retention {
			hsClass = "handshake>3PTO"
		}
		note("first Initial sent t=%v, server handshake complete t=%v, PTO then %v, original DCID %v retained until t=%v", t0, hsAt, pto, odcid, hsAt+retention)
		at := func(f float64) time.Duration { return hsAt + time.Duration(f*float64(retention)) }
		replayed := false
		replay := func() {
			for _, dg := range flight {
				w.Router.Inject(cep.LocalAddr(), w.ServerAddr, dg, 0)
			}
			replayed = true
			note("t=%v: the network replays the client's first flight (%d datagrams), arriving t=%v", since(), len(flight), since()+lat)
		}
		poke := func() {
			if _, err := str.Write([]byte{1}); err != nil {
				note("t=%v: write failed: %v", since(), err)
				return
			}
			written++
		}
		// awaitEchoes returns once the server application has echoed every byte written so far:
		// the server connection's run loop has then processed the packet carrying the last one.
		awaitEchoes := func() bool {
			for echoed < written {
				select {
				case <-echo:
					echoed++
				case <-time.After(10 * time.Second):
					return false
				}
			}
			return true
		}
		inspect := func(label string) {
			synctest.Wait()
			now := since()
			if now > at(0.96) {
				return // (cannot happen with the instants below; never judge outside the period)
			}
			mu.Lock()
			n := attempts
			mu.Unlock()
			hist := fmt.Sprintf("%s:%s", hsClass, label)
			if replayed {
				hist += ":after-replay"
			}
			if got := quic.VerifC16Lookup(w.ServerTr, odcid); got != hc {
				state := "not routed at all"
				if got != nil {
					state = "routed to another connection"
				}
				fail("odcid-dropped-early:"+hist, "t=%v, %v after the server completed the handshake (retirement delay 3 PTO = %v, handshake took %v): the client's original Destination Connection ID %v is %s (IDs routed to the connection: %v); it has to reach the connection until t=%v", now, now-hsAt, retention, hsAt-t0, odcid, state, quic.VerifC16IDsOf(w.ServerTr, hc), hsAt+retention)
			}
			if n != 1 {
				fail("odcid-new-connection:"+hist, "t=%v, %v after the server completed the handshake (retirement delay 3 PTO = %v): the server has started %d connections (%d certificate callbacks) for one client: a datagram carrying the original Destination Connection ID %v was taken for a new connection attempt although the ID has not expired (t=%v)", now, now-hsAt, retention, n, certCalls, odcid, hsAt+retention)
			}
		}

		// ---- inside the retention period
		type step struct {
			f    float64
			what int // 0 inspect, 1 replay (so that it arrives at f), 2 poke (so that it arrives 1 ms before f)
			lbl  string
		}
		var steps []step
		for _, f := range c16e2Probes {
			steps = append(steps, step{f, 0, fmt.Sprintf("at-%.2f", f)})
		}
		lastIn := at(0.95)
		for i := range steps {
			if cfg.Active && steps[i].f > 0 {
				steps = append(steps, step{steps[i].f, 2, ""})
			}
		}
		if cfg.Replay > 0 && c16e2ReplayAt[cfg.Replay] < 1 {
			steps = append(steps, step{c16e2ReplayAt[cfg.Replay], 1, ""})
		}
		when := func(s step) time.Duration {
			switch s.what {
			case 1:
				return at(s.f) - lat
			case 2:
				return at(s.f) - lat - time.Millisecond
			}
			return at(s.f)
		}
		// order by instant (stable: small fixed list)
		for i := 1; i < len(steps); i++ {
			for j := i; j > 0 && when(steps[j]) < when(steps[j-1]); j-- {
				steps[j], steps[j-1] = steps[j-1], steps[j]
			}
		}
		for _, s := range steps {
			sleepUntil(when(s))
			switch s.what {
			case 0:
				inspect(s.lbl)
			case 1:
				if since()+lat < lastIn {
					replay()
				}
			case 2:
				poke()
			}
		}

		// ---- after the expiry: a byte sent after the expiry came back, i.e. the server connection
		// has processed a packet (its run loop has iterated) since the ID expired: the ID is gone
		sleepUntil(at(1.05))
		poke()
		expiredChecked := awaitEchoes()
		synctest.Wait()
		if !expiredChecked {
			note("t=%v: no echo within 10 s, the state after the expiry is not judged", since())
		} else if got := quic.VerifC16Lookup(w.ServerTr, odcid); got == hc {
			fail("odcid-routed-after-expiry:"+hsClass, "t=%v: the client's original Destination Connection ID %v expired at t=%v (handshake completion + 3 PTO) and the connection has processed a packet since, but it is still routed to the connection (IDs routed to it: %v)", since(), odcid, hsAt+retention, quic.VerifC16IDsOf(w.ServerTr, hc))
		}
		if cfg.Replay > 0 && c16e2ReplayAt[cfg.Replay] >= 1 {
			sleepUntil(at(c16e2ReplayAt[cfg.Replay]))
			replay()
			time.Sleep(lat + time.Millisecond)
			synctest.Wait()
		}
		mu.Lock()
		nEnd := attempts
		mu.Unlock()
		res.class = fmt.Sprintf("%s lat=%dms %s retention~%v replay@%.2f server-connections=%d expiry-checked=%v", cfg.Kind, cfg.OneWayMs, hsClass, retention.Round(10*time.Millisecond), c16e2ReplayAt[cfg.Replay], nEnd, expiredChecked)
		closeAndCheckTables()
		teardown()
	})
	if !ok && res.fail == nil {
		fail("bubble", "the bubble did not terminate: goroutines are still blocked after everything was closed")
	}
	return res
}

func c16e2Configs(e explore.Env) ([]c16e2Config, string) {
	seed := uint64(e.Seed) + 16
	kinds := []string{"plain", "chrome115"}
	lats := []int{5, 50}
	certs := []int{0, 40, 400, 2000}
	nf := [2]int{3, 3}
	if e.Thorough() {
		lats = []int{1, 5, 50, 200}
		certs = []int{0, 10, 40, 150, 400, 2000, 4000}
		nf = [2]int{6, 6}
	}
	var cfgs []c16e2Config
	for _, k := range kinds {
		for _, l := range lats {
			for _, c := range certs {
				for r := range c16e2ReplayAt {
					for _, a := range []bool{false, true} {
						cfgs = append(cfgs, c16e2Config{Kind: k, OneWayMs: l, CertMs: c, Replay: r, Active: a, Seed: seed})
					}
				}
			}
		}
	}
	fates := []sim.Fate{sim.Drop, sim.Dup, sim.Delay, sim.DelayLong}
	for _, k := range kinds {
		for _, m := range sim.AllSingleFaults(nf, fates) {
			replays := []int{2}
			if e.Thorough() {
				replays = []int{0, 1, 2, 3, 4}
			}
			for _, r := range replays {
				cfgs = append(cfgs, c16e2Config{Kind: k, OneWayMs: 5, CertMs: 0, Replay: r, Active: true, Faults: m, Seed: seed})
			}
		}
	}
	rule := fmt.Sprintf("whole connections in virtual time, one execution per case: client kind %v x one-way latency %v ms x duration of the server's certificate callback %v ms x replay of the client's first flight {never, arriving at 0.25 / 0.6 / 0.9 of the retention period of the original Destination Connection ID, after its expiry} x {idle, one client byte 1 ms before every inspection}; plus every single fault %v on the first %d datagrams of either direction (latency 5 ms); the server's routing table is inspected at 0, 1/3, 2/3 and 0.95 of the retention period (handshake completion + 3 PTO), after the expiry, and 60 s after both sides closed", kinds, lats, certs, fates, nf[0])
	return cfgs, rule
}

func TestVerifC16E2(t *testing.T) {
	// the oracle is independent of the goroutine schedule; one P keeps executions repeatable
	// (the driver does not set GOMAXPROCS for replays)
	runtime.GOMAXPROCS(1)
	sim.InitCerts(t)
	part := explore.Part{Name: c16e2Part}
	part.Run = func(e explore.Env) *explore.Report {
		cfgs, rule := c16e2Configs(e)
		rep := explore.RunCases(e, len(cfgs), 1, false, func(i int) explore.CaseResult {
			explore.MarkCurrent(e, c16e2Part, cfgs[i])
			r := c16e2Run(t, cfgs[i])
			cr := explore.CaseResult{Outcome: r.class, Execs: 1, Trans: int64(r.ndgrams), Replay: cfgs[i]}
			if r.fail != nil {
				cr.Fail, cr.Human = r.fail, append([]string{cfgs[i].String()}, r.human...)
			}
			return cr
		})
		explore.ClearCurrent(e)
		rep.Level, rep.Rule, rep.Bound = "fault_enumeration", rule, rule
		rep.Samples = []any{cfgs[0].String(), cfgs[len(cfgs)/2].String(), cfgs[len(cfgs)-1].String()}
		return rep
	}
	part.Replay = func(e explore.Env, raw json.RawMessage) *explore.Violation {
		var cfg c16e2Config
		if err := json.Unmarshal(raw, &cfg); err != nil {
			t.Fatal(err)
		}
		r := c16e2Run(t, cfg)
		if r.fail == nil {
			return nil
		}
		return &explore.Violation{Key: r.fail.Key, What: r.fail.What, Human: append([]string{cfg.String()}, r.human...)}
	}
	explore.Main("C16", []explore.Part{part}, func(msg string) { t.Fatal(msg) })
}
