package quic

// C16 E3: peer connection IDs taken for path probing, under lock-point exploration.
//
// The application (Path.Probe, Path.Close, Path.Switch, each from its own goroutine, and the
// re-probe that Probe's timer performs) races with the run loop (NextPathToProbe when a packet
// is packed, HandlePathResponseFrame, ShouldSwitchPath, a NEW_CONNECTION_ID arriving) on ONE
// real pathManagerOutgoing that is wired to ONE real connIDManager exactly as connection.go
// wires them (GetConnIDForPath / RetireConnIDForPath). path_manager_outgoing.go is rebuilt
// against mc/lib/vsync: every Lock and every Unlock of its mutex is a scheduler point, and so is
// the lock the path's Transport takes inside the enablePath callback (harness-owned vsync mutex,
// created per execution). Every schedule with at most two (thorough: three) preemptions is run.
//
// Oracle (statement of C16, evaluated when every call has returned): "reports every sequence
// number it retires (because of ... path probing) to the peer with RETIRE_CONNECTION_ID" and
// "stateless-reset tokens are registered exactly for the peer IDs in use":
//   - a path the application abandoned (Path.Close returned nil) uses no peer ID any more: every
//     ID the connIDManager handed out for it has been reported with RETIRE_CONNECTION_ID and its
//     stateless-reset token is not registered;
//   - a path nobody closed keeps the ID it was given: token registered, no RETIRE_CONNECTION_ID.
// Nothing else is judged (return values of Probe / Switch, which probe is sent when, ...).
// The violation key names the history class: when the ID was taken relative to Close.

import (
	"context"
	"encoding/json"
	"fmt"
	"sort"
	"strings"
	"sync"
	"sync/atomic"
	"testing"
	"testing/synctest"
	"time"

	"github.com/refraction-networking/uquic/internal/protocol"
	"github.com/refraction-networking/uquic/internal/verifmc/explore"
	"github.com/refraction-networking/uquic/internal/verifmc/sched"
	"github.com/refraction-networking/uquic/internal/verifmc/vsync"
	"github.com/refraction-networking/uquic/internal/wire"
)

type c16e3Variant struct {
	Name    string
	IDs     int  // NEW_CONNECTION_ID frames (sequence numbers 1..IDs) accepted before the threads start
	Zero    bool // zero-length connection IDs
	Paths   int
	Waiting []int // paths whose Probe is already running (registered, queued for probing, waiting in its select) when the threads start
	Threads [][]string
	Big     bool // thorough tier only (explored with the quick tier's preemption bound)
}

// steps (p = path number 1..Paths):
//
//	application: probe<p> (Path.Probe, blocks until validated / abandoned) | close<p> | switch<p> |
//	             timer<p> (what Probe does when its retransmission timer fires: enqueueProbe; only while a Probe of p is running)
//	run loop:    next (NextPathToProbe) | resp (PATH_RESPONSE for the PATH_CHALLENGE sent last) |
//	             sw (ShouldSwitchPath) | ncid (NEW_CONNECTION_ID with the next sequence number)
//
// Blocked Probe calls have ONE kind of wake-up per mix member that is judged (Close or the
// PATH_RESPONSE); where both can be ready when Probe reaches its select, Go picks at random,
// which changes Probe's return value only - no scheduler point follows and nothing the oracle
// or the outcome classes read.
var c16e3Variants = []c16e3Variant{
	{"probe1|next|close1", 2, false, 1, nil, [][]string{{"probe1"}, {"next"}, {"close1"}}, false},
	{"probing1:next-next|timer1|close1", 2, false, 1, []int{1}, [][]string{{"next", "next"}, {"timer1"}, {"close1"}}, false},
	{"probing1:next-resp|close1", 2, false, 1, []int{1}, [][]string{{"next", "resp"}, {"close1"}}, false},
	{"probing1:next-resp-sw|switch1-close1", 2, false, 1, []int{1}, [][]string{{"next", "resp", "sw"}, {"switch1", "close1"}}, false},
	{"probing1:probe2|next-next|close1", 3, false, 2, []int{1}, [][]string{{"probe2"}, {"next", "next"}, {"close1"}}, false},
	{"probing1+2:next-next|close1|close2", 3, false, 2, []int{1, 2}, [][]string{{"next", "next"}, {"close1"}, {"close2"}}, false},
	{"probing1+2:next-resp-next-sw|switch1-close2", 3, false, 2, []int{1, 2}, [][]string{{"next", "resp", "next", "sw"}, {"switch1", "close2"}}, false},
	{"no-ids:probing1:next-ncid-next|close1", 0, false, 1, []int{1}, [][]string{{"next", "ncid", "next"}, {"close1"}}, false},
	{"one-id:probing1+2:next-next-ncid-next|close1", 1, false, 2, []int{1, 2}, [][]string{{"next", "next", "ncid", "next"}, {"close1"}}, false},
	{"zerolen:probing1:next-resp|close1", 0, true, 1, []int{1}, [][]string{{"next", "resp"}, {"close1"}}, false},
	{"probing1:next-resp-next|probe1|close1", 2, false, 1, []int{1}, [][]string{{"next", "resp", "next"}, {"probe1"}, {"close1"}}, false},
	{"probing1:next|switch1|close1", 2, false, 1, []int{1}, [][]string{{"next"}, {"switch1"}, {"close1"}}, false},
	{"probe1|probe2|next-next|close1", 3, false, 2, nil, [][]string{{"probe1"}, {"probe2"}, {"next", "next"}, {"close1"}}, true},
	{"probe1|next-next|timer1|close1", 2, false, 1, nil, [][]string{{"probe1"}, {"next", "next"}, {"timer1"}, {"close1"}}, true},
	{"probing1:probe2|next-next|close1|close2", 3, false, 2, []int{1}, [][]string{{"probe2"}, {"next", "next"}, {"close1"}, {"close2"}}, true},
}

type c16e3Replay struct {
	Variant  string   `json:"variant"`
	Choices  []int    `json:"choices"`
	Suppress []string `json:"suppress,omitempty"` // keys reported by earlier passes over this mix (not judged in this execution)
}

type c16e3Handed struct {
	seq          uint64
	afterAbandon bool // taken after Path.Close had returned nil
}

type c16e3Path struct {
	path *Path
	tr   *Transport
	trMu *vsync.Mutex // stands for the mutex of the path's Transport that enablePath takes

	probeInFlight atomic.Int32 // Probe calls that have not returned
	probeWaiting  bool         // a Probe of this path has been seen waiting in its select (path registered and queued)
	probeStarting int          // Probe calls that were made and have neither reached their select nor returned
	closeInFlight int
	closeCalled   bool
	abandoned     bool // some Path.Close returned nil
	earlyClose    bool // a Close call and the start of a Probe call (entry until it waits in its select) of this path were not ordered: Close was called while no Probe was waiting or while one was starting, or Probe was called after Close
	overlap       bool // a NextPathToProbe call and a Close call of this path overlapped
	validated     bool // the PATH_RESPONSE for one of its challenges has been handed to HandlePathResponseFrame
	validAtClose  bool // ... before Close returned
	handed        []c16e3Handed

	nextOK, enabled, switchOK, switchErr, closeErr int
}

func c16e3Tok(seq uint64) protocol.StatelessResetToken {
	var t protocol.StatelessResetToken
	for i := range t {
		t[i] = byte(seq)
	}
	t[0] = 0xC1
	return t
}

func c16e3NCID(seq uint64) *wire.NewConnectionIDFrame {
	b := byte(seq)
	return &wire.NewConnectionIDFrame{SequenceNumber: seq, ConnectionID: protocol.ParseConnectionID([]byte{b, b, b, b}), StatelessResetToken: c16e3Tok(seq)}
}

func c16e3Scenario(v c16e3Variant, suppress map[string]bool) func() *sched.Scenario {
	return func() *sched.Scenario {
		tokens := map[protocol.StatelessResetToken]int{}
		retired := map[uint64]int{}
		initial := protocol.ParseConnectionID([]byte{0, 0, 0, 0})
		if v.Zero {
			initial = protocol.ConnectionID{}
		}
		m := newConnIDManager(initial,
			func(t protocol.StatelessResetToken) { tokens[t]++ },
			func(t protocol.StatelessResetToken) { tokens[t]-- },
			func(f wire.Frame) {
				if r, ok := f.(*wire.RetireConnectionIDFrame); ok {
					retired[r.SequenceNumber]++
				}
			},
		)
		// The endpoint advertises active_connection_id_limit = protocol.MaxActiveConnectionIDs (4): the
		// handshake ID plus at most 3 more, none retired by the peer, stay within it ("accepts from
		// the peer every connection ID within the limit it advertised itself").
		var refused *explore.Fail
		nextSeq := uint64(1)
		addID := func() {
			explore.Must(nextSeq < protocol.MaxActiveConnectionIDs, "mix %s issues more IDs than the advertised limit", v.Name)
			if err := m.Add(c16e3NCID(nextSeq)); err != nil && refused == nil {
				refused = explore.Failf("e3:rejected-within-advertised-limit", "%s: NEW_CONNECTION_ID(%d) refused with %v although the peer has issued %d connection IDs and none was retired on its request (advertised limit %d)", v.Name, nextSeq, err, nextSeq+1, protocol.MaxActiveConnectionIDs)
			}
			nextSeq++
		}
		for i := 0; i < v.IDs; i++ {
			addID()
		}
		var evs []string // what the application / the run loop / the connIDManager saw, in order
		ev := func(f string, a ...any) { evs = append(evs, fmt.Sprintf(f, a...)) }
		paths := make([]*c16e3Path, v.Paths+1) // index = pathID
		scheduled := 0
		pm := newPathManagerOutgoing(
			func(id pathID) (protocol.ConnectionID, bool) {
				c, ok := m.GetConnIDForPath(id)
				if ok && c.Len() > 0 && int(id) < len(paths) && paths[id] != nil {
					st, seq := paths[id], uint64(c.Bytes()[0])
					known := false
					for _, h := range st.handed {
						known = known || h.seq == seq
					}
					if !known {
						st.handed = append(st.handed, c16e3Handed{seq: seq, afterAbandon: st.abandoned})
						ev("GetConnIDForPath(%d)=id%d", id, seq)
					}
				}
				return c, ok
			},
			func(id pathID) { ev("RetireConnIDForPath(%d)", id); m.RetireConnIDForPath(id) },
			func() { scheduled++ },
		)
		for p := 1; p <= v.Paths; p++ {
			st := &c16e3Path{tr: &Transport{}, trMu: &vsync.Mutex{}}
			// as Conn.AddPath: the callback registers the connection with the path's Transport
			// (connIDGenerator.AddConnRunner -> packetHandlerMap.Add), which takes that Transport's mutex
			st.path = pm.NewPath(st.tr, time.Hour, func() { st.trMu.Lock(); st.enabled++; st.trMu.Unlock() })
			explore.Must(int(st.path.id) == p, "path id %d for path %d", st.path.id, p)
			paths[p] = st
		}
		ctx, cancel := context.WithCancel(context.Background())
		for _, p := range v.Waiting {
			st := paths[p]
			st.probeInFlight.Add(1)
			go func() { _ = st.path.Probe(ctx); st.probeInFlight.Add(-1) }() // not a scheduler thread: runs through to its select
			synctest.Wait()
			st.probeWaiting = true
		}
		nextInFlight := 0
		var lastChallenge *[8]byte
		lastChallengePath := 0
		nextFail, respN, swOK := 0, 0, 0
		for _, p := range v.Waiting {
			ev("probe%d waiting", p)
		}

		var retMu sync.Mutex
		starting := map[int]*c16e3Path{} // thread -> path whose Probe this thread has called and that has not been seen waiting
		step := func(thread int, name string) func() {
			pn := func(prefix string) *c16e3Path { return paths[int(name[len(prefix)]-'0')] }
			switch {
			case strings.HasPrefix(name, "probe"):
				st := pn("probe")
				return func() {
					ev("%s called", name)
					if st.closeCalled {
						st.earlyClose = true
					}
					st.probeStarting++
					starting[thread] = st
					st.probeInFlight.Add(1)
					_ = st.path.Probe(ctx) // the return value is not judged (see the note on select above)
					st.probeInFlight.Add(-1)
					retMu.Lock() // several Probe calls can return at the same moment (woken by one event)
					if starting[thread] == st {
						st.probeStarting--
						delete(starting, thread)
					}
					retMu.Unlock()
				}
			case strings.HasPrefix(name, "close"):
				st := pn("close")
				return func() {
					if !st.probeWaiting || st.probeStarting > 0 {
						st.earlyClose = true
					}
					ev("%s called", name)
					st.closeCalled = true
					st.closeInFlight++
					if nextInFlight > 0 {
						st.overlap = true
					}
					err := st.path.Close()
					ev("%s returned %v", name, err)
					st.closeInFlight--
					if err == nil {
						if !st.abandoned {
							st.validAtClose = st.validated
						}
						st.abandoned = true
					} else {
						st.closeErr++
					}
				}
			case strings.HasPrefix(name, "switch"):
				st := pn("switch")
				return func() {
					err := st.path.Switch()
					ev("%s returned %v", name, err)
					if err == nil {
						st.switchOK++
					} else {
						st.switchErr++
					}
				}
			case strings.HasPrefix(name, "timer"):
				st := pn("timer")
				return func() {
					if st.probeInFlight.Load() > 0 { // the timer belongs to a running Probe
						ev("%s (probe timer fired)", name)
						pm.enqueueProbe(st.path)
					}
				}
			case name == "next":
				return func() {
					ev("next called")
					nextInFlight++
					for _, st := range paths[1:] {
						if st.closeInFlight > 0 {
							st.overlap = true
						}
					}
					_, fr, tr, ok := pm.NextPathToProbe()
					nextInFlight--
					if !ok {
						ev("next returned: nothing to probe")
						nextFail++
						return
					}
					for p, st := range paths {
						if st != nil && st.tr == tr {
							st.nextOK++
							ev("next returned: PATH_CHALLENGE for path %d", p)
							d := fr.Frame.(*wire.PathChallengeFrame).Data
							lastChallenge, lastChallengePath = &d, p
						}
					}
				}
			case name == "resp":
				return func() {
					if lastChallenge == nil {
						return
					}
					respN++
					paths[lastChallengePath].validated = true
					ev("resp called (path %d)", lastChallengePath)
					pm.HandlePathResponseFrame(&wire.PathResponseFrame{Data: *lastChallenge})
				}
			case name == "sw":
				return func() {
					if _, ok := pm.ShouldSwitchPath(); ok {
						swOK++
					}
				}
			case name == "ncid":
				return func() {
					ev("ncid(%d)", nextSeq)
					addID()
				}
			}
			panic("unknown step " + name)
		}
		var threads []sched.Thread
		for i, t := range v.Threads {
			var steps []func()
			for _, n := range t {
				steps = append(steps, step(i, n))
			}
			threads = append(threads, sched.Thread{Name: fmt.Sprintf("T%d:%s", i, t[0]), Steps: steps})
		}
		judge := func() *explore.Fail {
			if refused != nil && !suppress[refused.Key] {
				return refused
			}
			var fails []*explore.Fail
			bad := func(key, f string, a ...any) {
				if !suppress[key] {
					fails = append(fails, explore.Failf(key, "%s: %s | events: %s", v.Name, fmt.Sprintf(f, a...), strings.Join(evs, "; ")))
				}
			}
			for p := 1; p <= v.Paths; p++ {
				st := paths[p]
				if st.closeInFlight > 0 {
					continue // Close has not returned: nothing is demanded yet
				}
				switch {
				case st.abandoned:
					for _, h := range st.handed {
						// history class of the key, from what the application and the run loop did
						class := "closed-after-probe-sent"
						switch {
						case st.earlyClose:
							class = "close-races-probe-start"
						case st.validAtClose:
							class = "closed-after-validation"
						case st.overlap:
							class = "close-during-probe-send"
						case h.afterAbandon:
							class = "id-taken-after-close-returned"
						}
						if retired[h.seq] == 0 {
							bad("e3:abandoned-path-id-not-retired:"+class, "Path.Close of path %d returned nil, peer connection ID %d had been taken for this path (GetConnIDForPath), but no RETIRE_CONNECTION_ID was queued for it (queued: %v)", p, h.seq, c16e3Keys(retired))
						}
						if tokens[c16e3Tok(h.seq)] > 0 {
							bad("e3:abandoned-path-token-registered:"+class, "Path.Close of path %d returned nil, but the stateless-reset token of peer connection ID %d, which was taken for this path, is still registered", p, h.seq)
						}
					}
				case !st.closeCalled && len(st.handed) > 0:
					h := st.handed[len(st.handed)-1]
					if retired[h.seq] > 0 {
						bad("e3:live-path-id-retired", "path %d was never closed, but RETIRE_CONNECTION_ID was queued for its connection ID %d", p, h.seq)
					}
					if tokens[c16e3Tok(h.seq)] != 1 {
						bad("e3:live-path-token-missing", "path %d was never closed and uses peer connection ID %d, whose stateless-reset token is registered %d times", p, h.seq, tokens[c16e3Tok(h.seq)])
					}
				}
			}
			if len(fails) == 0 {
				return nil
			}
			sort.SliceStable(fails, func(i, j int) bool { return fails[i].Key < fails[j].Key })
			return fails[0]
		}
		return &sched.Scenario{
			Threads: threads,
			Observe: func(blocked []string) {
				for _, b := range blocked {
					var thread int
					fmt.Sscanf(b, "T%d:", &thread)
					if st := starting[thread]; st != nil {
						st.probeWaiting = true
						st.probeStarting--
						delete(starting, thread)
					}
				}
			},
			Final: func(blocked []string) *explore.Fail {
				for _, b := range blocked {
					// only Probe may still be waiting (for a PATH_RESPONSE nobody sends)
					explore.Must(strings.Contains(b, ":probe"), "%s: %s is blocked at the end of the schedule", v.Name, b)
				}
				return judge()
			},
			Cleanup: cancel,
			Outcome: func() string {
				var sb strings.Builder
				for p := 1; p <= v.Paths; p++ {
					st := paths[p]
					nret, ntok := 0, 0
					for _, h := range st.handed {
						if retired[h.seq] > 0 {
							nret++
						}
						if tokens[c16e3Tok(h.seq)] > 0 {
							ntok++
						}
					}
					fmt.Fprintf(&sb, "p%d[ids=%d retired=%d tokens=%d probes=%d enabled=%d abandoned=%v closeErr=%d valid=%v sw=%d/%d] ", p, len(st.handed), nret, ntok, st.nextOK, st.enabled, st.abandoned, st.closeErr, st.validated, st.switchOK, st.switchErr)
				}
				fmt.Fprintf(&sb, "noprobe=%d resp=%d swrun=%d queue=%d", nextFail, respN, swOK, len(m.queue))
				return sb.String()
			},
		}
	}
}

func c16e3Keys(m map[uint64]int) []uint64 {
	var ks []uint64
	for k := range m {
		ks = append(ks, k)
	}
	sort.Slice(ks, func(i, j int) bool { return ks[i] < ks[j] })
	return ks
}

func c16e3Set(keys []string) map[string]bool {
	s := map[string]bool{}
	for _, k := range keys {
		s[k] = true
	}
	return s
}

func TestVerifC16E3(t *testing.T) {
	vsync.Hook = sched.Point
	vsync.UnlockHook = sched.Point
	name := "e3-path-ids"
	part := explore.Part{
		Name: name,
		Run: func(e explore.Env) *explore.Report {
			rep := &explore.Report{Level: "exploration", Exhaustive: true}
			bound := 2
			if e.Thorough() {
				bound = 3
			}
			outcomes := map[string]bool{}
			nmix := 0
			for _, v := range c16e3Variants {
				if v.Big && !e.Thorough() {
					continue
				}
				nmix++
				// One pass stops at its first violation. Its key is then left out and the mix is
				// explored again, so that every history class that fails is reported by itself
				// (a known finding in one class must not hide another class).
				var suppressed []string
				for pass := 0; pass < 8; pass++ {
					explore.MarkCurrent(e, name, c16e3Replay{Variant: v.Name, Suppress: suppressed})
					b := bound
					if v.Big {
						b = 2
					}
					r := sched.ExploreBounded(t, e, b, 0, c16e3Scenario(v, c16e3Set(suppressed)))
					if pass == 0 || r.Fail == nil {
						rep.Samples = append(rep.Samples, fmt.Sprintf("%s: %d schedules (pass %d)", v.Name, r.Executions, pass+1))
					}
					rep.Evaluations += r.Executions
					rep.Transitions += r.Steps
					for o := range r.Outcomes {
						outcomes[v.Name+": "+o] = true
					}
					if r.Capped {
						rep.Exhaustive = false
						rep.Caps = append(rep.Caps, "deadline in "+v.Name)
					}
					if r.Fail == nil {
						break
					}
					rep.Violations = append(rep.Violations, explore.Violation{Key: r.Fail.Key, What: r.Fail.What,
						Replay: explore.JSON(c16e3Replay{v.Name, r.FailChoice, append([]string{}, suppressed...)}), Human: r.FailTrace})
					suppressed = append(suppressed, r.Fail.Key)
				}
			}
			explore.ClearCurrent(e)
			for o := range outcomes {
				rep.Outcomes = append(rep.Outcomes, o)
			}
			sort.Strings(rep.Outcomes)
			rep.OutcomesN = int64(len(rep.Outcomes))
			rep.States = rep.OutcomesN
			rep.Traces = rep.Transitions
			rep.Rule = fmt.Sprintf("%d thread mixes on one real pathManagerOutgoing wired to one real connIDManager (Path.Probe / Close / Switch and the probe timer from application goroutines against NextPathToProbe, HandlePathResponseFrame, ShouldSwitchPath, NEW_CONNECTION_ID on the run loop; 1-2 paths; 0-3 spare peer IDs; zero-length IDs) with every mutex Lock and Unlock of path_manager_outgoing.go and the Transport lock inside enablePath as scheduler points (file import-rewritten to vsync from the working tree): every schedule with at most %d preemptions (the thorough tier's additional 4-5 thread mixes: at most 2)", nmix, bound)
			rep.Bound = fmt.Sprintf("preemption bound %d completed", bound)
			return rep
		},
		Replay: func(e explore.Env, raw json.RawMessage) *explore.Violation {
			var rp c16e3Replay
			if err := json.Unmarshal(raw, &rp); err != nil {
				t.Fatal(err)
			}
			var v *c16e3Variant
			for i := range c16e3Variants {
				if c16e3Variants[i].Name == rp.Variant {
					v = &c16e3Variants[i]
				}
			}
			explore.Must(v != nil, "replay names an unknown thread mix %q", rp.Variant)
			f, trace := sched.Replay(t, c16e3Scenario(*v, c16e3Set(rp.Suppress)), rp.Choices)
			if f == nil {
				return nil
			}
			return &explore.Violation{Key: f.Key, What: f.What, Human: trace}
		},
	}
	explore.Main("C16", []explore.Part{part}, func(msg string) { t.Fatal(msg) })
}
