# ./check configuration for C16 (merged by mc/props.py)
PROP = dict(
        pkg=".", test="TestVerifC16", files=["mc/c16/*.go"], libs=["explore", "canon"],
        level="model_checking", shards=1,
        level_text="Explicit-state model checking of the real connIDManager (peer-issued IDs), the real connIDGenerator (own IDs) and the real Transport packetHandlerMap against ledger reference models (issued / retired / reported sequence numbers, advertised limits, live routing set, tokens of the IDs in use): every transition is executed on the real code, states are merged on a dump of every field of the real objects plus the model state. Right level because the property quantifies over whole histories of NEW_CONNECTION_ID / RETIRE_CONNECTION_ID frames, rotation, path probing, handshake completion and close, which is a finite space over small sequence-number ranges chosen around the limits 4 (stored), 6 (issued) and 2..8 (advertised).",
        level_note="Trusted: the reference ledgers in mc/c16; the hand-written state dumps (their field lists are pinned with reflection: a changed struct layout is a harness error, never a silent loss of state); the harness-owned rotation period (packetsPerConnectionID is overwritten with 2 after each step because utils.Rand reads crypto/rand); the harness clock (monotime values passed in; testing/synctest virtual clock for the closing-period timer of the real Transport, one bubble per executed path). The advertised limit of a plain endpoint is taken to be protocol.MaxActiveConnectionIDs (the constant connection.go puts into its transport parameters); for spec-driven clients it is read from the shipped specs with PopulateFromUQUIC and handed to SetConnectionIDLimit as u_connection.go does. Whole connections (C01/C17 worlds) are not run here.",
        technique="explicit-state BFS over the real implementation with reference-model oracle; explicit case list for the shipped specs",
        deadline=dict(quick=90, thorough=900),
        rule="explicit-state BFS over the real connIDManager / connIDGenerator / Transport.packetHandlerMap; successor = fresh instance + replay of the shortest path + one op",
        assumptions=["peer-issued sequence numbers 1..5 (quick) / 1..6, 1..8 for spec-driven limits (thorough); own IDs up to sequence number 7 / 9; 4-byte and zero-length IDs; path IDs 1..2",
                     "rotation period forced to 2 packets; clock in 1 ms ticks, retirement / closing delays of 1-2 ticks",
                     "plain endpoints advertise protocol.MaxActiveConnectionIDs (read from connection.go, not observed on the wire here)",
                     "each part gets a share of the run's deadline; the bounds are chosen so that no share is used up"],
    )
