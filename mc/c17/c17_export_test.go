package quic

import (
	"net"

	tls "github.com/refraction-networking/utls"
)

// Export shim for the C13 / C17 harnesses (package quic_test): read-only views of
// unexported transport state.

// VerifHandlerCount returns the number of routing entries (connection IDs, closed
// stand-ins included) of a Transport.
func VerifHandlerCount(t *Transport) int {
	t.mutex.Lock()
	defer t.mutex.Unlock()
	return len(t.handlers)
}

// VerifResetTokenCount returns the number of registered stateless reset tokens.
func VerifResetTokenCount(t *Transport) int {
	t.mutex.Lock()
	defer t.mutex.Unlock()
	return len(t.resetTokens)
}

// VerifDialTransport returns the Transport that quic.Dial(ctx, c, ...) sets up for its one
// connection (single use, zero-length source connection IDs), so that the harness can dial
// through it and still look at its routing entries afterwards.
func VerifDialTransport(c net.PacketConn, tlsConf *tls.Config) (*Transport, error) {
	return setupTransport(c, tlsConf, false)
}
