package quic

// Export shim for the C13 / C17 harnesses (package quic_test): read-only views of
// unexported transport state.

// VerifHandlerCount returns the number of routing entries (connection IDs, closed
// stand-ins included) of a Transport.
func VerifHandlerCount(t *Transport) int {
	t.mutex.Lock()
	defer t.mutex.Unlock()
	return len(t.handlers)
}

// VerifResetTokenCount returns the number of registered stateless reset tokens.
func VerifResetTokenCount(t *Transport) int {
	t.mutex.Lock()
	defer t.mutex.Unlock()
	return len(t.resetTokens)
}
