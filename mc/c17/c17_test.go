package quic_test

// C17: every way a connection ends unblocks callers, informs the peer, frees resources.
// E2: close cause x set of concurrently blocked client API calls x timing of the cause x
// idle/keep-alive configuration (client and server MaxIdleTimeout independently, keep-alive periods
// on either side below and above half of the negotiated idle timeout) x fault on the closing exchange x history of the connection
// (fresh Dial, resumed with 0-RTT accepted, resumed with 0-RTT rejected and continued with
// NextConnection) x client kind (Transport, quic.Dial, browser specs: with and without source
// connection IDs) x, for stateless resets, sender and size of the reset (the in-tree server's 42
// bytes; every size class from 21 bytes to a full packet from a harness-played RFC 9000 peer),
// all enumerated and run on the real client and server in virtual time.

import (
	"context"
	"crypto/hmac"
	"crypto/sha256"
	"encoding/json"
	"errors"
	"fmt"
	"net"
	"os"
	"runtime"
	"sort"
	"strings"
	"sync"
	"sync/atomic"
	"testing"
	"time"

	quic "github.com/refraction-networking/uquic"
	"github.com/refraction-networking/uquic/internal/verifmc/explore"
	"github.com/refraction-networking/uquic/internal/verifmc/sim"
	"github.com/refraction-networking/uquic/internal/verifmc/wiremon"
	"github.com/refraction-networking/uquic/qlogwriter"
	"github.com/refraction-networking/uquic/testutils/simnet"
	tls "github.com/refraction-networking/utls"
)

var c17Causes = []string{"local-close", "remote-close", "idle-timeout", "transport-close", "stateless-reset", "handshake-timeout", "dial-cancel", "keepalive-then-blackhole", "idle-timeout-sending", "fatal-transport-error", "close-during-dial"}

// blocked client calls
// (the "#2" entries are a second concurrent caller of the same blocking call)
var c17Calls = []string{"Read", "Write", "AcceptStream", "AcceptUniStream", "OpenStreamSync", "ReceiveDatagram", "AcceptStream#2", "AcceptUniStream#2", "OpenStreamSync#2", "ReceiveDatagram#2"}

// how the connection under test came to be (its history before the close cause): "" = a fresh
// Dial; "0rtt-accepted" = the client resumes a session with DialEarly, opens its streams and
// writes before the handshake completes, the server accepts the early data; "0rtt-rejected" =
// the same resumption against a server whose configuration changed: the early data is
// discarded, the application sees Err0RTTRejected, carries on with NextConnection and uses the
// connection normally from then on
var c17Hists = []string{"", "0rtt-accepted", "0rtt-rejected"}

// (client MaxIdleTimeout, server MaxIdleTimeout, client KeepAlivePeriod, server KeepAlivePeriod).
// RFC 9000 10.1: the idle period in force at an endpoint is the smaller of the two advertised
// values, so the two Config values are independent dimensions; Config.KeepAlivePeriod is documented
// as "sent on that period (or at most every half of MaxIdleTimeout, whichever is smaller)", so
// periods above half of the idle period are legitimate inputs. The first three entries are the
// symmetric ones the plan lists (their indices are kept: stored replays name them); the others put
// the smaller idle timeout on either side, a keep-alive period above half of it on either side.
var c17Timings = []c17Timing{
	{"idle2s", 2 * time.Second, 2 * time.Second, 0, 0},
	{"idle2s-ka0.5s", 2 * time.Second, 2 * time.Second, 500 * time.Millisecond, 0},
	{"idle30s-ka10s", 30 * time.Second, 30 * time.Second, 10 * time.Second, 0},
	// keep-alive period above half of a symmetric idle timeout (and above the timeout itself)
	{"idle6s-ka10s", 6 * time.Second, 6 * time.Second, 10 * time.Second, 0},
	// the keep-alive side advertises the smaller / the larger idle timeout, period above half of the smaller
	{"c5s-s30s-ka10s", 5 * time.Second, 30 * time.Second, 10 * time.Second, 0},
	{"c30s-s5s-ka10s", 30 * time.Second, 5 * time.Second, 10 * time.Second, 0},
	{"c2s-s30s-ka10s", 2 * time.Second, 30 * time.Second, 10 * time.Second, 0},
	// both values close together, the period between half of the smaller and half of the larger
	{"c6s-s8s-ka4s", 6 * time.Second, 8 * time.Second, 4 * time.Second, 0},
	{"c8s-s6s-ka4s", 8 * time.Second, 6 * time.Second, 4 * time.Second, 0},
	// the server is the side that keeps the connection alive
	{"c5s-s30s-ska10s", 5 * time.Second, 30 * time.Second, 0, 10 * time.Second},
	{"c30s-s5s-ska10s", 30 * time.Second, 5 * time.Second, 0, 10 * time.Second},
	// asymmetric idle timeouts without keep-alives (the idle timeout window itself)
	{"c5s-s30s", 5 * time.Second, 30 * time.Second, 0, 0},
	{"c30s-s5s", 30 * time.Second, 5 * time.Second, 0, 0},
}

type c17Timing struct {
	Name  string
	CIdle time.Duration // client Config.MaxIdleTimeout
	SIdle time.Duration // server Config.MaxIdleTimeout
	KA    time.Duration // client Config.KeepAlivePeriod
	SKA   time.Duration // server Config.KeepAlivePeriod
}

// c17MinRemoteIdle: the implementation deliberately reads a peer's max_idle_timeout below
// protocol.MinRemoteIdleTimeout as 5 s (DESIGN.md, "the negotiated period").
const c17MinRemoteIdle = 5 * time.Second

// periods returns the idle period in force at the client and at the server: the smaller of the
// endpoint's own value and the peer's advertised one (read as at least 5 s). A spec-driven client
// advertises and enforces the 30 s of its fingerprint, whatever its Config says.
func (tm c17Timing) periods(kind string) (effC, effS time.Duration) {
	advC := tm.CIdle
	if kind == "chrome115" || kind == "firefox116" {
		advC = 30 * time.Second
	}
	return min(advC, max(tm.SIdle, c17MinRemoteIdle)), min(tm.SIdle, max(advC, c17MinRemoteIdle))
}

// symmetric: one of the plan's configurations with the same MaxIdleTimeout on both sides
func (tm c17Timing) symmetric() bool { return tm.CIdle == tm.SIdle }

type c17Config struct {
	Cause  int          `json:"cause"`
	Calls  []int        `json:"calls"` // indices into c17Calls
	When   int          `json:"when"`  // 0: right after the handshake, 1: 300 ms later (streams established, calls blocked), 2: during a transfer; for handshake causes: datagram ordinal
	Timing int          `json:"timing"`
	Kind   string       `json:"kind"`
	Faults sim.FaultMap `json:"faults"`         // applied from the moment of the cause
	Hist   string       `json:"hist,omitempty"` // one of c17Hists (causes after the handshake only)
	// stateless reset only. 0: the server comes back as this implementation (which answers packets
	// of more than 42 bytes with resets of exactly 42 bytes). N > 0: the peer that comes back with
	// the same static reset key is another RFC 9000 endpoint, played by the harness: it answers a
	// datagram of L bytes with a stateless reset of min(N, L-1) bytes (RFC 9000 10.3: smaller than
	// the packet it answers) and stays silent when that would be below the 21 byte minimum
	RSize int    `json:"rsize,omitempty"`
	Seed  uint64 `json:"seed"`
}

func (c c17Config) String() string {
	var cs []string
	for _, i := range c.Calls {
		cs = append(cs, c17Calls[i])
	}
	h := ""
	if c.Hist != "" {
		h = " history=" + c.Hist
	}
	if c.RSize > 0 {
		h += fmt.Sprintf(" peer-resets<=%dB", c.RSize)
	}
	return fmt.Sprintf("%s calls=[%s] when=%d %s %s faults=%v%s", c17Causes[c.Cause], strings.Join(cs, ","), c.When, c17Timings[c.Timing].Name, c.Kind, c.Faults, h)
}

type c17CallResult struct {
	Name     string
	Returned bool
	At       time.Duration
	Err      error
}

type c17Result struct {
	fail    *explore.Fail
	class   string
	ndgrams int
}

func c17ErrString(e error) string {
	if e == nil {
		return "<nil>"
	}
	return e.Error()
}

func c17Run(t *testing.T, cfg c17Config) c17Result {
	var res c17Result
	cause := c17Causes[cfg.Cause]
	tm := c17Timings[cfg.Timing]
	fail := func(key, format string, a ...any) {
		if res.fail == nil {
			res.fail = explore.Failf(cause+":"+key, "%v: %s", cfg, fmt.Sprintf(format, a...))
			explore.NoteCurrent(explore.GetEnv(), res.fail.Key, res.fail.What)
		}
	}
	ok := sim.Run(t, "run", cfg.Seed, func(t *testing.T) {
		w := sim.NewWorld(nil)
		start := time.Now()
		since := func() time.Duration { return time.Since(start) }
		ctx, cancel := context.WithCancel(context.Background())
		defer cancel()
		var resetKey quic.StatelessResetKey
		copy(resetKey[:], "0123456789abcdef0123456789abcdef")
		effC, effS := tm.periods(cfg.Kind)
		// window bounds that were written for one value on both sides keep using it there
		idleLo, idleHi := effC, effC
		if tm.symmetric() {
			idleLo, idleHi = tm.CIdle, tm.CIdle
		}
		maxIdle := max(tm.CIdle, tm.SIdle, effC, effS)
		writeEvery := min(tm.CIdle, tm.SIdle) / 4 // idle-timeout-sending: the application's write period
		sconf := &quic.Config{MaxIdleTimeout: tm.SIdle, KeepAlivePeriod: tm.SKA, EnableDatagrams: true, MaxIncomingStreams: 2, MaxIncomingUniStreams: 2,
			InitialStreamReceiveWindow: 2048, MaxStreamReceiveWindow: 2048, InitialConnectionReceiveWindow: 4096, MaxConnectionReceiveWindow: 4096}
		cconf := &quic.Config{MaxIdleTimeout: tm.CIdle, KeepAlivePeriod: tm.KA, EnableDatagrams: true}
		sconf.Allow0RTT = cfg.Hist != ""
		stls := w.ServerTLS(false)
		ln, err := w.ListenWith(stls, sconf, func(tr *quic.Transport) { tr.StatelessResetKey = &resetKey })
		if err != nil {
			t.Fatal(err)
		}
		// client kinds: "plain" = a Transport (4 byte source connection IDs: stateless resets are
		// recognised by the Transport), "dial0" = the single-use Transport quic.Dial sets up
		// (zero-length source connection IDs: every datagram of the socket goes to the connection,
		// which has to recognise a stateless reset itself), "chrome115" / "firefox116" = UTransport
		// with a browser spec (zero-length / 3 byte source connection IDs)
		var d sim.Dialer
		var cep *simnet.SimConn
		switch cfg.Kind {
		case "dial0":
			cep = w.NewClientEndpoint()
			tr, err := quic.VerifDialTransport(cep, w.ClientTLS())
			if err != nil {
				t.Fatal(err)
			}
			d = tr
		case "chrome115":
			d, cep, _ = w.NewDialer(sim.Parrot("chrome115", quic.QUICChrome_115))
		case "firefox116":
			d, cep, _ = w.NewDialer(sim.Parrot("firefox116", quic.QUICFirefox_116))
		default:
			d, cep, _ = w.NewDialer(sim.Plain)
		}
		var wg sync.WaitGroup
		var sconn *quic.Conn
		acceptOne := func(ln *quic.Listener) chan struct{} {
			ready := make(chan struct{})
			wg.Add(1)
			go func() {
				defer wg.Done()
				c, err := ln.Accept(ctx)
				if err == nil {
					sconn = c
					// the server application accepts streams but never reads or answers
					wg.Add(1)
					go func() {
						defer wg.Done()
						for {
							if _, err := c.AcceptStream(ctx); err != nil {
								return
							}
						}
					}()
				}
				close(ready)
			}()
			return ready
		}
		sready := acceptOne(ln)
		teardown := func(conn *quic.Conn) {
			cancel()
			if conn != nil {
				conn.CloseWithError(0, "")
			}
			if sconn != nil {
				sconn.CloseWithError(0, "")
			}
			d.Close()
			ln.Close()
			if w.ServerTr != nil {
				w.ServerTr.Close()
			}
			w.CloseEndpoints()
			wg.Wait()
		}

		// ---------------- causes during the handshake: only Dial is blocked
		if cause == "handshake-timeout" || cause == "dial-cancel" || cause == "close-during-dial" {
			dctx, dcancel := context.WithCancel(ctx)
			var tClosed atomic.Int64 // set by the closing goroutine, read after Dial returned
			tClosed.Store(-1)
			closeNow := func() {
				d.Close()
				tClosed.Store(int64(since()))
			}
			if cause == "close-during-dial" {
				// the transport is shut down while Dial is in flight: from inside the application's
				// Tracer callback (When 0), right after the first datagram left (When 1) or 20 ms
				// later (When 2); the peer stays silent
				w.Router.SetBlackhole(sim.S2C, true)
				switch cfg.When {
				case 0:
					cconf.Tracer = func(context.Context, bool, quic.ConnectionID) qlogwriter.Trace {
						// (no sleep here: a goroutine blocked on the transport's mutex is not durably
						// blocked for synctest, the fake clock would never advance)
						go closeNow()
						for i := 0; i < 50; i++ {
							runtime.Gosched()
						}
						return nil
					}
				default:
					fired := false
					w.Router.SetOnSend(func(ev sim.Event) {
						if !fired {
							fired = true
							go func() {
								if cfg.When == 2 {
									time.Sleep(20 * time.Millisecond)
								}
								closeNow()
							}()
						}
					})
				}
			} else if cause == "handshake-timeout" {
				w.Router.SetBlackhole(sim.S2C, true) // the peer stays silent
				if cfg.When > 0 {
					w.Router.SetBlackhole(sim.C2S, true)
				}
			} else {
				n := 0
				w.Router.SetOnSend(func(ev sim.Event) {
					if n == cfg.When {
						dcancel()
					}
					n++
				})
			}
			t0 := since()
			conn, err := d.Dial(dctx, w.ServerAddr, w.ClientTLS(), cconf)
			took := since() - t0
			dcancel()
			if err == nil && cause == "dial-cancel" {
				res.class = "dial completed before the cancellation point"
			} else if err == nil {
				fail("dial-succeeded", "Dial returned no error")
			} else if cause == "close-during-dial" {
				if !errors.Is(err, quic.ErrTransportClosed) {
					fail("dial-error", "Dial returned %v although the transport was closed while it was in flight, want ErrTransportClosed", err)
				}
				if tc := time.Duration(tClosed.Load()); tc >= 0 && since()-tc > 100*time.Millisecond {
					fail("dial-slow", "Dial returned %v after Transport.Close had returned", since()-tc)
				}
			} else if cause == "dial-cancel" {
				if !errors.Is(err, context.Canceled) {
					fail("dial-error", "Dial returned %v, want context.Canceled", err)
				}
				if took > 100*time.Millisecond {
					fail("dial-slow", "Dial returned %v after the context was cancelled", took)
				}
			} else {
				var hte *quic.HandshakeTimeoutError
				var ite *quic.IdleTimeoutError
				if !errors.As(err, &hte) && !errors.As(err, &ite) {
					fail("dial-error", "Dial towards a silent peer returned %v, want a handshake / idle timeout error", err)
				}
				if took > 10*time.Second+500*time.Millisecond {
					fail("dial-hangs", "Dial towards a silent peer returned after %v (handshake timeout 10 s)", took)
				}
				if took < 5*time.Second {
					fail("dial-early", "Dial towards a silent peer gave up after %v, before the 5 s handshake idle timeout", took)
				}
			}
			w.Router.SetOnSend(nil)
			w.Router.SetBlackhole(sim.S2C, false)
			w.Router.SetBlackhole(sim.C2S, false)
			time.Sleep(40 * time.Second)
			if n := quic.VerifHandlerCount(c17Transport(d)); n != 0 {
				fail("routing-not-released", "%d client routing entries remain 40 s after the failed dial", n)
			}
			if n := quic.VerifHandlerCount(w.ServerTr); n != 0 {
				fail("server-routing-not-released", "%d server routing entries remain 40 s after the failed dial", n)
			}
			if res.class == "" {
				res.class = fmt.Sprintf("%s took~%v", cause, took.Round(time.Second))
			}
			teardown(conn)
			return
		}

		// ---------------- causes after the handshake
		ctls := w.ClientTLS()
		// the server allows 2 bidirectional streams; use them up so that OpenStreamSync blocks
		var held []*quic.Stream
		openHeld := func(conn *quic.Conn) {
			for i := 0; i < 2; i++ {
				s, err := conn.OpenStreamSync(ctx)
				if err != nil {
					fail("setup", "OpenStreamSync: %v", err)
					break
				}
				s.Write([]byte{1})
				held = append(held, s)
			}
		}
		var conn *quic.Conn
		logStart := 0 // where the connection under test begins in the router's full log
		if cfg.Hist == "" {
			conn, err = d.Dial(ctx, w.ServerAddr, ctls, cconf)
		} else {
			// an earlier connection leaves a session ticket behind
			ctls.ClientSessionCache = tls.NewLRUClientSessionCache(8)
			c1, err1 := d.Dial(ctx, w.ServerAddr, ctls, cconf)
			if err1 != nil {
				fail("setup", "first Dial (session ticket) failed: %v", err1)
				teardown(nil)
				return
			}
			<-sready
			time.Sleep(200 * time.Millisecond)
			c1.CloseWithError(0, "")
			time.Sleep(100 * time.Millisecond)
			if sconn != nil {
				sconn.CloseWithError(0, "")
				sconn = nil
			}
			if cfg.Hist == "0rtt-rejected" {
				// the server comes back with a configuration under which it may not accept early data
				ln.Close()
				sconf2 := sconf.Clone()
				sconf2.Allow0RTT = false
				if ln, err = w.ServerTr.Listen(stls, sconf2); err != nil {
					t.Fatal(err)
				}
			}
			sready = acceptOne(ln)
			logStart = len(w.Router.FullLog())
			conn, err = d.DialEarly(ctx, w.ServerAddr, ctls, cconf)
			if err == nil && conn.ConnectionState().TLS.HandshakeComplete {
				fail("setup", "DialEarly returned after the handshake: no 0-RTT was attempted")
			}
			if err == nil && res.fail == nil {
				// early data: on the streams the scenario keeps (accepted), on a stream that is lost (rejected)
				if cfg.Hist == "0rtt-accepted" {
					openHeld(conn)
				} else if us, err := conn.OpenUniStream(); err == nil {
					us.Write([]byte("early data"))
					us.Close()
				}
				select {
				case <-conn.HandshakeComplete():
				case <-conn.Context().Done():
					fail("setup", "the resumed connection failed during the handshake: %v", context.Cause(conn.Context()))
				case <-time.After(20 * time.Second):
					fail("setup", "the resumed handshake did not complete")
				}
			}
			if err == nil && res.fail == nil {
				used := conn.ConnectionState().Used0RTT
				if used != (cfg.Hist == "0rtt-accepted") {
					fail("setup", "history %s, but Used0RTT=%v", cfg.Hist, used)
				} else if !used {
					// the rejection is not fatal: the application is told, and goes on with the connection
					if _, err := conn.OpenStream(); !errors.Is(err, quic.Err0RTTRejected) {
						fail("setup", "OpenStream after the 0-RTT rejection returned %v, want Err0RTTRejected", err)
					}
					if conn, err = conn.NextConnection(ctx); err != nil {
						fail("setup", "NextConnection: %v", err)
					}
				}
			}
		}
		if err != nil {
			fail("setup", "Dial failed: %v", err)
			teardown(nil)
			return
		}
		if res.fail != nil {
			teardown(conn)
			return
		}
		<-sready
		if sconn == nil {
			fail("setup", "server did not accept")
			teardown(conn)
			return
		}
		clientCIDLen, _, _ := wiremon.ClientCIDLen(w.Router.FullLog()[logStart:])
		switch cfg.Kind { // the connection ID regime each client kind stands for
		case "dial0", "chrome115":
			explore.Must(clientCIDLen == 0, "client kind %s uses %d byte source connection IDs", cfg.Kind, clientCIDLen)
		case "plain", "firefox116":
			explore.Must(clientCIDLen > 0, "client kind %s uses zero-length source connection IDs", cfg.Kind)
		}
		// blocked calls
		results := make([]*c17CallResult, 0, len(cfg.Calls))
		var cwg sync.WaitGroup
		var rmu sync.Mutex
		var resets []c17ResetSent // what the harness-played stateless peer sent (RSize > 0)
		resetSize := 0
		blocked := func(name string, f func() error) {
			r := &c17CallResult{Name: name}
			results = append(results, r)
			cwg.Add(1)
			go func() {
				defer cwg.Done()
				err := f()
				rmu.Lock()
				r.Returned, r.At, r.Err = true, since(), err
				rmu.Unlock()
			}()
		}
		has := func(name string) bool {
			for _, i := range cfg.Calls {
				if c17Calls[i] == name {
					return true
				}
			}
			return false
		}
		if cfg.Hist != "0rtt-accepted" {
			openHeld(conn)
		}
		if res.fail != nil {
			teardown(conn)
			return
		}
		if cfg.When == 2 { // a server-to-client transfer is in progress when the connection ends
			wg.Add(1)
			go func() {
				defer wg.Done()
				s, err := sconn.OpenUniStreamSync(ctx)
				if err != nil {
					return
				}
				s.Write(make([]byte, 200<<10))
			}()
			rs, err := conn.AcceptUniStream(ctx)
			if err != nil {
				fail("setup", "AcceptUniStream for the transfer: %v", err)
			} else {
				wg.Add(1)
				go func() { // a slow reader keeps the transfer going
					defer wg.Done()
					buf := make([]byte, 1024)
					for {
						if _, err := rs.Read(buf); err != nil {
							return
						}
						time.Sleep(2 * time.Millisecond)
					}
				}()
			}
		}
		if has("Read") {
			blocked("Read", func() error { _, err := held[0].Read(make([]byte, 10)); return err })
		}
		if has("Write") {
			blocked("Write", func() error { _, err := held[1].Write(make([]byte, 64<<10)); return err })
		}
		if has("AcceptStream") {
			blocked("AcceptStream", func() error { _, err := conn.AcceptStream(context.Background()); return err })
		}
		if has("AcceptUniStream") {
			blocked("AcceptUniStream", func() error { _, err := conn.AcceptUniStream(context.Background()); return err })
		}
		if has("OpenStreamSync") {
			blocked("OpenStreamSync", func() error { _, err := conn.OpenStreamSync(context.Background()); return err })
		}
		if has("ReceiveDatagram") {
			blocked("ReceiveDatagram", func() error { _, err := conn.ReceiveDatagram(context.Background()); return err })
		}
		if has("AcceptStream#2") {
			blocked("AcceptStream#2", func() error { _, err := conn.AcceptStream(context.Background()); return err })
		}
		if has("AcceptUniStream#2") {
			blocked("AcceptUniStream#2", func() error { _, err := conn.AcceptUniStream(context.Background()); return err })
		}
		if has("OpenStreamSync#2") {
			blocked("OpenStreamSync#2", func() error { _, err := conn.OpenStreamSync(context.Background()); return err })
		}
		if has("ReceiveDatagram#2") {
			blocked("ReceiveDatagram#2", func() error { _, err := conn.ReceiveDatagram(context.Background()); return err })
		}
		switch cfg.When {
		case 1:
			time.Sleep(300 * time.Millisecond)
		case 2:
			time.Sleep(23 * time.Millisecond)
		}
		// none of the calls may have returned yet
		rmu.Lock()
		for _, r := range results {
			if r.Returned {
				fail("call-not-blocked:"+r.Name, "%s returned %v before the connection ended", r.Name, r.Err)
			}
		}
		rmu.Unlock()

		// ---- the cause
		lastRecv := time.Duration(-1)
		noteLastRecv := func() { // the last datagram delivered to the client so far (the log restarts with each phase)
			for _, e := range w.Router.Log() {
				if e.Dir == sim.S2C && e.Fate != sim.Drop {
					lastRecv = max(lastRecv, e.T+sim.OneWay)
				}
			}
		}
		noteLastRecv()
		w.Router.StartPhase(cfg.Faults)
		tCause := since()
		var wantRemote string // what the server must see
		switch cause {
		case "local-close":
			conn.CloseWithError(7, "bye")
			wantRemote = "APPLICATION_ERROR_0x7(remote)"
		case "remote-close":
			sconn.CloseWithError(9, "server says bye")
		case "transport-close":
			d.Close()
		case "idle-timeout", "keepalive-then-blackhole", "idle-timeout-sending":
			if cause == "keepalive-then-blackhole" {
				// an answered keep-alive must keep the connection alive for many idle periods, at the
				// endpoint that sends the PINGs and at the one that answers them: every datagram is
				// delivered, so neither may run into its idle timeout
				time.Sleep(5 * max(effC, effS))
				ka, who := max(tm.KA, tm.SKA), "client"
				if tm.KA == 0 {
					who = "server"
				}
				if ka > 0 && conn.Context().Err() != nil {
					fail("died-while-keepalives-answered", "the client's connection ended with %v although keep-alives were enabled at the %s (KeepAlivePeriod %v; MaxIdleTimeout client %v, server %v: idle period in force %v at the client, %v at the server) and every datagram was delivered", context.Cause(conn.Context()), who, ka, tm.CIdle, tm.SIdle, effC, effS)
				}
				if ka > 0 && sconn.Context().Err() != nil {
					fail("server-died-while-keepalives-answered", "the server's connection ended with %v although keep-alives were enabled at the %s (KeepAlivePeriod %v; MaxIdleTimeout client %v, server %v: idle period in force %v at the client, %v at the server) and every datagram was delivered", context.Cause(sconn.Context()), who, ka, tm.CIdle, tm.SIdle, effC, effS)
				}
				if ka == 0 && conn.Context().Err() == nil {
					fail("no-idle-timeout", "no keep-alive configured, 5 idle periods of silence, and the connection is still open")
				}
				noteLastRecv()
				w.Router.StartPhase(cfg.Faults)
			}
			noteLastRecv()
			tCause = since()
			w.Router.SetBlackhole(sim.C2S, true)
			w.Router.SetBlackhole(sim.S2C, true)
			if cause == "idle-timeout-sending" {
				// (every quarter of the smaller of the two configured idle timeouts)
				// the application keeps producing ack-eliciting packets towards the dead peer: only
				// the first one after the last packet received may restart the idle period
				wg.Add(1)
				go func() {
					defer wg.Done()
					for i := 0; i < 16; i++ {
						time.Sleep(writeEvery)
						if _, err := held[0].Write([]byte{byte(i)}); err != nil {
							return
						}
					}
				}()
			}
		case "fatal-transport-error":
			// the peer misbehaves: an authentic 1-RTT packet (sealed with the server's keys from the
			// key log) carries STREAM data on stream 2, a client-initiated unidirectional stream on
			// which only the client may send: the client must close with STREAM_STATE_ERROR
			full := w.Router.FullLog()
			n, ver, ok1 := wiremon.ClientCIDLen(full[logStart:])
			dcid, ok2 := wiremon.LastDCID(full[logStart:], sim.S2C, n)
			if !ok2 { // no 1-RTT packet from the server yet: the client's handshake connection ID
				dcid, ok2 = wiremon.ClientSCID(full[logStart:])
			}
			if !ok1 || !ok2 {
				fail("setup", "cannot read the client's connection ID off the wire")
				break
			}
			gen := wiremon.Analyze(full, w.KeyLog.Lines(), wiremon.Params{}).Gen[1] // the server may have updated its keys
			pkts := wiremon.Forge1RTT(w.KeyLog.Lines(), true, ver, gen, dcid, 1<<20, []byte{0x0a, 0x02, 0x01, 'x'})
			if len(pkts) == 0 {
				fail("setup", "no server traffic secret in the key log")
			}
			for _, p := range pkts {
				w.Router.Inject(w.ServerAddr, cep.LocalAddr(), p, 0)
			}
			if cfg.Hist == "0rtt-accepted" {
				// the key log has no early traffic secret, so the monitor cannot learn the connection IDs the
				// client issued in 0-RTT packets and does not open the server's later packets: the generation
				// read off the wire may be one behind. The misbehaving peer follows up with the next one.
				for _, p := range wiremon.Forge1RTT(w.KeyLog.Lines(), true, ver, gen+1, dcid, 1<<20+1, []byte{0x0a, 0x02, 0x01, 'x'}) {
					w.Router.Inject(w.ServerAddr, cep.LocalAddr(), p, time.Microsecond)
				}
			}
			wantRemote = "STREAM_STATE_ERROR(remote)"
		case "stateless-reset":
			// the server loses all connection state and comes back on the same address with the same reset key
			w.Router.RemoveNode(w.ServerAddr)
			old := w.ServerTr
			go old.Close()
			w.ServerConn, w.ServerTr = nil, nil
			w.Router.SetBlackhole(sim.C2S, true) // the dying transport's CONNECTION_CLOSE must not reach... (it sends s2c only)
			w.Router.SetBlackhole(sim.S2C, true)
			time.Sleep(50 * time.Millisecond)
			w.Router.SetBlackhole(sim.C2S, false)
			w.Router.SetBlackhole(sim.S2C, false)
			if cfg.RSize > 0 {
				// What comes back on the server's address is not this implementation but another RFC 9000
				// endpoint configured with the same static key (RFC 9000 10.3.2: it derives the same token
				// from a connection ID). It has no state, so it answers every short-header datagram of L
				// bytes with a stateless reset: 0b01 and unpredictable bits, then the token for the
				// destination connection ID of that datagram; min(RSize, L-1) bytes long, so that the
				// reset is smaller than the packet it answers, and nothing if that is less than 21 bytes.
				scidLen, ok := c17ServerCIDLen(w.Router.FullLog()[logStart:])
				if !ok {
					fail("setup", "cannot read the server's connection ID length off the wire")
					break
				}
				w.Router.SetOnSend(func(ev sim.Event) {
					if ev.Dir != sim.C2S || ev.Injected || ev.Fate == sim.Drop || len(ev.Data) < 1+scidLen || ev.Data[0]&0x80 != 0 {
						return
					}
					n := min(cfg.RSize, len(ev.Data)-1)
					if n < 21 {
						return
					}
					rmu.Lock()
					pkt := c17StatelessReset(resetKey, ev.Data[1:1+scidLen], n, len(resets))
					resets = append(resets, c17ResetSent{At: ev.T + 2*sim.OneWay, Size: n, Answers: len(ev.Data)})
					rmu.Unlock()
					w.Router.Inject(w.ServerAddr, cep.LocalAddr(), pkt, sim.OneWay) // the client's datagram arrives, the reset travels back
				})
				tCause = since()
				// provoke a full-size packet from the client, so that a reset of every size of the alphabet may answer it
				go held[0].Write(make([]byte, 1300))
				break
			}
			ln2, err := w.ListenWith(w.ServerTLS(false), sconf, func(tr *quic.Transport) { tr.StatelessResetKey = &resetKey })
			if err != nil {
				t.Fatal(err)
			}
			defer ln2.Close()
			tCause = since()
			// provoke a packet from the client: it must be answered with a stateless reset
			go held[0].Write([]byte("ping after restart"))
		}
		// wait for the connection to end (bounded)
		bound := 3*maxIdle + 35*time.Second
		select {
		case <-conn.Context().Done():
		case <-time.After(bound):
			fail("connection-never-ended", "the connection context was not cancelled within %v of the cause", bound)
		}
		tEnd := since()
		recorded := context.Cause(conn.Context())
		w.Router.SetOnSend(nil)
		if os.Getenv("VERIF_DEBUG") != "" {
			for _, e := range w.Router.FullLog() {
				if e.T >= tCause-time.Millisecond {
					fmt.Fprintf(os.Stderr, "C17DBG %v %v inj=%v len=%d b0=%02x fate=%v\n", e.T, e.Dir, e.Injected, len(e.Data), e.Data[0], e.Fate)
				}
			}
			fmt.Fprintf(os.Stderr, "C17DBG tCause=%v tEnd=%v recorded=%v\n", tCause, tEnd, recorded)
		}
		// ---- every blocked call returns promptly with the one recorded cause
		done := make(chan struct{})
		go func() { cwg.Wait(); close(done) }()
		select {
		case <-done:
		case <-time.After(2 * time.Second):
		}
		rmu.Lock()
		for _, r := range results {
			if !r.Returned {
				fail("call-still-blocked:"+r.Name, "%s is still blocked 2 s after the connection ended with %v", r.Name, recorded)
				continue
			}
			if r.At > tEnd+2*sim.OneWay+10*time.Millisecond {
				fail("call-late:"+r.Name, "%s returned %v after the connection ended", r.Name, r.At-tEnd)
			}
			if r.Err == nil {
				fail("call-nil-error:"+r.Name, "%s returned nil when the connection ended with %v", r.Name, recorded)
			} else if !errors.Is(r.Err, recorded) && r.Err.Error() != c17ErrString(recorded) {
				fail("call-wrong-error:"+r.Name, "%s returned %q, the connection's recorded cause is %q", r.Name, r.Err, c17ErrString(recorded))
			}
		}
		rmu.Unlock()
		// ---- the recorded cause is the right one
		switch cause {
		case "local-close":
			var ae *quic.ApplicationError
			if !errors.As(recorded, &ae) || ae.Remote || ae.ErrorCode != 7 {
				fail("wrong-cause", "recorded cause %v, want local application error 7", recorded)
			}
		case "remote-close":
			var ae *quic.ApplicationError
			var ite *quic.IdleTimeoutError
			if len(cfg.Faults) > 0 && errors.As(recorded, &ite) {
				// the CONNECTION_CLOSE was lost and the idle client never provoked a retransmission
			} else if !errors.As(recorded, &ae) || !ae.Remote || ae.ErrorCode != 9 {
				fail("wrong-cause", "recorded cause %v, want remote application error 9", recorded)
			}
		case "idle-timeout", "keepalive-then-blackhole", "idle-timeout-sending":
			var ite *quic.IdleTimeoutError
			if !errors.As(recorded, &ite) {
				fail("wrong-cause", "recorded cause %v, want an idle timeout", recorded)
			}
			if lastRecv >= 0 && tEnd < lastRecv+idleLo {
				fail("idle-timeout-early", "idle timeout fired at %v, only %v after the last packet was received at %v (MaxIdleTimeout client %v, server %v: negotiated idle timeout at least %v)", tEnd, tEnd-lastRecv, lastRecv, tm.CIdle, tm.SIdle, idleLo)
			}
			if tEnd > tCause+idleHi+max(idleHi, 3*time.Second)+time.Second {
				fail("idle-timeout-late", "idle timeout fired %v after the path died (MaxIdleTimeout client %v, server %v: negotiated idle timeout %v)", tEnd-tCause, tm.CIdle, tm.SIdle, effC)
			}
			// the period in force at the client: the smaller of the two advertised values, where the
			// implementation deliberately reads a peer value below protocol.MinRemoteIdleTimeout (5 s) as 5 s
			// (a spec-driven client advertises the 30 s of its fingerprint)
			eff := effC
			if cause == "idle-timeout-sending" && tm.KA == 0 && tEnd > tCause+writeEvery+eff+eff/4 {
				var sent []string
				for _, e := range w.Router.Log() {
					if e.Dir == sim.C2S && e.T >= tCause {
						sent = append(sent, fmt.Sprintf("%v/%dB", e.T, len(e.Data)))
					}
				}
				fail("idle-timeout-postponed-by-sending", "the peer went silent at %v, the application kept writing 1 byte every %v: the idle timeout (period in force %v) fired only at %v, more than a quarter period after (first packet sent after the last one received) + idle timeout = %v; last packet received at %v; datagrams sent into the dead path: %v", tCause, writeEvery, eff, tEnd, tCause+writeEvery+eff, lastRecv, sent)
			}
		case "fatal-transport-error":
			if got := sim.ErrClass(recorded); got != "STREAM_STATE_ERROR(local)" {
				fail("wrong-cause", "recorded cause %v (%s), want a locally raised STREAM_STATE_ERROR", recorded, got)
			}
		case "transport-close":
			if recorded == nil || !errors.Is(recorded, quic.ErrTransportClosed) {
				fail("wrong-cause", "recorded cause %v, want ErrTransportClosed", recorded)
			}
		case "stateless-reset":
			var sr *quic.StatelessResetError
			if cfg.RSize > 0 {
				// a stateless reset (at least 21 bytes, ending in the token of the connection ID the client
				// uses) reached the client: that is the end of the connection, whatever the size of the reset
				rmu.Lock()
				rs := append([]c17ResetSent(nil), resets...)
				rmu.Unlock()
				if len(rs) == 0 {
					fail("setup", "the client sent nothing the stateless peer could answer")
				} else if !errors.As(recorded, &sr) || tEnd > rs[0].At+2*sim.OneWay+10*time.Millisecond {
					var l []string
					for _, r := range rs {
						l = append(l, fmt.Sprintf("%dB at %v (answering %dB)", r.Size, r.At, r.Answers))
					}
					fail("reset-not-honoured:"+cfg.Kind, "the peer lost its state and answered the client (%d byte source connection IDs) with valid stateless resets, delivered as %v; the connection ended at %v with %v", clientCIDLen, l, tEnd, recorded)
				}
				if len(rs) > 0 {
					resetSize = rs[0].Size
				}
			}
			if !errors.As(recorded, &sr) {
				fail("wrong-cause", "recorded cause %v, want a stateless reset", recorded)
			}
		}
		// ---- later calls return the cause immediately
		later := map[string]func() error{
			"OpenStream":      func() error { _, err := conn.OpenStream(); return err },
			"OpenStreamSync":  func() error { _, err := conn.OpenStreamSync(context.Background()); return err },
			"AcceptStream":    func() error { _, err := conn.AcceptStream(context.Background()); return err },
			"AcceptUniStream": func() error { _, err := conn.AcceptUniStream(context.Background()); return err },
			"ReceiveDatagram": func() error { _, err := conn.ReceiveDatagram(context.Background()); return err },
			"SendDatagram":    func() error { return conn.SendDatagram([]byte("x")) },
			"Read":            func() error { _, err := held[0].Read(make([]byte, 1)); return err },
			"Write":           func() error { _, err := held[1].Write([]byte("y")); return err },
		}
		names := make([]string, 0, len(later))
		for n := range later {
			names = append(names, n)
		}
		sort.Strings(names)
		for _, n := range names {
			ch := make(chan error, 1)
			t1 := since()
			go func() { ch <- later[n]() }()
			select {
			case err := <-ch:
				if since() != t1 {
					fail("later-call-slow:"+n, "%s took %v after the connection had ended", n, since()-t1)
				}
				if err == nil {
					fail("later-call-nil:"+n, "%s succeeded after the connection ended with %v", n, recorded)
				} else if !errors.Is(err, recorded) && err.Error() != c17ErrString(recorded) {
					fail("later-call-wrong-error:"+n, "%s returned %q after the connection ended with %q", n, err, c17ErrString(recorded))
				}
			case <-time.After(time.Second):
				fail("later-call-blocks:"+n, "%s blocks after the connection ended with %v", n, recorded)
			}
		}
		// ---- the peer is informed where a CONNECTION_CLOSE is due
		if wantRemote != "" && len(cfg.Faults) == 0 {
			select {
			case <-sconn.Context().Done():
				if got := sim.ErrClass(context.Cause(sconn.Context())); got != wantRemote {
					fail("peer-wrong-error", "the server saw %s, want %s", got, wantRemote)
				}
			case <-time.After(time.Second):
				fail("peer-not-informed", "1 s after the local close the server connection is still open")
			}
		}
		// (Transport.Close is documented to terminate connections without a CONNECTION_CLOSE; idle
		// timeouts and stateless resets are silent by nature)
		// ---- resources: routing entries gone after the closing period; goroutines via bubble exit
		w.Router.SetBlackhole(sim.C2S, false)
		w.Router.SetBlackhole(sim.S2C, false)
		if sconn != nil {
			sconn.CloseWithError(0, "")
		}
		time.Sleep(3*maxIdle + 40*time.Second)
		if tr := c17Transport(d); tr != nil && cause != "transport-close" {
			if n := quic.VerifHandlerCount(tr); n != 0 {
				fail("routing-not-released", "%d client routing entries remain after the closing period", n)
			}
			if n := quic.VerifResetTokenCount(tr); n != 0 {
				fail("reset-tokens-not-released", "%d stateless reset tokens remain registered after the closing period", n)
			}
		}
		// passive wire monitor over everything either side sent during the whole run
		for _, f := range wiremon.Analyze(w.Router.FullLog(), w.KeyLog.Lines(), wiremon.Params{}).Findings {
			fail(f.Key, "%s", f.What)
		}
		res.class = fmt.Sprintf("%s ended~%v calls=%d", cause, (tEnd - tCause).Round(100*time.Millisecond), len(results))
		if cfg.Hist != "" {
			res.class += " history=" + cfg.Hist
		}
		if cfg.RSize > 0 {
			res.class += fmt.Sprintf(" client-cid=%dB first-reset=%dB", clientCIDLen, resetSize)
		}
		res.ndgrams = w.Router.Count(sim.C2S) + w.Router.Count(sim.S2C)
		_ = net.IPv4zero
		teardown(conn)
	})
	if !ok && res.fail == nil {
		fail("goroutines-not-released", "the bubble did not terminate: goroutines of the connection are still blocked after everything was closed")
	}
	return res
}

type c17ResetSent struct {
	At      time.Duration // delivery to the client
	Size    int
	Answers int // size of the datagram it answers
}

// c17ServerCIDLen reads the length of the connection IDs the server issues off its first
// long-header packet (the client's short-header packets carry a connection ID of that length).
func c17ServerCIDLen(events []sim.Event) (int, bool) {
	for _, ev := range events {
		d := ev.Data
		if ev.Dir != sim.S2C || ev.Injected || len(d) < 7 || d[0]&0x80 == 0 {
			continue
		}
		dl := int(d[5])
		if len(d) < 7+dl {
			continue
		}
		return int(d[6+dl]), true
	}
	return 0, false
}

// c17StatelessReset builds the stateless reset of RFC 9000 10.3 an endpoint with the static key
// sends for a connection ID: n bytes, first two bits 01, unpredictable bits, the last 16 bytes the
// token (10.3.2: HMAC of the connection ID under the static key, as this implementation's
// Transport.StatelessResetKey does). ctr makes the unpredictable bits differ between resets.
func c17StatelessReset(key quic.StatelessResetKey, connID []byte, n, ctr int) []byte {
	h := hmac.New(sha256.New, key[:])
	h.Write(connID)
	token := h.Sum(nil)[:16]
	out := make([]byte, 0, n)
	for blk := 0; len(out) < n-16; blk++ {
		sum := sha256.Sum256([]byte(fmt.Sprintf("c17 unpredictable bits %d %d", ctr, blk)))
		out = append(out, sum[:]...)
	}
	out = out[:n-16]
	out[0] = out[0]&0x3f | 0x40
	return append(out, token...)
}

func c17Transport(d sim.Dialer) *quic.Transport {
	switch x := d.(type) {
	case *quic.Transport:
		return x
	case *quic.UTransport:
		return x.Transport
	}
	return nil
}

// c17ResetSizes: the largest stateless reset the harness-played peer sends (it stays below the
// size of the packet it answers): the RFC 9000 minimum and its neighbour, sizes below, at and
// just above the 42 / 43 bytes around which RFC 9000 10.3 and this implementation's own sender
// change behaviour, and large ones.
func c17ResetSizes(thorough bool) []int {
	if !thorough {
		return []int{21, 22, 30, 41, 42, 43, 100, 1200}
	}
	var out []int
	for n := 21; n <= 48; n++ {
		out = append(out, n)
	}
	return append(out, 64, 100, 300, 1200, 1500)
}

func c17TimingNames() []string {
	var out []string
	for _, tm := range c17Timings {
		out = append(out, fmt.Sprintf("%s(%v,%v,%v,%v)", tm.Name, tm.CIdle, tm.SIdle, tm.KA, tm.SKA))
	}
	return out
}

func c17Subsets(n, maxSize int) [][]int {
	out := [][]int{{}}
	var rec func(start int, cur []int)
	rec = func(start int, cur []int) {
		for i := start; i < n; i++ {
			c := append(append([]int{}, cur...), i)
			out = append(out, c)
			if len(c) < maxSize {
				rec(i+1, c)
			}
		}
	}
	rec(0, nil)
	return out
}

func c17Configs(e explore.Env) ([]c17Config, string) {
	{
		seed := uint64(e.Seed) + 31
		maxSet, histSet := 3, 1
		if e.Thorough() {
			maxSet, histSet = 6, 2
		}
		sets := c17Subsets(len(c17Calls), maxSet)
		var cfgs []c17Config
		for ci, cause := range c17Causes {
			switch cause {
			case "handshake-timeout":
				for w := 0; w < 2; w++ {
					for _, k := range []string{"plain", "chrome115"} {
						cfgs = append(cfgs, c17Config{Cause: ci, When: w, Kind: k, Seed: seed})
					}
				}
			case "dial-cancel":
				for w := 0; w < 8; w++ {
					for _, k := range []string{"plain", "chrome115"} {
						cfgs = append(cfgs, c17Config{Cause: ci, When: w, Kind: k, Seed: seed})
					}
				}
			case "idle-timeout-sending":
				for ti := range c17Timings {
					for _, k := range []string{"plain", "chrome115"} {
						for _, set := range [][]int{{}, {0, 2}} {
							cfgs = append(cfgs, c17Config{Cause: ci, Calls: set, When: 1, Timing: ti, Kind: k, Seed: seed})
						}
					}
				}
			case "close-during-dial":
				for w := 0; w < 3; w++ {
					for _, k := range []string{"plain", "chrome115"} {
						cfgs = append(cfgs, c17Config{Cause: ci, When: w, Kind: k, Seed: seed})
					}
				}
			case "keepalive-then-blackhole":
				// every (client idle, server idle, keep-alive) configuration; the spec-driven client
				// advertises its fingerprint's 30 s, which makes the server's value the smaller one
				for ti := range c17Timings {
					for _, k := range []string{"plain", "chrome115"} {
						cfgs = append(cfgs, c17Config{Cause: ci, Calls: []int{0, 2}, When: 1, Timing: ti, Kind: k, Seed: seed})
					}
				}
			default:
				for _, set := range sets {
					for when := 0; when < 3; when++ {
						cfgs = append(cfgs, c17Config{Cause: ci, Calls: set, When: when, Timing: 0, Kind: "plain", Seed: seed})
					}
				}
				// timing configurations and the spec-driven client with the full set of size 3
				for ti := 1; ti < len(c17Timings); ti++ {
					cfgs = append(cfgs, c17Config{Cause: ci, Calls: []int{0, 1, 4}, When: 1, Timing: ti, Kind: "plain", Seed: seed})
				}
				cfgs = append(cfgs, c17Config{Cause: ci, Calls: []int{0, 2, 5}, When: 1, Timing: 0, Kind: "chrome115", Seed: seed})
				// the other connection ID regimes: the zero-length IDs of quic.Dial, a spec with non-empty IDs
				for _, k := range []string{"dial0", "firefox116"} {
					for when := 0; when < 3; when++ {
						cfgs = append(cfgs, c17Config{Cause: ci, Calls: []int{0, 2, 5}, When: when, Timing: 0, Kind: k, Seed: seed})
					}
				}
				// stateless resets as another RFC 9000 peer sends them: every size class from the 21 byte
				// minimum to a full packet (this implementation's own are 42 bytes), each client kind
				// (where a reset is recognised depends on the client's connection ID length), each position
				if cause == "stateless-reset" {
					rsets := [][]int{{}, {0, 2, 5}, {1, 3, 4}, {0, 1, 4}}
					if e.Thorough() {
						rsets = append(c17Subsets(len(c17Calls), 1), rsets[1:]...)
					}
					for _, k := range []string{"plain", "dial0", "chrome115", "firefox116"} {
						for _, n := range c17ResetSizes(e.Thorough()) {
							for _, set := range rsets {
								for when := 0; when < 3; when++ {
									cfgs = append(cfgs, c17Config{Cause: ci, Calls: set, When: when, Timing: 0, Kind: k, RSize: n, Seed: seed})
								}
							}
						}
					}
				}
				// the connection's history: a resumed connection whose 0-RTT data was accepted / was rejected
				// (the application went on with NextConnection), then used and ended like any other
				for _, h := range c17Hists[1:] {
					hsets := append(c17Subsets(len(c17Calls), histSet), []int{0, 1, 4}, []int{2, 3, 4}, []int{0, 2, 5})
					for _, set := range hsets {
						for when := 0; when < 3; when++ {
							cfgs = append(cfgs, c17Config{Cause: ci, Calls: set, When: when, Timing: 0, Kind: "plain", Hist: h, Seed: seed})
						}
					}
				}
				// a fault on the closing exchange: the first / second datagram after the cause is lost or duplicated
				if cause == "local-close" || cause == "remote-close" {
					for _, m := range sim.AllFaultMaps([2]int{2, 2}, []sim.Fate{sim.Drop, sim.Dup, sim.Delay}, 1) {
						if len(m) == 1 {
							cfgs = append(cfgs, c17Config{Cause: ci, Calls: []int{0, 2, 4}, When: 1, Timing: 0, Kind: "plain", Faults: m, Seed: seed})
						}
					}
				}
			}
		}
		return cfgs, fmt.Sprintf("close causes {local close, remote close, idle timeout, Transport.Close, stateless reset, fatal transport error (an authentic 1-RTT packet with STREAM data on a send-only stream)} x every set of <= %d concurrently blocked client calls out of %v x 3 positions (right after the handshake, 300 ms later, during a server-to-client transfer) + timing configurations + spec-driven client (Chrome 115) + the quic.Dial client (zero-length source connection IDs) and the Firefox 116 spec (3 byte IDs) x 3 positions + 1 fault on the closing exchange + stateless resets sent by another RFC 9000 endpoint with the same static key (played by the harness: answers a datagram of L bytes with a reset of min(N, L-1) >= 21 bytes), N in %v x client kind {Transport, quic.Dial, Chrome 115 spec, Firefox 116 spec} x %d sets of blocked calls x 3 positions + connection histories {resumed with DialEarly and 0-RTT accepted (streams opened and written before the handshake completes), 0-RTT rejected and the application went on with NextConnection} x every set of <= %d blocked calls and 3 sets of 3 x 3 positions; handshake timeout (silent peer) and dial cancellation at each of the first 8 datagrams; Transport.Close while Dial is in flight (from inside the Tracer callback, after the first datagram, 20 ms later); keep-alive answered for 5 idle periods (neither endpoint may time out) then path death, and path death while the application keeps writing every quarter idle period, each for every (client MaxIdleTimeout, server MaxIdleTimeout, client KeepAlivePeriod, server KeepAlivePeriod) of %v x plain/spec-driven client", maxSet, c17Calls, c17ResetSizes(e.Thorough()), map[bool]int{false: 4, true: 14}[e.Thorough()], histSet, c17TimingNames())
	}
}

func TestVerifC17(t *testing.T) {
	sim.InitCerts(t)
	mk := c17Configs
	part := explore.Part{Name: "close-fanout"}
	part.Run = func(e explore.Env) *explore.Report {
		cfgs, rule := mk(e)
		rep := explore.RunCases(e, len(cfgs), 1, false, func(i int) explore.CaseResult {
			explore.MarkCurrent(e, "close-fanout", cfgs[i])
			r := c17Run(t, cfgs[i])
			cr := explore.CaseResult{Outcome: r.class, Execs: 1, Trans: int64(r.ndgrams), Replay: cfgs[i]}
			if r.fail != nil {
				cr.Fail, cr.Human = r.fail, []string{cfgs[i].String()}
			}
			return cr
		})
		rep.Level, rep.Rule, rep.Bound = "fault_enumeration", rule, rule
		rep.Samples = []any{cfgs[0].String(), cfgs[len(cfgs)/2].String(), cfgs[len(cfgs)-1].String()}
		return rep
	}
	part.Replay = func(e explore.Env, raw json.RawMessage) *explore.Violation {
		var cfg c17Config
		if err := json.Unmarshal(raw, &cfg); err != nil {
			t.Fatal(err)
		}
		r := c17Run(t, cfg)
		if r.fail == nil {
			return nil
		}
		return &explore.Violation{Key: r.fail.Key, What: r.fail.What, Human: []string{cfg.String()}}
	}
	explore.Main("C17", []explore.Part{part}, func(msg string) { t.Fatal(msg) })
}
