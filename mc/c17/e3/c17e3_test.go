package quic

// C17 / C01 E3: the datagram queue between the application (SendDatagram -> Add, which blocks
// when 32 frames are queued; ReceiveDatagram -> Receive, which blocks when nothing has arrived)
// and the run loop (Peek / Pop when packing, HandleDatagramFrame on receipt, CloseWithError when
// the connection ends). datagram_queue.go is rebuilt against mc/lib/vsync, every Lock and Unlock
// is a scheduler point, every schedule with at most two preemptions is executed. Oracles: a
// blocked Add / Receive returns once the connection has ended, with the recorded cause (C17);
// an Add that returned nil put its frame into the queue exactly once and frames leave in the
// order they were accepted; a received datagram is handed to the application unmodified and
// at most once (C01).

import (
	"context"
	"encoding/json"
	"errors"
	"fmt"
	"testing"

	"github.com/refraction-networking/uquic/internal/utils"
	"github.com/refraction-networking/uquic/internal/verifmc/explore"
	"github.com/refraction-networking/uquic/internal/verifmc/sched"
	"github.com/refraction-networking/uquic/internal/verifmc/vsync"
	"github.com/refraction-networking/uquic/internal/wire"
)

var errC17E3Closed = errors.New("c17e3: connection closed")

type c17e3Variant struct {
	Name    string
	Prefill int // frames queued before the threads start (32 = full: Add blocks)
	Threads [][]string
}

// steps: add<k> | peekpop | close | recv | frame<k> | cancel (the Receive context)
// (Each mix has ONE kind of wake-up for its blocked calls: a Go select with two ready cases
// picks one at random, which the explorer cannot own without a hook in the select itself; mixes
// in which a blocked Add / Receive could find both "space / data" and "closed" ready are left
// to the whole-connection enumeration of the E2 part.)
var c17e3Variants = []c17e3Variant{
	{"full:add|peekpop", 32, [][]string{{"add1"}, {"peekpop"}}},
	{"full:add|add|peekpop-peekpop", 32, [][]string{{"add1"}, {"add2"}, {"peekpop", "peekpop"}}},
	{"full:add|close", 32, [][]string{{"add1"}, {"close"}}},
	{"full:add|add|close", 32, [][]string{{"add1"}, {"add2"}, {"close"}}},
	{"almost-full:add|add|close", 31, [][]string{{"add1"}, {"add2"}, {"close"}}},
	{"empty:add-add|peekpop-peekpop", 0, [][]string{{"add1", "add2"}, {"peekpop", "peekpop"}}},
	{"recv|frame", 0, [][]string{{"recv"}, {"frame1"}}},
	{"recv|close", 0, [][]string{{"recv"}, {"close"}}},
	{"recv|cancel", 0, [][]string{{"recv"}, {"cancel"}}},
	{"recv|frame-frame|recv", 0, [][]string{{"recv"}, {"frame1", "frame2"}, {"recv"}}},
	{"recv-recv|frame|frame", 0, [][]string{{"recv", "recv"}, {"frame1"}, {"frame2"}}},
	{"recv|recv|close", 0, [][]string{{"recv"}, {"recv"}, {"close"}}},
}

type c17e3Replay struct {
	Variant int   `json:"variant"`
	Choices []int `json:"choices"`
}

func c17e3Scenario(v c17e3Variant) func() *sched.Scenario {
	return func() *sched.Scenario {
		q := newDatagramQueue(func() {}, utils.DefaultLogger)
		for i := 0; i < v.Prefill; i++ {
			explore.Must(q.Add(&wire.DatagramFrame{Data: []byte{0xF0, byte(i)}}) == nil, "prefill refused")
		}
		ctx, cancel := context.WithCancel(context.Background())
		closing, closed := false, false // CloseWithError called / returned
		accepted := map[byte]int{}      // id -> Add returned nil
		addErr := map[byte]error{}
		var popped []byte // ids in the order the run loop dequeued them (prefill excluded)
		var fail *explore.Fail
		bad := func(key, f string, a ...any) {
			if fail == nil {
				fail = explore.Failf(key, "%s: %s", v.Name, fmt.Sprintf(f, a...))
			}
		}
		delivered := map[byte]int{}
		sentFrames := map[byte]bool{}
		nrecv, nrecvRet := 0, 0
		step := func(name string) func() {
			switch {
			case name[:3] == "add":
				id := name[3] - '0'
				return func() {
					wasClosed := closed
					err := q.Add(&wire.DatagramFrame{Data: []byte{0xA0, id}})
					if err == nil && wasClosed {
						bad("e3:add-accepted-after-close", "Add(%d) returned nil although CloseWithError had returned before it was called", id)
					}
					if err == nil {
						accepted[id]++
					} else {
						addErr[id] = err
						if !closing {
							bad("e3:add-failed-without-close", "Add(%d) returned %v before the connection ended", id, err)
						} else if !errors.Is(err, errC17E3Closed) {
							bad("e3:add-wrong-error", "Add(%d) returned %v, the recorded cause is %v", id, err, errC17E3Closed)
						}
					}
				}
			case name == "peekpop":
				return func() {
					if closing {
						return // nothing is packed after the connection has ended
					}
					if f := q.Peek(); f != nil {
						q.Pop()
						if f.Data[0] == 0xA0 {
							popped = append(popped, f.Data[1])
						}
					}
				}
			case name == "close":
				return func() { closing = true; q.CloseWithError(errC17E3Closed); closed = true }
			case name == "recv":
				return func() {
					nrecv++
					wasClosed := closed
					d, err := q.Receive(ctx)
					_ = wasClosed
					nrecvRet++
					if err != nil {
						if !errors.Is(err, errC17E3Closed) && !errors.Is(err, context.Canceled) {
							bad("e3:receive-wrong-error", "Receive returned %v", err)
						}
						if errors.Is(err, errC17E3Closed) && !closing {
							bad("e3:receive-spurious-close", "Receive returned the close error before the connection ended")
						}
						return
					}
					if len(d) != 3 || d[0] != 0xB0 || d[2] != d[1]^0x5a || !sentFrames[d[1]] {
						bad("e3:datagram-modified", "Receive returned %x, which no DATAGRAM frame carried", d)
						return
					}
					delivered[d[1]]++
					if delivered[d[1]] > 1 {
						bad("e3:datagram-delivered-twice", "datagram %d was handed to the application %d times", d[1], delivered[d[1]])
					}
				}
			case name[:5] == "frame":
				id := name[5] - '0'
				return func() {
					sentFrames[id] = true
					buf := []byte{0xB0, id, id ^ 0x5a}
					q.HandleDatagramFrame(&wire.DatagramFrame{Data: buf})
					buf[0], buf[1], buf[2] = 0xEE, 0xEE, 0xEE // the packet buffer is reused
				}
			case name == "cancel":
				return cancel
			}
			panic("unknown step " + name)
		}
		var threads []sched.Thread
		for i, t := range v.Threads {
			var steps []func()
			for _, n := range t {
				steps = append(steps, step(n))
			}
			threads = append(threads, sched.Thread{Name: fmt.Sprintf("T%d:%s", i, t[0]), Steps: steps})
		}
		check := func() *explore.Fail {
			if fail != nil {
				return fail
			}
			seen := map[byte]bool{}
			for _, id := range popped {
				if seen[id] {
					return explore.Failf("e3:frame-dequeued-twice", "%s: frame %d left the send queue twice (%v)", v.Name, id, popped)
				}
				seen[id] = true
			}
			return nil
		}
		return &sched.Scenario{
			Threads:   threads,
			AfterStep: check,
			Final: func(blocked []string) *explore.Fail {
				if f := check(); f != nil {
					return f
				}
				for _, b := range blocked {
					if closing {
						return explore.Failf("e3:blocked-after-close", "%s: %s is still blocked after CloseWithError", v.Name, b)
					}
				}
				return nil
			},
			Cleanup: func() {
				cancel()
				if !closing {
					closing = true
					q.CloseWithError(errC17E3Closed)
				}
			},
			AfterCleanup: func(stuck []string) *explore.Fail {
				return explore.Failf("e3:blocked-after-close", "%s: %v still blocked after CloseWithError and context cancellation", v.Name, stuck)
			},
			Outcome: func() string {
				return fmt.Sprintf("accepted=%d popped=%d delivered=%d adderr=%d recv=%d/%d", len(accepted), len(popped), len(delivered), len(addErr), nrecvRet, nrecv)
			},
		}
	}
}

func TestVerifC17E3(t *testing.T) {
	vsync.Hook = sched.Point
	vsync.UnlockHook = sched.Point
	name := "e3-datagram-queue"
	part := explore.Part{
		Name: name,
		Run: func(e explore.Env) *explore.Report {
			rep := &explore.Report{Level: "exploration", Exhaustive: true}
			bound := 2
			if e.Thorough() {
				bound = 3
			}
			outcomes := map[string]bool{}
			for vi, v := range c17e3Variants {
				explore.MarkCurrent(e, name, c17e3Replay{Variant: vi})
				r := sched.ExploreBounded(t, e, bound, 0, c17e3Scenario(v))
				rep.Evaluations += r.Executions
				rep.Transitions += r.Steps
				for o := range r.Outcomes {
					outcomes[v.Name+": "+o] = true
				}
				if r.Capped {
					rep.Exhaustive = false
					rep.Caps = append(rep.Caps, "deadline in "+v.Name)
				}
				if r.Fail != nil {
					rep.Violations = append(rep.Violations, explore.Violation{Key: r.Fail.Key, What: r.Fail.What, Replay: explore.JSON(c17e3Replay{vi, r.FailChoice}), Human: r.FailTrace})
				}
				rep.Samples = append(rep.Samples, fmt.Sprintf("%s: %d schedules", v.Name, r.Executions))
			}
			explore.ClearCurrent(e)
			for o := range outcomes {
				rep.Outcomes = append(rep.Outcomes, o)
			}
			rep.OutcomesN = int64(len(rep.Outcomes))
			rep.Traces = rep.Transitions
			rep.Rule = fmt.Sprintf("%d thread mixes on one real datagramQueue (Add on a full / almost full / empty send queue, Peek+Pop, CloseWithError, Receive incl. two receivers and a cancelled context, HandleDatagramFrame) with every mutex Lock and Unlock of datagram_queue.go as a scheduler point (file import-rewritten to vsync from the working tree): every schedule with at most %d preemptions", len(c17e3Variants), bound)
			rep.Bound = fmt.Sprintf("preemption bound %d completed", bound)
			return rep
		},
		Replay: func(e explore.Env, raw json.RawMessage) *explore.Violation {
			var rp c17e3Replay
			if err := json.Unmarshal(raw, &rp); err != nil {
				t.Fatal(err)
			}
			f, trace := sched.Replay(t, c17e3Scenario(c17e3Variants[rp.Variant]), rp.Choices)
			if f == nil {
				return nil
			}
			return &explore.Violation{Key: f.Key, What: f.What, Human: trace}
		},
	}
	explore.Main("C17", []explore.Part{part}, func(msg string) { t.Fatal(msg) })
}
