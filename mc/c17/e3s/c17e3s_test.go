package quic

// C17 E3, stream teardown: "every way a connection ends unblocks callers". The run loop ends a
// connection with streamsMap.CloseWithError (handleCloseError), which takes the streams map's
// mutex and then every stream's; the application is at that moment inside Read / Write /
// CancelRead / AcceptStream / OpenStreamSync, some of which finish a stream and call back into
// the streams map (onStreamCompleted -> DeleteStream, as connection.go wires it). Two paths
// that take the two locks in opposite order, or a waiter that is not woken, leave a caller
// blocked for ever - without any data race for the detector to see.
//
// stream.go, send_stream.go, receive_stream.go, streams_map*.go and the flow controllers are
// rebuilt against the channel-based mutex of mc/lib/vsync; every Lock and every Unlock is a
// scheduler point; every schedule of the thread mixes below with at most two (thorough: three)
// preemptions is executed. Each mix runs on a fresh streams map and on one that went through a
// rejected 0-RTT first (ResetFor0RTT + UseResetMaps: the maps the connection finally closes are
// not the ones it was created with); three more mixes race the rejection itself. The stream a Read /
// Peek waits on is empty so far, complete, or received out of order (its end - with the FIN - behind
// a gap of missing bytes). Oracle: when no thread can take a step any more, no call is still
// blocked; calls that return after the close report an error rather than success; a Read / Peek made
// after the close, or one that waited on a gap which is never filled, returns the close error.

import (
	"context"
	"encoding/json"
	"errors"
	"fmt"
	"io"
	"strings"
	"testing"

	"github.com/refraction-networking/uquic/internal/flowcontrol"
	"github.com/refraction-networking/uquic/internal/monotime"
	"github.com/refraction-networking/uquic/internal/protocol"
	"github.com/refraction-networking/uquic/internal/utils"
	"github.com/refraction-networking/uquic/internal/verifmc/explore"
	"github.com/refraction-networking/uquic/internal/verifmc/sched"
	"github.com/refraction-networking/uquic/internal/verifmc/vsync"
	"github.com/refraction-networking/uquic/internal/wire"
)

type c17e3sVariant struct {
	Name    string
	Setup   string // uni-fin | uni-nofin | bidi-fin-sendacked | bidi-fin | none | uni-gap-fin | uni-gap-nofin | uni-midgap-fin | bidi-gap-fin
	Threads [][]string
	// Hist0RTT: the streams map has been through a rejected 0-RTT before anything else happens
	// (ResetFor0RTT by the run loop, UseResetMaps by the application's NextConnection), as on a
	// client connection that was dialed early, had its early data refused and is used normally since
	Hist0RTT bool
}

// steps: close (streamsMap.CloseWithError, as the run loop does) | readall | read1 (one Read of the whole
// stream: returns the data together with, or followed by, EOF) | cancelread | write (blocks: nothing packs) |
// accept | acceptuni | opensync (blocked by the peer's stream limit 0) | ackfin (the FIN is acknowledged) |
// rst (RESET_STREAM) | fin (FIN frame arrives) | reset0rtt (the run loop drops the 0-RTT keys: ResetFor0RTT) |
// usereset (the application's NextConnection: UseResetMaps) | accept2 / opensync2 (= accept / opensync, a
// second call of the same thread) | peek (one Peek of the whole stream) | fill (the STREAM frame that closes the gap
// arrives, late)
//
// Setups with a GAP (loss / reordering on the way to this endpoint): the LAST part of the stream, bytes
// [40,100), has arrived - with the FIN (x-gap-fin: the final size is known) or without (uni-gap-nofin) - while
// bytes [0,40) (uni-midgap-fin: [20,40), after [0,20) arrived in order) are still missing, so a Read / Peek
// waits on the gap, not on the end of the stream, at the moment the connection ends.
var c17e3sVariants = c17e3sAllVariants()

// every thread mix on a fresh streams map and on one that has been through a rejected 0-RTT, plus
// the rejection itself racing the application: a call blocked in the maps that are being replaced,
// NextConnection, the same call again on the new maps, and the run loop closing the connection
func c17e3sAllVariants() []c17e3sVariant {
	out := append([]c17e3sVariant{}, c17e3sBaseVariants...)
	for _, v := range c17e3sBaseVariants {
		v.Name, v.Hist0RTT = "after-0rtt-rejection/"+v.Name, true
		out = append(out, v)
	}
	return append(out,
		c17e3sVariant{Name: "accept-usereset-accept|reset0rtt-close", Setup: "none", Threads: [][]string{{"accept", "usereset", "accept2"}, {"reset0rtt", "close"}}},
		c17e3sVariant{Name: "opensync-usereset-opensync|reset0rtt-close", Setup: "none", Threads: [][]string{{"opensync", "usereset", "opensync2"}, {"reset0rtt", "close"}}},
		c17e3sVariant{Name: "uni:blocked-read-usereset-acceptuni|reset0rtt-close", Setup: "uni-nofin", Threads: [][]string{{"readall", "usereset", "acceptuni"}, {"reset0rtt", "close"}}},
	)
}

var c17e3sBaseVariants = []c17e3sVariant{
	{Name: "uni:readall|close", Setup: "uni-fin", Threads: [][]string{{"readall"}, {"close"}}},
	{Name: "uni:cancelread|close", Setup: "uni-fin", Threads: [][]string{{"cancelread"}, {"close"}}},
	{Name: "uni:blocked-read|fin-close", Setup: "uni-nofin", Threads: [][]string{{"readall"}, {"fin", "close"}}},
	{Name: "uni:blocked-read|close", Setup: "uni-nofin", Threads: [][]string{{"readall"}, {"close"}}},
	{Name: "uni:cancelread|rst-close", Setup: "uni-nofin", Threads: [][]string{{"cancelread"}, {"rst", "close"}}},
	{Name: "bidi:readall|close", Setup: "bidi-fin-sendacked", Threads: [][]string{{"readall"}, {"close"}}},
	{Name: "bidi:readall|ackfin-close", Setup: "bidi-fin", Threads: [][]string{{"readall"}, {"ackfin", "close"}}},
	{Name: "bidi:write|readall|close", Setup: "bidi-fin", Threads: [][]string{{"write"}, {"readall"}, {"close"}}},
	{Name: "accept|acceptuni|close", Setup: "none", Threads: [][]string{{"accept"}, {"acceptuni"}, {"close"}}},
	{Name: "opensync|close", Setup: "none", Threads: [][]string{{"opensync"}, {"close"}}},
	{Name: "uni:readall|readall2|close", Setup: "uni-fin", Threads: [][]string{{"readall"}, {"acceptuni"}, {"close"}}},
	// final size known, earlier data missing: the blocked call waits on the gap
	{Name: "uni-gap-fin:blocked-read|close", Setup: "uni-gap-fin", Threads: [][]string{{"readall"}, {"close"}}},
	{Name: "uni-gap-fin:blocked-peek|close", Setup: "uni-gap-fin", Threads: [][]string{{"peek"}, {"close"}}},
	{Name: "uni-midgap-fin:blocked-read|close", Setup: "uni-midgap-fin", Threads: [][]string{{"readall"}, {"close"}}},
	{Name: "uni-midgap-fin:blocked-peek|close", Setup: "uni-midgap-fin", Threads: [][]string{{"peek"}, {"close"}}},
	{Name: "bidi-gap-fin:blocked-read|close", Setup: "bidi-gap-fin", Threads: [][]string{{"readall"}, {"close"}}},
	{Name: "bidi-gap-fin:blocked-peek|close", Setup: "bidi-gap-fin", Threads: [][]string{{"peek"}, {"close"}}},
	// the gap without a known final size, the FIN arriving behind the gap right before the end, the gap
	// closed right before the end, a RESET_STREAM (same final size) right before the end
	{Name: "uni-gap-nofin:blocked-peek|close", Setup: "uni-gap-nofin", Threads: [][]string{{"peek"}, {"close"}}},
	{Name: "uni-gap-nofin:blocked-read|fin-close", Setup: "uni-gap-nofin", Threads: [][]string{{"readall"}, {"fin", "close"}}},
	{Name: "uni-gap-fin:blocked-read|fill-close", Setup: "uni-gap-fin", Threads: [][]string{{"readall"}, {"fill", "close"}}},
	{Name: "uni-gap-fin:blocked-peek|fill-close", Setup: "uni-gap-fin", Threads: [][]string{{"peek"}, {"fill", "close"}}},
	{Name: "uni-gap-fin:blocked-read|rst-close", Setup: "uni-gap-fin", Threads: [][]string{{"readall"}, {"rst", "close"}}},
}

type c17e3sReplay struct {
	Variant int   `json:"variant"`
	Choices []int `json:"choices"`
}

type c17e3sSender struct{ sm *streamsMap }

func (s *c17e3sSender) onHasConnectionData()                                                {}
func (s *c17e3sSender) onHasStreamData(protocol.StreamID, *SendStream)                      {}
func (s *c17e3sSender) onHasStreamControlFrame(protocol.StreamID, streamControlFrameGetter) {}
func (s *c17e3sSender) onStreamCompleted(id protocol.StreamID) {
	// connection.go: DeleteStream, then framer.RemoveActiveStream; an error closes the connection
	_ = s.sm.DeleteStream(id)
}

var errC17e3sClosed = errors.New("c17e3s: connection closed")

func c17e3sScenario(v c17e3sVariant) func() *sched.Scenario {
	return func() *sched.Scenario {
		rtt := utils.NewRTTStats()
		cfc := flowcontrol.NewConnectionFlowController(1<<20, 1<<20, func(protocol.ByteCount) bool { return true }, rtt, utils.DefaultLogger)
		cfc.UpdateSendWindow(1 << 20)
		snd := &c17e3sSender{}
		sm := newStreamsMap(context.Background(), snd, func(wire.Frame) {},
			func(id protocol.StreamID) flowcontrol.StreamFlowController {
				return flowcontrol.NewStreamFlowController(id, cfc, 1<<20, 1<<20, 1<<20, rtt, utils.DefaultLogger)
			}, 4, 4, protocol.PerspectiveClient)
		snd.sm = sm
		if v.Hist0RTT {
			sm.ResetFor0RTT()
			sm.UseResetMaps()
		}
		now := monotime.Now()
		ctx := context.Background()
		var rd interface {
			io.Reader
			Peek([]byte) (int, error)
		}
		var fill func()
		var cancelRead func()
		var bidi *Stream
		var finFrame func()
		switch v.Setup {
		case "uni-fin", "uni-nofin":
			explore.Must(sm.HandleStreamFrame(&wire.StreamFrame{StreamID: 3, Data: make([]byte, 100), Fin: v.Setup == "uni-fin"}, now) == nil, "setup frame")
			rs, err := sm.AcceptUniStream(ctx)
			explore.Must(err == nil, "setup accept uni")
			rd, cancelRead = rs, func() { rs.CancelRead(7) }
		case "uni-gap-fin", "uni-gap-nofin", "uni-midgap-fin":
			if v.Setup == "uni-midgap-fin" {
				explore.Must(sm.HandleStreamFrame(&wire.StreamFrame{StreamID: 3, Data: make([]byte, 20)}, now) == nil, "setup first frame")
			}
			explore.Must(sm.HandleStreamFrame(&wire.StreamFrame{StreamID: 3, Offset: 40, Data: make([]byte, 60), Fin: v.Setup != "uni-gap-nofin"}, now) == nil, "setup frame behind the gap")
			rs, err := sm.AcceptUniStream(ctx)
			explore.Must(err == nil, "setup accept uni")
			rd, cancelRead = rs, func() { rs.CancelRead(7) }
			fill = func() {
				_ = sm.HandleStreamFrame(&wire.StreamFrame{StreamID: 3, Offset: 0, Data: make([]byte, 40)}, monotime.Now())
			}
		case "bidi-gap-fin":
			explore.Must(sm.HandleStreamFrame(&wire.StreamFrame{StreamID: 1, Offset: 40, Data: make([]byte, 60), Fin: true}, now) == nil, "setup frame behind the gap")
			str, err := sm.AcceptStream(ctx)
			explore.Must(err == nil, "setup accept")
			bidi, rd, cancelRead = str, str, func() { str.CancelRead(7) }
			fill = func() {
				_ = sm.HandleStreamFrame(&wire.StreamFrame{StreamID: 1, Offset: 0, Data: make([]byte, 40)}, monotime.Now())
			}
		case "bidi-fin", "bidi-fin-sendacked":
			explore.Must(sm.HandleStreamFrame(&wire.StreamFrame{StreamID: 1, Data: make([]byte, 100), Fin: true}, now) == nil, "setup frame")
			str, err := sm.AcceptStream(ctx)
			explore.Must(err == nil, "setup accept")
			bidi, rd, cancelRead = str, str, func() { str.CancelRead(7) }
			if v.Setup == "bidi-fin-sendacked" {
				_, err = str.Write(make([]byte, 50))
				explore.Must(err == nil && str.Close() == nil, "setup write/close")
			}
			if v.Setup == "bidi-fin-sendacked" || hasStep(v, "ackfin") {
				if v.Setup == "bidi-fin" {
					explore.Must(str.Close() == nil, "setup close")
				}
				f, _, _ := str.popStreamFrame(protocol.MaxPacketBufferSize, protocol.Version1)
				explore.Must(f.Frame != nil && f.Frame.Fin, "setup: no FIN frame")
				finFrame = func() { f.Handler.OnAcked(f.Frame) }
				if v.Setup == "bidi-fin-sendacked" {
					finFrame()
				}
			}
		}
		closed, closing, stuck := false, false, false
		results := map[string]error{}
		startedAfterClose := map[string]bool{} // the call was made after streamsMap.CloseWithError had returned
		// the missing bytes never arrive and nothing but the end of the connection can end the call
		// (a stream that the peer reset, the application cancelled or a 0-RTT rejection closed - with
		// Err0RTTRejected - has a terminal error of its own, which Read may go on returning: not judged)
		ownEnd := hasStep(v, "rst") || hasStep(v, "cancelread") || hasStep(v, "reset0rtt")
		gapForEver := strings.Contains(v.Setup, "gap") && !hasStep(v, "fill") && !ownEnd
		var threads []sched.Thread
		for i, names := range v.Threads {
			th := sched.Thread{Name: fmt.Sprintf("t%d", i)}
			for _, n := range names {
				n := n
				key := fmt.Sprintf("%s#%d", n, i)
				var f func()
				switch n {
				case "close":
					f = func() { closing = true; sm.CloseWithError(errC17e3sClosed); closed = true }
				case "readall":
					f = func() { startedAfterClose[key] = closed; _, err := io.ReadAll(rd); results[key] = err }
				case "peek":
					f = func() { startedAfterClose[key] = closed; _, err := rd.Peek(make([]byte, 100)); results[key] = err }
				case "fill":
					f = fill
				case "cancelread":
					f = cancelRead
				case "write":
					f = func() { _, err := bidi.Write(make([]byte, 3000)); results[key] = err }
				case "accept", "accept2":
					f = func() { _, err := sm.AcceptStream(ctx); results[key] = err }
				case "reset0rtt":
					f = sm.ResetFor0RTT
				case "usereset":
					f = sm.UseResetMaps
				case "acceptuni":
					f = func() { _, err := sm.AcceptUniStream(ctx); results[key] = err }
				case "opensync", "opensync2":
					f = func() { _, err := sm.OpenStreamSync(ctx); results[key] = err }
				case "ackfin":
					f = finFrame
				case "rst":
					f = func() {
						_ = sm.HandleResetStreamFrame(&wire.ResetStreamFrame{StreamID: 3, ErrorCode: 2, FinalSize: 100}, monotime.Now())
					}
				case "fin":
					f = func() {
						_ = sm.HandleStreamFrame(&wire.StreamFrame{StreamID: 3, Offset: 100, Fin: true}, monotime.Now())
					}
				default:
					panic("unknown step " + n)
				}
				th.Name += ":" + n
				th.Steps = append(th.Steps, f)
			}
			threads = append(threads, th)
		}
		return &sched.Scenario{
			Threads: threads,
			Final: func(blocked []string) *explore.Fail {
				for _, b := range blocked {
					stuck = true
					return explore.Failf("e3:call-blocked-after-connection-end", "%s: %s has not returned although the connection was closed (all other calls have returned or are blocked as well: %v)", v.Name, b, blocked)
				}
				for k, err := range results {
					// a call that can only succeed with a stream from the peer or more stream credit
					// cannot have succeeded: nothing of the kind happened
					if err == nil && closed && (strings.HasPrefix(k, "accept") || strings.HasPrefix(k, "opensync")) {
						return explore.Failf("e3:call-succeeded-on-closed-connection", "%s: %s returned no error", v.Name, k)
					}
					isRead := strings.HasPrefix(k, "read") || strings.HasPrefix(k, "peek")
					// "every blocked or later stream ... call returns ... with the one recorded cause": a Read / Peek
					// made after the connection ended, and one that waited for bytes which never arrived
					if isRead && closed && ((startedAfterClose[k] && !ownEnd) || gapForEver) && !errors.Is(err, errC17e3sClosed) {
						return explore.Failf("e3:stream-call-without-the-close-cause", "%s: %s returned %v, not the error the connection was closed with (call made after the close: %v; waiting on a gap that is never filled: %v)", v.Name, k, err, startedAfterClose[k], gapForEver)
					}
				}
				return nil
			},
			Cleanup: func() {
				if !closing { // (closing twice is not something a connection does)
					sm.CloseWithError(errC17e3sClosed)
				}
				if stuck && cancelRead != nil { // lets the bubble terminate after the verdict
					cancelRead()
				}
			},
			Outcome: func() string {
				s := ""
				for _, th := range threads {
					for k, err := range results {
						if len(k) > 0 && k[len(k)-1] == th.Name[1] {
							s += fmt.Sprintf("%s=%v ", k, err != nil)
						}
					}
				}
				return s
			},
		}
	}
}

func hasStep(v c17e3sVariant, step string) bool {
	for _, th := range v.Threads {
		for _, s := range th {
			if s == step {
				return true
			}
		}
	}
	return false
}

func TestVerifC17E3S(t *testing.T) {
	vsync.Hook = sched.Point
	vsync.UnlockHook = sched.Point
	const name = "e3-stream-teardown"
	part := explore.Part{
		Name: name,
		Run: func(e explore.Env) *explore.Report {
			rep := &explore.Report{Level: "exploration", Exhaustive: true}
			bound := 2
			if e.Thorough() {
				bound = 3
			}
			outcomes := map[string]bool{}
			for vi, v := range c17e3sVariants {
				explore.MarkCurrent(e, name, c17e3sReplay{Variant: vi})
				r := sched.ExploreBounded(t, e, bound, 0, c17e3sScenario(v))
				rep.Evaluations += r.Executions
				rep.Transitions += r.Steps
				for o := range r.Outcomes {
					outcomes[v.Name+": "+o] = true
				}
				if r.Capped {
					rep.Exhaustive = false
					rep.Caps = append(rep.Caps, "deadline in "+v.Name)
				}
				if r.Fail != nil {
					rep.Violations = append(rep.Violations, explore.Violation{Key: r.Fail.Key, What: r.Fail.What, Replay: explore.JSON(c17e3sReplay{vi, r.FailChoice}), Human: r.FailTrace})
				}
				rep.Samples = append(rep.Samples, fmt.Sprintf("%s: %d schedules", v.Name, r.Executions))
			}
			explore.ClearCurrent(e)
			for o := range outcomes {
				rep.Outcomes = append(rep.Outcomes, o)
			}
			rep.OutcomesN = int64(len(rep.Outcomes))
			rep.States = rep.OutcomesN
			rep.Traces = rep.Transitions
			rep.Rule = fmt.Sprintf("%d thread mixes on a real client-side streamsMap with real peer-initiated streams: streamsMap.CloseWithError (the run loop ending the connection, also right after a FIN / RESET_STREAM / acknowledgement) against application calls (Read to the end, a Read / Peek that waits - for the first byte, for the end, or on a gap of missing bytes below an already received end of stream (FIN behind loss / reordering; the gap never closing, closing late, a RESET_STREAM arriving) -, CancelRead, Write, AcceptStream, AcceptUniStream, OpenStreamSync), each mix on a fresh streams map and on one that has been through a rejected 0-RTT (ResetFor0RTT, UseResetMaps) before, plus the rejection itself (ResetFor0RTT in the run loop, then the close) racing a blocked call, NextConnection and the same call again; every mutex Lock and Unlock of stream.go, send_stream.go, receive_stream.go, streams_map*.go and internal/flowcontrol is a scheduler point (files import-rewritten to vsync from the working tree): every schedule with at most %d preemptions", len(c17e3sVariants), bound)
			rep.Bound = fmt.Sprintf("preemption bound %d completed", bound)
			return rep
		},
		Replay: func(e explore.Env, raw json.RawMessage) *explore.Violation {
			var rp c17e3sReplay
			if err := json.Unmarshal(raw, &rp); err != nil {
				t.Fatal(err)
			}
			f, trace := sched.Replay(t, c17e3sScenario(c17e3sVariants[rp.Variant]), rp.Choices)
			if f == nil {
				return nil
			}
			return &explore.Violation{Key: f.Key, What: f.What, Human: trace}
		},
	}
	explore.Main("C17", []explore.Part{part}, func(msg string) { t.Fatal(msg) })
}
