# ./check configuration for C17 (merged by mc/props.py)
PROP = dict(
    libs=["explore", "canon", "sim", "wireobs", "wiremon"],
    targets=[
        dict(name="e2", pkg=".", test="TestVerifC17", files=["mc/c17/*.go"], parts=["close-fanout"]),
        dict(name="e3", pkg=".", test="TestVerifC17E3", files=["mc/c17/e3/*.go"], parts=["e3-datagram-queue"],
             libs=["explore", "canon", "sched", "vsync"], shards=1, gomaxprocs=0, env={},
             rewrite={"datagram_queue.go": [('"sync"', 'sync "github.com/refraction-networking/uquic/internal/verifmc/vsync"')]}),
        dict(name="e3s", pkg=".", test="TestVerifC17E3S", files=["mc/c17/e3s/*.go"], parts=["e3-stream-teardown"],
             libs=["explore", "canon", "sched", "vsync"], shards=1, gomaxprocs=0, env={},
             rewrite={f: [('"sync"', 'sync "github.com/refraction-networking/uquic/internal/verifmc/vsync"')]
                      for f in ("stream.go", "send_stream.go", "receive_stream.go", "streams_map.go", "streams_map_incoming.go", "streams_map_outgoing.go", "internal/flowcontrol/base_flow_controller.go")}),
        dict(name="race", pkg=".", test="TestVerifC17Race", files=["mc/c17/*.go", "mc/c17/race/*.go"], parts=["close-fanout-race"],
             race=True, shards=4, gomaxprocs=4, env={"GORACE": "halt_on_error=1", "GODEBUG": "randseednop=0"}),
    ],
    engine="E2 simx", level="fault_enumeration", shards="ncpu", gomaxprocs=1,
    env={"GODEBUG": "randseednop=0,asyncpreemptoff=1"},
    deterministic=False, crash_is_violation=True,
    deadline=dict(quick=150, thorough=1100),
    rule="whole client+server connections of the real implementation in a synctest bubble over a fault-injecting router; one execution per static fault map (slot -> fate)",
    assumptions=["goroutine interleavings inside the connection are chosen by the Go runtime (GOMAXPROCS=1), not enumerated; oracles are schedule-independent",
                 "crypto/rand pinned per run with cryptotest.SetGlobalRandom; math/rand seeded",
                 "calls are blocked by construction: the server application never answers, its windows and stream limits are tiny"],
    level_text="Exhaustive enumeration, on real client and server in virtual time, of close cause x set of concurrently blocked client calls (all subsets up to a size bound) x position of the cause x idle/keep-alive configuration x one fault on the closing exchange. Every blocked call must return promptly with the one recorded cause, later calls must return it at once, the peer must learn of it where a CONNECTION_CLOSE is due, routing entries / reset tokens / goroutines must be gone after the closing period, and idle timeouts must fire inside their window and never while keep-alives are answered. Every execution is also read by the passive wire monitor (mc/lib/wiremon): each datagram either endpoint SENT is opened with independent packet protection (mc/lib/ref5, secrets from the TLS key log), its frames are parsed by an independent parser, and sender-side invariants are checked (packet numbers increase and stay decodable for what the sender knows to be acknowledged; ACK frames name only packets whose intact copy had arrived; retransmissions never change stream or CRYPTO bytes; data, stream counts and final sizes stay within the limits that had reached the sender, read from the ClientHello / EncryptedExtensions; frames fit their encryption level; 1-RTT packets use connection IDs the peer issued and the sender has not retired; nothing but CONNECTION_CLOSE after CONNECTION_CLOSE). What an endpoint can have received is over-approximated from fates and virtual times, so the monitor can miss but not invent a violation; exchanges with injected datagrams are not judged by it.",
    level_note="Trusted: simnet + synctest virtual time (goroutine release is decided by the bubble terminating); the fatal-transport-error cause is not built (it needs a misbehaving peer); goroutine interleavings inside the connection are the runtime's, not enumerated.",
    technique="exhaustive close-cause x blocked-call-set x timing enumeration on real endpoints in virtual time",
)
