package quic_test

// C17 free-running race pass: a slice of the close-fanout configurations (every close cause,
// blocked API calls of every kind, both client kinds) executed under `go test -race` with
// several Ps. The E2 parts pin GOMAXPROCS=1 and judge schedule-independent oracles; they do not
// enumerate goroutine interleavings inside a connection. That is sound for the property only
// if the connection code has no unsynchronised shared accesses, which this supporting pass
// samples with the race detector (a report kills the worker and is a violation). Sampled, not
// exhaustive; excluded from the counts.

import (
	"encoding/json"
	"fmt"
	"testing"

	"github.com/refraction-networking/uquic/internal/verifmc/explore"
	"github.com/refraction-networking/uquic/internal/verifmc/sim"
)

func TestVerifC17Race(t *testing.T) {
	sim.InitCerts(t)
	part := explore.Part{Name: "close-fanout-race"}
	part.Run = func(e explore.Env) *explore.Report {
		cfgs, _ := c17Configs(e)
		step := 9
		if e.Thorough() {
			step = 5
		}
		var sel []c17Config
		for i := e.Shard; i < len(cfgs); i += step * max(e.Shards, 1) {
			sel = append(sel, cfgs[i])
		}
		rep := &explore.Report{Level: "exploration", Supporting: true}
		oc := map[string]bool{}
		for _, cfg := range sel {
			if e.Expired() {
				break
			}
			explore.MarkCurrent(e, "close-fanout-race", cfg)
			r := c17Run(t, cfg)
			rep.Evaluations++
			oc[r.class] = true
			if r.fail != nil {
				rep.Violations = append(rep.Violations, explore.Violation{Key: "race-pass:" + r.fail.Key, What: r.fail.What, Replay: explore.JSON(cfg), Human: []string{cfg.String()}})
				break
			}
		}
		explore.ClearCurrent(e)
		for o := range oc {
			rep.Outcomes = append(rep.Outcomes, o)
		}
		rep.OutcomesN = int64(len(rep.Outcomes))
		rep.Rule = fmt.Sprintf("every %d-th close-fanout configuration under the race detector with 4 Ps (sampled supporting pass)", step)
		rep.Caps = []string{"sampled: validates the no-data-race assumption of the GOMAXPROCS=1 E2 parts"}
		return rep
	}
	part.Replay = func(e explore.Env, raw json.RawMessage) *explore.Violation {
		var cfg c17Config
		if err := json.Unmarshal(raw, &cfg); err != nil {
			t.Fatal(err)
		}
		r := c17Run(t, cfg)
		if r.fail == nil {
			return nil
		}
		return &explore.Violation{Key: "race-pass:" + r.fail.Key, What: r.fail.What, Human: []string{cfg.String()}}
	}
	explore.Main("C17", []explore.Part{part}, func(msg string) { t.Fatal(msg) })
}
