package http3

// C18: HTTP/3 carries requests and responses end to end without loss or alteration.
//
// Parts
//   lattice      message lattice (<= 2-dimension deviations quick, <= 3 thorough), no faults
//   trailer-spell every spelling of the handler's Trailer announcement (one name per value / one
//                comma-separated value with and without spaces; canonical, lower, mixed case) x
//                every way of setting the values, crossed with the <= 1 (2) dimension deviations
//   raw          scripted raw QUIC client against the real server side: byte splits, resets,
//                unknown / forbidden frames and streams
//   raw-client   scripted raw QUIC server against the real Transport: the same, mirrored
//   real-server  clean exchanges through the unchanged Server.ServeListener path
//   early-reject 1..3 uploads that the server answers early (431 by decoded field-section size or
//                by HEADERS frame length with a small Server.MaxHeaderBytes, 400 / 413 from a
//                handler that does not read the body) while the client is still sending bodies
//                around and above the stream / connection window (or with MaxIncomingStreams = N),
//                then a valid exchange on the same connection
//   faults       every single-fault map over all datagrams of an exchange (1-dimension
//                deviations quick, pairs thorough)
//   faults-k2    every 2-fault map over the first N datagrams of each direction
//
// See c18_model_test.go (reference model), c18_run_test.go (E2 executor + oracle),
// c18_raw_test.go (raw peer).

import (
	"encoding/json"
	"fmt"
	"os"
	"strings"
	"testing"

	"github.com/refraction-networking/uquic/internal/verifmc/explore"
	"github.com/refraction-networking/uquic/internal/verifmc/sim"
)

var c18Fates = []sim.Fate{sim.Drop, sim.Dup, sim.Delay}

// c18Order puts the most specific verdict first (a panic explains the errors that follow it).
func c18Order(fails []*explore.Fail) []*explore.Fail {
	out := make([]*explore.Fail, 0, len(fails))
	for _, f := range fails {
		if strings.HasPrefix(f.Key, "panic:") {
			out = append(out, f)
		}
	}
	for _, f := range fails {
		if !strings.HasPrefix(f.Key, "panic:") {
			out = append(out, f)
		}
	}
	return out
}

// c18Part: when byMsg is set, mk itself keeps only the messages of this shard (message index
// mod shards) and every listed case is executed here; that way a fault-free datagram count
// that differs between worker processes cannot shift the case numbering.
func c18Part(t *testing.T, name string, byMsg bool, mk func(e explore.Env) (cases []c18Case, rule string)) explore.Part {
	return explore.Part{
		Name: name,
		Run: func(e explore.Env) *explore.Report {
			cases, rule := mk(e)
			re := e
			if byMsg {
				re.Shard, re.Shards = 0, 1
			}
			rep := explore.RunCases(re, len(cases), 1, false, func(i int) explore.CaseResult {
				explore.MarkCurrent(e, name, cases[i])
				o := c18Run(t, cases[i])
				o.fails = c18Order(o.fails)
				if os.Getenv("VERIF_C18_DEBUG") != "" {
					fmt.Fprintf(os.Stderr, "C18DBG %s | %v | %s | dg=%v", name, cases[i], o.class, o.datagrams)
					for _, f := range o.fails {
						fmt.Fprintf(os.Stderr, " | FAIL %s: %.300s", f.Key, f.What)
					}
					fmt.Fprintln(os.Stderr)
				}
				cr := explore.CaseResult{Outcome: o.class, Execs: 1, Trans: int64(o.datagrams[0] + o.datagrams[1]), Replay: cases[i]}
				if len(o.fails) > 0 {
					cr.Fail = o.fails[0]
					cr.Human = []string{cases[i].String()}
					for _, f := range o.fails[1:] {
						cr.Human = append(cr.Human, "also: "+f.Key+": "+f.What)
					}
					cr.Human = append(cr.Human, o.transcript...)
				}
				return cr
			})
			explore.ClearCurrent(e)
			rep.Level = "fault_enumeration"
			rep.Rule = rule
			rep.Bound = rule
			if len(cases) > 0 {
				rep.Samples = []any{cases[0].String(), cases[len(cases)/2].String(), cases[len(cases)-1].String()}
			}
			return rep
		},
		Replay: func(e explore.Env, raw json.RawMessage) *explore.Violation {
			var c c18Case
			if err := json.Unmarshal(raw, &c); err != nil {
				t.Fatal(err)
			}
			o := c18Run(t, c)
			o.fails = c18Order(o.fails)
			if len(o.fails) == 0 {
				return nil
			}
			return &explore.Violation{Key: o.fails[0].Key, What: o.fails[0].What, Human: append([]string{c.String()}, o.transcript...)}
		},
	}
}

// c18Baseline learns how many datagrams the fault-free execution of a case uses.
func c18Baseline(t *testing.T, e explore.Env, part string, c c18Case) [2]int {
	c.Faults = nil
	explore.MarkCurrent(e, part, c)
	n := c18Run(t, c).datagrams
	if os.Getenv("VERIF_C18_DEBUG") != "" {
		fmt.Fprintf(os.Stderr, "C18BASE %v %v\n", c, n)
	}
	return n
}

func TestVerifC18(t *testing.T) {
	sim.InitCerts(t)
	seed := func(e explore.Env) uint64 { return uint64(e.Seed) + 1 }
	parts := []explore.Part{
		c18Part(t, "lattice", false, func(e explore.Env) ([]c18Case, string) {
			k := 2
			if e.Thorough() {
				k = 3
			}
			var cases []c18Case
			for _, m := range c18Deviations(k, nil) {
				cases = append(cases, c18Case{Msg: m, Seed: seed(e)})
			}
			return cases, fmt.Sprintf("every valid message that deviates from the default message in <= %d of %d dimensions %v (sizes %v), no network faults", k, len(c18DimNames), c18DimNames, c18DimSizes)
		}),
		c18Part(t, "trailer-spell", false, func(e explore.Env) ([]c18Case, string) {
			k := 1
			if e.Thorough() {
				k = 2
			}
			others := c18Deviations(k, map[string]bool{"resptrailer": true})
			var cases []c18Case
			for sp := 0; sp < c18TrSpellCount(); sp++ {
				for _, m := range others {
					m.RespTr = c18TrSpellBase + sp
					if m.valid() {
						cases = append(cases, c18Case{Msg: m, Seed: seed(e)})
					}
				}
			}
			return cases, fmt.Sprintf("handler announces the trailers %v in the Trailer field in each of %d layouts %v x %d spellings of the names %v and sets them in each of %d ways %v (Header().Set / Add with that spelling of the name; 'early-value': B and C already hold another value when the header is written), crossed with every message that deviates from the default in <= %d of the other dimensions (%d messages); no network faults", c18TrNames, len(c18TrLayoutNames), c18TrLayoutNames, len(c18TrCaseNames), c18TrCaseNames, len(c18TrSetNames), c18TrSetNames, k, len(others))
		}),
		c18Part(t, "early-reject", false, func(e explore.Env) ([]c18Case, string) {
			// the valid message that follows the rejected uploads on the same connection
			follow := []c18Msg{{}, {ReqBody: 4}}
			if e.Thorough() {
				follow = append(follow, c18Msg{RespBody: 4}, c18Msg{Conc: 1}, c18Msg{ReqBody: 4, Conc: 1}, c18Msg{Kind: 1}, c18Msg{SLog: 1}, c18Msg{CLog: 1}, c18Msg{ReqTr: 1}, c18Msg{Gzip: 1}, c18Msg{ReqBody: 4, Rd: 1})
			}
			cases := c18RejCases(follow, seed(e))
			return cases, fmt.Sprintf("every history of N = 1..3 uploads that the server answers early - kinds %v - while the client is still sending their body (sizes per server configuration %v: %v; Server.MaxHeaderBytes = %d), one after the other or all at once, followed at once or 3 s (virtual) later on the same connection by each of %d valid message(s) %v, under the harness accept loop and under Server.ServeListener; no network faults", c18RejKinds, c18RejCfgs, c18RejBodies, c18RejMaxHeaderBytes, len(follow), follow)
		}),
		c18Part(t, "faults", true, func(e explore.Env) ([]c18Case, string) {
			var cases []c18Case
			skip := map[string]bool{"abort": true}
			k := 1
			if e.Thorough() {
				k = 2
			}
			msgs := c18Deviations(k, skip)
			for mi, m := range msgs {
				if !e.Mine(mi) {
					continue
				}
				base := c18Case{Msg: m, Seed: seed(e)}
				n := c18Baseline(t, e, "faults", base)
				for _, fm := range sim.AllSingleFaults(n, c18Fates) {
					c := base
					c.Faults = fm
					cases = append(cases, c)
				}
			}
			rule := fmt.Sprintf("every fault map with exactly 1 non-default fate %v on any datagram of the fault-free run (both directions, handshake and teardown included) of each of the %d messages that deviate from the default in <= %d dimension(s) (aborts excluded)", c18Fates, len(msgs), k)
			return cases, rule
		}),
		c18Part(t, "faults-k2", false, func(e explore.Env) ([]c18Case, string) {
			// N is capped, and fault-free counts below the cap are reproducible, so every worker
			// builds the same list
			N := 12
			msgs := []c18Msg{{}, {ReqBody: 3}, {RespBody: 3}, {Conc: 1}, {Kind: 1}, {ReqTr: 1}, {RespTr: 1}, {Gzip: 1}}
			if e.Thorough() {
				N = 30
				msgs = c18Deviations(1, map[string]bool{"abort": true})
			}
			var cases []c18Case
			for _, m := range msgs {
				base := c18Case{Msg: m, Seed: seed(e)}
				n := c18Baseline(t, e, "faults-k2", base)
				n[0], n[1] = min(n[0], N), min(n[1], N)
				for _, fm := range sim.AllFaultMaps(n, c18Fates, 2) {
					if len(fm) != 2 {
						continue
					}
					c := base
					c.Faults = fm
					cases = append(cases, c)
				}
			}
			return cases, fmt.Sprintf("every fault map with exactly 2 non-default fates %v among the first %d datagrams of each direction (all datagrams when the exchange has fewer) of %d message(s) (quick: default, 16 kB request body, 16 kB response body, 4 concurrent requests, Chrome_115 client, request trailers, response trailers, gzip; thorough: every <= 1-dimension deviation, aborts excluded)", c18Fates, N, len(msgs))
		}),
		{
			Name: "raw",
			Run: func(e explore.Env) *explore.Report {
				cases, rule := c18RawCases(e)
				rep := explore.RunCases(e, len(cases), 1, false, func(i int) explore.CaseResult {
					explore.MarkCurrent(e, "raw", cases[i])
					o := c18RawRun(t, cases[i])
					o.fails = c18Order(o.fails)
					if os.Getenv("VERIF_C18_DEBUG") != "" {
						fmt.Fprintf(os.Stderr, "C18DBG raw | %v | %s", cases[i], o.class)
						for _, f := range o.fails {
							fmt.Fprintf(os.Stderr, " | FAIL %s: %.300s", f.Key, f.What)
						}
						fmt.Fprintln(os.Stderr)
					}
					cr := explore.CaseResult{Outcome: o.class, Execs: 1, Trans: int64(o.datagrams[0] + o.datagrams[1]), Replay: cases[i]}
					if len(o.fails) > 0 {
						cr.Fail = o.fails[0]
						cr.Human = []string{cases[i].String()}
						for _, f := range o.fails[1:] {
							cr.Human = append(cr.Human, "also: "+f.Key+": "+f.What)
						}
						cr.Human = append(cr.Human, o.transcript...)
					}
					return cr
				})
				explore.ClearCurrent(e)
				rep.Level = "fault_enumeration"
				rep.Rule, rep.Bound = rule, rule
				if len(cases) > 0 {
					rep.Samples = []any{cases[0].String(), cases[len(cases)/2].String(), cases[len(cases)-1].String()}
				}
				return rep
			},
			Replay: func(e explore.Env, raw json.RawMessage) *explore.Violation {
				var c c18RawCase
				if err := json.Unmarshal(raw, &c); err != nil {
					t.Fatal(err)
				}
				o := c18RawRun(t, c)
				o.fails = c18Order(o.fails)
				if len(o.fails) == 0 {
					return nil
				}
				return &explore.Violation{Key: o.fails[0].Key, What: o.fails[0].What, Human: append([]string{c.String()}, o.transcript...)}
			},
		},
		{
			Name: "raw-client",
			Run: func(e explore.Env) *explore.Report {
				cases, rule := c18RawCCases(e)
				rep := explore.RunCases(e, len(cases), 1, false, func(i int) explore.CaseResult {
					explore.MarkCurrent(e, "raw-client", cases[i])
					o := c18RawCRun(t, cases[i])
					o.fails = c18Order(o.fails)
					if os.Getenv("VERIF_C18_DEBUG") != "" {
						fmt.Fprintf(os.Stderr, "C18DBG raw-client | %v | %s", cases[i], o.class)
						for _, f := range o.fails {
							fmt.Fprintf(os.Stderr, " | FAIL %s: %.300s", f.Key, f.What)
						}
						fmt.Fprintln(os.Stderr)
					}
					cr := explore.CaseResult{Outcome: o.class, Execs: 1, Trans: int64(o.datagrams[0] + o.datagrams[1]), Replay: cases[i]}
					if len(o.fails) > 0 {
						cr.Fail = o.fails[0]
						cr.Human = []string{cases[i].String()}
						for _, f := range o.fails[1:] {
							cr.Human = append(cr.Human, "also: "+f.Key+": "+f.What)
						}
						cr.Human = append(cr.Human, o.transcript...)
					}
					return cr
				})
				explore.ClearCurrent(e)
				rep.Level = "fault_enumeration"
				rep.Rule, rep.Bound = rule, rule
				if len(cases) > 0 {
					rep.Samples = []any{cases[0].String(), cases[len(cases)/2].String(), cases[len(cases)-1].String()}
				}
				return rep
			},
			Replay: func(e explore.Env, raw json.RawMessage) *explore.Violation {
				var c c18RawCCase
				if err := json.Unmarshal(raw, &c); err != nil {
					t.Fatal(err)
				}
				o := c18RawCRun(t, c)
				o.fails = c18Order(o.fails)
				if len(o.fails) == 0 {
					return nil
				}
				return &explore.Violation{Key: o.fails[0].Key, What: o.fails[0].What, Human: append([]string{c.String()}, o.transcript...)}
			},
		},
		c18Part(t, "real-server", false, func(e explore.Env) ([]c18Case, string) {
			var cases []c18Case
			skip := map[string]bool{"abort": true}
			k := 1
			if e.Thorough() {
				k = 2
			}
			msgs := c18Deviations(k, skip)
			for _, m := range msgs {
				cases = append(cases, c18Case{Msg: m, Real: true, Seed: seed(e)})
			}
			base := c18Case{Real: true, Seed: seed(e)}
			for _, fm := range sim.AllSingleFaults(c18Baseline(t, e, "real-server", base), c18Fates) {
				c := base
				c.Faults = fm
				cases = append(cases, c)
			}
			return cases, fmt.Sprintf("Server.ServeListener unchanged (no harness recover): the %d messages that deviate from the default in <= %d dimensions (aborts excluded), and every single-fault map on the default message", len(msgs), k)
		}),
	}
	// cheap, always-complete parts first; the fault enumerations use what is left of the deadline
	order := []string{"lattice", "trailer-spell", "raw", "raw-client", "real-server", "early-reject", "faults", "faults-k2"}
	var sorted []explore.Part
	for _, n := range order {
		for _, p := range parts {
			if p.Name == n {
				sorted = append(sorted, p)
			}
		}
	}
	explore.Must(len(sorted) == len(parts), "part order list incomplete")
	explore.Main("C18", sorted, func(msg string) { t.Fatal(msg) })
}
