package http3

// C18 reference model: the message lattice, the byte / header generators and the
// expectations ("what net/http semantics say the handler / client must observe").

import (
	"bytes"
	"compress/gzip"
	"fmt"
	"net/http"
	"sort"
	"strings"

	"github.com/refraction-networking/uquic/internal/verifmc/explore"
	"github.com/refraction-networking/uquic/internal/verifmc/sim"
)

// ---- the lattice ------------------------------------------------------------------------

// c18Msg is one request/response pair description. The zero value is the default message:
// POST / with a 1199-byte body written in one chunk, no Content-Length, no extra header
// fields, no trailers; response 200 with a 1199-byte body written in one Write, no
// Content-Length set by the handler, no trailers; compression disabled; one request;
// Server.Logger and Transport.Logger left nil; plain QUIC client; nothing aborted.
type c18Msg struct {
	Method    int `json:"m,omitempty"`  // 0 POST, 1 GET, 2 HEAD, 3 PUT, 4 CONNECT
	Path      int `json:"p,omitempty"`  // 0 "/", 1 "/a?b=c"
	ReqHdr    int `json:"qh,omitempty"` // 0 none, 1 one field, 2 repeated field x2, 3 cookie x2, 4 8 kB value
	ReqBody   int `json:"qb,omitempty"` // c18Sizes index, rotated so that 0 = 1199
	ReqChunk  int `json:"qc,omitempty"` // 0 one write, 1 two uneven, 2 byte-wise head + rest
	ReqCL     int `json:"ql,omitempty"` // 0 absent, 1 correct, 2 too small, 3 too large
	ReqTr     int `json:"qt,omitempty"` // 0 none, 1 declared (Request.Trailer)
	Status    int `json:"s,omitempty"`  // 0 200, 1 204, 2 304, 3 103 then 200
	RespHdr   int `json:"rh,omitempty"` // 0 none, 1 one field, 2 repeated field x2, 3 set-cookie x2, 4 8 kB value
	RespBody  int `json:"rb,omitempty"` // as ReqBody
	RespChunk int `json:"rc,omitempty"` // 0 one write, 1 two uneven, 2 byte-wise head + rest, 3 two uneven with Flush in between
	RespCL    int `json:"rl,omitempty"` // 0 absent, 1 correct, 2 too small, 3 too large
	RespTr    int `json:"rt,omitempty"` // 0 none, 1 declared ("Trailer" header), 2 undeclared (http.TrailerPrefix), 3 declared together with a forbidden trailer name; >= 4: declared, one spelling of the announcement x one way of setting the values (c18TrSpell; enumerated by the part trailer-spell only, the lattice stops at 3)
	Gzip      int `json:"z,omitempty"`  // 0 Transport.DisableCompression, 1 transparent gzip (handler compresses)
	Conc      int `json:"n,omitempty"`  // 0 one request, 1 four concurrent requests on one connection
	SLog      int `json:"sl,omitempty"` // 0 Server.Logger nil, 1 set
	CLog      int `json:"cl,omitempty"` // 0 Transport.Logger nil, 1 set
	Kind      int `json:"k,omitempty"`  // 0 plain QUIC client, 1 Chrome_115 spec-driven client
	Rd        int `json:"rd,omitempty"` // read buffers: 0 1000/1500 bytes, 1 one byte, 2 64 kB
	Abort     int `json:"ab,omitempty"` // 0 none, 1 client cancels the request context while the request body is being sent, 2 client closes the response body after its first byte, 3 client connection closed while the handler runs
}

var c18DimNames = []string{"method", "path", "reqhdr", "reqbody", "reqchunk", "reqcl", "reqtrailer", "status", "resphdr", "respbody", "respchunk", "respcl", "resptrailer", "gzip", "conc", "slog", "clog", "kind", "readbuf", "abort"}
var c18DimSizes = []int{5, 2, 5, 5, 3, 4, 2, 4, 5, 5, 4, 4, 4, 2, 2, 2, 2, 2, 3, 4}

func (m *c18Msg) dims() []*int {
	return []*int{&m.Method, &m.Path, &m.ReqHdr, &m.ReqBody, &m.ReqChunk, &m.ReqCL, &m.ReqTr, &m.Status, &m.RespHdr, &m.RespBody, &m.RespChunk, &m.RespCL, &m.RespTr, &m.Gzip, &m.Conc, &m.SLog, &m.CLog, &m.Kind, &m.Rd, &m.Abort}
}

func (m c18Msg) String() string {
	var parts []string
	for i, p := range m.dims() {
		if *p != 0 {
			parts = append(parts, fmt.Sprintf("%s=%d", c18DimNames[i], *p))
			if p == &m.RespTr && m.RespTr >= c18TrSpellBase {
				parts[len(parts)-1] += "[" + c18TrSpellOf(m.RespTr).String() + "]"
			}
		}
	}
	if len(parts) == 0 {
		return "default"
	}
	return strings.Join(parts, ",")
}

var c18Methods = []string{"POST", "GET", "HEAD", "PUT", "CONNECT"}
var c18Paths = []string{"/", "/a?b=c"}

// sizes rotated so that index 0 is the default 1199
var c18Sizes = []int{1199, 0, 1, 16384, 70000}
var c18Statuses = []int{200, 204, 304, 200}

func (m c18Msg) method() string { return c18Methods[m.Method] }
func (m c18Msg) reqSize() int   { return c18Sizes[m.ReqBody] }
func (m c18Msg) respSize() int  { return c18Sizes[m.RespBody] }
func (m c18Msg) status() int    { return c18Statuses[m.Status] }
func (m c18Msg) requests() int {
	if m.Conc == 1 {
		return 4
	}
	return 1
}

// valid says whether the combination is meaningful (a Content-Length smaller than an empty
// body does not exist; aborts need something to abort).
func (m c18Msg) valid() bool {
	if m.ReqCL == 2 && m.reqSize() < 2 { // ContentLength 0 with a body means "unknown" in net/http
		return false
	}
	if m.RespCL == 2 && m.respSize() == 0 {
		return false
	}
	if m.ReqTr == 1 && m.reqSize() == 0 && m.ReqCL == 1 { // Request.Body nil: net/http sends no trailers without a body
		return false
	}
	if m.Abort == 1 && m.reqSize() < 2 {
		return false
	}
	if m.Abort == 2 && (m.respSize() < 2 || !m.respBodyExpected()) {
		return false
	}
	return true
}

// clean: nothing in the message entitles either side to an error.
func (m c18Msg) clean() bool { return m.ReqCL < 2 && m.RespCL < 2 && m.Abort == 0 }

// respBodyExpected: net/http semantics: no body on HEAD, 204, 304.
func (m c18Msg) respBodyExpected() bool {
	return m.method() != "HEAD" && m.status() != 204 && m.status() != 304
}

// c18Deviations enumerates every valid message that differs from the default in at most
// k dimensions (k = 1: one-dimension deviations, k = 2: pairs), simplest first.
func c18Deviations(k int, skipDims map[string]bool) []c18Msg {
	out := []c18Msg{{}}
	var rec func(start int, cur c18Msg, left int)
	rec = func(start int, cur c18Msg, left int) {
		if left == 0 {
			return
		}
		for d := start; d < len(c18DimSizes); d++ {
			if skipDims[c18DimNames[d]] {
				continue
			}
			for v := 1; v < c18DimSizes[d]; v++ {
				m := cur
				*m.dims()[d] = v
				if m.valid() {
					out = append(out, m)
				}
				rec(d+1, m, left-1)
			}
		}
	}
	rec(0, c18Msg{}, k)
	// simplest first: by number of deviations (stable)
	sort.SliceStable(out, func(a, b int) bool { return c18NDev(out[a]) < c18NDev(out[b]) })
	return out
}

func c18NDev(m c18Msg) int {
	n := 0
	for _, p := range m.dims() {
		if *p != 0 {
			n++
		}
	}
	return n
}

// ---- data ---------------------------------------------------------------------------------

func c18Pat(seed, i int) byte { return byte((i*7 + seed*53 + 11) % 251) }

func c18Data(seed, n int) []byte {
	b := make([]byte, n)
	for i := range b {
		b[i] = c18Pat(seed, i)
	}
	return b
}

func c18ReqSeed(idx int) int  { return 2*idx + 1 }
func c18RespSeed(idx int) int { return 2*idx + 2 }

// c18Chunks cuts data according to a chunking mode.
func c18Chunks(data []byte, mode int) [][]byte {
	n := len(data)
	switch mode {
	case 1, 3:
		if n >= 2 {
			a := n / 3
			if a == 0 {
				a = 1
			}
			return [][]byte{data[:a], data[a:]}
		}
	case 2:
		var out [][]byte
		i := 0
		for ; i < 5 && i < n-1; i++ {
			out = append(out, data[i:i+1])
		}
		if i < n {
			out = append(out, data[i:])
		}
		return out
	}
	if n == 0 {
		return nil
	}
	return [][]byte{data}
}

func c18Big(tag string) string {
	var sb strings.Builder
	for sb.Len() < 8192 {
		sb.WriteString(tag)
		sb.WriteString("0123456789abcdef")
	}
	return sb.String()[:8192]
}

// c18ReqHeader is the header multiset the client puts into the request.
func c18ReqHeader(m c18Msg, idx int) http.Header {
	h := http.Header{}
	tag := fmt.Sprintf("q%d", idx)
	switch m.ReqHdr {
	case 1:
		h.Add("X-One", "v1-"+tag)
	case 2:
		h.Add("X-Rep", "a-"+tag)
		h.Add("X-Rep", "b-"+tag)
	case 3:
		h.Add("Cookie", "a=1"+tag)
		h.Add("Cookie", "b=2"+tag)
	case 4:
		h.Add("X-Big", c18Big(tag))
	}
	return h
}

// c18RespHeader is the header multiset the handler sets (besides trailers / Content-Length).
func c18RespHeader(m c18Msg, idx int) http.Header {
	h := http.Header{}
	tag := fmt.Sprintf("r%d", idx)
	switch m.RespHdr {
	case 1:
		h.Add("X-One", "v1-"+tag)
	case 2:
		h.Add("X-Rep", "a-"+tag)
		h.Add("X-Rep", "b-"+tag)
	case 3:
		h.Add("Set-Cookie", "a=1"+tag)
		h.Add("Set-Cookie", "b=2"+tag)
	case 4:
		h.Add("X-Big", c18Big(tag))
	}
	if m.Status == 3 {
		h.Add("Link", "</style.css>; rel=preload; as=style")
	}
	return h
}

func c18ReqTrailer(m c18Msg, idx int) http.Header {
	if m.ReqTr == 0 {
		return nil
	}
	return http.Header{"X-Qtr-A": {fmt.Sprintf("qa%d", idx)}, "X-Qtr-B": {fmt.Sprintf("qb%d", idx), "qb-second"}}
}

// ---- spellings of the handler's trailer announcement -----------------------------------------

// c18TrSpell is one way a handler can announce the three trailers X-Rtr-A, X-Rtr-B, X-Rtr-C in
// the "Trailer" field of its header map and then set their values. Every one of them is a
// declared trailer in net/http's sense (the Trailer field value is a comma-separated list with
// optional whitespace around the commas, field names are case-insensitive, Header.Set / Add
// canonicalise the key they are given): the client must find all three in Response.Trailer
// with the values the handler set last, and none of them in Response.Header.
type c18TrSpell struct {
	Layout int // 0 one name per Trailer value, 1 one value "a, b, c", 2 one value "a,b,c", 3 one value "a , b ,  c"
	Case   int // spelling of the names inside the Trailer value(s): 0 canonical, 1 lower case, 2 mixed case
	Set    int // 0 Header().Set/Add with the canonical name after the body; 1 with the lower-case name, and B and C already hold another value when the header is written; 2 with the mixed-case name after the body
}

const c18TrSpellBase = 4

var c18TrNames = []string{"X-Rtr-A", "X-Rtr-B", "X-Rtr-C"}
var c18TrLayoutNames = []string{"one-per-value", "comma-space", "comma", "space-comma-spaces"}
var c18TrCaseNames = []string{"canonical", "lower", "mixed"}
var c18TrSetNames = []string{"set-canonical", "set-lower+early-value", "set-mixed"}

func c18TrSpellCount() int { return len(c18TrLayoutNames) * len(c18TrCaseNames) * len(c18TrSetNames) }

func c18TrSpellOf(respTr int) c18TrSpell {
	i := respTr - c18TrSpellBase
	explore.Must(i >= 0 && i < c18TrSpellCount(), "c18: no trailer spelling %d", respTr)
	return c18TrSpell{Layout: i / 9, Case: i / 3 % 3, Set: i % 3}
}

func c18TrCase(name string, cs int) string {
	switch cs {
	case 1:
		return strings.ToLower(name)
	case 2:
		b := []byte(strings.ToLower(name))
		for i := 1; i < len(b); i += 2 {
			if b[i] >= 'a' && b[i] <= 'z' {
				b[i] -= 'a' - 'A'
			}
		}
		return string(b)
	}
	return name
}

// announce returns the values of the Trailer field.
func (sp c18TrSpell) announce() []string {
	var names []string
	for _, n := range c18TrNames {
		names = append(names, c18TrCase(n, sp.Case))
	}
	switch sp.Layout {
	case 1:
		return []string{strings.Join(names, ", ")}
	case 2:
		return []string{strings.Join(names, ",")}
	case 3:
		return []string{names[0] + " , " + names[1] + " ,  " + names[2]}
	}
	return names
}

// setKey is the name the handler passes to Header().Set / Add.
func (sp c18TrSpell) setKey(name string) string { return c18TrCase(name, sp.Set) }

func (sp c18TrSpell) String() string {
	return fmt.Sprintf("Trailer: %q %s", sp.announce(), c18TrSetNames[sp.Set])
}

// keyClass names the input class in a violation key.
func (sp c18TrSpell) keyClass() string {
	return fmt.Sprintf("announced=%s/%s:%s", c18TrLayoutNames[sp.Layout], c18TrCaseNames[sp.Case], c18TrSetNames[sp.Set])
}

// c18RespTrKey extends a violation key by the spelling class (nothing for the lattice values).
func c18RespTrKey(m c18Msg) string {
	if m.RespTr >= c18TrSpellBase {
		return ":" + c18TrSpellOf(m.RespTr).keyClass()
	}
	return ""
}

// c18RespTrailer is what the client must find in Response.Trailer after the body.
func c18RespTrailer(m c18Msg, idx int) http.Header {
	if m.RespTr >= c18TrSpellBase {
		return http.Header{"X-Rtr-A": {fmt.Sprintf("ra%d", idx)}, "X-Rtr-B": {fmt.Sprintf("rb%d", idx), "rb-second"}, "X-Rtr-C": {fmt.Sprintf("rc%d", idx)}}
	}
	switch m.RespTr {
	case 1:
		return http.Header{"X-Rtr-A": {fmt.Sprintf("ra%d", idx)}, "X-Rtr-B": {fmt.Sprintf("rb%d", idx), "rb-second"}}
	case 2:
		return http.Header{"X-Rtr-U": {fmt.Sprintf("ru%d", idx)}}
	case 3:
		return http.Header{"X-Rtr-A": {fmt.Sprintf("ra%d", idx)}}
	}
	return nil
}

// c18RespWire is the byte string the handler writes (gzip: the compressed form).
func c18RespWire(m c18Msg, idx int, gz bool) []byte {
	plain := c18Data(c18RespSeed(idx), m.respSize())
	if !gz {
		return plain
	}
	var buf bytes.Buffer
	zw := gzip.NewWriter(&buf)
	zw.Write(plain)
	zw.Close()
	return buf.Bytes()
}

func c18DeclaredCL(mode, size int) int64 {
	switch mode {
	case 1:
		return int64(size)
	case 2:
		return int64(size - 1)
	case 3:
		return int64(size + 1)
	}
	return -1
}

// ---- header comparison ----------------------------------------------------------------------

func c18HeaderDiff(who string, want, got http.Header, ignore map[string]bool, joinCookie bool) string {
	keys := map[string]bool{}
	for k := range want {
		keys[k] = true
	}
	for k := range got {
		keys[k] = true
	}
	var ks []string
	for k := range keys {
		ks = append(ks, k)
	}
	sort.Strings(ks)
	for _, k := range ks {
		if ignore[k] {
			continue
		}
		w, g := want[k], got[k]
		if joinCookie && k == "Cookie" && len(w) > 0 {
			w = []string{strings.Join(w, "; ")}
		}
		if len(w) != len(g) {
			return fmt.Sprintf("%s: field %q: sent %d value(s) %.60q, observed %d value(s) %.60q", who, k, len(w), w, len(g), g)
		}
		for i := range w {
			if w[i] != g[i] {
				return fmt.Sprintf("%s: field %q value #%d: sent %.40q (len %d), observed %.40q (len %d)", who, k, i, w[i], len(w[i]), g[i], len(g[i]))
			}
		}
	}
	return ""
}

// c18TrailerDiff: every expected trailer must be present with its values; keys with values
// that were never set are a violation; announced keys without values are accepted.
func c18TrailerDiff(who string, want, got http.Header) string {
	for k, w := range want {
		g := got[k]
		if len(g) != len(w) {
			return fmt.Sprintf("%s: trailer %q: sent %q, observed %q", who, k, w, g)
		}
		for i := range w {
			if w[i] != g[i] {
				return fmt.Sprintf("%s: trailer %q: sent %q, observed %q", who, k, w, g)
			}
		}
	}
	var ks []string
	for k := range got {
		ks = append(ks, k)
	}
	sort.Strings(ks)
	for _, k := range ks {
		if _, ok := want[k]; !ok && len(got[k]) > 0 {
			return fmt.Sprintf("%s: trailer %q = %q observed but never sent", who, k, got[k])
		}
	}
	return ""
}

// ---- cases ----------------------------------------------------------------------------------

// c18Rej describes a history of early-rejected uploads that precedes the (valid) message of a
// case on the SAME connection: N requests that the server answers before (and without) reading
// their body, while the client is still uploading it. Afterwards the message of the case is
// exchanged; it is judged like every clean exchange.
type c18Rej struct {
	// 0: the decoded field section exceeds Server.MaxHeaderBytes (100 one-byte fields, each
	//    accounted with 32 bytes of overhead) although the HEADERS frame on the wire is below it
	// 1: the HEADERS frame itself is longer than Server.MaxHeaderBytes (one 8 kB field value)
	// 2: the handler answers 400 and returns without touching Request.Body
	// 3: the handler reads the first body byte, answers 413 and returns
	Kind int `json:"k,omitempty"`
	N    int `json:"n"`             // number of rejected uploads (1..3)
	Body int `json:"b"`             // bytes of request body each of them carries
	Cfg  int `json:"cfg,omitempty"` // server quic.Config, see c18RejConfig
	Par  int `json:"par,omitempty"` // 0 one after the other, 1 the N rejected uploads concurrently
	// 0: the valid message follows as soon as the last early answer has arrived (the rejected
	//    bodies are still in slow start); 1: 3 s of virtual time later (the client has pushed as
	//    much of the rejected bodies as flow control lets it)
	Wait int `json:"w,omitempty"`
}

const c18RejMaxHeaderBytes = 2048

var c18RejKinds = []string{"431-decoded-size", "431-frame-length", "handler-400-unread", "handler-413-first-byte"}
var c18RejCfgs = []string{"default-windows(512k/768k)", "windows(16k/24k)", "max-incoming-streams=N"}

// bodies of the rejected uploads per server configuration: around and above the stream and the
// connection receive window (cfg 0, 1); anything, the empty body included, for the stream slots (cfg 2)
var c18RejBodies = [][]int{
	{393216, 524288, 786432, 900000},
	{1199, 12288, 16384, 24576, 70000},
	{0, 1199, 70000},
}

func (r c18Rej) String() string {
	return fmt.Sprintf("early-reject[%s x%d body=%d %s par=%d wait=%d]", c18RejKinds[r.Kind], r.N, r.Body, c18RejCfgs[r.Cfg], r.Par, r.Wait)
}

// c18RejCases enumerates the early-rejection histories x the valid messages that follow them.
func c18RejCases(followUps []c18Msg, seed uint64) []c18Case {
	var out []c18Case
	for _, real := range []bool{false, true} {
		for cfg := range c18RejCfgs {
			for n := 1; n <= 3; n++ {
				for kind := range c18RejKinds {
					for _, b := range c18RejBodies[cfg] {
						for par := 0; par < 2; par++ {
							if par == 1 && n == 1 {
								continue
							}
							for wait := 0; wait < 2; wait++ {
								for _, f := range followUps {
									out = append(out, c18Case{Msg: f, Real: real, Seed: seed, Rej: &c18Rej{Kind: kind, N: n, Body: b, Cfg: cfg, Par: par, Wait: wait}})
								}
							}
						}
					}
				}
			}
		}
	}
	return out
}

// c18Case is one execution of the E2 parts.
type c18Case struct {
	Msg    c18Msg       `json:"msg"`
	Real   bool         `json:"real,omitempty"` // Server.ServeListener instead of the harness accept loop
	Seed   uint64       `json:"seed"`
	Faults sim.FaultMap `json:"faults,omitempty"`
	Rej    *c18Rej      `json:"rej,omitempty"` // early-rejected uploads on the same connection before Msg
}

func (c c18Case) String() string {
	s := c.Msg.String()
	if c.Rej != nil {
		s = c.Rej.String() + " then " + s
	}
	if c.Real {
		s += " [Server.ServeListener]"
	}
	if len(c.Faults) > 0 {
		s += " faults=" + c.Faults.String()
	}
	return s
}
