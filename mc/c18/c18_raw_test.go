package http3

// C18 raw part: a scripted raw QUIC peer (ALPN h3) writes request-stream and
// unidirectional-stream byte strings itself: every byte split of a 3-frame request, a
// stream reset / STOP_SENDING / connection close at every frame boundary, unknown and
// forbidden frame and stream types.
// Content-Length: besides exact / +5 / -5, every value list of c18CLValues is written verbatim
// in front of one DATA frame (both raw parts); the Content-Length clause is judged against the
// value the peer SENT (c18CLJudge).

import (
	"bytes"
	"context"
	"errors"
	"fmt"
	"io"
	"math/big"
	"net/http"
	"strconv"
	"strings"
	"sync"
	"testing"
	"time"

	"github.com/quic-go/qpack"
	quic "github.com/refraction-networking/uquic"
	"github.com/refraction-networking/uquic/internal/verifmc/explore"
	"github.com/refraction-networking/uquic/internal/verifmc/sim"
	"github.com/refraction-networking/uquic/quicvarint"
)

type c18Frame struct {
	T uint64
	P []byte
}

func (f c18Frame) bytes() []byte {
	b := quicvarint.Append(nil, f.T)
	b = quicvarint.Append(b, uint64(len(f.P)))
	return append(b, f.P...)
}

func c18QpackBlock(fields [][2]string) []byte {
	var buf bytes.Buffer
	enc := qpack.NewEncoder(&buf)
	for _, f := range fields {
		enc.WriteField(qpack.HeaderField{Name: f[0], Value: f[1]})
	}
	return buf.Bytes()
}

const c18RawChunk = 20 // bytes per DATA frame of the raw peer

// c18ReqHeadersFrame: cl < 0: no content-length field.
func c18ReqHeadersFrame(idx int, cl int) c18Frame {
	fields := [][2]string{{":method", "POST"}, {":scheme", "https"}, {":authority", "server.verif"}, {":path", "/"}, {"x-idx", strconv.Itoa(idx)}, {"x-one", fmt.Sprintf("v1-q%d", idx)}}
	if cl >= 0 {
		fields = append(fields, [2]string{"content-length", strconv.Itoa(cl)})
	}
	return c18Frame{T: 0x1, P: c18QpackBlock(fields)}
}

// c18ReqHeadersFrameV: the content-length field(s) are written with exactly the given values, in
// order (one field line per value); nil: no content-length field.
func c18ReqHeadersFrameV(idx int, cl []string) c18Frame {
	fields := [][2]string{{":method", "POST"}, {":scheme", "https"}, {":authority", "server.verif"}, {":path", "/"}, {"x-idx", strconv.Itoa(idx)}, {"x-one", fmt.Sprintf("v1-q%d", idx)}}
	for _, v := range cl {
		fields = append(fields, [2]string{"content-length", v})
	}
	return c18Frame{T: 0x1, P: c18QpackBlock(fields)}
}

// c18CLValues is the alphabet of Content-Length field values a scripted peer declares (both
// directions) in front of ONE 20-byte DATA frame: around the boundaries of the representation
// (http.Request.ContentLength / http.Response.ContentLength are int64, the parser is
// strconv.ParseUint(.., 10, 63)), values that are congruent to the real body length modulo 2^32 /
// 2^64, zero, leading zeros, signs, the empty value, a list value, repeated fields.
var c18CLValues = []struct {
	Name string
	Vals []string
}{
	{"020", []string{"020"}},
	{"0", []string{"0"}},
	{"2^32+20", []string{"4294967316"}},
	{"2^63-1", []string{"9223372036854775807"}},
	{"2^63", []string{"9223372036854775808"}},
	{"2^63+20", []string{"9223372036854775828"}},
	{"2^64-1", []string{"18446744073709551615"}},
	{"2^64", []string{"18446744073709551616"}},
	{"2^64+20", []string{"18446744073709551636"}},
	{"+20", []string{"+20"}},
	{"-1", []string{"-1"}},
	{"empty", []string{""}},
	{"20,20", []string{"20, 20"}},
	{"20|20", []string{"20", "20"}},
	{"20|25", []string{"20", "25"}},
}

func c18CLNames() []string {
	var out []string
	for _, v := range c18CLValues {
		out = append(out, v.Name)
	}
	return out
}

// c18CLScripts: one script "Hcl=<name>,D,U" per value of c18CLValues.
func c18CLScripts() []c18Script {
	var out []c18Script
	for _, v := range c18CLValues {
		out = append(out, c18Script{Name: "Hcl=" + v.Name + ",D,U", Frames: "vDU", CL: v.Vals})
	}
	return out
}

// c18CLNumber is the number a list of content-length field values declares: ok only when every
// value is the same non-empty string of ASCII digits (RFC 9110, 8.6: Content-Length = 1*DIGIT).
// Everything else is outside what the property statement talks about ("its declared
// Content-Length") and is recorded, not judged.
func c18CLNumber(vals []string) (*big.Int, bool) {
	if len(vals) == 0 {
		return nil, false
	}
	for _, v := range vals {
		if v != vals[0] || v == "" {
			return nil, false
		}
		for i := 0; i < len(v); i++ {
			if v[i] < '0' || v[i] > '9' {
				return nil, false
			}
		}
	}
	n, ok := new(big.Int).SetString(vals[0], 10)
	return n, ok
}

// c18CLJudge is the Content-Length clause of the statement, judged against what the peer SENT
// (sent: the content-length field values of its HEADERS frame): a body that disagrees with its
// declared Content-Length is reported as an error rather than silently truncated or extended, and
// the receiver sees the field the peer sent. dir: "request" / "response"; got: body bytes read;
// done: the body was read to its end (io.EOF or error); rdErr: nil = plain io.EOF; seenHdr /
// seenCL: the Content-Length header values and the ContentLength field the receiver was handed.
func c18CLJudge(x *c18Exec, dir, script, tag string, sent []string, got int, done bool, rdErr error, seenHdr []string, seenCL int64) {
	n, ok := c18CLNumber(sent)
	if !ok {
		return
	}
	if done {
		if big.NewInt(int64(got)).Cmp(n) > 0 {
			x.fail("long-body-silent:"+dir+":sent:"+script, "%s: %d body bytes were read although the peer declared Content-Length %s", tag, got, sent[0])
		} else if rdErr == nil && big.NewInt(int64(got)).Cmp(n) < 0 {
			x.fail("short-body-silent-eof:"+dir+":sent:"+script, "%s: the body ended in plain io.EOF after %d bytes although the peer declared Content-Length %s (silent truncation; the receiver was handed ContentLength %d, header %q)", tag, got, sent[0], seenCL, seenHdr)
		}
	}
	if len(sent) == 1 {
		if len(seenHdr) != 1 || seenHdr[0] != sent[0] {
			x.fail("content-length-altered:"+dir+":"+script, "%s: the peer sent content-length %q, the receiver was handed the header values %q", tag, sent[0], seenHdr)
		} else if !n.IsInt64() || n.Int64() != seenCL {
			x.fail("content-length-altered:"+dir+":"+script, "%s: the peer sent content-length %s, the receiver was handed ContentLength %d", tag, sent[0], seenCL)
		}
	}
}

const (
	c18UnknownType = 0x5f // 0x1f*2 + 0x21: reserved-for-greasing frame / stream type, 2-byte varint
)

type c18Script struct {
	Name string
	// request-stream scripts: frame letters: H headers, h headers with correct content-length,
	// + headers with content-length 5 too large, - 5 too small, v headers with the content-length
	// field values CL, D data (20 bytes), U unknown type, T trailers (undeclared), S settings,
	// 2 6 8 9 reserved HTTP/2 types.
	Frames string
	// CL: the content-length field values of the 'v' HEADERS frame, written verbatim
	CL []string
	// unidirectional scripts: streams to open in order (byte strings); the last one is the
	// one that is split
	Uni [][]byte
	// FinLast: close (FIN) the last unidirectional stream after writing
	FinLast bool
	// expectation: 0 = carried / ignored (connection stays usable), otherwise the RFC 9114
	// connection error code the server must close with
	ConnErr uint64
	NoCtrl  bool // the scripted peer does not open its own (well-formed) control stream first
	// Observe: what the server does is recorded as an outcome class but not judged (RFC 9114
	// and the code disagree or the RFC leaves the scope open); only "no panic" is demanded.
	Observe bool
}

func c18SettingsBytes() []byte {
	return (&settingsFrame{MaxFieldSectionSize: -1, Other: map[uint64]uint64{0x4d2: 7}}).Append(nil)
}

var c18Scripts = []c18Script{
	{Name: "H,D,U", Frames: "HDU"},
	{Name: "H,U,D", Frames: "HUD"},
	{Name: "U,H,D", Frames: "UHD"},
	{Name: "H,D,T", Frames: "HDT"},
	{Name: "H,D,D", Frames: "HDD"},
	{Name: "Hcl,D,U", Frames: "hDU"},
	{Name: "Hcl+5,D,U", Frames: "+DU"},
	{Name: "Hcl-5,D,U", Frames: "-DU"},
	{Name: "H,D,R2", Frames: "HD2", ConnErr: uint64(ErrCodeFrameUnexpected)},
	{Name: "H,D,R6", Frames: "HD6", ConnErr: uint64(ErrCodeFrameUnexpected)},
	{Name: "H,D,R8", Frames: "HD8", ConnErr: uint64(ErrCodeFrameUnexpected)},
	{Name: "H,D,R9", Frames: "HD9", ConnErr: uint64(ErrCodeFrameUnexpected)},
	{Name: "R2,H,D", Frames: "2HD", ConnErr: uint64(ErrCodeFrameUnexpected)},
	{Name: "D,H,D", Frames: "DHD", ConnErr: uint64(ErrCodeFrameUnexpected)},
	{Name: "H,S,D", Frames: "HSD", ConnErr: uint64(ErrCodeFrameUnexpected)},
	// recorded, not judged: push-related frames on a request stream, DATA after trailers, GOAWAY
	{Name: "H,D,CANCEL_PUSH", Frames: "HDc", Observe: true},
	{Name: "H,D,PUSH_PROMISE", Frames: "HDp", Observe: true},
	{Name: "H,D,MAX_PUSH_ID", Frames: "HDm", Observe: true},
	{Name: "H,D,GOAWAY", Frames: "HDg", Observe: true},
	{Name: "H,T,D", Frames: "HTD", Observe: true},
	// unidirectional streams
	{Name: "uni-unknown", Uni: [][]byte{append(quicvarint.Append(nil, c18UnknownType), []byte("0123456789")...)}},
	{Name: "uni-unknown-fin", Uni: [][]byte{append(quicvarint.Append(nil, 0x21), []byte("01")...)}, FinLast: true},
	{Name: "uni-control-settings-unknown-frame", NoCtrl: true, Uni: [][]byte{append(append([]byte{0x0}, c18SettingsBytes()...), c18Frame{T: c18UnknownType, P: []byte("xyz")}.bytes()...)}},
	{Name: "uni-control-dup", Uni: [][]byte{append([]byte{0x0}, c18SettingsBytes()...)}, ConnErr: uint64(ErrCodeStreamCreationError)},
	{Name: "uni-push", Uni: [][]byte{{0x1, 0x0}}, ConnErr: uint64(ErrCodeStreamCreationError)},
	{Name: "uni-qpack-encoder-dup", Uni: [][]byte{{0x2}, {0x2}}, ConnErr: uint64(ErrCodeStreamCreationError)},
	{Name: "uni-qpack-decoder-dup", Uni: [][]byte{{0x3}, {0x3}}, ConnErr: uint64(ErrCodeStreamCreationError)},
	{Name: "uni-control-data-first", NoCtrl: true, Uni: [][]byte{append([]byte{0x0}, c18Frame{T: 0x0, P: []byte("abc")}.bytes()...)}, ConnErr: uint64(ErrCodeMissingSettings)},
	{Name: "uni-control-fin", NoCtrl: true, Uni: [][]byte{{0x0}}, FinLast: true, ConnErr: uint64(ErrCodeClosedCriticalStream)},
	{Name: "uni-control-reserved-first", NoCtrl: true, Uni: [][]byte{append([]byte{0x0}, c18Frame{T: 0x2}.bytes()...)}, ConnErr: uint64(ErrCodeFrameUnexpected)},
}

// c18AllScripts: the fixed scripts, then the Content-Length value scripts.
func c18AllScripts() []c18Script {
	return append(append([]c18Script{}, c18Scripts...), c18CLScripts()...)
}

func c18ScriptByName(name string) (c18Script, bool) {
	for _, s := range c18AllScripts() {
		if s.Name == name {
			return s, true
		}
	}
	return c18Script{}, false
}

// c18RawModel is what the script means for a request on stream idx.
type c18RawModel struct {
	frames  []c18Frame
	body    []byte      // what the handler must read
	trailer http.Header // what the handler must find in Request.Trailer
	cl      int         // declared content-length or -1 (letters h + -)
	clSent  []string    // the content-length field values of the HEADERS frame as written (nil: none)
}

// agrees: the message declares no Content-Length, or one that equals the body it carries.
func (m c18RawModel) agrees() bool { return c18CLAgrees(m.clSent, len(m.body)) }

func c18CLAgrees(sent []string, body int) bool {
	if sent == nil {
		return true
	}
	n, ok := c18CLNumber(sent)
	return ok && len(sent) == 1 && n.IsInt64() && n.Int64() == int64(body)
}

func c18BuildFrames(letters string, idx int, cl ...string) c18RawModel {
	var m c18RawModel
	m.cl = -1
	nData := strings.Count(letters, "D")
	all := c18Data(c18ReqSeed(idx), nData*c18RawChunk)
	di := 0
	for _, l := range letters {
		switch l {
		case 'H':
			m.frames = append(m.frames, c18ReqHeadersFrame(idx, -1))
		case 'h':
			m.cl = nData * c18RawChunk
			m.clSent = []string{strconv.Itoa(m.cl)}
			m.frames = append(m.frames, c18ReqHeadersFrame(idx, m.cl))
		case '+':
			m.cl = nData*c18RawChunk + 5
			m.clSent = []string{strconv.Itoa(m.cl)}
			m.frames = append(m.frames, c18ReqHeadersFrame(idx, m.cl))
		case '-':
			m.cl = nData*c18RawChunk - 5
			m.clSent = []string{strconv.Itoa(m.cl)}
			m.frames = append(m.frames, c18ReqHeadersFrame(idx, m.cl))
		case 'v':
			m.clSent = append([]string{}, cl...)
			m.frames = append(m.frames, c18ReqHeadersFrameV(idx, cl))
		case 'D':
			m.frames = append(m.frames, c18Frame{T: 0x0, P: all[di*c18RawChunk : (di+1)*c18RawChunk]})
			di++
		case 'U':
			m.frames = append(m.frames, c18Frame{T: c18UnknownType, P: []byte("grease")})
		case 'T':
			m.trailer = http.Header{"X-Qtr-U": {fmt.Sprintf("qu%d", idx)}}
			m.frames = append(m.frames, c18Frame{T: 0x1, P: c18QpackBlock([][2]string{{"x-qtr-u", fmt.Sprintf("qu%d", idx)}})})
		case 'S':
			m.frames = append(m.frames, c18Frame{T: 0x4})
		case '2', '6', '8', '9':
			m.frames = append(m.frames, c18Frame{T: uint64(l - '0'), P: []byte{0, 0, 0, 0, 0}})
		case 'c':
			m.frames = append(m.frames, c18Frame{T: 0x3, P: []byte{0x0}})
		case 'p':
			m.frames = append(m.frames, c18Frame{T: 0x5, P: []byte{0x0}})
		case 'm':
			m.frames = append(m.frames, c18Frame{T: 0xd, P: []byte{0x1}})
		case 'g':
			m.frames = append(m.frames, c18Frame{T: 0x7, P: []byte{0x0}})
		}
	}
	m.body = all
	return m
}

// c18RawCase is one execution of the raw part.
type c18RawCase struct {
	Script string `json:"script"`
	Split  int    `json:"split"`         // byte offset of the split into two writes; -1: one write
	Cut    int    `json:"cut"`           // frame boundary at which Act happens; -1: none
	Act    int    `json:"act,omitempty"` // 1 CancelWrite, 2 CancelRead, 3 both, 4 connection close
	SLog   int    `json:"sl,omitempty"`
	Tr     int    `json:"tr,omitempty"`  // handler declares trailers (c18Msg.RespTr)
	Big    int    `json:"big,omitempty"` // response body 16384 bytes instead of 1199
	Seed   uint64 `json:"seed"`
}

var c18ActNames = []string{"", "CancelWrite", "CancelRead", "CancelWrite+CancelRead", "CloseWithError"}

func (c c18RawCase) String() string {
	s := "raw " + c.Script
	if c.Split >= 0 {
		s += fmt.Sprintf(" split@%d", c.Split)
	}
	if c.Cut >= 0 {
		s += fmt.Sprintf(" %s@frame-boundary-%d", c18ActNames[c.Act], c.Cut)
	}
	return s + fmt.Sprintf(" slog=%d resptrailer=%d big=%d", c.SLog, c.Tr, c.Big)
}

type c18RawResp struct {
	err     error
	status  string
	header  http.Header
	body    []byte
	trailer http.Header
	frames  int
}

// c18ParseResponse parses the bytes a server wrote on a request stream.
func c18ParseResponse(b []byte) (r c18RawResp) {
	rd := bytes.NewReader(b)
	dec := qpack.NewDecoder()
	sawFinal := false
	for rd.Len() > 0 {
		t, err := quicvarint.Read(rd)
		if err != nil {
			r.err = fmt.Errorf("truncated frame type: %w", err)
			return
		}
		l, err := quicvarint.Read(rd)
		if err != nil {
			r.err = fmt.Errorf("truncated frame length: %w", err)
			return
		}
		if uint64(rd.Len()) < l {
			r.err = fmt.Errorf("frame type %#x announces %d bytes, %d left", t, l, rd.Len())
			return
		}
		p := make([]byte, l)
		io.ReadFull(rd, p)
		r.frames++
		switch t {
		case 0x0:
			if !sawFinal {
				r.err = errors.New("DATA before final HEADERS")
				return
			}
			r.body = append(r.body, p...)
		case 0x1:
			h := http.Header{}
			status := ""
			next := dec.Decode(p)
			for {
				hf, err := next()
				if err == io.EOF {
					break
				}
				if err != nil {
					r.err = fmt.Errorf("qpack: %w", err)
					return
				}
				if hf.Name == ":status" {
					status = hf.Value
				} else {
					h.Add(hf.Name, hf.Value)
				}
			}
			if !sawFinal {
				if strings.HasPrefix(status, "1") {
					continue
				}
				sawFinal = true
				r.status, r.header = status, h
			} else {
				r.trailer = h
			}
		}
	}
	if !sawFinal {
		r.err = errors.New("no final HEADERS frame")
	}
	return
}

type c18RawOutcome struct {
	fails      []*explore.Fail
	class      string
	datagrams  [2]int
	transcript []string
}

func c18RawRun(t *testing.T, c c18RawCase) c18RawOutcome {
	var out c18RawOutcome
	sc, ok := c18ScriptByName(c.Script)
	if !ok {
		out.fails = append(out.fails, explore.Failf("harness-unknown-script", "%q", c.Script))
		return out
	}
	msg := c18Msg{SLog: c.SLog, RespTr: c.Tr}
	if c.Big == 1 {
		msg.RespBody = 3
	}
	x := &c18Exec{c: c18Case{Msg: msg}, msgs: []c18Msg{msg, msg}, srv: make([]c18SrvObs, 2), cli: make([]c18CliObs, 2), startOk: make([]bool, 2)}
	var notes []string
	note := func(f string, a ...any) { notes = append(notes, fmt.Sprintf(f, a...)) }
	okRun := sim.Run(t, "raw", c.Seed, func(t *testing.T) {
		for i := 0; i < 2; i++ {
			x.started = append(x.started, make(chan struct{}))
			x.aborted = append(x.aborted, make(chan struct{}))
		}
		w := sim.NewWorld(nil)
		ln, err := w.Listen(w.ServerTLS(false), &quic.Config{})
		if err != nil {
			t.Fatal(err)
		}
		ctx, cancelAll := context.WithTimeout(context.Background(), c18Timeout)
		srv := &Server{Handler: x, Logger: c18Logger(c.SLog)}
		var swg sync.WaitGroup
		var connMu sync.Mutex
		var sconns []*quic.Conn
		serveDone := make(chan struct{})
		go func() {
			defer close(serveDone)
			for {
				conn, err := ln.Accept(ctx)
				if err != nil {
					return
				}
				connMu.Lock()
				sconns = append(sconns, conn)
				connMu.Unlock()
				swg.Add(1)
				go func() {
					defer swg.Done()
					c18ServeConn(x, srv, conn, &swg)
				}()
			}
		}()
		d, _, _ := w.NewDialer(sim.Plain)
		conn, err := d.Dial(ctx, w.ServerAddr, w.ClientTLS(), &quic.Config{})
		if err != nil {
			x.fail("raw-dial-failed", "%v", err)
		} else {
			c18RawPeer(ctx, x, conn, sc, c, note)
			conn.CloseWithError(quic.ApplicationErrorCode(ErrCodeNoError), "")
		}
		// let the server side finish
		deadline := time.Now().Add(c18Timeout)
		for time.Now().Before(deadline) {
			x.mu.Lock()
			busy := false
			for i := range x.srv {
				if x.srv[i].calls > 0 && !x.srv[i].done {
					busy = true
				}
			}
			x.mu.Unlock()
			if !busy {
				break
			}
			time.Sleep(20 * time.Millisecond)
		}
		time.Sleep(20 * time.Millisecond)
		d.Close()
		cancelAll()
		connMu.Lock()
		for _, sc := range sconns {
			sc.CloseWithError(0, "")
		}
		connMu.Unlock()
		ln.Close()
		w.ServerTr.Close()
		<-serveDone
		swg.Wait()
		out.datagrams = [2]int{w.Router.Count(sim.C2S), w.Router.Count(sim.S2C)}
		out.transcript = w.Router.Transcript()
	})
	out.fails = x.fails
	if !okRun && len(out.fails) == 0 {
		out.fails = append(out.fails, explore.Failf("bubble-failed", "the bubble did not terminate cleanly for %v", c))
	}
	so := x.srv[0]
	out.class = fmt.Sprintf("%s act=%d srv[calls=%d body=%d/%s tr=%d w=%s/%s] %s", sc.Name, c.Act, so.calls, len(so.body), c18ErrClass(so.bodyErr), len(so.trailer), c18Bucket(len(so.written)), c18ErrClass(so.writeErr), strings.Join(notes, " "))
	if len(out.fails) > 0 {
		out.class += " FAIL"
	}
	return out
}

// c18ConnErr waits for the connection to be closed by the peer and returns the code.
func c18ConnErr(conn *quic.Conn, wait time.Duration) (closed bool, remote bool, code uint64, text string) {
	select {
	case <-conn.Context().Done():
	case <-time.After(wait):
		return false, false, 0, ""
	}
	cause := context.Cause(conn.Context())
	var ae *quic.ApplicationError
	if errors.As(cause, &ae) {
		return true, ae.Remote, uint64(ae.ErrorCode), cause.Error()
	}
	return true, false, 0, fmt.Sprint(cause)
}

// c18RawExchange writes a well-formed H,D,U request on a fresh stream and checks the answer.
func c18RawExchange(ctx context.Context, x *c18Exec, conn *quic.Conn, idx int, keyPfx, tag string) {
	str, err := conn.OpenStreamSync(ctx)
	if err != nil {
		x.fail(keyPfx+"open-stream", "%s: %v", tag, err)
		return
	}
	m := c18BuildFrames("HDU", idx)
	var b []byte
	for _, f := range m.frames {
		b = append(b, f.bytes()...)
	}
	str.Write(b)
	str.Close()
	str.SetReadDeadline(time.Now().Add(10 * time.Second))
	data, rerr := io.ReadAll(str)
	c18RawCheckResponse(x, idx, data, rerr, keyPfx, tag)
	c18RawCheckHandler(x, idx, m, keyPfx, tag)
}

func c18RawCheckResponse(x *c18Exec, idx int, data []byte, rerr error, keyPfx, tag string) {
	m := x.msgs[idx]
	if rerr != nil {
		x.fail(keyPfx+"response-read-error", "%s: reading the response stream failed after %d bytes: %v", tag, len(data), rerr)
		return
	}
	r := c18ParseResponse(data)
	if r.err != nil {
		x.fail(keyPfx+"response-malformed", "%s: %v", tag, r.err)
		return
	}
	want := c18Data(c18RespSeed(idx), m.respSize())
	if r.status != "200" {
		x.fail(keyPfx+"status-altered", "%s: status %q, handler wrote 200", tag, r.status)
	}
	if !bytes.Equal(r.body, want) {
		x.fail(keyPfx+"response-body-altered", "%s: response body of %d bytes differs from the %d bytes the handler wrote", tag, len(r.body), len(want))
	}
	if d := c18TrailerDiff("response trailer", c18RespTrailer(m, idx), r.trailer); d != "" {
		x.fail(keyPfx+"response-trailer-altered", "%s: %s", tag, d)
	}
}

func c18RawCheckHandler(x *c18Exec, idx int, m c18RawModel, keyPfx, tag string) {
	so := &x.srv[idx]
	if so.calls != 1 {
		x.fail(keyPfx+"handler-calls", "%s: handler called %d times", tag, so.calls)
		return
	}
	if so.method != "POST" || so.path != "/" || so.host != "server.verif" {
		x.fail(keyPfx+"request-line-altered", "%s: handler saw %s %s host %s", tag, so.method, so.path, so.host)
	}
	if d := c18HeaderDiff("request header", http.Header{"X-One": {fmt.Sprintf("v1-q%d", idx)}}, so.header, c18IgnoreReqHdr, true); d != "" {
		x.fail(keyPfx+"request-header-altered", "%s: %s", tag, d)
	}
	if so.bodyErr != nil {
		x.fail(keyPfx+"request-body-error", "%s: handler's body read failed after %d bytes: %v", tag, len(so.body), so.bodyErr)
	} else if !bytes.Equal(so.body, m.body) {
		x.fail(keyPfx+"request-body-altered", "%s: handler read %d bytes, peer sent %d", tag, len(so.body), len(m.body))
	} else if d := c18TrailerDiff("request trailer", m.trailer, so.trailer); d != "" {
		x.fail(keyPfx+"request-trailer-altered", "%s: %s", tag, d)
	}
}

func c18RawPeer(ctx context.Context, x *c18Exec, conn *quic.Conn, sc c18Script, c c18RawCase, note func(string, ...any)) {
	tag := c.String()
	pause := func() { time.Sleep(2 * time.Millisecond) }
	if !sc.NoCtrl {
		ctrl, err := conn.OpenUniStreamSync(ctx)
		if err != nil {
			x.fail("raw-open-control", "%v", err)
			return
		}
		ctrl.Write(append([]byte{0x0}, c18SettingsBytes()...))
		pause()
	}
	expectConnErr := func(what string) {
		closed, remote, code, text := c18ConnErr(conn, 5*time.Second)
		switch {
		case !closed:
			note("not-closed")
			x.fail("forbidden-not-aborted:"+sc.Name, "%s: %s must be answered with connection error %#x (RFC 9114); the connection is still open 5 s later", tag, what, sc.ConnErr)
		case !remote || code != sc.ConnErr:
			note("closed:%#x", code)
			x.fail("wrong-error-code:"+sc.Name, "%s: %s must be answered with connection error %#x (RFC 9114); the connection ended with %q", tag, what, sc.ConnErr, text)
		default:
			note("closed:%#x", code)
		}
	}

	// ---- unidirectional-stream scripts
	if sc.Uni != nil {
		for i, b := range sc.Uni {
			s, err := conn.OpenUniStreamSync(ctx)
			if err != nil {
				x.fail("raw-open-uni", "%v", err)
				return
			}
			last := i == len(sc.Uni)-1
			if last && c.Split >= 0 && c.Split <= len(b) {
				s.Write(b[:c.Split])
				pause()
				s.Write(b[c.Split:])
			} else {
				s.Write(b)
			}
			if last && sc.FinLast {
				s.Close()
			}
			pause()
		}
		if sc.ConnErr != 0 {
			expectConnErr("the unidirectional stream " + sc.Name)
			return
		}
		time.Sleep(20 * time.Millisecond)
		c18RawExchange(ctx, x, conn, 0, "ignored-stream-broke-connection:"+sc.Name+":", tag)
		return
	}

	// ---- request-stream scripts
	m := c18BuildFrames(sc.Frames, 0, sc.CL...)
	_, clJudged := c18CLNumber(m.clSent) // false: no field, or field values the statement does not talk about
	str, err := conn.OpenStreamSync(ctx)
	if err != nil {
		x.fail("raw-open-stream", "%v", err)
		return
	}
	var all []byte
	var bounds []int // byte offset of every frame boundary
	for _, f := range m.frames {
		bounds = append(bounds, len(all))
		all = append(all, f.bytes()...)
	}
	bounds = append(bounds, len(all))
	readable := true
	switch {
	case c.Cut >= 0 && c.Cut < len(bounds):
		at := bounds[c.Cut]
		if at > 0 {
			str.Write(all[:at])
			pause()
		}
		switch c.Act {
		case 1:
			str.CancelWrite(quic.StreamErrorCode(ErrCodeRequestCanceled))
		case 2:
			str.CancelRead(quic.StreamErrorCode(ErrCodeRequestCanceled))
			readable = false
		case 3:
			str.CancelWrite(quic.StreamErrorCode(ErrCodeRequestCanceled))
			str.CancelRead(quic.StreamErrorCode(ErrCodeRequestCanceled))
			readable = false
		case 4:
			conn.CloseWithError(quic.ApplicationErrorCode(ErrCodeNoError), "bye")
			return
		}
		pause()
		if c.Act == 2 {
			str.Write(all[at:])
			str.Close()
		}
	case c.Split >= 0 && c.Split <= len(all):
		str.Write(all[:c.Split])
		pause()
		str.Write(all[c.Split:])
		str.Close()
	default:
		str.Write(all)
		str.Close()
	}
	if sc.ConnErr != 0 && c.Cut < 0 {
		expectConnErr("the request stream " + sc.Name)
		return
	}
	if sc.Observe {
		str.SetReadDeadline(time.Now().Add(5 * time.Second))
		data, rerr := io.ReadAll(str)
		if closed, _, code, _ := c18ConnErr(conn, 100*time.Millisecond); closed {
			note("observed:conn-closed:%#x", code)
		} else if rerr != nil {
			note("observed:stream-error:%s", c18ErrClass(rerr))
		} else {
			note("observed:answered:%s", c18ParseResponse(data).status)
		}
		return
	}
	var data []byte
	var rerr error
	if readable {
		str.SetReadDeadline(time.Now().Add(10 * time.Second))
		data, rerr = io.ReadAll(str)
	}
	if c.Cut < 0 {
		// a complete, permitted message
		if m.agrees() {
			c18RawCheckResponse(x, 0, data, rerr, "raw-exchange:"+sc.Name+":", tag)
			c18RawCheckHandler(x, 0, m, "raw-exchange:"+sc.Name+":", tag)
		}
	} else {
		// wait until the handler (if it was started) is done, then look at what it saw
		time.Sleep(200 * time.Millisecond)
		so := &x.srv[0]
		if so.calls > 0 && !bytes.HasPrefix(m.body, so.body) {
			x.fail("raw-abort:request-body-altered", "%s: the %d bytes the handler read are not a prefix of what the peer sent", tag, len(so.body))
		}
		if c.Act == 2 && m.agrees() {
			// STOP_SENDING only concerns the response direction: the request is complete
			c18RawCheckHandler(x, 0, m, "raw-abort:stop-sending:", tag)
		}
		if rerr == nil && readable && c.Act == 1 && c.Cut == len(bounds)-1 {
			note("answered-after-reset")
		}
	}
	// Content-Length agreement as seen by the handler
	so := &x.srv[0]
	if so.calls > 0 && so.bodyDone && so.declaredCL >= 0 {
		if int64(len(so.body)) > so.declaredCL {
			x.fail("long-body-silent:request", "%s: handler read %d body bytes although the request declared Content-Length %d", tag, len(so.body), so.declaredCL)
		} else if so.bodyErr == nil && int64(len(so.body)) < so.declaredCL {
			x.fail("short-body-silent-eof:request", "%s: handler's Request.Body ended in plain io.EOF after %d bytes although the request declared Content-Length %d (silent truncation)", tag, len(so.body), so.declaredCL)
		}
	}
	// ... and against what the peer sent (the handler may have been handed something else)
	if so.calls > 0 && m.clSent != nil {
		c18CLJudge(x, "request", sc.Name, tag, m.clSent, len(so.body), so.bodyDone, so.bodyErr, so.header["Content-Length"], so.contentLength)
	}
	if sc.CL != nil && c.Cut < 0 {
		// what the server did with the declared value (outcome class)
		switch {
		case so.calls == 0 && rerr != nil:
			note("cl:rejected:%s", c18ErrClass(rerr))
		case so.calls == 0:
			note("cl:answered-without-handler:%s", c18ParseResponse(data).status)
		default:
			note("cl:handler[cl=%d hdr=%q]", so.contentLength, so.header["Content-Length"])
		}
	}
	if m.clSent != nil && !clJudged {
		// a content-length field that is not a number (or repeated): whatever the server does with
		// the message is recorded; what a handler read must still be what the peer sent
		if so.calls > 0 && !bytes.HasPrefix(m.body, so.body) {
			x.fail("raw-exchange:"+sc.Name+":request-body-altered", "%s: the %d bytes the handler read are not a prefix of what the peer sent", tag, len(so.body))
		}
		if closed, _, code, _ := c18ConnErr(conn, 0); closed {
			note("cl-observed:conn-closed:%#x", code)
			return
		}
	}
	// the connection must still carry requests (stream-level events only)
	if closed, _, code, text := c18ConnErr(conn, 0); closed {
		x.fail("stream-event-closed-connection:"+sc.Name, "%s: the connection was closed (%#x %s) although only one stream was affected", tag, code, text)
		return
	}
	c18RawExchange(ctx, x, conn, 1, "followup:", tag)
}

// ---- part -----------------------------------------------------------------------------------

func c18RawCases(e explore.Env) ([]c18RawCase, string) {
	var cases []c18RawCase
	seed := uint64(e.Seed) + 1
	bigs := []int{0}
	if e.Thorough() {
		bigs = []int{0, 1}
	}
	for _, sc := range c18AllScripts() {
		n := 0
		if sc.Uni != nil {
			n = len(sc.Uni[len(sc.Uni)-1])
		} else {
			for _, f := range c18BuildFrames(sc.Frames, 0, sc.CL...).frames {
				n += len(f.bytes())
			}
		}
		for sl := 0; sl <= 1; sl++ {
			for _, tr := range []int{0, 1} {
				if tr == 1 && !e.Thorough() && sl == 1 {
					continue
				}
				for _, big := range bigs {
					cases = append(cases, c18RawCase{Script: sc.Name, Split: -1, Cut: -1, SLog: sl, Tr: tr, Big: big, Seed: seed})
					if tr == 1 || big == 1 {
						if !e.Thorough() {
							continue
						}
					}
					for s := 1; s < n; s++ {
						cases = append(cases, c18RawCase{Script: sc.Name, Split: s, Cut: -1, SLog: sl, Tr: tr, Big: big, Seed: seed})
					}
				}
			}
		}
	}
	// aborts at every frame boundary of the permitted request scripts
	for _, sc := range c18AllScripts() {
		if sc.Uni != nil || sc.ConnErr != 0 || sc.Observe {
			continue
		}
		nf := len(sc.Frames)
		for cut := 0; cut <= nf; cut++ {
			for act := 1; act <= 4; act++ {
				for sl := 0; sl <= 1; sl++ {
					for tr := 0; tr <= 3; tr++ {
						if sc.CL != nil && tr > 0 && !e.Thorough() {
							continue
						}
						for _, big := range bigs {
							cases = append(cases, c18RawCase{Script: sc.Name, Split: -1, Cut: cut, Act: act, SLog: sl, Tr: tr, Big: big, Seed: seed})
						}
					}
				}
			}
		}
	}
	return cases, fmt.Sprintf("scripted raw QUIC peer: %d scripts (request streams of 3 frames from {HEADERS, DATA, unknown type %#x, trailers, SETTINGS, reserved 0x2/0x6/0x8/0x9, Content-Length exact / +5 / -5, or one of the %d content-length field value lists %v written verbatim in front of one 20-byte DATA frame}; unidirectional streams: unknown types, duplicate control / QPACK streams, push stream, malformed control streams), each written in one piece and split into two writes at every byte offset; for the permitted request scripts additionally CancelWrite / CancelRead / both / connection close at every frame boundary x Server.Logger {nil,set} x handler trailers {none, declared, undeclared, declared+forbidden name} (quick: no handler trailers for the content-length value scripts); the Content-Length clause is judged against the value the peer SENT whenever every content-length field value is the same 1*DIGIT string, other values are recorded only", len(c18AllScripts()), c18UnknownType, len(c18CLValues), c18CLNames())
}
