package http3

// C18 raw-client part: a scripted raw QUIC *server* (ALPN h3) answers the real
// http3.Transport (+ net/http.Client) with response-stream and unidirectional-stream byte
// strings: every byte split, a reset / STOP_SENDING / connection close at every frame
// boundary, unknown and forbidden frame and stream types.

import (
	"bytes"
	"context"
	"fmt"
	"io"
	"net/http"
	"strconv"
	"strings"
	"sync"
	"testing"
	"time"

	"github.com/quic-go/qpack"
	quic "github.com/refraction-networking/uquic"
	"github.com/refraction-networking/uquic/internal/verifmc/explore"
	"github.com/refraction-networking/uquic/internal/verifmc/sim"
	"github.com/refraction-networking/uquic/quicvarint"
	tls "github.com/refraction-networking/utls"
)

var c18CScripts = []c18Script{
	{Name: "H,D,U", Frames: "HDU"},
	{Name: "H,U,D", Frames: "HUD"},
	{Name: "U,H,D", Frames: "UHD"},
	{Name: "H,D,T", Frames: "HDT"},
	{Name: "H,D,D", Frames: "HDD"},
	{Name: "I,H,D", Frames: "IHD"},
	{Name: "Hcl,D,U", Frames: "hDU"},
	{Name: "Hcl+5,D,U", Frames: "+DU"},
	{Name: "Hcl-5,D,U", Frames: "-DU"},
	{Name: "H,D,R2", Frames: "HD2", ConnErr: uint64(ErrCodeFrameUnexpected)},
	{Name: "H,D,R6", Frames: "HD6", ConnErr: uint64(ErrCodeFrameUnexpected)},
	{Name: "H,D,R8", Frames: "HD8", ConnErr: uint64(ErrCodeFrameUnexpected)},
	{Name: "H,D,R9", Frames: "HD9", ConnErr: uint64(ErrCodeFrameUnexpected)},
	{Name: "R2,H,D", Frames: "2HD", ConnErr: uint64(ErrCodeFrameUnexpected)},
	{Name: "D,H,D", Frames: "DHD", ConnErr: uint64(ErrCodeFrameUnexpected)},
	{Name: "H,S,D", Frames: "HSD", ConnErr: uint64(ErrCodeFrameUnexpected)},
	// unidirectional streams opened by the server
	{Name: "uni-unknown", Uni: [][]byte{append(quicvarintAppend(c18UnknownType), []byte("0123456789")...)}},
	{Name: "uni-unknown-fin", Uni: [][]byte{append(quicvarintAppend(0x21), []byte("01")...)}, FinLast: true},
	{Name: "uni-control-settings-unknown-frame", NoCtrl: true, Uni: [][]byte{append(append([]byte{0x0}, c18SettingsBytes()...), c18Frame{T: c18UnknownType, P: []byte("xyz")}.bytes()...)}},
	{Name: "uni-control-dup", Uni: [][]byte{append([]byte{0x0}, c18SettingsBytes()...)}, ConnErr: uint64(ErrCodeStreamCreationError)},
	{Name: "uni-push", Uni: [][]byte{{0x1, 0x0}}, ConnErr: uint64(ErrCodeIDError)},
	{Name: "uni-qpack-encoder-dup", Uni: [][]byte{{0x2}, {0x2}}, ConnErr: uint64(ErrCodeStreamCreationError)},
	{Name: "uni-qpack-decoder-dup", Uni: [][]byte{{0x3}, {0x3}}, ConnErr: uint64(ErrCodeStreamCreationError)},
	{Name: "uni-control-data-first", NoCtrl: true, Uni: [][]byte{append([]byte{0x0}, c18Frame{T: 0x0, P: []byte("abc")}.bytes()...)}, ConnErr: uint64(ErrCodeMissingSettings)},
	{Name: "uni-control-fin", NoCtrl: true, Uni: [][]byte{{0x0}}, FinLast: true, ConnErr: uint64(ErrCodeClosedCriticalStream)},
	{Name: "uni-control-reserved-first", NoCtrl: true, Uni: [][]byte{append([]byte{0x0}, c18Frame{T: 0x2}.bytes()...)}, ConnErr: uint64(ErrCodeFrameUnexpected)},
	{Name: "uni-control-settings-then-data", NoCtrl: true, Uni: [][]byte{append(append([]byte{0x0}, c18SettingsBytes()...), c18Frame{T: 0x0, P: []byte("abc")}.bytes()...)}, ConnErr: uint64(ErrCodeFrameUnexpected)},
	{Name: "uni-control-settings-then-fin", NoCtrl: true, Uni: [][]byte{append([]byte{0x0}, c18SettingsBytes()...)}, FinLast: true, ConnErr: uint64(ErrCodeClosedCriticalStream)},
	{Name: "uni-control-goaway-server-stream-id", NoCtrl: true, Uni: [][]byte{append(append([]byte{0x0}, c18SettingsBytes()...), (&goAwayFrame{StreamID: 1}).Append(nil)...)}, ConnErr: uint64(ErrCodeIDError)},
}

func quicvarintAppend(v uint64) []byte { return quicvarint.Append(nil, v) }

// c18AllCScripts: the fixed scripts, then the Content-Length value scripts (c18CLValues).
func c18AllCScripts() []c18Script {
	return append(append([]c18Script{}, c18CScripts...), c18CLScripts()...)
}

func c18CScriptByName(name string) (c18Script, bool) {
	for _, s := range c18AllCScripts() {
		if s.Name == name {
			return s, true
		}
	}
	return c18Script{}, false
}

type c18RespModel struct {
	frames  []c18Frame
	body    []byte
	trailer http.Header
	cl      int
	clSent  []string // the content-length field values of the final HEADERS frame as written (nil: none)
	info    int
}

// agrees: the response declares no Content-Length, or one that equals the body it carries.
func (m c18RespModel) agrees() bool { return c18CLAgrees(m.clSent, len(m.body)) }

func c18RespHeadersFrameV(idx int, cl []string) c18Frame {
	fields := [][2]string{{":status", "200"}, {"x-one", fmt.Sprintf("v1-r%d", idx)}}
	for _, v := range cl {
		fields = append(fields, [2]string{"content-length", v})
	}
	return c18Frame{T: 0x1, P: c18QpackBlock(fields)}
}

func c18RespHeadersFrame(idx, cl int) c18Frame {
	fields := [][2]string{{":status", "200"}, {"x-one", fmt.Sprintf("v1-r%d", idx)}}
	if cl >= 0 {
		fields = append(fields, [2]string{"content-length", strconv.Itoa(cl)})
	}
	return c18Frame{T: 0x1, P: c18QpackBlock(fields)}
}

func c18BuildRespFrames(letters string, idx int, cl ...string) c18RespModel {
	var m c18RespModel
	m.cl = -1
	nData := strings.Count(letters, "D")
	all := c18Data(c18RespSeed(idx), nData*c18RawChunk)
	di := 0
	for _, l := range letters {
		switch l {
		case 'H':
			m.frames = append(m.frames, c18RespHeadersFrame(idx, -1))
		case 'h':
			m.cl = nData * c18RawChunk
			m.clSent = []string{strconv.Itoa(m.cl)}
			m.frames = append(m.frames, c18RespHeadersFrame(idx, m.cl))
		case '+':
			m.cl = nData*c18RawChunk + 5
			m.clSent = []string{strconv.Itoa(m.cl)}
			m.frames = append(m.frames, c18RespHeadersFrame(idx, m.cl))
		case '-':
			m.cl = nData*c18RawChunk - 5
			m.clSent = []string{strconv.Itoa(m.cl)}
			m.frames = append(m.frames, c18RespHeadersFrame(idx, m.cl))
		case 'v':
			m.clSent = append([]string{}, cl...)
			m.frames = append(m.frames, c18RespHeadersFrameV(idx, cl))
		case 'I':
			m.info++
			m.frames = append(m.frames, c18Frame{T: 0x1, P: c18QpackBlock([][2]string{{":status", "103"}, {"link", "</style.css>; rel=preload; as=style"}})})
		case 'D':
			m.frames = append(m.frames, c18Frame{T: 0x0, P: all[di*c18RawChunk : (di+1)*c18RawChunk]})
			di++
		case 'U':
			m.frames = append(m.frames, c18Frame{T: c18UnknownType, P: []byte("grease")})
		case 'T':
			m.trailer = http.Header{"X-Rtr-U": {fmt.Sprintf("ru%d", idx)}}
			m.frames = append(m.frames, c18Frame{T: 0x1, P: c18QpackBlock([][2]string{{"x-rtr-u", fmt.Sprintf("ru%d", idx)}})})
		case 'S':
			m.frames = append(m.frames, c18Frame{T: 0x4})
		case '2', '6', '8', '9':
			m.frames = append(m.frames, c18Frame{T: uint64(l - '0'), P: []byte{0, 0, 0, 0, 0}})
		}
	}
	m.body = all
	return m
}

type c18RawCCase struct {
	Script string `json:"script"`
	Split  int    `json:"split"`
	Cut    int    `json:"cut"`
	Act    int    `json:"act,omitempty"` // 1 CancelWrite (reset the response), 2 CancelRead (STOP_SENDING for the request), 3 both, 4 connection close
	CLog   int    `json:"cl,omitempty"`
	Gzip   int    `json:"z,omitempty"` // Transport.DisableCompression false
	Seed   uint64 `json:"seed"`
}

func (c c18RawCCase) String() string {
	s := "raw-server " + c.Script
	if c.Split >= 0 {
		s += fmt.Sprintf(" split@%d", c.Split)
	}
	if c.Cut >= 0 {
		s += fmt.Sprintf(" %s@frame-boundary-%d", c18ActNames[c.Act], c.Cut)
	}
	return s + fmt.Sprintf(" clog=%d compression=%d", c.CLog, c.Gzip)
}

func c18RawCRun(t *testing.T, c c18RawCCase) c18RawOutcome {
	var out c18RawOutcome
	sc, ok := c18CScriptByName(c.Script)
	if !ok {
		out.fails = append(out.fails, explore.Failf("harness-unknown-script", "%q", c.Script))
		return out
	}
	msg := c18Msg{CLog: c.CLog, Gzip: c.Gzip}
	if c.Cut >= 0 && (c.Act == 2 || c.Act == 3) {
		msg.ReqBody = 4 // 70000 bytes: STOP_SENDING arrives while the request body is being sent
	}
	x := &c18Exec{c: c18Case{Msg: msg}, msgs: []c18Msg{msg, msg}, srv: make([]c18SrvObs, 2), cli: make([]c18CliObs, 2), startOk: make([]bool, 2)}
	var notes []string
	var noteMu sync.Mutex
	note := func(f string, a ...any) {
		noteMu.Lock()
		notes = append(notes, fmt.Sprintf(f, a...))
		noteMu.Unlock()
	}
	tag := c.String()
	okRun := sim.Run(t, "rawc", c.Seed, func(t *testing.T) {
		for i := 0; i < 2; i++ {
			x.started = append(x.started, make(chan struct{}))
			x.aborted = append(x.aborted, make(chan struct{}))
		}
		w := sim.NewWorld(nil)
		ln, err := w.Listen(w.ServerTLS(false), &quic.Config{})
		if err != nil {
			t.Fatal(err)
		}
		ctx, cancelAll := context.WithTimeout(context.Background(), c18Timeout)
		var swg sync.WaitGroup
		var connMu sync.Mutex
		var sconns, cconns []*quic.Conn
		serveDone := make(chan struct{})
		verdict := make(chan struct{}) // closed when the scripted server has finished judging connection 0
		go func() {
			defer close(serveDone)
			for n := 0; ; n++ {
				conn, err := ln.Accept(ctx)
				if err != nil {
					return
				}
				connMu.Lock()
				sconns = append(sconns, conn)
				connMu.Unlock()
				swg.Add(1)
				go func() {
					defer swg.Done()
					if n == 0 {
						defer close(verdict)
						c18RawServer(ctx, x, conn, sc, c, note, &swg)
					} else {
						c18RawServer(ctx, x, conn, c18Script{Name: "plain", Frames: "HDU"}, c18RawCCase{Split: -1, Cut: -1}, func(string, ...any) {}, &swg)
					}
				}()
			}
		}()
		d, _, _ := w.NewDialer(sim.Plain)
		tr := &Transport{
			TLSClientConfig:    w.ClientTLS(),
			DisableCompression: c.Gzip == 0,
			Logger:             c18Logger(c.CLog),
			Dial: func(ctx context.Context, addr string, tlsCfg *tls.Config, cfg *quic.Config) (*quic.Conn, error) {
				conn, err := d.Dial(ctx, w.ServerAddr, tlsCfg, cfg)
				if conn != nil {
					connMu.Lock()
					cconns = append(cconns, conn)
					connMu.Unlock()
				}
				return conn, err
			},
		}
		client := &http.Client{Transport: tr}
		x.request(ctx, client, 0, func() {})
		co := &x.cli[0]
		m := c18BuildRespFrames(sc.Frames, 0, sc.CL...)
		if sc.Uni != nil {
			m = c18BuildRespFrames("HDU", 0)
		}
		// ---- what the client observed of exchange 0
		if co.err == nil && !bytes.HasPrefix(m.body, co.body) {
			x.fail("rawc:response-body-altered", "%s: the %d bytes the client read are not a prefix of the %d bytes the server sent", tag, len(co.body), len(m.body))
		}
		if co.err == nil && co.bodyDone && co.declaredCL >= 0 {
			if int64(len(co.body)) > co.declaredCL {
				x.fail("long-body-silent:response", "%s: client read %d body bytes although the response declared Content-Length %d", tag, len(co.body), co.declaredCL)
			} else if co.bodyErr == nil && int64(len(co.body)) < co.declaredCL {
				x.fail("short-body-silent-eof:response", "%s: Response.Body ended in plain io.EOF after %d bytes although the response declared Content-Length %d (silent truncation)", tag, len(co.body), co.declaredCL)
			}
		}
		// ... and against what the server sent (the client may have been handed something else)
		if co.err == nil && m.clSent != nil {
			c18CLJudge(x, "response", sc.Name, tag, m.clSent, len(co.body), co.bodyDone, co.bodyErr, co.header["Content-Length"], co.contentLength)
		}
		if sc.CL != nil && c.Cut < 0 {
			// what the client did with the declared value (outcome class; values that are not one
			// 1*DIGIT string are recorded only)
			if co.err != nil {
				note("cl:rejected")
			} else {
				note("cl:accepted[cl=%d hdr=%q]", co.contentLength, co.header["Content-Length"])
			}
		}
		permitted := sc.ConnErr == 0
		if co.err == nil {
			if co.status != 200 {
				x.fail("rawc:status-altered", "%s: client saw status %d, server sent 200", tag, co.status)
			}
			if d := c18HeaderDiff("response header", http.Header{"X-One": {"v1-r0"}}, co.header, c18IgnoreRespHdr, false); d != "" {
				x.fail("rawc:response-header-altered", "%s: %s", tag, d)
			}
		}
		switch {
		case permitted && c.Cut < 0 && m.agrees():
			// a complete, permitted response: everything must arrive
			switch {
			case co.err != nil:
				x.fail("rawc:exchange-incomplete:"+sc.Name, "%s: client.Do failed: %v", tag, co.err)
			case co.bodyErr != nil:
				x.fail("rawc:exchange-incomplete:"+sc.Name, "%s: reading Response.Body failed after %d of %d bytes: %v", tag, len(co.body), len(m.body), co.bodyErr)
			case len(co.body) != len(m.body):
				x.fail("rawc:response-body-truncated:"+sc.Name, "%s: client read %d bytes and io.EOF, server sent %d", tag, len(co.body), len(m.body))
			default:
				if d := c18TrailerDiff("response trailer", m.trailer, co.trailer); d != "" {
					x.fail("rawc:response-trailer-altered:"+sc.Name, "%s: %s", tag, d)
				}
				if len(co.info) != m.info || (m.info == 1 && (co.info[0] != 103 || len(co.infoHdr[0]["Link"]) != 1)) {
					x.fail("rawc:1xx-altered:"+sc.Name, "%s: server sent %d informational response(s), client trace saw %v", tag, m.info, co.info)
				}
			}
		case c.Cut >= 0 && (c.Act == 1 || c.Act == 3 || c.Act == 4):
			// the response was cut by a reset / connection close: a truncated body must not end in io.EOF
			if co.err == nil && co.bodyDone && co.bodyErr == nil && len(co.body) < len(m.body) {
				x.fail("rawc:reset-truncation-silent", "%s: the response was aborted after %d of %d body bytes and Response.Body reported plain io.EOF", tag, len(co.body), len(m.body))
			}
		case c.Cut >= 0 && c.Act == 2 && m.agrees():
			// STOP_SENDING concerns the request direction only: the response is complete
			if co.err == nil && (co.bodyErr != nil || len(co.body) != len(m.body)) {
				x.fail("rawc:stop-sending-broke-response", "%s: the server only sent STOP_SENDING for the request; the client read %d of %d response bytes, err=%v", tag, len(co.body), len(m.body), co.bodyErr)
			}
		}
		if sc.ConnErr != 0 && c.Cut < 0 {
			select {
			case <-verdict:
			case <-ctx.Done():
			}
		} else if c.Act != 4 || c.Cut < 0 {
			// the client must still be able to carry requests (new connection if it dropped this one)
			time.Sleep(20 * time.Millisecond)
			x.request(ctx, client, 1, func() {})
			f := &x.cli[1]
			fm := c18BuildRespFrames("HDU", 1)
			switch {
			case f.err != nil:
				x.fail("rawc:followup-failed", "%s: follow-up request failed: %v", tag, f.err)
			case f.bodyErr != nil || !bytes.Equal(f.body, fm.body) || f.status != 200:
				x.fail("rawc:followup-failed", "%s: follow-up response: status %d, %d of %d body bytes, err=%v", tag, f.status, len(f.body), len(fm.body), f.bodyErr)
			}
		}
		tr.Close()
		connMu.Lock()
		for _, cc := range cconns {
			cc.CloseWithError(0, "")
		}
		connMu.Unlock()
		d.Close()
		cancelAll()
		connMu.Lock()
		for _, sc := range sconns {
			sc.CloseWithError(0, "")
		}
		connMu.Unlock()
		ln.Close()
		w.ServerTr.Close()
		<-serveDone
		swg.Wait()
		out.datagrams = [2]int{w.Router.Count(sim.C2S), w.Router.Count(sim.S2C)}
		out.transcript = w.Router.Transcript()
	})
	out.fails = x.fails
	if !okRun && len(out.fails) == 0 {
		out.fails = append(out.fails, explore.Failf("bubble-failed", "the bubble did not terminate cleanly for %v", c))
	}
	co := x.cli[0]
	out.class = fmt.Sprintf("rawc %s act=%d cli[%s st=%d 1xx=%d body=%d/%s tr=%d] %s", sc.Name, c.Act, c18ErrClass(co.err), co.status, len(co.info), len(co.body), c18ErrClass(co.bodyErr), len(co.trailer), strings.Join(notes, " "))
	if len(out.fails) > 0 {
		out.class += " FAIL"
	}
	return out
}

// c18RawServer is the scripted server side of one connection.
func c18RawServer(ctx context.Context, x *c18Exec, conn *quic.Conn, sc c18Script, c c18RawCCase, note func(string, ...any), wg *sync.WaitGroup) {
	tag := c.String()
	pause := func() { time.Sleep(2 * time.Millisecond) }
	if !sc.NoCtrl {
		ctrl, err := conn.OpenUniStreamSync(ctx)
		if err != nil {
			return
		}
		ctrl.Write(append([]byte{0x0}, c18SettingsBytes()...))
	}
	expectConnErr := func(what string) {
		closed, remote, code, text := c18ConnErr(conn, 5*time.Second)
		switch {
		case !closed:
			note("not-closed")
			x.fail("rawc:forbidden-not-aborted:"+sc.Name, "%s: %s must be answered with connection error %#x (RFC 9114); the connection is still open 5 s later", tag, what, sc.ConnErr)
		case !remote || code != sc.ConnErr:
			note("closed:%#x", code)
			x.fail("rawc:wrong-error-code:"+sc.Name, "%s: %s must be answered with connection error %#x (RFC 9114); the connection ended with %q", tag, what, sc.ConnErr, text)
		default:
			note("closed:%#x", code)
		}
	}
	// serve request streams in the background
	streamVerdict := make(chan struct{})
	wg.Add(1)
	go func() {
		defer wg.Done()
		first := true
		for {
			str, err := conn.AcceptStream(ctx)
			if err != nil {
				if first {
					close(streamVerdict)
				}
				return
			}
			script, cc := "HDU", c18RawCCase{Split: -1, Cut: -1}
			var clv []string
			if first && sc.Uni == nil && sc.Name != "plain" {
				script, cc, clv = sc.Frames, c, sc.CL
			}
			wasFirst := first
			first = false
			wg.Add(1)
			go func() {
				defer wg.Done()
				c18RawServeStream(conn, str, script, cc, clv)
				if wasFirst {
					close(streamVerdict)
				}
			}()
		}
	}()
	if sc.Uni != nil {
		for i, b := range sc.Uni {
			s, err := conn.OpenUniStreamSync(ctx)
			if err != nil {
				return
			}
			last := i == len(sc.Uni)-1
			if last && c.Split >= 0 && c.Split <= len(b) {
				s.Write(b[:c.Split])
				pause()
				s.Write(b[c.Split:])
			} else {
				s.Write(b)
			}
			if last && sc.FinLast {
				s.Close()
			}
			pause()
		}
		if sc.ConnErr != 0 {
			expectConnErr("the unidirectional stream " + sc.Name)
		}
		return
	}
	if sc.ConnErr != 0 && c.Cut < 0 {
		select {
		case <-streamVerdict:
		case <-ctx.Done():
		}
		expectConnErr("the response stream " + sc.Name)
	}
}

// c18RequestIdx finds the x-idx field in the bytes of a request stream.
func c18RequestIdx(b []byte) int {
	rd := bytes.NewReader(b)
	for rd.Len() > 0 {
		t, err := quicvarint.Read(rd)
		if err != nil {
			return 0
		}
		l, err := quicvarint.Read(rd)
		if err != nil || uint64(rd.Len()) < l {
			return 0
		}
		p := make([]byte, l)
		io.ReadFull(rd, p)
		if t != 0x1 {
			continue
		}
		next := qpack.NewDecoder().Decode(p)
		for {
			hf, err := next()
			if err != nil {
				return 0
			}
			if hf.Name == "x-idx" {
				n, _ := strconv.Atoi(hf.Value)
				return n
			}
		}
	}
	return 0
}

func c18RawServeStream(conn *quic.Conn, str *quic.Stream, letters string, c c18RawCCase, clv []string) {
	pause := func() { time.Sleep(2 * time.Millisecond) }
	idx := 0
	if c.Cut >= 0 && (c.Act == 2 || c.Act == 3) {
		str.CancelRead(quic.StreamErrorCode(ErrCodeRequestCanceled))
	} else {
		str.SetReadDeadline(time.Now().Add(10 * time.Second))
		req, _ := io.ReadAll(str)
		idx = c18RequestIdx(req)
	}
	m := c18BuildRespFrames(letters, idx, clv...)
	var all []byte
	var bounds []int
	for _, f := range m.frames {
		bounds = append(bounds, len(all))
		all = append(all, f.bytes()...)
	}
	bounds = append(bounds, len(all))
	switch {
	case c.Cut >= 0 && c.Cut < len(bounds):
		at := bounds[c.Cut]
		if c.Act == 2 {
			str.Write(all)
			str.Close()
			return
		}
		if at > 0 {
			str.Write(all[:at])
			pause()
		}
		if c.Act == 4 {
			conn.CloseWithError(quic.ApplicationErrorCode(ErrCodeInternalError), "bye")
			return
		}
		str.CancelWrite(quic.StreamErrorCode(ErrCodeInternalError))
	case c.Split >= 0 && c.Split <= len(all):
		str.Write(all[:c.Split])
		pause()
		str.Write(all[c.Split:])
		str.Close()
	default:
		str.Write(all)
		str.Close()
	}
}

func c18RawCCases(e explore.Env) ([]c18RawCCase, string) {
	var cases []c18RawCCase
	seed := uint64(e.Seed) + 1
	for _, sc := range c18AllCScripts() {
		n := 0
		if sc.Uni != nil {
			n = len(sc.Uni[len(sc.Uni)-1])
		} else {
			for _, f := range c18BuildRespFrames(sc.Frames, 0, sc.CL...).frames {
				n += len(f.bytes())
			}
		}
		for cl := 0; cl <= 1; cl++ {
			for z := 0; z <= 1; z++ {
				if z == 1 && cl == 1 && !e.Thorough() {
					continue
				}
				cases = append(cases, c18RawCCase{Script: sc.Name, Split: -1, Cut: -1, CLog: cl, Gzip: z, Seed: seed})
				if z == 1 && !e.Thorough() {
					continue
				}
				for s := 1; s < n; s++ {
					cases = append(cases, c18RawCCase{Script: sc.Name, Split: s, Cut: -1, CLog: cl, Gzip: z, Seed: seed})
				}
			}
		}
	}
	for _, sc := range c18AllCScripts() {
		if sc.Uni != nil || sc.ConnErr != 0 {
			continue
		}
		for cut := 0; cut <= len(sc.Frames); cut++ {
			for act := 1; act <= 4; act++ {
				for cl := 0; cl <= 1; cl++ {
					cases = append(cases, c18RawCCase{Script: sc.Name, Split: -1, Cut: cut, Act: act, CLog: cl, Seed: seed})
				}
			}
		}
	}
	return cases, fmt.Sprintf("scripted raw QUIC server against the real Transport: %d scripts (response streams of 3 frames from {HEADERS, 103 HEADERS, DATA, unknown type %#x, trailers, SETTINGS, reserved 0x2/0x6/0x8/0x9, Content-Length exact / +5 / -5, or one of the %d content-length field value lists %v written verbatim in front of one 20-byte DATA frame}; unidirectional streams: unknown types, duplicate control / QPACK streams, push stream, malformed control streams, GOAWAY with a server stream id), each written in one piece and split into two writes at every byte offset; for the permitted response scripts additionally RESET_STREAM / STOP_SENDING / both / connection close at every frame boundary x Transport.Logger {nil,set}; the Content-Length clause is judged against the value the server SENT whenever every content-length field value is the same 1*DIGIT string, other values are recorded only", len(c18AllCScripts()), c18UnknownType, len(c18CLValues), c18CLNames())
}
