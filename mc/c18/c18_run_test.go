package http3

// C18 E2 executor: real server side + real http3.Transport under net/http.Client inside a
// synctest bubble over the fault-injecting router, with the reference-model oracle.

import (
	"bytes"
	"context"
	"errors"
	"fmt"
	"io"
	"log/slog"
	"net/http"
	"net/http/httptrace"
	"net/textproto"
	"os"
	"runtime/debug"
	"strconv"
	"strings"
	"sync"
	"testing"
	"time"

	quic "github.com/refraction-networking/uquic"
	"github.com/refraction-networking/uquic/internal/verifmc/explore"
	"github.com/refraction-networking/uquic/internal/verifmc/sim"
	"github.com/refraction-networking/uquic/internal/verifmc/wiremon"
	tls "github.com/refraction-networking/utls"
)

const c18Timeout = 30 * time.Second // virtual

func c18Logger(set int) *slog.Logger {
	if set == 0 {
		return nil
	}
	return slog.New(slog.NewTextHandler(io.Discard, &slog.HandlerOptions{Level: slog.LevelDebug}))
}

// c18PanicSite names the innermost frame of the code under test on a panicking stack.
func c18PanicSite(stack []byte) string {
	lines := strings.Split(string(stack), "\n")
	for i := 0; i+1 < len(lines); i++ {
		l := lines[i]
		if !strings.HasPrefix(l, "github.com/refraction-networking/uquic") {
			continue
		}
		file := lines[i+1]
		if strings.Contains(file, "zz_verif") || strings.Contains(file, "verifmc") {
			continue
		}
		if j := strings.LastIndex(l, "("); j > 0 {
			l = l[:j]
		}
		if j := strings.LastIndex(l, "/"); j >= 0 {
			l = l[j+1:]
		}
		return l
	}
	return "unknown-site"
}

type c18SrvObs struct {
	calls         int
	method        string
	path, query   string
	host, reqURI  string
	header        http.Header
	contentLength int64
	declaredCL    int64 // the Content-Length field the handler sees, -1 if none
	body          []byte
	bodyErr       error // nil: clean io.EOF
	bodyDone      bool
	trailer       http.Header
	written       []byte
	writeErr      error
	gz            bool
	done          bool
	early         int // status of the early answer the handler gave without reading the body (0: none)
}

type c18CliObs struct {
	started       bool
	err           error
	status        int
	header        http.Header
	contentLength int64
	declaredCL    int64 // the Content-Length field the client sees, -1 if none
	body          []byte
	bodyErr       error // nil: clean io.EOF
	bodyDone      bool
	trailer       http.Header
	info          []int
	infoHdr       []textproto.MIMEHeader
}

type c18Exec struct {
	c     c18Case
	msgs  []c18Msg // per request index (main requests, then the follow-up)
	mu    sync.Mutex
	fails []*explore.Fail
	srv   []c18SrvObs
	cli   []c18CliObs
	// cross-endpoint signalling for the abort scenarios (created inside the bubble)
	started []chan struct{}
	aborted []chan struct{}
	startMu sync.Mutex
	startOk []bool
	// early-rejection histories: rej[idx] = 1 + c18Rej.Kind for the rejected uploads, 0 otherwise
	rej   []int
	conns int // connections the Transport dialled
}

func (x *c18Exec) rejKind(idx int) int {
	if idx < len(x.rej) {
		return x.rej[idx] - 1
	}
	return -1
}

func (x *c18Exec) reqSize(idx int) int {
	if x.rejKind(idx) >= 0 {
		return x.c.Rej.Body
	}
	return x.msgs[idx].reqSize()
}

// reqHeader is the header multiset request idx carries.
func (x *c18Exec) reqHeader(idx int) http.Header {
	h := c18ReqHeader(x.msgs[idx], idx)
	switch x.rejKind(idx) {
	case 0:
		for j := 0; j < 100; j++ {
			h[fmt.Sprintf("X-H-%d", j)] = []string{"v"}
		}
	case 1:
		h["X-Big"] = []string{c18Big(fmt.Sprintf("j%d", idx))}
	}
	return h
}

func c18EarlyBody(idx int) []byte { return []byte(fmt.Sprintf("rejected-early-%d", idx)) }

// c18RejConfig is the server's quic.Config of an early-rejection history.
func c18RejConfig(r *c18Rej) *quic.Config {
	switch r.Cfg {
	case 1:
		return &quic.Config{InitialStreamReceiveWindow: 16384, MaxStreamReceiveWindow: 16384, InitialConnectionReceiveWindow: 24576, MaxConnectionReceiveWindow: 24576}
	case 2:
		return &quic.Config{MaxIncomingStreams: int64(r.N)}
	}
	return &quic.Config{}
}

func (x *c18Exec) fail(key, format string, a ...any) {
	x.mu.Lock()
	x.fails = append(x.fails, explore.Failf(key, format, a...))
	x.mu.Unlock()
}

func (x *c18Exec) signalStarted(idx int) {
	x.startMu.Lock()
	if !x.startOk[idx] {
		x.startOk[idx] = true
		close(x.started[idx])
	}
	x.startMu.Unlock()
}

// guard runs a piece of the server's connection handling; a panic there would kill the
// process in production (Server.handleConn has no recover around it).
func (x *c18Exec) guard(what string, f func()) {
	defer func() {
		if p := recover(); p != nil {
			st := debug.Stack()
			x.fail("panic:"+c18PanicSite(st), "%s panicked outside the handler's recover (the process would die): %v; stack: %s", what, p, c18TrimStack(st))
		}
	}()
	f()
}

// c18TrimStack keeps the frames between the panic and the harness.
func c18TrimStack(st []byte) string {
	lines := strings.Split(string(st), "\n")
	start := 0
	for i, l := range lines {
		if strings.HasPrefix(l, "panic(") {
			start = i + 2
			break
		}
	}
	var out []string
	for i := start; i+1 < len(lines) && len(out) < 12; i += 2 {
		if strings.Contains(lines[i+1], "zz_verif") {
			break
		}
		fn := lines[i]
		if j := strings.LastIndex(fn, "("); j > 0 {
			fn = fn[:j]
		}
		file := strings.TrimSpace(lines[i+1])
		if j := strings.Index(file, " +0x"); j > 0 {
			file = file[:j]
		}
		out = append(out, fn+" "+file)
	}
	return strings.Join(out, " <- ")
}

func c18RdBuf(mode int, server bool) int {
	switch mode {
	case 1:
		return 1
	case 2:
		return 65536
	}
	if server {
		return 1000
	}
	return 1500
}

func c18ReadAll(r io.Reader, bufSize int) (data []byte, err error, zeroReads int) {
	buf := make([]byte, bufSize)
	for {
		n, e := r.Read(buf)
		data = append(data, buf[:n]...)
		if e != nil {
			if e == io.EOF {
				return data, nil, zeroReads
			}
			return data, e, zeroReads
		}
		if n == 0 {
			zeroReads++
			if zeroReads > 1000 {
				return data, errors.New("harness: Read keeps returning (0, nil)"), zeroReads
			}
		}
	}
}

// c18HeaderCL is the Content-Length field of a received message (-1: none / unparsable).
func c18HeaderCL(h http.Header) int64 {
	v := h.Get("Content-Length")
	if v == "" {
		return -1
	}
	n, err := strconv.ParseInt(v, 10, 64)
	if err != nil || n < 0 {
		return -1
	}
	return n
}

func cloneHeader(h http.Header) http.Header {
	if h == nil {
		return nil
	}
	return h.Clone()
}

// ServeHTTP is the scripted handler: it records what it observes and writes the response
// the message description asks for.
func (x *c18Exec) ServeHTTP(w http.ResponseWriter, r *http.Request) {
	idx, err := strconv.Atoi(r.Header.Get("X-Idx"))
	if err != nil || idx < 0 || idx >= len(x.srv) {
		x.fail("request-header-altered:x-idx", "handler called with X-Idx %q (never sent)", r.Header.Get("X-Idx"))
		return
	}
	m := x.msgs[idx]
	o := &x.srv[idx]
	defer func() {
		if p := recover(); p != nil {
			if p != http.ErrAbortHandler {
				st := debug.Stack()
				x.fail("panic:"+c18PanicSite(st), "request %d (%v): library code called from the handler panicked: %v; stack: %s", idx, m, p, c18TrimStack(st))
			}
			panic(http.ErrAbortHandler)
		}
	}()
	x.mu.Lock()
	o.calls++
	calls := o.calls
	x.mu.Unlock()
	if calls > 1 {
		x.fail("request-duplicated", "handler called %d times for request %d", calls, idx)
		return
	}
	o.method, o.path, o.query, o.host, o.reqURI = r.Method, r.URL.Path, r.URL.RawQuery, r.Host, r.RequestURI
	o.header = cloneHeader(r.Header)
	o.contentLength = r.ContentLength
	o.declaredCL = c18HeaderCL(r.Header)
	if k := x.rejKind(idx); k == 2 || k == 3 {
		// the handler rejects the upload early: it answers without reading the body (k == 2) or
		// after its first byte (k == 3) and returns while the client is still sending
		status := http.StatusBadRequest
		if k == 3 {
			status = http.StatusRequestEntityTooLarge
			one := make([]byte, 1)
			n, err := r.Body.Read(one)
			o.body = one[:n]
			if err != nil && err != io.EOF {
				o.bodyErr = err
			}
		}
		w.Header().Set("X-Early", strconv.Itoa(idx))
		w.WriteHeader(status)
		payload := c18EarlyBody(idx)
		n, err := w.Write(payload)
		o.written, o.writeErr = payload[:n], err
		x.mu.Lock()
		o.early = status
		o.done = true
		x.mu.Unlock()
		return
	}
	if m.Abort == 1 {
		x.signalStarted(idx)
	}
	var zr int
	o.body, o.bodyErr, zr = c18ReadAll(r.Body, c18RdBuf(m.Rd, true))
	_ = zr
	o.bodyDone = true
	o.trailer = cloneHeader(r.Trailer)
	if m.Abort == 3 {
		x.signalStarted(idx)
		select {
		case <-x.aborted[idx]:
		case <-time.After(c18Timeout):
		}
		time.Sleep(50 * time.Millisecond)
	}

	// ---- response
	h := w.Header()
	rh := c18RespHeader(m, idx)
	if m.Status == 3 {
		h["Link"] = rh["Link"]
		w.WriteHeader(103)
	}
	for k, v := range rh {
		h[k] = append([]string(nil), v...)
	}
	o.gz = m.Gzip == 1 && strings.Contains(r.Header.Get("Accept-Encoding"), "gzip")
	wire := c18RespWire(m, idx, o.gz)
	if o.gz {
		h.Set("Content-Encoding", "gzip")
	}
	if cl := c18DeclaredCL(m.RespCL, len(wire)); cl >= 0 {
		h.Set("Content-Length", strconv.FormatInt(cl, 10))
	}
	switch m.RespTr {
	case 1:
		h.Add("Trailer", "X-Rtr-A")
		h.Add("Trailer", "X-Rtr-B")
	case 3:
		h.Set("Trailer", "Content-Length, X-Rtr-A")
	}
	if m.RespTr >= c18TrSpellBase {
		sp := c18TrSpellOf(m.RespTr)
		for _, v := range sp.announce() {
			h.Add("Trailer", v)
		}
		if sp.Set == 1 {
			// an announced trailer that already holds a value when the header is written is
			// still a trailer: it carries the value it holds when the handler returns
			h.Set(sp.setKey("X-Rtr-B"), "early-b")
			h.Set(sp.setKey("X-Rtr-C"), "early-c")
		}
	}
	if m.Status != 0 {
		w.WriteHeader(m.status())
	}
	chunks := c18Chunks(wire, m.RespChunk)
	if m.Abort == 2 && len(chunks) == 1 {
		chunks = c18Chunks(wire, 1)
	}
	for i, c := range chunks {
		// the handler writes from a scratch buffer that it reuses straight away (io.Writer:
		// "Write must not retain p"): bytes the response writer kept a reference to would change
		scratch := append([]byte(nil), c...)
		n, err := w.Write(scratch)
		for j := range scratch {
			scratch[j] = 0xEE
		}
		if n > 0 {
			o.written = append(o.written, c[:n]...)
		}
		if err != nil {
			o.writeErr = err
			break
		}
		if i == 0 && (m.RespChunk == 3 || m.Abort == 2) {
			if f, ok := w.(http.Flusher); ok {
				f.Flush()
			}
		}
		if i == 0 && m.Abort == 2 {
			x.signalStarted(idx)
			select {
			case <-x.aborted[idx]:
			case <-time.After(c18Timeout):
			}
			time.Sleep(50 * time.Millisecond)
		}
	}
	want := c18RespTrailer(m, idx)
	if m.RespTr >= c18TrSpellBase {
		sp := c18TrSpellOf(m.RespTr)
		for _, name := range c18TrNames {
			for i, v := range want[name] {
				if i == 0 {
					h.Set(sp.setKey(name), v)
				} else {
					h.Add(sp.setKey(name), v)
				}
			}
		}
	}
	switch m.RespTr {
	case 1, 3:
		for k, v := range want {
			h[k] = append([]string(nil), v...)
		}
	case 2:
		for k, v := range want {
			h[http.TrailerPrefix+k] = append([]string(nil), v...)
		}
	}
	x.mu.Lock()
	o.done = true
	x.mu.Unlock()
}

// c18Body is the request body: it hands out one chunk per Read and can block (abort 1).
type c18Body struct {
	chunks  [][]byte
	i       int
	blockAt int // chunk index before which Read blocks until gate/closed; -1: never
	gate    <-chan struct{}
	closed  chan struct{}
	once    sync.Once
}

func (b *c18Body) Read(p []byte) (int, error) {
	if b.blockAt >= 0 && b.i >= b.blockAt {
		select {
		case <-b.gate:
		case <-b.closed:
		}
		return 0, errors.New("c18: request body source aborted")
	}
	for b.i < len(b.chunks) && len(b.chunks[b.i]) == 0 {
		b.i++
	}
	if b.i >= len(b.chunks) {
		return 0, io.EOF
	}
	n := copy(p, b.chunks[b.i])
	b.chunks[b.i] = b.chunks[b.i][n:]
	if len(b.chunks[b.i]) == 0 {
		b.i++
	}
	return n, nil
}

func (b *c18Body) Close() error {
	b.once.Do(func() { close(b.closed) })
	return nil
}

// request performs request #idx through net/http.Client.
func (x *c18Exec) request(parent context.Context, client *http.Client, idx int, abort func()) {
	m := x.msgs[idx]
	o := &x.cli[idx]
	o.started = true
	ctx, cancel := context.WithTimeout(parent, c18Timeout)
	defer cancel()
	trace := &httptrace.ClientTrace{Got1xxResponse: func(code int, header textproto.MIMEHeader) error {
		o.info = append(o.info, code)
		o.infoHdr = append(o.infoHdr, header)
		return nil
	}}
	ctx = httptrace.WithClientTrace(ctx, trace)
	data := c18Data(c18ReqSeed(idx), x.reqSize(idx))
	chunks := c18Chunks(data, m.ReqChunk)
	if m.Abort == 1 && len(chunks) == 1 {
		chunks = c18Chunks(data, 1)
	}
	var body io.Reader
	var rb *c18Body
	if !(x.reqSize(idx) == 0 && m.ReqCL == 1) {
		cp := make([][]byte, len(chunks))
		copy(cp, chunks)
		rb = &c18Body{chunks: cp, blockAt: -1, gate: ctx.Done(), closed: make(chan struct{})}
		if m.Abort == 1 {
			rb.blockAt = 1
		}
		body = rb
	}
	req, err := http.NewRequestWithContext(ctx, m.method(), "https://server.verif"+c18Paths[m.Path], body)
	if err != nil {
		x.fail("harness-newrequest", "%v", err)
		return
	}
	if cl := c18DeclaredCL(m.ReqCL, x.reqSize(idx)); cl >= 0 {
		req.ContentLength = cl
	}
	for k, v := range x.reqHeader(idx) {
		req.Header[k] = v
	}
	req.Header.Set("X-Idx", strconv.Itoa(idx))
	if tr := c18ReqTrailer(m, idx); tr != nil {
		req.Trailer = tr
	}
	if m.Abort == 1 {
		go func() {
			select {
			case <-x.started[idx]:
			case <-ctx.Done():
			}
			cancel()
			close(x.aborted[idx])
		}()
	}
	if m.Abort == 3 {
		go func() {
			select {
			case <-x.started[idx]:
			case <-ctx.Done():
			}
			abort()
			close(x.aborted[idx])
		}()
	}
	resp, err := client.Do(req)
	if err != nil {
		o.err = err
		if m.Abort == 2 {
			close(x.aborted[idx])
		}
		return
	}
	o.status = resp.StatusCode
	o.header = cloneHeader(resp.Header)
	o.contentLength = resp.ContentLength
	o.declaredCL = c18HeaderCL(resp.Header)
	if m.Abort == 2 {
		resp.Body.Close()
		close(x.aborted[idx])
		o.bodyErr = errors.New("c18: closed by the client")
		return
	}
	o.body, o.bodyErr, _ = c18ReadAll(resp.Body, c18RdBuf(m.Rd, false))
	o.bodyDone = true
	o.trailer = cloneHeader(resp.Trailer)
	resp.Body.Close()
}

type c18Outcome struct {
	fails      []*explore.Fail
	class      string
	datagrams  [2]int
	transcript []string
}

// c18Run executes one case. A case for the unchanged Server.ServeListener path is first
// executed under the harness accept loop: if the server side panics there (attributed to its
// site), that verdict is returned and the process-killing execution is not performed.
func c18Run(t *testing.T, c c18Case) c18Outcome {
	if c.Real && os.Getenv("VERIF_C18_NOPRERUN") == "" {
		pre := c
		pre.Real = false
		o := c18RunOne(t, pre)
		for _, f := range o.fails {
			if strings.HasPrefix(f.Key, "panic:") {
				o.class = "pre-run " + o.class
				return o
			}
		}
	}
	return c18RunOne(t, c)
}

// c18RunOne executes one case inside a fresh bubble.
func c18RunOne(t *testing.T, c c18Case) c18Outcome {
	var out c18Outcome
	m := c.Msg
	n := m.requests()
	followUp := m.Abort == 1 || m.Abort == 2
	total := n
	if followUp {
		total++
	}
	if c.Rej != nil {
		// N early-rejected uploads, then the n request(s) of the valid message
		explore.Must(m.Abort == 0 && len(c.Faults) == 0, "early-rejection histories take a message without aborts and no faults")
		total = c.Rej.N + n
	}
	x := &c18Exec{c: c, msgs: make([]c18Msg, total), srv: make([]c18SrvObs, total), cli: make([]c18CliObs, total), startOk: make([]bool, total)}
	if c.Rej != nil {
		x.rej = make([]int, total)
		for i := 0; i < total; i++ {
			if i < c.Rej.N {
				x.rej[i] = 1 + c.Rej.Kind
				x.msgs[i] = c18Msg{Gzip: m.Gzip, SLog: m.SLog, CLog: m.CLog, Kind: m.Kind}
			} else {
				x.msgs[i] = m
			}
		}
	}
	for i := 0; i < n && c.Rej == nil; i++ {
		x.msgs[i] = m
		if i > 0 {
			x.msgs[i].Abort = 0 // only request 0 is aborted
		}
	}
	if m.Abort == 3 {
		for i := range x.msgs {
			x.msgs[i].Abort = 3
		}
	}
	if followUp {
		x.msgs[n] = c18Msg{Gzip: m.Gzip, SLog: m.SLog, CLog: m.CLog, Kind: m.Kind}
	}
	var monFindings []wiremon.Finding
	ok := sim.Run(t, "run", c.Seed, func(t *testing.T) {
		for i := 0; i < total; i++ {
			x.started = append(x.started, make(chan struct{}))
			x.aborted = append(x.aborted, make(chan struct{}))
		}
		w := sim.NewWorld(c.Faults)
		qconf := &quic.Config{}
		if c.Rej != nil {
			qconf = c18RejConfig(c.Rej)
		}
		ln, err := w.Listen(w.ServerTLS(false), qconf)
		if err != nil {
			t.Fatal(err)
		}
		ctx, cancelAll := context.WithCancel(context.Background())
		srv := &Server{Handler: x, Logger: c18Logger(m.SLog)}
		if c.Rej != nil {
			srv.MaxHeaderBytes = c18RejMaxHeaderBytes
		}
		var swg sync.WaitGroup
		var connMu sync.Mutex
		var sconns, cconns []*quic.Conn
		serveDone := make(chan struct{})
		if c.Real {
			go func() {
				defer close(serveDone)
				srv.ServeListener(ln)
			}()
		} else {
			go func() {
				defer close(serveDone)
				for {
					conn, err := ln.Accept(ctx)
					if err != nil {
						return
					}
					connMu.Lock()
					sconns = append(sconns, conn)
					connMu.Unlock()
					swg.Add(1)
					go func() {
						defer swg.Done()
						c18ServeConn(x, srv, conn, &swg)
					}()
				}
			}()
		}

		// ---- client
		kind := sim.Plain
		if m.Kind == 1 {
			kind = sim.Parrot("chrome115", quic.QUICChrome_115)
		}
		d, _, _ := w.NewDialer(kind)
		tr := &Transport{
			TLSClientConfig:    w.ClientTLS(),
			DisableCompression: m.Gzip == 0,
			Logger:             c18Logger(m.CLog),
			Dial: func(ctx context.Context, addr string, tlsCfg *tls.Config, cfg *quic.Config) (*quic.Conn, error) {
				conn, err := d.Dial(ctx, w.ServerAddr, tlsCfg, cfg)
				if conn != nil {
					// the Transport forgets (without closing) a connection on which a request failed
					connMu.Lock()
					cconns = append(cconns, conn)
					x.conns++
					connMu.Unlock()
				}
				return conn, err
			},
		}
		client := &http.Client{Transport: tr}
		var abortOnce sync.Once
		abort := func() { abortOnce.Do(func() { tr.Close() }) }
		var cwg sync.WaitGroup
		first := 0
		if c.Rej != nil {
			// the rejected uploads: one after the other, or all at once; the valid message afterwards
			first = c.Rej.N
			for i := 0; i < first; i++ {
				if c.Rej.Par == 0 {
					x.request(ctx, client, i, abort)
					continue
				}
				cwg.Add(1)
				go func() {
					defer cwg.Done()
					x.request(ctx, client, i, abort)
				}()
			}
			cwg.Wait()
			if c.Rej.Wait == 1 {
				time.Sleep(3 * time.Second) // virtual
			}
		}
		for i := first; i < first+n; i++ {
			cwg.Add(1)
			go func() {
				defer cwg.Done()
				x.request(ctx, client, i, abort)
			}()
		}
		cwg.Wait()
		if followUp {
			x.request(ctx, client, n, abort)
		}
		// let the server side finish what it is doing (bounded, virtual time)
		deadline := time.Now().Add(c18Timeout)
		for time.Now().Before(deadline) {
			x.mu.Lock()
			busy := false
			for i := range x.srv {
				if x.srv[i].calls > 0 && !x.srv[i].done {
					busy = true
				}
			}
			x.mu.Unlock()
			if !busy {
				break
			}
			time.Sleep(20 * time.Millisecond)
		}
		time.Sleep(20 * time.Millisecond)

		// ---- teardown
		tr.Close()
		connMu.Lock()
		for _, cc := range cconns {
			cc.CloseWithError(0, "")
		}
		connMu.Unlock()
		d.Close()
		cancelAll()
		if c.Real {
			srv.Close()
		}
		connMu.Lock()
		for _, sc := range sconns {
			sc.CloseWithError(0, "")
		}
		connMu.Unlock()
		ln.Close()
		w.ServerTr.Close()
		<-serveDone
		swg.Wait()
		monFindings = wiremon.Analyze(w.Router.FullLog(), w.KeyLog.Lines(), wiremon.Params{}).Findings
		out.datagrams = [2]int{w.Router.Count(sim.C2S), w.Router.Count(sim.S2C)}
		out.transcript = w.Router.Transcript()
	})
	x.judge()
	out.fails = x.fails
	// passive wire monitor (QUIC level underneath the HTTP/3 exchange)
	for _, f := range monFindings {
		out.fails = append(out.fails, explore.Failf(f.Key, "%s", f.What))
	}
	if !ok && len(out.fails) == 0 {
		out.fails = append(out.fails, explore.Failf("bubble-failed", "the bubble did not terminate cleanly for %v", c))
	}
	out.class = x.class()
	return out
}

// c18ServeConn is Server.handleConn without the graceful-shutdown logic and with a recover
// around each stream handler so that a panic is attributed to its site.
func c18ServeConn(x *c18Exec, srv *Server, conn *quic.Conn, wg *sync.WaitGroup) {
	hconn, err := srv.NewRawServerConn(conn)
	if err != nil {
		return
	}
	wg.Add(1)
	go func() {
		defer wg.Done()
		for {
			str, err := conn.AcceptUniStream(context.Background())
			if err != nil {
				return
			}
			wg.Add(1)
			go func() {
				defer wg.Done()
				x.guard("RawServerConn.HandleUnidirectionalStream", func() { hconn.HandleUnidirectionalStream(str) })
			}()
		}
	}()
	for {
		str, err := conn.AcceptStream(context.Background())
		if err != nil {
			return
		}
		wg.Add(1)
		go func() {
			defer wg.Done()
			x.guard("RawServerConn.HandleRequestStream", func() { hconn.HandleRequestStream(str) })
		}()
	}
}

func c18ErrClass(err error) string {
	if err == nil {
		return "ok"
	}
	s := err.Error()
	for _, p := range []string{"H3_REQUEST_CANCELLED", "H3_MESSAGE_ERROR", "H3_INTERNAL_ERROR", "H3_NO_ERROR", "H3_FRAME_UNEXPECTED", "context canceled", "deadline exceeded", "peer sent too much data", "Application error 0x0", "timeout", "closed by the client", "unexpected EOF", "gzip"} {
		if strings.Contains(s, p) {
			return p
		}
	}
	if len(s) > 40 {
		s = s[:40]
	}
	return s
}

func c18Bucket(n int) string {
	switch {
	case n == 0:
		return "0"
	case n == 1:
		return "1"
	case n < 4096:
		return "<4k"
	case n < 20000:
		return "<20k"
	}
	return ">=20k"
}

func (x *c18Exec) class() string {
	var sb strings.Builder
	m := x.c.Msg
	fmt.Fprintf(&sb, "%s k%d n%d ab%d", m.method(), m.Kind, m.requests(), m.Abort)
	so, co := x.srv[0], x.cli[0]
	if r := x.c.Rej; r != nil {
		// the rejected uploads (what the client was told), then the valid exchange
		fmt.Fprintf(&sb, " rej[%s n%d b%s cfg%d par%d w%d conns=%d:", c18RejKinds[r.Kind], r.N, c18Bucket(r.Body), r.Cfg, r.Par, r.Wait, x.conns)
		for i := 0; i < r.N; i++ {
			fmt.Fprintf(&sb, " %d/%s/%s", x.cli[i].status, c18ErrClass(x.cli[i].err), c18ErrClass(x.cli[i].bodyErr))
		}
		sb.WriteString("]")
		so, co = x.srv[r.N], x.cli[r.N]
	}
	fmt.Fprintf(&sb, " srv[calls=%d body=%s/%s tr=%d w=%s/%s]", so.calls, c18Bucket(len(so.body)), c18ErrClass(so.bodyErr), len(so.trailer), c18Bucket(len(so.written)), c18ErrClass(so.writeErr))
	fmt.Fprintf(&sb, " cli[%s st=%d 1xx=%d body=%s/%s tr=%d]", c18ErrClass(co.err), co.status, len(co.info), c18Bucket(len(co.body)), c18ErrClass(co.bodyErr), len(co.trailer))
	if len(x.fails) > 0 {
		sb.WriteString(" FAIL")
	}
	return sb.String()
}

var c18IgnoreReqHdr = map[string]bool{"User-Agent": true, "Accept-Encoding": true, "Content-Length": true, "X-Idx": true}
var c18IgnoreRespHdr = map[string]bool{"Date": true, "Content-Type": true, "Content-Length": true}

// judge evaluates the reference model on what both sides observed.
func (x *c18Exec) judge() {
	for idx := range x.msgs {
		m := x.msgs[idx]
		so, co := &x.srv[idx], &x.cli[idx]
		if !co.started {
			continue
		}
		isFollowUp := idx >= x.c.Msg.requests()
		rejected := x.rejKind(idx) >= 0
		if x.c.Rej != nil {
			isFollowUp = !rejected
		}
		tag := fmt.Sprintf("request %d of [%v]", idx, x.c)
		reqData := c18Data(c18ReqSeed(idx), x.reqSize(idx))
		respPlain := c18Data(c18RespSeed(idx), m.respSize())
		if rejected && (so.calls == 0 || so.early != 0) {
			// an early answer. The statement is silent about the server's own 431 (status and
			// delivery are outcomes, not verdicts); what the HANDLER saw and wrote must be exact.
			x.judgeEarly(idx, tag, reqData)
			continue
		}

		// ---- receiver-side Content-Length agreement (always)
		if so.calls > 0 && so.bodyDone && so.declaredCL >= 0 {
			if int64(len(so.body)) > so.declaredCL {
				x.fail("long-body-silent:request", "%s: handler read %d body bytes although the request declared Content-Length %d", tag, len(so.body), so.declaredCL)
			} else if so.bodyErr == nil && int64(len(so.body)) < so.declaredCL {
				x.fail("short-body-silent-eof:request", "%s: handler's Request.Body ended in plain io.EOF after %d bytes although the request declared Content-Length %d (silent truncation)", tag, len(so.body), so.declaredCL)
			}
		}
		clientBodyExpected := m.method() != "HEAD" && co.status != 204 && co.status != 304
		if co.err == nil && co.bodyDone && co.declaredCL >= 0 && clientBodyExpected {
			if int64(len(co.body)) > co.declaredCL {
				x.fail("long-body-silent:response", "%s: client read %d body bytes although the response declared Content-Length %d", tag, len(co.body), co.declaredCL)
			} else if co.bodyErr == nil && int64(len(co.body)) < co.declaredCL {
				x.fail("short-body-silent-eof:response", "%s: Response.Body ended in plain io.EOF after %d bytes although the response declared Content-Length %d (silent truncation)", tag, len(co.body), co.declaredCL)
			}
		}

		// ---- nothing is ever altered: prefixes (always)
		if so.calls > 0 && !bytes.HasPrefix(reqData, so.body) {
			x.fail("request-body-altered", "%s: the %d bytes the handler read are not a prefix of the %d bytes the client sent", tag, len(so.body), len(reqData))
		}
		if co.err == nil && !bytes.HasPrefix(respPlain, co.body) {
			x.fail("response-body-altered", "%s: the %d bytes the client read are not a prefix of the %d bytes the handler wrote", tag, len(co.body), len(respPlain))
		}

		// ---- request line and header fields as seen by the handler (always, once called)
		if so.calls > 0 {
			if so.method != m.method() {
				x.fail("request-line-altered:method", "%s: handler saw method %q, sent %q", tag, so.method, m.method())
			}
			if so.host != "server.verif" {
				x.fail("request-line-altered:host", "%s: handler saw Host %q, sent %q", tag, so.host, "server.verif")
			}
			if m.method() != "CONNECT" {
				wantPath, wantQuery := "/", ""
				if m.Path == 1 {
					wantPath, wantQuery = "/a", "b=c"
				}
				if so.path != wantPath || so.query != wantQuery || so.reqURI != c18Paths[m.Path] {
					x.fail("request-line-altered:url", "%s: handler saw path %q query %q RequestURI %q, sent %q", tag, so.path, so.query, so.reqURI, c18Paths[m.Path])
				}
			}
			if d := c18HeaderDiff("request header", x.reqHeader(idx), so.header, c18IgnoreReqHdr, true); d != "" {
				x.fail("request-header-altered", "%s: %s", tag, d)
			}
			if cl := c18DeclaredCL(m.ReqCL, x.reqSize(idx)); cl > 0 && so.contentLength != cl {
				x.fail("request-header-altered:content-length", "%s: handler saw ContentLength %d, client declared %d", tag, so.contentLength, cl)
			}
		}

		// ---- status and header fields as seen by the client (whenever a response arrived)
		if co.err == nil {
			if co.status != m.status() {
				x.fail("status-altered", "%s: client saw status %d, handler wrote %d", tag, co.status, m.status())
			}
			ign := map[string]bool{}
			for k := range c18IgnoreRespHdr {
				ign[k] = true
			}
			if d := c18HeaderDiff("response header", c18RespHeader(m, idx), co.header, ign, false); d != "" {
				x.fail("response-header-altered"+c18RespTrKey(m), "%s: %s", tag, d)
			}
			if m.Status == 3 {
				if len(co.info) != 1 || co.info[0] != 103 || len(co.infoHdr[0]["Link"]) != 1 || co.infoHdr[0]["Link"][0] != c18RespHeader(m, idx).Get("Link") {
					x.fail("1xx-altered", "%s: handler wrote 103 with a Link field, client trace saw %v %v", tag, co.info, co.infoHdr)
				}
			} else if len(co.info) != 0 {
				x.fail("1xx-altered", "%s: client saw informational responses %v that were never written", tag, co.info)
			}
			if cl := c18DeclaredCL(m.RespCL, m.respSize()); cl >= 0 && !so.gz && m.Gzip == 0 && clientBodyExpected {
				if co.contentLength != cl {
					x.fail("response-header-altered:content-length", "%s: client saw ContentLength %d, handler declared %d", tag, co.contentLength, cl)
				}
			}
		}

		// ---- Content-Length smaller than the body: the surplus must not vanish silently
		if m.Abort == 0 && m.ReqCL == 2 && so.calls > 0 && so.bodyDone && so.bodyErr == nil && co.err == nil {
			x.fail("long-body-silently-cut:request", "%s: the client was given %d body bytes with ContentLength %d; the handler read %d bytes and io.EOF and RoundTrip reported no error", tag, len(reqData), m.reqSize()-1, len(so.body))
		}
		if m.Abort == 0 && m.RespCL == 2 && m.respBodyExpected() && co.err == nil && co.bodyDone && co.bodyErr == nil && so.done && so.writeErr == nil && !so.gz {
			x.fail("long-body-silently-cut:response", "%s: the handler wrote %d body bytes with Content-Length %d without any Write error and the client read %d bytes and io.EOF", tag, len(so.written), m.respSize()-1, len(co.body))
		}

		// ---- completeness of clean exchanges
		if (!m.clean() && !isFollowUp) || rejected {
			continue
		}
		keyPfx := ""
		if isFollowUp {
			keyPfx = "followup-after-abort:"
			if x.c.Rej != nil {
				// the class of the history that preceded the exchange on this connection
				keyPfx = fmt.Sprintf("after-early-reject:%s:%s:", c18RejKinds[x.c.Rej.Kind], c18RejCfgs[x.c.Rej.Cfg])
			}
		}
		if so.calls == 0 {
			x.fail(keyPfx+"exchange-incomplete:handler-not-called", "%s: the handler was never called (client error: %v)", tag, co.err)
			continue
		}
		if so.bodyErr != nil {
			x.fail(keyPfx+"exchange-incomplete:request-body-error", "%s: handler's body read failed after %d of %d bytes: %v", tag, len(so.body), len(reqData), so.bodyErr)
		} else if len(so.body) != len(reqData) {
			x.fail(keyPfx+"request-body-truncated", "%s: handler read %d bytes and io.EOF, client sent %d", tag, len(so.body), len(reqData))
		} else if d := c18TrailerDiff("request trailer", c18ReqTrailer(m, idx), so.trailer); d != "" {
			x.fail(keyPfx+"request-trailer-altered", "%s: %s", tag, d)
		}
		if co.err != nil {
			x.fail(keyPfx+"exchange-incomplete:roundtrip-error", "%s: client.Do failed: %v", tag, co.err)
			continue
		}
		want := respPlain
		if !m.respBodyExpected() {
			want = nil
		} else if so.writeErr != nil {
			x.fail(keyPfx+"exchange-incomplete:handler-write-error", "%s: ResponseWriter.Write failed after %d bytes: %v", tag, len(so.written), so.writeErr)
			continue
		}
		if co.bodyErr != nil {
			x.fail(keyPfx+"exchange-incomplete:response-body-error", "%s: reading Response.Body failed after %d of %d bytes: %v", tag, len(co.body), len(want), co.bodyErr)
			continue
		}
		if len(co.body) != len(want) {
			x.fail(keyPfx+"response-body-truncated", "%s: client read %d bytes and io.EOF, handler wrote %d", tag, len(co.body), len(want))
			continue
		}
		if m.respBodyExpected() {
			if d := c18TrailerDiff("response trailer", c18RespTrailer(m, idx), co.trailer); d != "" {
				x.fail(keyPfx+"response-trailer-altered"+c18RespTrKey(m), "%s: %s", tag, d)
			}
		}
	}
}

// judgeEarly: a rejected upload that was answered early (by the server itself: handler never
// called; or by the handler, before it read the body).
func (x *c18Exec) judgeEarly(idx int, tag string, reqData []byte) {
	m := x.msgs[idx]
	so, co := &x.srv[idx], &x.cli[idx]
	if so.calls > 0 {
		if !bytes.HasPrefix(reqData, so.body) {
			x.fail("request-body-altered", "%s: the %d bytes the handler read are not a prefix of the %d bytes the client sent", tag, len(so.body), len(reqData))
		}
		if so.method != m.method() || so.host != "server.verif" || so.reqURI != c18Paths[m.Path] {
			x.fail("request-line-altered:early", "%s: handler saw %q %q %q", tag, so.method, so.host, so.reqURI)
		}
		if d := c18HeaderDiff("request header", x.reqHeader(idx), so.header, c18IgnoreReqHdr, true); d != "" {
			x.fail("request-header-altered", "%s: %s", tag, d)
		}
	}
	if co.err != nil || so.early == 0 {
		return
	}
	// the response the client was given is the one the handler wrote
	if co.status != so.early {
		x.fail("status-altered:early", "%s: client saw status %d, handler wrote %d", tag, co.status, so.early)
	}
	if d := c18HeaderDiff("response header", http.Header{"X-Early": {strconv.Itoa(idx)}}, co.header, c18IgnoreRespHdr, false); d != "" {
		x.fail("response-header-altered:early", "%s: %s", tag, d)
	}
	if !bytes.HasPrefix(so.written, co.body) {
		x.fail("response-body-altered:early", "%s: the client read %q, the handler wrote %q", tag, co.body, so.written)
	} else if co.bodyDone && co.bodyErr == nil && so.writeErr == nil && len(co.body) != len(so.written) {
		x.fail("response-body-truncated:early", "%s: client read %d bytes and io.EOF, handler wrote %d", tag, len(co.body), len(so.written))
	}
}
