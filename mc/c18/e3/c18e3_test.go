package http3

// C18 E3: "many concurrent requests on one connection" under lock-point exploration.
//
// The E2 parts run concurrent requests under the Go runtime's own schedule. Here the request
// streams of ONE real server connection (real quic.Conn pair over the simulated network, real
// Server.NewRawServerConn with Server.IdleTimeout set) are handled by scheduler threads - one
// RawServerConn.HandleRequestStream call per step, exactly what Server.handleConn starts as
// `go hconn.HandleRequestStream(str)` - and http3/conn.go (the per-connection stream table
// rawConn.streams under streamMx, with the "last stream is gone" notification that re-arms the
// server's idle timer / lets a client that received GOAWAY close the connection) is rebuilt
// against mc/lib/vsync: every Lock and every Unlock of that file is a scheduler point, every
// schedule with at most two [thorough: four] preemptions is executed.
//
// Handlers are fast (return at once) or slow (block until released by another thread's step or
// at the end of the schedule). Virtual time does not move while the threads are scheduled; in
// every quiescent state in which a handler is blocked inside ServeHTTP (and nothing else is in
// flight) the harness lets 2 x Server.IdleTimeout of virtual time pass: a request that is being
// handled is not idle, whatever the order in which the other requests of the connection came
// and went.
//
// Oracle (property text only): the handler sees exactly the method, header field and body bytes
// the client sent; the client sees exactly the status, header field and body bytes the handler
// wrote, for EVERY request of the connection - so the server must not close the connection
// under a handler that has not written its response yet; no panic (worker exit).

import (
	"bytes"
	"context"
	"encoding/json"
	"fmt"
	"io"
	"net/http"
	"strconv"
	"sync"
	"sync/atomic"
	"testing"
	"testing/synctest"
	"time"

	quic "github.com/refraction-networking/uquic"
	"github.com/refraction-networking/uquic/internal/verifmc/explore"
	"github.com/refraction-networking/uquic/internal/verifmc/sched"
	"github.com/refraction-networking/uquic/internal/verifmc/sim"
	"github.com/refraction-networking/uquic/internal/verifmc/vsync"
)

const (
	c18e3Idle     = time.Second // Server.IdleTimeout
	c18e3ReqBody  = 20
	c18e3RespBody = 50
)

type c18e3Variant struct {
	Name string
	// Slow[i]: the handler of request i blocks until released
	Slow []bool
	// steps: h<i> = RawServerConn.HandleRequestStream(request stream i) | rel<i> = release the handler of request i
	Threads [][]string
}

// Every thread mix lets each step become enabled (a slow handler is the last step of its
// thread unless another thread releases it), so that at the end of a schedule every request
// has been handled.
var c18e3Variants = []c18e3Variant{
	{"fast|slow", []bool{false, true}, [][]string{{"h0"}, {"h1"}}},
	{"fast|fast", []bool{false, false}, [][]string{{"h0"}, {"h1"}}},
	{"fast-slow|fast", []bool{false, false, true}, [][]string{{"h0", "h2"}, {"h1"}}},
	{"fast|fast|slow", []bool{false, false, true}, [][]string{{"h0"}, {"h1"}, {"h2"}}},
	{"slow|fast|release", []bool{true, false}, [][]string{{"h0"}, {"h1"}, {"rel0"}}},
	{"slow-fast|slow|release", []bool{true, true, false}, [][]string{{"h0", "h2"}, {"h1"}, {"rel0"}}},
	{"fast-fast|fast-slow", []bool{false, false, false, true}, [][]string{{"h0", "h2"}, {"h1", "h3"}}},
	{"slow|slow|release-release", []bool{true, true}, [][]string{{"h0"}, {"h1"}, {"rel0", "rel1"}}},
}

type c18e3Replay struct {
	Variant int   `json:"variant"`
	Choices []int `json:"choices"`
}

// c18e3Free: set at the end of a schedule; lock points no longer hold threads back (the rest of
// the execution runs under the Go scheduler). One execution at a time per process.
var c18e3Free atomic.Bool

func c18e3Point() {
	if c18e3Free.Load() {
		return
	}
	sched.Point()
}

type c18e3Req struct {
	// server side (under c18e3World.mu)
	calls   int
	running bool
	method  string
	xone    string
	body    []byte
	bodyErr error
	// client side
	done chan struct{} // the client's reader has seen the end of the response stream
	data []byte
	rerr error
}

type c18e3World struct {
	v       c18e3Variant
	mu      sync.Mutex
	reqs    []*c18e3Req
	release []chan struct{}
	relOnce []sync.Once
}

func (x *c18e3World) rel(i int) { x.relOnce[i].Do(func() { close(x.release[i]) }) }

func (x *c18e3World) running() int {
	x.mu.Lock()
	defer x.mu.Unlock()
	n := 0
	for _, r := range x.reqs {
		if r.running {
			n++
		}
	}
	return n
}

func c18e3Status(slow bool) int {
	if slow {
		return http.StatusTeapot
	}
	return http.StatusOK
}

func (x *c18e3World) ServeHTTP(w http.ResponseWriter, r *http.Request) {
	idx, err := strconv.Atoi(r.Header.Get("X-Idx"))
	if err != nil || idx < 0 || idx >= len(x.reqs) {
		w.WriteHeader(http.StatusBadRequest)
		return
	}
	body, berr := io.ReadAll(r.Body)
	q := x.reqs[idx]
	x.mu.Lock()
	q.calls++
	q.method, q.xone, q.body, q.bodyErr = r.Method, r.Header.Get("X-One"), body, berr
	q.running = true
	x.mu.Unlock()
	if x.v.Slow[idx] {
		<-x.release[idx]
	}
	x.mu.Lock()
	q.running = false
	x.mu.Unlock()
	w.Header().Set("X-Resp", fmt.Sprintf("r%d", idx))
	w.WriteHeader(c18e3Status(x.v.Slow[idx]))
	w.Write(c18Data(c18RespSeed(idx), c18e3RespBody))
}

func c18e3Scenario(v c18e3Variant) func() *sched.Scenario {
	return func() *sched.Scenario {
		c18e3Free.Store(false)
		n := len(v.Slow)
		x := &c18e3World{v: v, release: make([]chan struct{}, n), relOnce: make([]sync.Once, n)}
		for i := 0; i < n; i++ {
			x.reqs = append(x.reqs, &c18e3Req{done: make(chan struct{})})
			x.release[i] = make(chan struct{})
		}
		// --- set-up (the driver goroutine may block here: virtual time moves) ---
		w := sim.NewWorld(nil)
		qconf := &quic.Config{MaxIdleTimeout: time.Hour}
		ln, err := w.Listen(w.ServerTLS(false), qconf)
		explore.Must(err == nil, "listen: %v", err)
		ctx, cancelAll := context.WithCancel(context.Background())
		d, _, _ := w.NewDialer(sim.Plain)
		cconn, err := d.Dial(ctx, w.ServerAddr, w.ClientTLS(), qconf)
		explore.Must(err == nil, "dial: %v", err)
		sconn, err := ln.Accept(ctx)
		explore.Must(err == nil, "accept: %v", err)
		srv := &Server{Handler: x, IdleTimeout: c18e3Idle}
		hconn, err := srv.NewRawServerConn(sconn)
		explore.Must(err == nil, "NewRawServerConn: %v", err)
		var free sync.WaitGroup
		free.Add(1)
		go func() { // unidirectional streams, as in Server.handleConn
			defer free.Done()
			for {
				str, err := sconn.AcceptUniStream(ctx)
				if err != nil {
					return
				}
				free.Add(1)
				go func() { defer free.Done(); hconn.HandleUnidirectionalStream(str) }()
			}
		}()
		// the scripted client: control stream with SETTINGS, then the requests (HEADERS, DATA, FIN)
		ctrl, err := cconn.OpenUniStream()
		explore.Must(err == nil, "client control stream: %v", err)
		_, err = ctrl.Write(append([]byte{0x0}, c18SettingsBytes()...))
		explore.Must(err == nil, "client SETTINGS: %v", err)
		sstrs := make([]*quic.Stream, n)
		for i := 0; i < n; i++ {
			str, err := cconn.OpenStream()
			explore.Must(err == nil, "client stream %d: %v", i, err)
			msg := append(c18ReqHeadersFrame(i, c18e3ReqBody).bytes(), c18Frame{T: 0x0, P: c18Data(c18ReqSeed(i), c18e3ReqBody)}.bytes()...)
			_, err = str.Write(msg)
			explore.Must(err == nil, "client request %d: %v", i, err)
			explore.Must(str.Close() == nil, "client FIN %d", i)
			q := x.reqs[i]
			free.Add(1)
			go func() {
				defer free.Done()
				q.data, q.rerr = io.ReadAll(str)
				close(q.done)
			}()
			sstrs[i], err = sconn.AcceptStream(ctx)
			explore.Must(err == nil, "server accept stream %d: %v", i, err)
			explore.Must(sstrs[i].StreamID() == str.StreamID(), "stream order")
		}
		time.Sleep(10 * sim.OneWay) // every request has fully arrived; far less than the idle timeout
		synctest.Wait()
		explore.Must(sconn.Context().Err() == nil, "connection closed during set-up: %v", context.Cause(sconn.Context()))

		// --- threads ---
		started := make([]bool, n) // HandleRequestStream(i) was called
		var fail *explore.Fail
		step := func(name string) func() {
			if name[0] == 'h' {
				i, _ := strconv.Atoi(name[1:])
				return func() { started[i] = true; hconn.HandleRequestStream(sstrs[i]) }
			}
			i, _ := strconv.Atoi(name[3:])
			return func() { x.rel(i) }
		}
		var threads []sched.Thread
		for ti, t := range v.Threads {
			var steps []func()
			for _, s := range t {
				steps = append(steps, step(s))
			}
			threads = append(threads, sched.Thread{Name: fmt.Sprintf("T%d:%s", ti, t[0]), Steps: steps})
		}
		nBlocked := 0
		closedUnderHandler := func(when string) *explore.Fail {
			if sconn.Context().Err() == nil {
				return nil
			}
			return explore.Failf("e3:connection-closed-under-handler:"+v.Name, "%s: %s: the server connection is closed (%v) while %d request handler(s) are inside ServeHTTP and have not written their response yet: the client cannot see what the handler writes", v.Name, when, context.Cause(sconn.Context()), x.running())
		}
		// idleCheck: a handler is blocked inside ServeHTTP and nothing else is in flight: let more
		// than the idle timeout pass. (Only then: the sleep must not move a scheduler thread.)
		idleCheck := func(when string) *explore.Fail {
			if r := x.running(); r == 0 || r != nBlocked {
				return nil
			}
			if f := closedUnderHandler(when); f != nil {
				return f
			}
			time.Sleep(2 * c18e3Idle)
			synctest.Wait()
			return closedUnderHandler(when + ", " + (2 * c18e3Idle).String() + " later")
		}
		judge := func() *explore.Fail {
			for i, q := range x.reqs {
				if !started[i] {
					continue
				}
				x.mu.Lock()
				calls, method, xone, body, berr := q.calls, q.method, q.xone, q.body, q.bodyErr
				x.mu.Unlock()
				if calls != 1 {
					return explore.Failf("e3:handler-calls:"+v.Name, "%s: request %d reached the handler %d times", v.Name, i, calls)
				}
				if method != "POST" || xone != fmt.Sprintf("v1-q%d", i) || berr != nil || !bytes.Equal(body, c18Data(c18ReqSeed(i), c18e3ReqBody)) {
					return explore.Failf("e3:request-altered:"+v.Name, "%s: the handler of request %d saw method %q x-one %q body %x (err %v)", v.Name, i, method, xone, body, berr)
				}
				select {
				case <-q.done:
				default:
					return explore.Failf("e3:response-incomplete:"+v.Name, "%s: the response to request %d has not ended at the client although its handler returned (connection: %v)", v.Name, i, context.Cause(sconn.Context()))
				}
				if q.rerr != nil {
					return explore.Failf("e3:response-lost:"+v.Name, "%s: reading the response to request %d failed: %v (after %d bytes)", v.Name, i, q.rerr, len(q.data))
				}
				rsp := c18ParseResponse(q.data)
				want := strconv.Itoa(c18e3Status(v.Slow[i]))
				if rsp.err != nil || rsp.status != want || rsp.header.Get("x-resp") != fmt.Sprintf("r%d", i) || !bytes.Equal(rsp.body, c18Data(c18RespSeed(i), c18e3RespBody)) {
					return explore.Failf("e3:response-altered:"+v.Name, "%s: the client received for request %d: status %q x-resp %q body %x (parse error %v); the handler wrote %s, r%d and %d pattern bytes", v.Name, i, rsp.status, rsp.header.Get("x-resp"), rsp.body, rsp.err, want, i, c18e3RespBody)
				}
			}
			return nil
		}
		var once sync.Once
		return &sched.Scenario{
			Threads: threads,
			Observe: func(blocked []string) { nBlocked = len(blocked) },
			AfterStep: func() *explore.Fail {
				if fail == nil {
					fail = idleCheck("between two steps")
				}
				return fail
			},
			Final: func(blocked []string) *explore.Fail {
				if fail != nil {
					return fail
				}
				c18e3Free.Store(true)
				if x.running() > 0 {
					time.Sleep(2 * c18e3Idle)
					synctest.Wait()
					if fail = closedUnderHandler("end of the schedule, " + (2 * c18e3Idle).String() + " later"); fail != nil {
						return fail
					}
				}
				for i := range x.release {
					x.rel(i)
				}
				time.Sleep(c18e3Idle / 2)
				synctest.Wait()
				fail = judge()
				return fail
			},
			Cleanup: func() {
				once.Do(func() {
					c18e3Free.Store(true)
					for i := range x.release {
						x.rel(i)
					}
					cancelAll()
					cconn.CloseWithError(quic.ApplicationErrorCode(ErrCodeNoError), "")
					hconn.CloseWithError(quic.ApplicationErrorCode(ErrCodeNoError), "")
					d.Close()
					ln.Close()
					w.ServerTr.Close()
					w.CloseEndpoints()
				})
			},
			Outcome: func() string {
				s := ""
				for i, q := range x.reqs {
					x.mu.Lock()
					s += fmt.Sprintf("r%d[calls=%d resp=%d]", i, q.calls, len(q.data))
					x.mu.Unlock()
				}
				if fail != nil {
					s += " FAIL"
				}
				return s
			},
		}
	}
}

func TestVerifC18E3(t *testing.T) {
	sim.InitCerts(t)
	vsync.Hook = c18e3Point
	vsync.UnlockHook = c18e3Point
	name := "e3-conn-streams"
	part := explore.Part{
		Name: name,
		Run: func(e explore.Env) *explore.Report {
			rep := &explore.Report{Level: "exploration", Exhaustive: true}
			bound := 2
			if e.Thorough() {
				bound = 4
			}
			outcomes := map[string]bool{}
			for vi, v := range c18e3Variants {
				if !e.Mine(vi) {
					continue
				}
				explore.MarkCurrent(e, name, c18e3Replay{Variant: vi})
				r := sched.ExploreBounded(t, e, bound, 0, c18e3Scenario(v))
				rep.Evaluations += r.Executions
				rep.Transitions += r.Steps
				for o := range r.Outcomes {
					outcomes[v.Name+": "+o] = true
				}
				if r.Capped {
					rep.Exhaustive = false
					rep.Caps = append(rep.Caps, "deadline in "+v.Name)
				}
				if r.Fail != nil {
					rep.Violations = append(rep.Violations, explore.Violation{Key: r.Fail.Key, What: r.Fail.What, Replay: explore.JSON(c18e3Replay{vi, r.FailChoice}), Human: r.FailTrace})
				}
				rep.Samples = append(rep.Samples, fmt.Sprintf("%s: %d schedules", v.Name, r.Executions))
			}
			explore.ClearCurrent(e)
			for o := range outcomes {
				rep.Outcomes = append(rep.Outcomes, o)
			}
			rep.OutcomesN = int64(len(rep.Outcomes))
			rep.Traces = rep.Transitions
			rep.Rule = fmt.Sprintf("%d thread mixes of RawServerConn.HandleRequestStream calls (fast handlers and handlers that block until released) on the 2-4 request streams of one real server connection with Server.IdleTimeout = %v (real QUIC connection pair over the simulated network, scripted client), every mutex Lock and Unlock of http3/conn.go a scheduler point (file import-rewritten to vsync from the working tree): every schedule with at most %d preemptions; %v of virtual time pass in every quiescent state in which a handler is blocked inside ServeHTTP", len(c18e3Variants), c18e3Idle, bound, 2*c18e3Idle)
			rep.Bound = fmt.Sprintf("preemption bound %d completed", bound)
			return rep
		},
		Replay: func(e explore.Env, raw json.RawMessage) *explore.Violation {
			var rp c18e3Replay
			if err := json.Unmarshal(raw, &rp); err != nil {
				t.Fatal(err)
			}
			f, trace := sched.Replay(t, c18e3Scenario(c18e3Variants[rp.Variant]), rp.Choices)
			if f == nil {
				return nil
			}
			return &explore.Violation{Key: f.Key, What: f.What, Human: trace}
		},
	}
	explore.Main("C18", []explore.Part{part}, func(msg string) { t.Fatal(msg) })
}
