# ./check configuration for C18 (merged by mc/props.py)
PROP = dict(
    pkg="http3", test="TestVerifC18", files=["mc/c18/*.go"], libs=["explore", "canon", "sim", "wireobs"],
    engine="E2 simx", level="fault_enumeration", shards="ncpu", gomaxprocs=1,
    env={"GODEBUG": "randseednop=0,asyncpreemptoff=1"},
    deterministic=False,
    crash_is_violation=True,
    deadline=dict(quick=75, thorough=780),
    rule="real http3.Server side (RawServerConn / Server.ServeListener) and real http3.Transport (+ net/http.Client) or a scripted raw QUIC peer, joined by a fault-injecting router inside a synctest bubble; one execution per (message, abort point, fault map, byte split)",
    assumptions=["goroutine interleavings inside the endpoints are chosen by the Go runtime (GOMAXPROCS=1), not enumerated; oracles are schedule-independent",
                 "crypto/rand pinned per run with cryptotest.SetGlobalRandom; math/rand seeded",
                 "bounded liveness: with <= 2 datagram faults (drop / duplicate / delay) an exchange must finish within 30 s of virtual time",
                 "request-stream handling runs under the harness's own accept loop around RawServerConn.HandleRequestStream (identical to Server.handleConn except for a recover that attributes a panic to its call site); the part `real-server` runs clean exchanges through Server.ServeListener unchanged"],
    level_text="Bounded-exhaustive enumeration on the real HTTP/3 client and server: (A) every message that deviates from a default request/response in one dimension (quick) or two dimensions (thorough) of a 19-dimension lattice (method, path, header multisets, body sizes x write chunking, Content-Length agreement in both directions, trailers, status incl. 1xx, gzip, concurrency, loggers nil/set, client kind, abort point), (B) every schedule of <= 1 (quick) / <= 2 (thorough) datagram faults over all datagrams of an exchange, handshake included, (C) a scripted raw QUIC peer writing request-stream / unidirectional-stream byte strings split at every byte boundary and aborted at every frame boundary, against a reference model of what net/http semantics and RFC 9114 require the handler / client / peer to observe. The statement is a for-all over messages, chunkings, frame boundaries and fault schedules, which is exactly what is enumerated inside the stated bound.",
    level_note="Trusted: testutils/simnet + testing/synctest virtual time; the byte-pattern / header-multiset reference model in mc/c18; body sizes <= 70000 bytes; goroutine schedules are not enumerated; RFC 9114 error codes are only demanded where the RFC text and the code agree on the scope (push-related frames on request streams are not judged).",
    technique="bounded-exhaustive message-lattice, fault-schedule and byte-split enumeration on real endpoints in virtual time, reference-model oracle",
)
