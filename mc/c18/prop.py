# ./check configuration for C18 (merged by mc/props.py)
PROP = dict(
    libs=["explore", "canon", "sim", "wireobs", "wiremon"],
    targets=[
        dict(name="e2", pkg="http3", test="TestVerifC18", files=["mc/c18/*.go"]),
        dict(name="race", pkg="http3", test="TestVerifC18Race", files=["mc/c18/*.go", "mc/c18/race/*.go"], parts=["race-pass"],
             race=True, shards=4, gomaxprocs=4, env={"GORACE": "halt_on_error=1", "GODEBUG": "randseednop=0"}),
    ],
    engine="E2 simx", level="fault_enumeration", shards="ncpu", gomaxprocs=1,
    env={"GODEBUG": "randseednop=0,asyncpreemptoff=1"},
    deterministic=False,
    crash_is_violation=True,
    deadline=dict(quick=75, thorough=780),
    rule="real http3 server side (RawServerConn under the harness accept loop, or Server.ServeListener unchanged) and real http3.Transport under net/http.Client, or a scripted raw QUIC peer on either side, joined by a fault-injecting router inside a synctest bubble; one execution per (message of the lattice | fault map | script x byte split | script x abort point)",
    assumptions=["goroutine interleavings inside the endpoints are chosen by the Go runtime (GOMAXPROCS=1), not enumerated; oracles are schedule-independent",
                 "crypto/rand pinned per run with cryptotest.SetGlobalRandom; math/rand seeded",
                 "bounded liveness: with <= 2 datagram faults (drop / duplicate / 1.5-RTT delay) a clean exchange must complete within 30 s of virtual time",
                 "request streams are served by the harness's own accept loop around RawServerConn.HandleRequestStream / HandleUnidirectionalStream (Server.handleConn minus graceful shutdown, plus a recover that attributes a panic to its call site); the part real-server runs the clean messages through Server.ServeListener unchanged, after a pre-run under the accept loop showed no server-side panic",
                 "forbidden-frame / forbidden-stream verdicts only where RFC 9114 and the code agree on the error and its scope; push-related frames on request streams and DATA after trailers are recorded as outcomes, not judged"],
    level_text="Bounded-exhaustive enumeration on the real HTTP/3 client and server against a reference model of what net/http semantics and RFC 9114 require the handler / the client / the peer to observe: (lattice) every message deviating from a default request/response in <= 2 (quick) / <= 3 (thorough) of 20 dimensions - method, path, header multisets, request and response body size x write chunking, Content-Length absent/correct/too small/too large in both directions, request and response trailers, status incl. 103, gzip, 1 or 4 concurrent requests, Server.Logger / Transport.Logger nil or set, plain or Chrome_115 spec-driven QUIC client, read-buffer size, abort point; (faults) every single-fault map (drop, duplicate, delay) over ALL datagrams of the exchange, handshake included, for every 1-dimension (quick) / 2-dimension (thorough) deviation, and every 2-fault map over the first 12 (quick, 8 representative messages) / 30 (thorough, every 1-dimension deviation) datagrams of each direction; (raw, raw-client) a scripted raw QUIC peer on the client side and on the server side writing 3-frame request / response streams and unidirectional streams split into two writes at every byte offset and aborted (RESET_STREAM, STOP_SENDING, both, connection close) at every frame boundary, with unknown, reserved and misplaced frame and stream types; (real-server) the clean messages through the unchanged Server.ServeListener. The statement is a for-all over messages, chunkings, frame boundaries and fault schedules, which is what is enumerated inside the stated bound. The QUIC layer underneath every lattice / fault execution is read by the passive wire monitor (mc/lib/wiremon, see C01), and a sampled -race supporting pass runs the messages with four concurrent requests on one connection.",
    level_note="Trusted: testutils/simnet + testing/synctest virtual time; the byte-pattern / header-multiset reference model in mc/c18; body sizes <= 70000 bytes; goroutine schedules are not enumerated; a server-side panic outside the harness accept loop or any client-side panic is detected through the worker's exit (crash_is_violation).",
    technique="bounded-exhaustive message-lattice, fault-schedule, byte-split and abort-point enumeration on real endpoints in virtual time with a reference-model oracle",
)
