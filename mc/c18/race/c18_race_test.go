package http3

// C18 free-running race pass: the messages of the lattice that put four concurrent requests
// on one connection (and every other single-dimension deviation combined with that), under
// `go test -race` with several Ps. The E2 parts pin GOMAXPROCS=1 and do not enumerate the
// interleavings of concurrent requests inside the client's and the server's shared per-
// connection state (request writer, QPACK encoder, header buffers); this supporting pass
// samples them with the race detector: a race report kills the worker and is a violation, and
// the functional oracles of c18Run still apply. Sampled, excluded from the counts.

import (
	"encoding/json"
	"fmt"
	"testing"

	"github.com/refraction-networking/uquic/internal/verifmc/explore"
	"github.com/refraction-networking/uquic/internal/verifmc/sim"
)

func TestVerifC18Race(t *testing.T) {
	sim.InitCerts(t)
	part := explore.Part{Name: "race-pass"}
	part.Run = func(e explore.Env) *explore.Report {
		var cases []c18Case
		for _, m := range c18Deviations(2, map[string]bool{"abort": true}) {
			if m.Conc == 1 {
				cases = append(cases, c18Case{Msg: m, Seed: uint64(e.Seed) + 1})
			}
		}
		rounds := 1
		if e.Thorough() {
			rounds = 4
		}
		rep := &explore.Report{Level: "exploration", Supporting: true}
		oc := map[string]bool{}
	loop:
		for r := 0; r < rounds; r++ {
			for i := e.Shard; i < len(cases); i += max(e.Shards, 1) {
				if e.Expired() {
					break loop
				}
				c := cases[i]
				c.Seed += uint64(r)
				explore.MarkCurrent(e, "race-pass", c)
				o := c18Run(t, c)
				o.fails = c18Order(o.fails)
				rep.Evaluations++
				oc[o.class] = true
				if len(o.fails) > 0 {
					rep.Violations = append(rep.Violations, explore.Violation{Key: "race-pass:" + o.fails[0].Key, What: o.fails[0].What, Replay: explore.JSON(c), Human: []string{c.String()}})
					break loop
				}
			}
		}
		explore.ClearCurrent(e)
		for o := range oc {
			rep.Outcomes = append(rep.Outcomes, o)
		}
		rep.OutcomesN = int64(len(rep.Outcomes))
		rep.Rule = fmt.Sprintf("the %d messages with four concurrent requests on one connection that deviate from the default in <= 1 further dimension, %d round(s), under the race detector with 4 Ps (sampled supporting pass)", len(cases), rounds)
		rep.Caps = []string{"sampled: validates the no-data-race assumption for concurrent requests on one connection"}
		return rep
	}
	part.Replay = func(e explore.Env, raw json.RawMessage) *explore.Violation {
		var c c18Case
		if err := json.Unmarshal(raw, &c); err != nil {
			t.Fatal(err)
		}
		for r := 0; r < 20; r++ {
			o := c18Run(t, c)
			o.fails = c18Order(o.fails)
			if len(o.fails) > 0 {
				return &explore.Violation{Key: "race-pass:" + o.fails[0].Key, What: o.fails[0].What, Human: []string{c.String()}}
			}
		}
		return nil
	}
	explore.Main("C18", []explore.Part{part}, func(msg string) { t.Fatal(msg) })
}
