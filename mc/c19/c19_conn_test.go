package http3

// C19 part "writer-request-conn": writer/parser agreement for the messages of ONE connection.
//
// The requestWriter is a per-connection object (ClientConn.requestWriter): every request stream
// of the connection serialises its field section through it, and the bytes go to a QUIC stream
// whose Write may hold on to the slice for as long as it blocks (flow control, congestion
// control, pacing: SendStream.Write keeps a reference and copies the bytes out when packets are
// packed). The parts writer-request / writer-response write each message on a fresh writer onto a
// stream that consumes at once; they cannot see state that one message leaves behind for the next,
// nor bytes that change between "handed to the stream" and "consumed by the stream".
//
// Here 2 (thorough: also 3) requests of a sub-lattice of the writer-request lattice are sent on
// one real requestWriter, each on its own scripted lazy stream, under every schedule of the
// operations
//
//	S_i  request i starts: RequestStream.sendRequestHeader (+ sendRequestTrailer) runs in its own
//	     goroutine until a stream Write blocks (or the writer returns)
//	R_i  stream i is unblocked: it consumes what is pending and everything written later at once
//	X_i  stream i is cancelled while its Write is blocked (the request context is cancelled between
//	     opening the stream and sending the header, CancelWrite, a write deadline, STOP_SENDING from
//	     the peer): the blocked Write returns an error together with the number of bytes it had
//	     consumed, every later Write of the stream fails at once. This is a per-request failure: the
//	     connection, and with it the requestWriter, stays in use for the other requests.
//
// with S_1 < S_2 < ..., S_i < R_i / X_i, and every stream ended by exactly one of R_i, X_i; for the
// schedules that overlap or cancel, with a stream that has consumed nothing / the first half of
// the blocked Write before it blocked, the blocked Write being the first one of the stream (the
// request section) or the second one (the trailer section). (A stream that is cancelled before its
// request starts is the schedule "S_i X_i" with nothing consumed: the parked goroutine does nothing
// in between.) The harness owns the schedule (channels; real time only guards calls that the model
// says cannot block).
//
// Oracle (the last sentence of the statement, per stream): what stream i consumed is parsed back by
// the real receive path and must be accepted and equal the fields of message i — the same judge as
// part writer-request (c19JudgeReqWire), nothing about timing or about which request goes first.
// A stream one of whose Writes failed is not judged (it is reset, the peer does not parse it; the
// statement is silent about a message that could not be sent) — but every OTHER stream of the
// connection is: its message is as valid as before, so what is emitted for it must be accepted and
// must decode to its own fields, whatever happened to the requests before or next to it.

import (
	"fmt"
	"net/http"
	"strings"
	"sync"
	"time"

	"github.com/quic-go/qpack"

	quic "github.com/refraction-networking/uquic"
	"github.com/refraction-networking/uquic/internal/verifmc/explore"
)

// c19LazyStream is a scripted stream whose Write blocks until the stream is released, like a
// flow-control blocked QUIC stream: its blockAt-th Write (1 = the request section, 2 = what follows
// it, i.e. the trailer section) consumes `half` of the slice when it is entered and the rest when
// the stream is released. Earlier Writes, and all Writes of a released stream, are consumed at once.
// A stream that is cancelled instead of released fails the blocked Write (n = what it had consumed)
// and every later one (n = 0), as quic.SendStream.Write does after CancelWrite / a deadline.
type c19LazyStream struct {
	c19FakeStream
	half    bool
	blockAt int
	writes  int
	failed  int // the first Write that returned the cancellation error (0: none)
	once    sync.Once
	entered chan struct{} // closed when a Write blocks
	gate    chan struct{} // closed by the harness: released
	cancel  chan struct{} // closed by the harness: cancelled (never both)
}

// what a cancelled quic stream returns from Write
var c19ErrCancelled = &quic.StreamError{StreamID: 0, ErrorCode: quic.StreamErrorCode(ErrCodeRequestCanceled), Remote: false}

var _ datagramStream = &c19LazyStream{}

func newC19LazyStream(half bool, blockAt int) *c19LazyStream {
	if blockAt == 0 {
		blockAt = 1
	}
	return &c19LazyStream{half: half, blockAt: blockAt, entered: make(chan struct{}), gate: make(chan struct{}), cancel: make(chan struct{})}
}

func (s *c19LazyStream) fail(n int) (int, error) {
	if s.failed == 0 {
		s.failed = s.writes
	}
	return n, c19ErrCancelled
}

func (s *c19LazyStream) Write(b []byte) (int, error) {
	s.writes++
	select {
	case <-s.gate:
		return s.out.Write(b)
	case <-s.cancel:
		return s.fail(0)
	default:
	}
	if s.writes != s.blockAt {
		return s.out.Write(b)
	}
	n := 0
	if s.half {
		n = len(b) / 2
	}
	s.out.Write(b[:n])
	s.once.Do(func() { close(s.entered) })
	select {
	case <-s.gate:
		s.out.Write(b[n:]) // the slice is read again only now
		return len(b), nil
	case <-s.cancel:
		return s.fail(n)
	}
}

type c19ConnCase struct {
	Msgs  []c19ReqMsg `json:"requests"`
	Sched string      `json:"schedule"` // e.g. "S1 S2 R2 R1", "S1 X1 S2 R2"
	Half  bool        `json:"blocked_write_half_consumed"`
	At    int         `json:"blocked_write"` // 1 (or 0): the first Write of a stream blocks, 2: the second one
}

func (c c19ConnCase) human() []string {
	out := []string{fmt.Sprintf("one requestWriter (one connection), %d request streams, schedule %s (S = request starts and runs until its stream Write blocks, R = stream released, X = stream cancelled: the blocked Write and all later ones fail); the %s Write of an unreleased stream blocks and has consumed %s of its slice",
		len(c.Msgs), c.Sched, map[bool]string{false: "first", true: "second"}[c.At == 2], map[bool]string{false: "nothing", true: "the first half"}[c.Half])}
	for i, m := range c.Msgs {
		for j, l := range m.human() {
			if j == 0 {
				l = fmt.Sprintf("request %d: %s", i+1, l)
			} else {
				l = "           " + l
			}
			out = append(out, c19Trunc(l))
		}
	}
	return out
}

// c19Schedules lists every order of S_1..S_n, E_1..E_n with S_1 < ... < S_n and S_i < E_i, where
// the end E_i of stream i is R_i (released) or X_i (cancelled), in every combination;
// overlap = some request starts while an earlier stream is still blocked. The orders come
// sequential first, and for each order the all-released schedule first.
func c19Schedules(n int) (all []string, overlap map[string]bool) {
	overlap = map[string]bool{}
	var rec func(cur []string, started int, open []int, ov bool)
	rec = func(cur []string, started int, open []int, ov bool) {
		if started == n && len(open) == 0 {
			for ends := 0; ends < 1<<n; ends++ { // bit i-1: stream i is cancelled
				ops := append([]string(nil), cur...)
				for k, op := range ops {
					var i int
					fmt.Sscanf(op[1:], "%d", &i)
					if op[0] == 'R' && ends&(1<<(i-1)) != 0 {
						ops[k] = fmt.Sprintf("X%d", i)
					}
				}
				s := strings.Join(ops, " ")
				all = append(all, s)
				overlap[s] = ov
			}
			return
		}
		for k, i := range open { // release first: the sequential schedule comes first
			rest := append(append([]int(nil), open[:k]...), open[k+1:]...)
			rec(append(cur[:len(cur):len(cur)], fmt.Sprintf("R%d", i)), started, rest, ov)
		}
		if started < n {
			rec(append(cur[:len(cur):len(cur)], fmt.Sprintf("S%d", started+1)), started+1, append(append([]int(nil), open...), started+1), ov || len(open) > 0)
		}
	}
	rec(nil, 0, nil, false)
	return all, overlap
}

func c19SchedOverlaps(sched string) bool {
	open := 0
	for _, op := range strings.Fields(sched) {
		switch op[0] {
		case 'S':
			if open > 0 {
				return true
			}
			open++
		default:
			open--
		}
	}
	return false
}

type c19Flight struct {
	m        c19ReqMsg
	req      *http.Request
	valid    bool
	str      *c19LazyStream
	done     chan [2]error // header error, trailer error
	herr     error
	terr     error
	finished bool
	released bool
	ended    bool // released or cancelled
}

const c19ConnGuard = 30 * time.Second

func (f *c19Flight) release() {
	if !f.ended {
		f.ended, f.released = true, true
		close(f.str.gate)
	}
}

func (f *c19Flight) cancel() {
	if !f.ended {
		f.ended = true
		close(f.str.cancel)
	}
}

func (f *c19Flight) wait() {
	if f.finished {
		return
	}
	select {
	case errs := <-f.done:
		f.herr, f.terr, f.finished = errs[0], errs[1], true
	case <-time.After(c19ConnGuard):
		explore.Must(false, "a request whose stream is released does not return")
	}
}

func c19RunConnCase(c c19ConnCase) (outcome string, fail *explore.Fail) {
	n := len(c.Msgs)
	explore.Must(n >= 1, "empty connection case")
	w := newRequestWriter() // the connection's
	fl := make([]*c19Flight, n)
	stalled := false
	for _, op := range strings.Fields(c.Sched) {
		var i int
		_, err := fmt.Sscanf(op[1:], "%d", &i)
		explore.Must(err == nil && i >= 1 && i <= n && (op[0] == 'S' || op[0] == 'R' || op[0] == 'X'), "bad schedule %q", c.Sched)
		switch op[0] {
		case 'S':
			explore.Must(fl[i-1] == nil, "bad schedule %q", c.Sched)
			f := &c19Flight{m: c.Msgs[i-1], str: newC19LazyStream(c.Half, c.At), done: make(chan [2]error, 1)}
			f.req, f.valid = f.m.build()
			fl[i-1] = f
			rs := newRequestStream(newStream(f.str, nil, nil, nil, nil), w, nil, qpack.NewDecoder(), f.m.NoGzip, c19WriterLimit, &http.Response{})
			go func() {
				var errs [2]error
				defer func() {
					if x := recover(); x != nil {
						errs[0] = fmt.Errorf("c19 panic: %v", x)
					}
					f.done <- errs
				}()
				errs[0] = rs.sendRequestHeader(f.req)
				if errs[0] == nil && len(f.req.Trailer) > 0 {
					errs[1] = rs.sendRequestTrailer(f.req)
				}
			}()
			wait := func(guard bool) bool {
				t := time.NewTimer(c19ConnGuard)
				defer t.Stop()
				select {
				case <-f.str.entered:
				case errs := <-f.done:
					f.herr, f.terr, f.finished = errs[0], errs[1], true
				case <-t.C:
					explore.Must(guard, "a request on a connection without blocked streams neither reaches its stream nor returns")
					return false
				}
				return true
			}
			if !wait(true) {
				// the request waits for a stream that is blocked (nothing the statement speaks about):
				// unblock the earlier streams and go on
				stalled = true
				for _, g := range fl[:i-1] {
					g.release()
					g.wait()
				}
				wait(false)
			}
		case 'R', 'X':
			f := fl[i-1]
			explore.Must(f != nil, "bad schedule %q", c.Sched)
			if op[0] == 'X' {
				f.cancel() // (no effect on a stream that was released because a later request waited for it)
			} else {
				f.release()
			}
			f.wait()
		}
	}
	var outs []string
	ncancel := 0
	for i, f := range fl {
		explore.Must(f != nil && f.finished, "bad schedule %q", c.Sched)
		where := fmt.Sprintf("%s/stream%d", strings.ReplaceAll(c.Sched, " ", ""), i+1)
		if f.herr != nil && strings.HasPrefix(f.herr.Error(), "c19 panic: ") {
			return "", explore.Failf("writer-request-conn/panic@"+where, "request %d: %v", i+1, f.herr)
		}
		if f.str.failed != 0 {
			// a Write of this stream failed: the stream is reset, nothing the statement speaks about
			outs = append(outs, fmt.Sprintf("stream cancelled, write %d fails", f.str.failed))
			ncancel++
			continue
		}
		explore.Must(f.terr == nil, "sendRequestTrailer: %v", f.terr)
		out, fail := c19JudgeReqWire(f.m, f.req, f.valid, f.herr, f.str.out.Bytes(), where)
		if fail != nil {
			fail.What = fmt.Sprintf("request %d of %d on one connection, schedule %s: %s", i+1, n, c.Sched, fail.What)
			return "", fail
		}
		outs = append(outs, strings.TrimSuffix(strings.TrimPrefix(out, "valid message: "), " message"))
	}
	kind := "sequential"
	if c19SchedOverlaps(c.Sched) {
		kind = "overlapping"
	}
	if strings.Contains(c.Sched, "X") {
		kind += fmt.Sprintf(", %d of %d cancellations hit a blocked write", ncancel, strings.Count(c.Sched, "X"))
	}
	if kind != "sequential" {
		if c.Half {
			kind += ", half consumed"
		}
		if c.At == 2 {
			kind += ", second write blocks"
		}
	}
	if stalled {
		kind += ", a request waited for a blocked stream"
	}
	return fmt.Sprintf("%d requests %s: %s", n, kind, strings.Join(outs, " | ")), nil
}

// c19ConnMsgs: the sub-lattice of the writer-request lattice used on one connection: a plain GET
// and every message that differs from it in one dimension (each header atom, method, extended
// CONNECT, URL form, Host override, compression, body form, trailer form), plus a few mixed ones.
// Sizes range from about 40 bytes to more than 8 kB, so a later section can be shorter than, as
// long as, or longer than an earlier one.
func c19ConnMsgs() []c19ReqMsg {
	base := c19ReqMsg{Method: "GET", Proto: "HTTP/1.1", URL: 0, Host: "", Hdr: []int{0}}
	l := []c19ReqMsg{base}
	vary := func(f func(m *c19ReqMsg)) {
		m := base
		f(&m)
		l = append(l, m)
	}
	for i := 1; i < len(c19ReqHdrAtoms); i++ {
		vary(func(m *c19ReqMsg) { m.Hdr = []int{i} })
	}
	for _, method := range c19ReqMethods[1:] {
		vary(func(m *c19ReqMsg) { m.Method = method })
	}
	vary(func(m *c19ReqMsg) { m.Method, m.Proto = "CONNECT", "webtransport" })
	for u := 1; u < len(c19ReqURLs); u++ {
		vary(func(m *c19ReqMsg) { m.URL = u })
	}
	for _, host := range c19ReqHosts[1:] {
		vary(func(m *c19ReqMsg) { m.Host = host })
	}
	vary(func(m *c19ReqMsg) { m.NoGzip = true })
	for b := 1; b < len(c19ReqBodies); b++ {
		vary(func(m *c19ReqMsg) { m.Method, m.Body = "POST", b })
	}
	for t := 1; t < len(c19ReqTrailers); t++ {
		vary(func(m *c19ReqMsg) { m.Method, m.Body, m.Trailer = "POST", 1, t })
	}
	vary(func(m *c19ReqMsg) { m.Method, m.Body, m.Trailer, m.Hdr = "PUT", 1, 3, []int{4} })               // big-8k, trailers
	vary(func(m *c19ReqMsg) { m.Method, m.Proto, m.URL, m.Hdr = "CONNECT", "webtransport", 1, []int{1} }) // extended CONNECT with a field
	vary(func(m *c19ReqMsg) { m.URL, m.Host, m.Hdr, m.NoGzip = 2, c19ReqHosts[1], []int{3}, true })       // cookies, other authority
	vary(func(m *c19ReqMsg) { m.Method, m.Body, m.Trailer, m.Hdr = "POST", 2, 1, []int{22} })             // invalid field name: refused
	return l
}

// the messages of the triples (thorough tier): one of each size / shape class
func c19ConnMsgs3() []c19ReqMsg {
	all := c19ConnMsgs()
	var l []c19ReqMsg
	for i, m := range all {
		switch {
		case i == 0, len(m.Hdr) == 1 && (m.Hdr[0] == 1 || m.Hdr[0] == 3 || m.Hdr[0] == 4 || m.Hdr[0] == 22) && m.Method == "GET" && m.URL == 0,
			m.Method == "CONNECT", m.URL == 3, m.Host == "other.example:444" && m.URL == 0, m.Trailer == 3, m.Body == 3:
			l = append(l, m)
		}
	}
	return l
}

// The scenarios with sequential schedules come first, for all message tuples, the overlapping ones
// after them: a writer that holds its lock across the stream Write makes every overlapping scenario
// wait for the 30 s guard, and must not keep the sequential ones from being run before the deadline.
func c19ConnLattice(e explore.Env) []c19ConnCase {
	var l []c19ConnCase
	add := func(msgs []c19ReqMsg, overlapping bool) {
		scheds, overlap := c19Schedules(len(msgs))
		for _, s := range scheds {
			if overlap[s] != overlapping {
				continue
			}
			l = append(l, c19ConnCase{Msgs: msgs, Sched: s})
			// where a Write blocks, and how much it has consumed, matters if something happens
			// while it is blocked: another request starts, or the stream is cancelled
			if overlap[s] || strings.Contains(s, "X") {
				l = append(l, c19ConnCase{Msgs: msgs, Sched: s, Half: true})
				for _, m := range msgs {
					if m.Trailer != 0 { // a second Write exists only for a request that sends trailers
						l = append(l, c19ConnCase{Msgs: msgs, Sched: s, At: 2}, c19ConnCase{Msgs: msgs, Sched: s, At: 2, Half: true})
						break
					}
				}
			}
		}
	}
	ms := c19ConnMsgs()
	var m3 []c19ReqMsg
	if e.Thorough() {
		m3 = c19ConnMsgs3()
	}
	for _, overlapping := range []bool{false, true} {
		for _, a := range ms {
			for _, b := range ms {
				add([]c19ReqMsg{a, b}, overlapping)
			}
		}
		for _, a := range m3 {
			for _, b := range m3 {
				for _, c := range m3 {
					add([]c19ReqMsg{a, b, c}, overlapping)
				}
			}
		}
	}
	return l
}

func c19ConnPart() explore.Part {
	p := c19LatticePart("writer-request-conn",
		"every ordered pair (thorough: also every triple of a 13-message-class subset) of a star-shaped sub-lattice of the writer-request lattice, sent through ONE real requestWriter on separate lazy streams, x every schedule of {request i starts and runs until its stream Write blocks, stream i released, stream i cancelled = its blocked Write and all later ones fail} x {the first, the second Write of an unreleased stream blocks} x {the blocked Write has consumed nothing, the first half}; the bytes of each stream none of whose Writes failed are parsed back by frameParser + qpack decoder + requestFromHeaders/decodeTrailers and compared with its own message",
		c19ConnLattice, c19RunConnCase, c19ConnCase.human)
	run := p.Run
	p.Run = func(e explore.Env) *explore.Report {
		rep := run(e)
		s2, _ := c19Schedules(2)
		rep.Bound = fmt.Sprintf("%d connection scenarios: %d x %d ordered request pairs x %d schedules (%s), overlapping and cancelling ones x {first Write blocks, second Write blocks (pairs with trailers)} x {nothing, half of the blocked slice consumed}",
			rep.Transitions, len(c19ConnMsgs()), len(c19ConnMsgs()), len(s2), strings.Join(s2, " / "))
		if e.Thorough() {
			s3, _ := c19Schedules(3)
			rep.Bound += fmt.Sprintf("; %d^3 request triples x %d schedules", len(c19ConnMsgs3()), len(s3))
		}
		return rep
	}
	return p
}
