package http3

// C19 parts "fields-request", "fields-response", "fields-trailer": bounded-exhaustive
// enumeration of field lists fed to the real requestFromHeaders / updateResponseFromHeaders /
// parseTrailers (and, for classification, parseHeaders) through a decode function over the
// explicit list — the same way headers.go takes its qpack decode function.

import (
	"encoding/json"
	"errors"
	"fmt"
	"io"
	"net/http"
	"runtime/debug"
	"sort"
	"strings"
	"sync"

	"github.com/quic-go/qpack"

	"github.com/refraction-networking/uquic/internal/verifmc/explore"
)

// The field alphabet. The last atom is the injected decoder failure.
type c19Atom struct {
	ID   string
	N, V string
	Err  bool
}

var c19Alphabet = []c19Atom{
	// well-formed material, simplest first
	{ID: "method-get", N: ":method", V: "GET"},
	{ID: "path", N: ":path", V: "/p"},
	{ID: "authority", N: ":authority", V: "h.example"},
	{ID: "scheme", N: ":scheme", V: "https"},
	{ID: "status", N: ":status", V: "200"},
	{ID: "x-a=1", N: "x-a", V: "1"},
	{ID: "x-a=2", N: "x-a", V: "2"},
	{ID: "cookie-a", N: "cookie", V: "a=1"},
	{ID: "cookie-b", N: "cookie", V: "b=2"},
	{ID: "cl=5", N: "content-length", V: "5"},
	{ID: "cl=6", N: "content-length", V: "6"},
	{ID: "te-trailers", N: "te", V: "trailers"},
	{ID: "method-connect", N: ":method", V: "CONNECT"},
	{ID: "protocol", N: ":protocol", V: "webtransport"},
	// pseudo-headers with an empty value, unknown pseudo-header
	{ID: "path-empty", N: ":path", V: ""},
	{ID: "method-empty", N: ":method", V: ""},
	{ID: "authority-empty", N: ":authority", V: ""},
	{ID: "scheme-empty", N: ":scheme", V: ""},
	{ID: "status-empty", N: ":status", V: ""},
	{ID: "protocol-empty", N: ":protocol", V: ""},
	{ID: "pseudo-unknown", N: ":foo", V: "bar"},
	// Content-Length forms
	{ID: "cl-empty", N: "content-length", V: ""},
	{ID: "cl=-1", N: "content-length", V: "-1"},
	{ID: "cl=+5", N: "content-length", V: "+5"},
	{ID: "cl=5x", N: "content-length", V: "5x"},
	// names
	{ID: "name-upper", N: "X-Up", V: "v"},
	{ID: "name-space", N: "x a", V: "v"},
	{ID: "name-colon", N: "x:a", V: "v"},
	{ID: "name-nul", N: "x\x00a", V: "v"},
	// values
	{ID: "value-cr", N: "x-v", V: "a\rb"},
	{ID: "value-lf", N: "x-v", V: "a\nb"},
	{ID: "value-nul", N: "x-v", V: "a\x00b"},
	// pseudo-header values with forbidden bytes (the value rule covers every field, and these
	// values are copied into Request.Host / Method / URL.Scheme / Proto)
	{ID: "authority-crlf", N: ":authority", V: "h.example\r\nx-injected: 1"},
	{ID: "method-nul", N: ":method", V: "G\x00T"},
	{ID: "scheme-lf", N: ":scheme", V: "ht\ntps"},
	{ID: "protocol-cr", N: ":protocol", V: "web\rtransport"},
	{ID: "status-nul", N: ":status", V: "20\x000"},
	// connection-specific fields
	{ID: "connection", N: "connection", V: "close"},
	{ID: "keep-alive", N: "keep-alive", V: "timeout=5"},
	{ID: "proxy-connection", N: "proxy-connection", V: "keep-alive"},
	{ID: "transfer-encoding", N: "transfer-encoding", V: "chunked"},
	{ID: "upgrade", N: "upgrade", V: "websocket"},
	{ID: "te-gzip", N: "te", V: "gzip"},
	// the qpack decoder fails at this position
	{ID: "decode-error", Err: true},
}

// c19Ctx is one way of embedding the enumerated sequence into a field section.
type c19Ctx struct {
	Name      string
	Kind      c19Kind
	Pre, Post []c19Field
	MinLen    int
	MaxLen    int
	Parse     c19Parser // nil: c19ParseList
}

// A c19Parser runs the real code on one field section. got is the rendering of what
// net/http is handed (accepted), cls the error the peer sees (rejected); fail reports an
// oracle violation observed inside the parser itself (wire parsers only).
type c19Parser func(kind c19Kind, fs []c19Field, decodeErr bool, limit int) (got string, err error, cls string, fail *explore.Fail)

var (
	c19BaseGet      = []c19Field{{":method", "GET"}, {":scheme", "https"}, {":authority", "h.example"}, {":path", "/p"}}
	c19BaseConnect  = []c19Field{{":method", "CONNECT"}, {":authority", "h.example:443"}}
	c19BaseXConnect = []c19Field{{":method", "CONNECT"}, {":protocol", "webtransport"}, {":scheme", "https"}, {":authority", "h.example"}, {":path", "/wt"}}
	c19BaseStatus   = []c19Field{{":status", "200"}}
)

func c19Contexts(kind c19Kind, thorough bool) []c19Ctx {
	// quick: bare sequences up to 4 atoms, sequences around a well-formed base up to 3.
	// thorough: one atom more everywhere an accepted section can gain from it (a response
	// needs its :status, so "status+seq" / "seq+status" with 4 atoms are the 5-field
	// sections that matter; bare response and trailer sequences stay at 4).
	bare, based := 4, 3
	reqBare := bare
	if thorough {
		based, reqBare = 4, 5
	}
	switch kind {
	case c19Req:
		return []c19Ctx{
			{Name: "request/bare", Kind: kind, MaxLen: reqBare},
			{Name: "request/GET-base+seq", Kind: kind, Pre: c19BaseGet, MaxLen: based},
			{Name: "request/seq+GET-base", Kind: kind, Post: c19BaseGet, MaxLen: based},
			{Name: "request/CONNECT-base+seq", Kind: kind, Pre: c19BaseConnect, MaxLen: based},
			{Name: "request/extCONNECT-base+seq", Kind: kind, Pre: c19BaseXConnect, MaxLen: based},
		}
	case c19Rsp:
		return []c19Ctx{
			{Name: "response/bare", Kind: kind, MaxLen: bare},
			{Name: "response/status+seq", Kind: kind, Pre: c19BaseStatus, MaxLen: based},
			{Name: "response/seq+status", Kind: kind, Post: c19BaseStatus, MaxLen: based},
		}
	default:
		return []c19Ctx{
			{Name: "trailer/bare", Kind: kind, MaxLen: bare},
			{Name: "trailer/x-t+seq", Kind: kind, Pre: []c19Field{{"x-t", "0"}}, MaxLen: based},
		}
	}
}

// c19Space indexes (context, sequence) pairs. The decode-error atom (last atom) is only
// enumerated in the last position: nothing after it is ever read.
type c19Space struct {
	ctxs  []c19Ctx
	A     int   // alphabet size including the decode-error atom
	offs  []int // first case index of each context
	total int
}

func c19SeqCount(A, l int) int { // sequences of length exactly l
	if l == 0 {
		return 1
	}
	n := A
	for i := 1; i < l; i++ {
		n *= A - 1
	}
	return n
}

func newC19Space(ctxs []c19Ctx, A int) *c19Space {
	sp := &c19Space{ctxs: ctxs, A: A}
	for _, c := range ctxs {
		sp.offs = append(sp.offs, sp.total)
		for l := c.MinLen; l <= c.MaxLen; l++ {
			sp.total += c19SeqCount(A, l)
		}
	}
	return sp
}

func (sp *c19Space) decode(i int) (ctx int, seq []int) {
	ctx = sort.Search(len(sp.offs), func(k int) bool { return sp.offs[k] > i }) - 1
	i -= sp.offs[ctx]
	l := sp.ctxs[ctx].MinLen
	for ; ; l++ {
		n := c19SeqCount(sp.A, l)
		if i < n {
			break
		}
		i -= n
	}
	seq = make([]int, l)
	if l > 0 {
		seq[l-1] = i % sp.A
		i /= sp.A
		for p := l - 2; p >= 0; p-- {
			seq[p] = i % (sp.A - 1)
			i /= sp.A - 1
		}
	}
	return ctx, seq
}

type c19Replay struct {
	Ctx string `json:"ctx"`
	Seq []int  `json:"seq"`
}

// c19Collector keeps, per violation key, the failing case with the smallest index, so that
// the reported witnesses do not depend on goroutine scheduling.
type c19Collector struct {
	mu sync.Mutex
	m  map[string]c19Found
}

type c19Found struct {
	idx int
	v   explore.Violation
}

func newC19Collector() *c19Collector { return &c19Collector{m: map[string]c19Found{}} }

func (c *c19Collector) add(idx int, f *explore.Fail, replay any, human []string) {
	c.mu.Lock()
	defer c.mu.Unlock()
	if old, ok := c.m[f.Key]; ok && old.idx <= idx {
		return
	}
	c.m[f.Key] = c19Found{idx, explore.Violation{Key: f.Key, What: f.What, Replay: explore.JSON(replay), Human: human}}
}

func (c *c19Collector) finish(rep *explore.Report) {
	c.mu.Lock()
	defer c.mu.Unlock()
	var keep []explore.Violation
	for _, v := range rep.Violations { // panics caught by the library have no collector entry
		if _, ok := c.m[v.Key]; !ok {
			keep = append(keep, v)
		}
	}
	for _, k := range explore.SortedKeys(c.m) {
		keep = append(keep, c.m[k].v)
	}
	if len(keep) > 40 {
		keep = keep[:40]
	}
	rep.Violations = keep
}

func c19DecodeFn(fs []c19Field, decodeErr bool) qpack.DecodeFunc {
	i := 0
	return func() (qpack.HeaderField, error) {
		if i >= len(fs) {
			if decodeErr {
				return qpack.HeaderField{}, errors.New("c19: injected decoder failure")
			}
			return qpack.HeaderField{}, io.EOF
		}
		f := fs[i]
		i++
		return qpack.HeaderField{Name: f.N, Value: f.V}, nil
	}
}

// c19Expand builds the field list of a case: Pre + atoms (up to a decode error) + Post.
func c19Expand(ctx *c19Ctx, seq []int) (fs []c19Field, decodeErr bool) {
	fs = append(fs, ctx.Pre...)
	for _, a := range seq {
		at := c19Alphabet[a]
		if at.Err {
			return fs, true
		}
		fs = append(fs, c19Field{at.N, at.V})
	}
	return append(fs, ctx.Post...), false
}

// c19Out is the outcome of one real parser call: "" cls = accepted.
type c19Out struct{ cls, pred string }

func (o c19Out) String() string {
	if o.cls == "" {
		return "accept"
	}
	return "reject[" + o.cls + "] " + o.pred
}

// c19OutKey is the outcome class of a case: what the real code did under the three limits.
type c19OutKey struct {
	ctx string
	o   [3]c19Out
}

func (k c19OutKey) String() string {
	return fmt.Sprintf("%s: no limit: %v | limit=size: %v | limit=size-1: %v", k.ctx, k.o[0], k.o[1], k.o[2])
}

type c19Outcomes struct{ m sync.Map }

func (s *c19Outcomes) add(k any) {
	if _, ok := s.m.Load(k); !ok {
		s.m.LoadOrStore(k, true)
	}
}

func (s *c19Outcomes) list() []string {
	var l []string
	s.m.Range(func(k, _ any) bool {
		l = append(l, fmt.Sprint(k))
		return len(l) < 4000
	})
	sort.Strings(l)
	return l
}

func (s *c19Outcomes) into(rep *explore.Report) {
	rep.Outcomes = s.list()
	rep.OutcomesN = int64(len(rep.Outcomes))
	rep.States = rep.OutcomesN
}

// c19ParseList feeds the explicit list to the real parsing function of the kind.
func c19ParseList(kind c19Kind, fs []c19Field, decodeErr bool, limit int) (got string, err error, cls string, fail *explore.Fail) {
	switch kind {
	case c19Req:
		var req *http.Request
		if req, err = requestFromHeaders(c19DecodeFn(fs, decodeErr), limit, nil); err == nil {
			got = c19RenderRequest(req)
		}
	case c19Rsp:
		rsp := &http.Response{}
		if err = updateResponseFromHeaders(rsp, c19DecodeFn(fs, decodeErr), limit, nil); err == nil {
			got = c19RenderResponse(rsp)
		}
	default:
		var h http.Header
		if h, err = parseTrailers(c19DecodeFn(fs, decodeErr), limit, nil); err == nil {
			got = c19RenderHeader(h)
		}
	}
	return got, err, c19ErrClass(err), nil
}

func c19Want(kind c19Kind, view c19View) string {
	switch kind {
	case c19Req:
		return c19ModelRequest(view)
	case c19Rsp:
		return c19ModelResponse(view)
	}
	return c19ModelTrailer(view)
}

// c19CheckOne runs the real parser of the kind on one (field list, limit) pair and evaluates
// the oracle. first is the first clause of the statement the model found violated ("" = none,
// size clause excluded), size the decoded size of the section.
func c19CheckOne(parse c19Parser, kind c19Kind, fs []c19Field, decodeErr bool, first string, size, limit int) (c19Out, *explore.Fail) {
	over := size > limit
	pred := "well-formed"
	switch {
	case first != "":
		pred = first
	case over:
		pred = "size-over-limit"
	}
	got, err, cls, fail := parse(kind, fs, decodeErr, limit)
	if fail != nil {
		return c19Out{}, fail
	}
	if cls == c19Skip {
		return c19Out{"n/a", ""}, nil
	}
	if err == nil {
		switch {
		case decodeErr:
			return c19Out{}, explore.Failf("accepted-despite-decoder-error/"+kind.String(),
				"%s section accepted although the qpack decoder failed after %d fields", kind, len(fs))
		case first != "" || over:
			all := c19JudgeAll(kind, fs)
			if over {
				all = append(all, "size-over-limit")
			}
			return c19Out{}, explore.Failf(pred+"/"+kind.String(),
				"%s section ACCEPTED (size limit %d, decoded size %d) although it violates: %s; net/http is handed %s", kind, limit, size, strings.Join(all, ", "), got)
		}
		view := c19ViewOf(fs)
		if want := c19Want(kind, view); got != want {
			return c19Out{}, explore.Failf("result-differs-from-fields/"+kind.String()+"/"+c19DiffTag(got, want),
				"%s section accepted but net/http is handed\n   got  %s\n   want %s", kind, got, want)
		}
		if kind != c19Trl {
			// the pseudo-header struct parseHeaders itself reports for the same fields
			hdr, err := parseHeaders(c19DecodeFn(fs, false), kind == c19Req, limit, nil)
			if err != nil {
				return c19Out{}, explore.Failf("parseHeaders-disagrees/"+kind.String(), "%s section accepted, but parseHeaders alone rejects it: %v", kind, err)
			}
			if g, w := c19RenderParsed(hdr), c19ModelParsed(view); g != w {
				return c19Out{}, explore.Failf("parseHeaders-differs-from-fields/"+kind.String()+"/"+c19DiffTag(g, w),
					"parseHeaders reports\n   got  %s\n   want %s", g, w)
			}
		}
		return c19Out{}, nil
	}
	switch {
	case decodeErr && first == "" && !over:
		// Every field delivered before the failure satisfies the statement: the failure is
		// the decoder's, unless the code (being stricter than the statement, which is
		// allowed) had already rejected one of the delivered fields - recognised by the
		// same fields without the failure being rejected with the very same error.
		if cls != "QPACK_DECOMPRESSION_FAILED" {
			_, err2, _, _ := parse(kind, fs, false, limit)
			if err2 == nil || err2.Error() != err.Error() {
				return c19Out{}, explore.Failf("decoder-error-reported-as:"+cls+"/"+kind.String(),
					"decoder failure after %d well-formed fields is reported as %s (%v), want QPACK_DECOMPRESSION_FAILED", len(fs), cls, err)
			}
			pred = "stricter-than-statement+decoder-error"
		} else {
			pred = "decoder-error"
		}
	case decodeErr:
		pred += "+decoder-error"
	default:
		if cls == "QPACK_DECOMPRESSION_FAILED" {
			return c19Out{}, explore.Failf("malformed-reported-as-qpack-error/"+kind.String()+"/"+pred,
				"the decoder delivered every field, yet the rejection (%v) maps to QPACK_DECOMPRESSION_FAILED; RFC 9114 4.1.2 prescribes H3_MESSAGE_ERROR", err)
		}
		if strings.HasPrefix(cls, "too-large") && !over {
			return c19Out{}, explore.Failf("too-large-within-limit/"+kind.String()+"/"+pred,
				"section of decoded size %d rejected as too large with limit %d (%v)", size, limit, err)
		}
	}
	return c19Out{cls, pred}, nil
}

var c19Labels = map[string]bool{"method": true, "host": true, "uri": true, "proto": true, "cl": true, "header": true, "trailer": true,
	"status": true, "path": true, "authority": true, "scheme": true, "protocol": true}

// c19DiffTag names the first "label=" segment in which two renderings differ.
func c19DiffTag(got, want string) string {
	seg := func(s string) (out []string) {
		for _, t := range strings.Split(s, " ") {
			j := strings.IndexByte(t, '=')
			isLabel := j > 0 && c19Labels[t[:j]]
			if isLabel || len(out) == 0 {
				out = append(out, t)
			} else {
				out[len(out)-1] += " " + t
			}
		}
		return out
	}
	g, w := seg(got), seg(want)
	for i := range g {
		if i >= len(w) || g[i] != w[i] {
			if j := strings.IndexByte(g[i], '='); j > 0 {
				return g[i][:j]
			}
			break
		}
	}
	return "shape"
}

// c19Guard turns a panic of the code under test into a violation keyed by the panicking
// function (the library would only know the case index, which is not this harness' replay).
func c19Guard(run func() *explore.Fail) (f *explore.Fail) {
	defer func() {
		if x := recover(); x != nil {
			if fmt.Sprintf("%T", x) == "explore.harnessErr" { // explore.Must: a harness bug, not a verdict
				panic(x)
			}
			site := "unknown"
			lines := strings.Split(string(debug.Stack()), "\n")
			seenPanic := false
			for _, l := range lines {
				if strings.HasPrefix(l, "panic(") {
					seenPanic = true
					continue
				}
				if !seenPanic || strings.HasPrefix(l, "\t") || strings.HasPrefix(l, "runtime.") || strings.Contains(l, ".c19") || strings.Contains(l, "verifmc") {
					continue
				}
				if j := strings.LastIndex(l, "("); j > 0 {
					l = l[:j]
				}
				if j := strings.LastIndex(l, "/"); j >= 0 {
					l = l[j+1:]
				}
				site = l
				break
			}
			f = explore.Failf("panic:"+site, "panic in the code under test: %v", x)
		}
	}()
	return run()
}

const c19NoLimit = 1 << 20

// c19RunCase evaluates one case under the three limits: none, exactly the section's decoded
// size, one byte less.
func c19RunCase(ctx *c19Ctx, seq []int) (out c19OutKey, fail *explore.Fail, execs int64, human []string) {
	fs, decodeErr := c19Expand(ctx, seq)
	first := ""
	size := c19Judge(ctx.Kind, fs, func(s string) {
		if first == "" {
			first = s
		}
	})
	out.ctx = ctx.Name
	parse := ctx.Parse
	if parse == nil {
		parse = c19ParseList
	}
	for i, lim := range [3]int{c19NoLimit, size, size - 1} {
		if lim < 0 {
			out.o[i] = c19Out{"n/a", ""}
			continue
		}
		o, f := c19CheckOne(parse, ctx.Kind, fs, decodeErr, first, size, lim)
		if o.cls != "n/a" {
			execs++
		}
		if f != nil {
			return out, f, execs, c19Human(fs, decodeErr)
		}
		out.o[i] = o
	}
	return out, nil, execs, nil
}

func c19RunCaseGuarded(ctx *c19Ctx, seq []int) (out c19OutKey, fail *explore.Fail, execs int64, human []string) {
	fail = c19Guard(func() *explore.Fail {
		out, fail, execs, human = c19RunCase(ctx, seq)
		return fail
	})
	if fail != nil && human == nil {
		fs, de := c19Expand(ctx, seq)
		human = c19Human(fs, de)
	}
	if execs == 0 {
		execs = 1
	}
	return out, fail, execs, human
}

func c19FieldsPart(name string, kind c19Kind) explore.Part {
	return c19SeqPart(name, func(e explore.Env) []c19Ctx { return c19Contexts(kind, e.Thorough()) },
		"the real "+[...]string{"requestFromHeaders", "updateResponseFromHeaders", "parseTrailers"}[kind]+" with a list-backed qpack.DecodeFunc")
}

func c19SeqPart(name string, ctxs func(e explore.Env) []c19Ctx, through string) explore.Part {
	space := func(e explore.Env) *c19Space { return newC19Space(ctxs(e), len(c19Alphabet)) }
	return explore.Part{
		Name: name,
		Run: func(e explore.Env) *explore.Report {
			sp := space(e)
			col := newC19Collector()
			outs := &c19Outcomes{}
			rep := explore.RunCases(e, sp.total, 0, true, func(i int) explore.CaseResult {
				ci, seq := sp.decode(i)
				ctx := &sp.ctxs[ci]
				out, f, execs, human := c19RunCaseGuarded(ctx, seq)
				if f != nil {
					col.add(i, f, c19Replay{ctx.Name, seq}, human)
				} else {
					outs.add(out)
				}
				return explore.CaseResult{Fail: f, Execs: execs, Trans: execs}
			})
			col.finish(rep)
			outs.into(rep)
			var bounds []string
			for _, c := range sp.ctxs {
				bounds = append(bounds, fmt.Sprintf("%s: %d<=len<=%d", c.Name, c.MinLen, c.MaxLen))
			}
			rep.Rule = fmt.Sprintf("every sequence over the %d-atom field alphabet (decoder failure only as last atom) within the per-context length bound, embedded in each context, each run under 3 size limits (none / exactly the decoded size / one less) through %s; evaluations = real parser calls", len(c19Alphabet), through)
			rep.Bound = fmt.Sprintf("%d field sequences: %s", sp.total, strings.Join(bounds, ", "))
			for _, i := range []int{sp.total - 1, sp.total / 2, sp.total / 3} {
				ci, seq := sp.decode(i)
				fs, de := c19Expand(&sp.ctxs[ci], seq)
				rep.Samples = append(rep.Samples, map[string]any{"context": sp.ctxs[ci].Name, "fields": c19Human(fs, de)})
			}
			return rep
		},
		Replay: func(e explore.Env, raw json.RawMessage) *explore.Violation {
			var r c19Replay
			explore.Must(json.Unmarshal(raw, &r) == nil, "bad replay %s", raw)
			for _, ctx := range space(e).ctxs {
				if ctx.Name != r.Ctx {
					continue
				}
				_, f, _, human := c19RunCaseGuarded(&ctx, r.Seq)
				if f == nil {
					return nil
				}
				return &explore.Violation{Key: f.Key, What: f.What, Replay: raw, Human: human}
			}
			explore.Must(false, "replay: unknown context %q", r.Ctx)
			return nil
		},
	}
}
