package http3

import (
	"testing"

	"github.com/refraction-networking/uquic/internal/verifmc/explore"
)

func TestVerifC19(t *testing.T) {
	// cheapest parts first: the internal deadline, if it ever strikes, cuts the largest one
	parts := append(c19WriterParts(),
		c19RspOpsPart(),
		c19RspSrvPart(),
		c19ConnPart(),
		c19WirePart(),
		c19FieldsPart("fields-trailer", c19Trl),
		c19FieldsPart("fields-response", c19Rsp),
		c19FieldsPart("fields-request", c19Req),
	)
	explore.Main("C19", parts, func(msg string) { t.Fatal(msg) })
}
