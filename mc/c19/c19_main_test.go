package http3

import (
	"testing"

	"github.com/refraction-networking/uquic/internal/verifmc/explore"
)

func TestVerifC19(t *testing.T) {
	parts := []explore.Part{
		c19FieldsPart("fields-request", c19Req),
		c19FieldsPart("fields-response", c19Rsp),
		c19FieldsPart("fields-trailer", c19Trl),
		c19WirePart(),
	}
	explore.Main("C19", append(parts, c19WriterParts()...), func(msg string) { t.Fatal(msg) })
}
