package http3

// C19 reference model: an independent transcription of the property statement
//
//	"field names are lowercase valid tokens, values contain no forbidden bytes,
//	 connection-specific fields are absent, pseudo-header fields are known, unique, ahead of
//	 regular fields and of the kind allowed for a request or a response, Content-Length is
//	 single-valued and numeric, and the decoded size is within the configured limit"
//
// into a predicate over an explicit (name, value) list, plus the "model's view of the
// fields" (what net/http must be handed when the section is accepted). Nothing in this file
// calls into the code under test or into httpguts.

import (
	"errors"
	"fmt"
	"net/http"
	"sort"
	"strconv"
	"strings"
)

type c19Kind int

const (
	c19Req c19Kind = iota
	c19Rsp
	c19Trl
)

func (k c19Kind) String() string { return [...]string{"request", "response", "trailer"}[k] }

type c19Field struct{ N, V string }

func (f c19Field) String() string { return fmt.Sprintf("%q: %q", f.N, f.V) }

func c19Human(fs []c19Field, decodeErr bool) []string {
	h := make([]string, 0, len(fs)+1)
	for _, f := range fs {
		h = append(h, f.String())
	}
	if decodeErr {
		h = append(h, "<qpack decode error>")
	}
	return h
}

// RFC 9110, 5.6.2: tchar
func c19IsTchar(c byte) bool {
	switch {
	case c >= 'a' && c <= 'z', c >= 'A' && c <= 'Z', c >= '0' && c <= '9':
		return true
	}
	return strings.IndexByte("!#$%&'*+-.^_`|~", c) >= 0
}

// name clause: "" = fine, otherwise the violated clause
func c19NameClause(n string) string {
	if n == "" {
		return "name-empty"
	}
	tok, upper := true, false
	for i := 0; i < len(n); i++ {
		c := n[i]
		if !c19IsTchar(c) {
			tok = false
		}
		if c >= 'A' && c <= 'Z' {
			upper = true
		}
	}
	switch {
	case !tok:
		return "name-not-a-token"
	case upper:
		return "name-not-lowercase"
	}
	return ""
}

// RFC 9110, 5.5: field values are VCHAR / obs-text with inner SP / HTAB; CR, LF and NUL are
// "invalid and dangerous", every other CTL is invalid as well.
func c19ValueForbidden(v string) bool {
	for i := 0; i < len(v); i++ {
		c := v[i]
		if (c < 0x20 && c != '\t') || c == 0x7f {
			return true
		}
	}
	return false
}

// RFC 9114, 4.2: connection-specific fields
var c19ConnSpecific = map[string]bool{
	"connection": true, "keep-alive": true, "proxy-connection": true, "transfer-encoding": true, "upgrade": true,
}

func c19AllDigits(s string) bool {
	if s == "" {
		return false
	}
	for i := 0; i < len(s); i++ {
		if s[i] < '0' || s[i] > '9' {
			return false
		}
	}
	return true
}

// c19View is the model's view of an accepted section.
type c19View struct {
	Pseudo  map[string]string // last (= only) value per pseudo-header
	Regular []c19Field        // regular fields except content-length, in order
	HasCL   bool
	CL      string
}

func c19ViewOf(fs []c19Field) (view c19View) {
	view.Pseudo = map[string]string{}
	for _, f := range fs {
		switch {
		case len(f.N) > 0 && f.N[0] == ':':
			view.Pseudo[f.N] = f.V
		case f.N == "content-length":
			if !view.HasCL {
				view.HasCL, view.CL = true, f.V
			}
		default:
			view.Regular = append(view.Regular, f)
		}
	}
	return view
}

// RFC 9114, 4.3.1 / 4.3.2, RFC 9220 (:protocol)
var c19PseudoNames = [...]string{":method", ":scheme", ":authority", ":path", ":protocol", ":status"}

func c19PseudoIndex(n string) int {
	for i, p := range c19PseudoNames {
		if p == n {
			return i
		}
	}
	return -1
}

const c19StatusIdx = 5 // the only response pseudo-header

// clause names per pseudo-header, precomputed (this runs hundreds of millions of times)
var c19ClInTrailer, c19ClWrongKind, c19ClAfterRegular, c19ClDupEmptyFirst, c19ClDup [len(c19PseudoNames)]string

func init() {
	for i, n := range c19PseudoNames {
		c19ClInTrailer[i] = "pseudo-in-trailer:" + n
		c19ClWrongKind[i] = "pseudo-wrong-kind:" + n
		c19ClAfterRegular[i] = "pseudo-after-regular:" + n
		c19ClDupEmptyFirst[i] = "dup-pseudo-empty-first:" + n
		c19ClDup[i] = "dup-pseudo:" + n
	}
}

// c19Judge evaluates every clause of the statement except the size limit and reports each
// violated clause to add, in detection order (field position, then clause order). It returns
// the decoded size of the section (RFC 9114, 4.2.2).
func c19Judge(kind c19Kind, fs []c19Field, add func(string)) (size int) {
	var count [len(c19PseudoNames)]int
	var firstEmpty [len(c19PseudoNames)]bool
	seenRegular, hasCL, cl := false, false, ""
	for _, f := range fs {
		size += len(f.N) + len(f.V) + 32
		if c19ValueForbidden(f.V) {
			add("value-forbidden-byte")
		}
		if len(f.N) > 0 && f.N[0] == ':' {
			pi := c19PseudoIndex(f.N)
			if pi < 0 { // not a known pseudo-header
				if kind == c19Trl {
					add("pseudo-in-trailer:" + strconv.Quote(f.N))
				} else {
					add("pseudo-unknown:" + strconv.Quote(f.N))
				}
				if seenRegular {
					add("pseudo-after-regular:" + strconv.Quote(f.N))
				}
				continue
			}
			switch {
			case kind == c19Trl:
				add(c19ClInTrailer[pi])
			case (kind == c19Rsp) != (pi == c19StatusIdx):
				add(c19ClWrongKind[pi])
			}
			if seenRegular {
				add(c19ClAfterRegular[pi])
			}
			// uniqueness: occurrences are COUNTED, whatever their value
			count[pi]++
			if count[pi] == 1 {
				firstEmpty[pi] = f.V == ""
			} else if count[pi] == 2 {
				if firstEmpty[pi] {
					add(c19ClDupEmptyFirst[pi])
				} else {
					add(c19ClDup[pi])
				}
			}
			continue
		}
		seenRegular = true
		if c := c19NameClause(f.N); c != "" {
			add(c)
		}
		if c19ConnSpecific[f.N] {
			add("connection-specific:" + f.N)
		}
		if f.N == "te" && f.V != "trailers" {
			add("te-not-trailers")
		}
		if f.N == "content-length" {
			switch {
			case f.V == "":
				add("content-length-empty")
			case !c19AllDigits(f.V):
				add("content-length-not-numeric")
			}
			if hasCL && cl != f.V {
				add("content-length-differing")
			}
			if !hasCL {
				hasCL, cl = true, f.V
			}
		}
	}
	return size
}

// c19JudgeAll collects every violated clause (slow path, for messages).
func c19JudgeAll(kind c19Kind, fs []c19Field) (viol []string) {
	c19Judge(kind, fs, func(s string) { viol = append(viol, s) })
	return viol
}

// c19HeaderOf builds the http.Header net/http must see for the regular fields.
func c19HeaderOf(view c19View, joinCookies, withCL bool) http.Header {
	h := http.Header{}
	for _, f := range view.Regular {
		k := http.CanonicalHeaderKey(f.N)
		h[k] = append(h[k], f.V)
	}
	if joinCookies && len(h["Cookie"]) > 1 {
		h["Cookie"] = []string{strings.Join(h["Cookie"], "; ")} // RFC 9114, 4.2.1
	}
	if withCL && view.HasCL {
		h["Content-Length"] = []string{view.CL}
	}
	return h
}

func c19RenderHeader(h http.Header) string {
	ks := make([]string, 0, len(h))
	for k := range h {
		ks = append(ks, k)
	}
	sort.Strings(ks)
	var sb strings.Builder
	sb.WriteByte('{')
	for _, k := range ks {
		fmt.Fprintf(&sb, "%q:%q ", k, h[k])
	}
	sb.WriteByte('}')
	return sb.String()
}

func c19RenderKeys(h http.Header) string {
	ks := make([]string, 0, len(h))
	for k := range h {
		ks = append(ks, k)
	}
	sort.Strings(ks)
	return fmt.Sprintf("%q", ks)
}

func c19ModelCL(view c19View) int64 {
	if !view.HasCL {
		return -1
	}
	n, err := strconv.ParseInt(view.CL, 10, 64)
	if err != nil {
		return -2 // numeric but not representable: nothing the code returns can match
	}
	return n
}

// announced trailers: the Trailer field is moved into the Trailer map (RFC 9110, 6.6.2)
func c19SplitTrailer(h http.Header) (rest http.Header, announced []string) {
	vals, ok := h["Trailer"]
	if !ok {
		return h, nil
	}
	set := map[string]bool{}
	for _, v := range vals {
		for _, p := range strings.Split(v, ",") {
			set[http.CanonicalHeaderKey(strings.Trim(p, " \t"))] = true
		}
	}
	delete(h, "Trailer")
	for k := range set {
		announced = append(announced, k)
	}
	sort.Strings(announced)
	return h, announced
}

// expected request rendering (only what the fields define)
func c19ModelRequest(view c19View) string {
	method := view.Pseudo[":method"]
	uri := view.Pseudo[":path"]
	proto := "HTTP/3.0"
	if method == http.MethodConnect {
		uri = view.Pseudo[":authority"]
		if p := view.Pseudo[":protocol"]; p != "" {
			proto = p // RFC 9220 extended CONNECT
		}
	}
	h, ann := c19SplitTrailer(c19HeaderOf(view, true, true))
	return fmt.Sprintf("method=%q host=%q uri=%q proto=%q cl=%d header=%s trailer=%q",
		method, view.Pseudo[":authority"], uri, proto, c19ModelCL(view), c19RenderHeader(h), ann)
}

func c19RenderRequest(r *http.Request) string {
	return fmt.Sprintf("method=%q host=%q uri=%q proto=%q cl=%d header=%s trailer=%s",
		r.Method, r.Host, r.RequestURI, r.Proto, r.ContentLength, c19RenderHeader(r.Header), c19RenderKeys(r.Trailer))
}

func c19ModelResponse(view c19View) string {
	h, ann := c19SplitTrailer(c19HeaderOf(view, false, true))
	return fmt.Sprintf("status=%s proto=%q cl=%d header=%s trailer=%q",
		view.Pseudo[":status"], "HTTP/3.0", c19ModelCL(view), c19RenderHeader(h), ann)
}

func c19RenderResponse(r *http.Response) string {
	return fmt.Sprintf("status=%d proto=%q cl=%d header=%s trailer=%s",
		r.StatusCode, r.Proto, r.ContentLength, c19RenderHeader(r.Header), c19RenderKeys(r.Trailer))
}

// what parseHeaders itself must report for a well-formed section
func c19ModelParsed(view c19View) string {
	h := c19HeaderOf(view, false, true)
	return fmt.Sprintf("path=%q method=%q authority=%q scheme=%q protocol=%q status=%q cl=%d header=%s",
		view.Pseudo[":path"], view.Pseudo[":method"], view.Pseudo[":authority"], view.Pseudo[":scheme"], view.Pseudo[":protocol"], view.Pseudo[":status"],
		c19ModelCL(view), c19RenderHeader(h))
}

func c19RenderParsed(h header) string {
	return fmt.Sprintf("path=%q method=%q authority=%q scheme=%q protocol=%q status=%q cl=%d header=%s",
		h.Path, h.Method, h.Authority, h.Scheme, h.Protocol, h.Status, h.ContentLength, c19RenderHeader(h.Headers))
}

func c19ModelTrailer(view c19View) string {
	return c19RenderHeader(c19HeaderOf(view, false, false))
}

// c19ErrClass maps an error returned by the parsing functions to the error the callers
// (server_conn.go handleRequestStream, stream.go ReadResponse) put on the wire for it.
func c19ErrClass(err error) string {
	var qe *qpackError
	switch {
	case err == nil:
		return "none"
	case errors.As(err, &qe):
		return "QPACK_DECOMPRESSION_FAILED"
	case errors.Is(err, errHeaderTooLarge):
		return "too-large(431/H3_EXCESSIVE_LOAD)"
	}
	return "H3_MESSAGE_ERROR"
}
