package http3

// C19 part "writer-response-ops": the response writer under every ORDER of handler calls.
//
// Part writer-response plays one fixed handler script per message (set the header, optional
// WriteHeader(103), WriteHeader(final), at most two small Writes, set the trailers) and looks at
// the stream once, after the handler has ended. Which bytes a handler call puts on the stream
// depends, however, on the state its predecessors left on the responseWriter (header complete?
// header serialised? small-response buffer in use?). Here the handler is a sequence of calls
// over the alphabet c19RspOps, ALL sequences up to a length bound, on one fresh real
// responseWriter each, x {GET, HEAD} x three trailer styles. What the stream carries at the end
// is read back by the real client path and judged by the oracle of part writer-response
// (c19JudgeRspWire), against the message net/http's ResponseWriter contract assigns to the call
// sequence:
//
//   - WriteHeader(1xx) before the final status: one informational section with the header map
//     as it is at that moment, sent ahead of everything later;
//   - the first WriteHeader(>= 200), or the first Write / Flush (implicit 200): the final section;
//     every later WriteHeader call, whatever its status, is ignored ("WriteHeader calls after
//     the header is complete have no effect");
//   - Write: the bytes belong to the body unless the status (204) or the method (HEAD) allows none;
//   - Flush: no effect on the message;
//   - Header().Add after the final status: the statement is silent (net/http ignores it, this
//     writer serialises the map when it first has to), so every state the map went through from the
//     final WriteHeader to the end of the handler is accepted for the final section;
//   - Header().Add("Trailer", "X-V") / Header().Set("X-V", "vv"): the handler's header map does not
//     stay the same between the calls. In particular a handler may announce a FURTHER trailer at
//     any time before the header is complete (an inner handler / a middleware after the outer one
//     has sent its 1xx response): every section stands for the header map of ITS moment, so the
//     declared trailers of the final section are the ones the Trailer field names when the final
//     header is complete, whatever an earlier 1xx section already declared. A field whose name is
//     declared at that moment is not a header field of the final section (its value belongs to the
//     trailer section), a field set while its name is not declared is an ordinary header field of
//     the sections written meanwhile. After the final status these two calls are map changes like
//     Header().Add("X-B"): every state of the map is accepted for the final section, and so is the
//     trailer section of every such state (the trailers the map declared then);
//   - trailer values set as the handler's last statements (X-V: if the handler announced it).
//
// The message is a valid net/http response for every sequence, so every section the writer
// emits must be accepted by the parser, in the order and with the fields of the message, the
// body must arrive whole and the trailer section must be accepted.

import (
	"bytes"
	"context"
	"encoding/json"
	"fmt"
	"io"
	"log/slog"
	"net/http"
	"strings"

	"github.com/quic-go/qpack"

	quic "github.com/refraction-networking/uquic"
	"github.com/refraction-networking/uquic/internal/verifmc/explore"
)

const (
	c19OpH103 = iota
	c19OpH200
	c19OpH404
	c19OpH204
	c19OpW5
	c19OpW4k
	c19OpFlush
	c19OpAddHdr
	c19OpAddTrailer
	c19OpSetTrailerVal
	// Header().Set("Content-Length", ..) calls (part writer-response-server only)
	c19OpCL10
	c19OpCL0
	c19OpCLNil
	c19OpCLBad
)

// the calls part writer-response-ops enumerates (the first c19RspOpsBase entries of c19RspOps)
const c19RspOpsBase = c19OpSetTrailerVal + 1

// The alphabet of handler calls. 4096 = maxSmallResponseSize: the smallest Write that cannot be
// buffered and therefore serialises the header by itself; 5 bytes stay in the buffer.
var c19RspOps = []string{
	"WriteHeader(103)", "WriteHeader(200)", "WriteHeader(404)", "WriteHeader(204)",
	"Write(5 bytes)", "Write(4096 bytes)", "Flush()", "Header().Add(\"X-B\", \"b\")",
	"Header().Add(\"Trailer\", \"X-V\")", "Header().Set(\"X-V\", \"vv\")",
	"Header().Set(\"Content-Length\", \"10\")", "Header().Set(\"Content-Length\", \"0\")",
	"Header()[\"Content-Length\"] = nil", "Header().Set(\"Content-Length\", \"abc\")",
}

var c19Body4k = []byte(strings.Repeat("x", maxSmallResponseSize))

// trailer styles of c19RspTrailers used here: none, declared X-T with the value set at the end,
// undeclared http.TrailerPrefix field set at the end
var c19RspOpsTrailers = []int{0, 1, 3}

type c19RspOpsCase struct {
	Ops     []int `json:"ops"`
	Head    bool  `json:"head"`
	Trailer int   `json:"trailer"` // index into c19RspTrailers
	// Server: the handler is run by the real RawServerConn.handleRequestStream on a real quic.Stream
	// (part writer-response-server) instead of on a bare responseWriter
	Server bool `json:"server,omitempty"`
}

func (c c19RspOpsCase) prefix(k int) c19RspOpsCase {
	c.Ops = c.Ops[:k]
	return c
}

func (c c19RspOpsCase) human() []string {
	var l []string
	for _, o := range c.Ops {
		l = append(l, c19RspOps[o])
	}
	return []string{
		fmt.Sprintf("handler (HEAD=%v, run by the real server request handling=%v), header Link / Date / Content-Type set: %s", c.Head, c.Server, strings.Join(l, "; ")),
		"trailers: " + c19RspTrailers[c.Trailer],
	}
}

// script plays the handler on h (the real writer's header map, or the model's copy); changed is
// called after every change of the header map that follows the first call.
func (c c19RspOpsCase) script(h http.Header, writeHeader func(int), write func([]byte), flush func(), changed func()) {
	announcedV := false
	h["Link"] = []string{"</s.css>; rel=preload"}
	h["Date"] = []string{c19Date}
	h["Content-Type"] = []string{"text/plain"} // no sniffing
	if c.Trailer == 1 {
		h["Trailer"] = []string{"X-T"}
	}
	for _, o := range c.Ops {
		switch o {
		case c19OpH103:
			writeHeader(http.StatusEarlyHints)
		case c19OpH200:
			writeHeader(http.StatusOK)
		case c19OpH404:
			writeHeader(http.StatusNotFound)
		case c19OpH204:
			writeHeader(http.StatusNoContent)
		case c19OpW5:
			write([]byte("hello"))
		case c19OpW4k:
			write(c19Body4k)
		case c19OpFlush:
			flush()
		case c19OpAddHdr:
			h["X-B"] = append(append([]string(nil), h["X-B"]...), "b")
			changed()
		case c19OpAddTrailer:
			// a further trailer is announced (a second Trailer value if the style has announced X-T)
			h["Trailer"] = append(append([]string(nil), h["Trailer"]...), "X-V")
			announcedV = true
			changed()
		case c19OpSetTrailerVal:
			// a header field of the sections written while X-V is not announced, a trailer value otherwise
			h["X-V"] = []string{"vv"}
			changed()
		case c19OpCL10:
			h["Content-Length"] = []string{"10"}
			changed()
		case c19OpCL0:
			h["Content-Length"] = []string{"0"}
			changed()
		case c19OpCLNil:
			h["Content-Length"] = nil // "to suppress automatic response headers, set their value to nil" (net/http)
			changed()
		case c19OpCLBad:
			h["Content-Length"] = []string{"abc"}
			changed()
		}
	}
	if announcedV {
		h["X-V"] = []string{"vv"}
	}
	switch c.Trailer {
	case 1:
		h["X-T"] = []string{"tv"}
	case 3:
		h[http.TrailerPrefix+"X-U"] = []string{"uv"}
	}
}

type c19RspOpsFacts struct {
	interim, lateInterim, lateFinal, lateAdd int
	changedAfter1xx                          bool // the header map changed between a 1xx section and the final status
	status                                   int
	implicit                                 bool
	byHandler                                bool // the header was complete before the handler returned
	autoCL                                   bool // the server may add a Content-Length of its own
	handlerCL                                string
}

// the model: the message the call sequence stands for (see the file comment)
func (c c19RspOpsCase) expect() (sections []c19RspExpect, body string, facts c19RspOpsFacts) {
	h := http.Header{}
	complete := false
	var final c19RspExpect
	// the Trailer field of every state the header map had from the final status on: [0] belongs to
	// final.fields, [1+j] to final.alts[j]
	var announced [][]string
	var cls [][]string // the well-formed Content-Length values of those states
	noteCL := func() {
		if v := h["Content-Length"]; len(v) > 0 && c19CLClass(v) == "well-formed" {
			cls = append(cls, v)
		}
	}
	finish := func(status int, implicit bool) {
		noteCL()
		complete = true
		facts.status, facts.implicit = status, implicit
		final = c19SectionOf(status, c19RspHeaderFields(h, status), h)
		announced = append(announced, append([]string(nil), h["Trailer"]...))
	}
	c.script(h,
		func(status int) {
			switch {
			case complete && status < 200:
				facts.lateInterim++
			case complete:
				facts.lateFinal++
			case status < 200:
				facts.interim++
				sections = append(sections, c19SectionOf(status, c19RspHeaderFields(h, status), h)) // sent at once (RFC 9110, 15.2)
			default:
				finish(status, false)
			}
		},
		func(b []byte) {
			if !complete {
				finish(http.StatusOK, true)
			}
			if facts.status != http.StatusNoContent && facts.status != http.StatusNotModified && !c.Head {
				body += string(b)
			}
		},
		func() {
			if !complete {
				finish(http.StatusOK, true)
			}
		},
		func() {
			if complete {
				facts.lateAdd++
				noteCL()
				alt := c19SectionOf(facts.status, c19RspHeaderFields(h, facts.status), h)
				final.alts = append(final.alts, alt.fields)
				announced = append(announced, append([]string(nil), h["Trailer"]...))
				if alt.withoutCL != nil {
					// a malformed Content-Length may be left out of this state of the map as well
					final.alts = append(final.alts, alt.withoutCL)
					announced = append(announced, append([]string(nil), h["Trailer"]...))
				}
			} else if facts.interim > 0 {
				facts.changedAfter1xx = true
			}
		})
	facts.byHandler = complete
	if !complete {
		finish(http.StatusOK, true) // the server flushes when the handler returns
	}
	// the trailer section of a state: the fields ITS Trailer field announces, with the values the
	// handler has set when it ends
	trailerOf := func(trailerField []string) http.Header {
		hk := h.Clone()
		delete(hk, "Trailer")
		if len(trailerField) > 0 {
			hk["Trailer"] = trailerField
		}
		return c19RspTrailerOf(hk)
	}
	for _, v := range cls {
		if c19ModelCL(c19View{HasCL: true, CL: v[0]}) != int64(len(body)) {
			final.bodyUnjudged = true
		}
	}
	final.trailer = trailerOf(announced[0])
	for _, a := range announced[1:] {
		final.altTrailers = append(final.altTrailers, trailerOf(a))
	}
	// The automatic Content-Length (server_conn.go, like net/http's): when the handler's header map
	// holds no Content-Length entry at the end of the handler (or one the writer may leave out because
	// it is malformed), the statement is silent about a Content-Length the server adds by itself. An
	// entry without values is an entry: the handler suppresses the field. A well-formed value the
	// handler has set at that moment is a field of the message and must come back unchanged.
	cl, haveCL := h["Content-Length"]
	facts.autoCL = c.Server && (!haveCL || (len(cl) > 0 && c19CLClass(cl) != "well-formed"))
	facts.handlerCL = "none"
	switch {
	case haveCL && len(cl) == 0:
		facts.handlerCL = "suppressed"
	case haveCL:
		facts.handlerCL = c19CLClass(cl)
	}
	return append(sections, final), body, facts
}

// c19WithAutoCL adds, for every field list the final section may show that has no Content-Length,
// the same list with the Content-Length the server put on the wire by itself (any value: which
// number the server announces is not this property's business, the parser has to accept it).
func c19WithAutoCL(sec c19RspExpect, wire []byte, nth int) c19RspExpect {
	r := bytes.NewReader(wire)
	var emitted []c19Field
	for j := 0; j <= nth; j++ {
		b, _, bad := c19TryReadHeadersFrame(r)
		if bad != "" {
			return sec
		}
		emitted = c19DecodeAll(b)
	}
	var auto []c19Field
	for _, f := range emitted {
		if f.N == "content-length" {
			auto = append(auto, f)
		}
	}
	if len(auto) != 1 {
		return sec
	}
	hasCL := func(fs []c19Field) bool {
		for _, f := range fs {
			if f.N == "content-length" {
				return true
			}
		}
		return false
	}
	type cand struct {
		fs []c19Field
		tr http.Header
	}
	cands := []cand{{sec.fields, sec.trailer}}
	if sec.withoutCL != nil {
		cands = append(cands, cand{sec.withoutCL, sec.trailer})
	}
	for j, a := range sec.alts {
		cands = append(cands, cand{a, sec.altTrailers[j]})
	}
	for _, cd := range cands {
		if !hasCL(cd.fs) {
			sec.alts = append(sec.alts, append(append([]c19Field(nil), cd.fs...), auto[0]))
			sec.altTrailers = append(sec.altTrailers, cd.tr)
		}
	}
	return sec
}

func (f c19RspOpsFacts) history() string {
	var l []string
	if f.interim > 0 {
		l = append(l, "1xx-before-final")
	}
	if f.lateInterim > 0 {
		l = append(l, "1xx-after-final")
	}
	if f.lateFinal > 0 {
		l = append(l, "second-final")
	}
	if f.changedAfter1xx {
		l = append(l, "header-changed-after-1xx")
	}
	if f.lateAdd > 0 {
		l = append(l, "header-added-after-final")
	}
	if len(l) == 0 {
		return "plain"
	}
	return strings.Join(l, "+")
}

// c19RunRspOps runs a case. A failing sequence is reported through its shortest failing prefix
// (same method, same trailer style): the key names the failed clause and the call that completes
// that prefix, with the state of the message before it ("@WriteHeader(103)/after-final";
// "@handler-end" when even the empty handler fails), so one defect gives one key whatever follows.
func c19RunRspOps(c c19RspOpsCase) (outcome string, fail *explore.Fail) {
	out, f := c19RunRspOpsAt(c, "")
	if f == nil {
		return out, nil
	}
	for k := 0; k <= len(c.Ops); k++ {
		p := c.prefix(k)
		at := "@handler-end"
		if k > 0 {
			_, _, before := c.prefix(k - 1).expect()
			at = "@" + c19RspOps[c.Ops[k-1]] + "/before-final"
			if before.byHandler {
				at = "@" + c19RspOps[c.Ops[k-1]] + "/after-final"
			}
		}
		if _, pf := c19RunRspOpsAt(p, at); pf != nil {
			if k < len(c.Ops) {
				pf.What += fmt.Sprintf(" [shortest failing prefix: the first %d of the %d calls]", k, len(c.Ops))
			}
			return "", pf
		}
	}
	explore.Must(false, "the sequence fails (%s) but not when run as its own prefix", f.Key)
	return "", f
}

func c19RunRspOpsAt(c c19RspOpsCase, at string) (outcome string, fail *explore.Fail) {
	var wire []byte
	var sentEarly bool // classification only
	pfx := "writer-response-ops"
	if c.Server {
		pfx = "writer-response-server"
		var f *explore.Fail
		if wire, sentEarly, f = c19ServeRspOps(c, at); f != nil {
			return "", f
		}
	} else {
		fake := &c19FakeStream{}
		str := newStream(fake, nil, nil, func(io.Reader, *headersFrame) error { return nil }, nil)
		rw := newResponseWriter(str, nil, c.Head, slog.New(slog.DiscardHandler))
		c.script(rw.Header(), rw.WriteHeader, func(b []byte) { rw.Write(b) }, rw.Flush, func() {})
		sentEarly = rw.headerWritten
		// what the server does when the handler returns (server_conn.go)
		rw.Flush()
		rw.flushTrailers()
		wire = append([]byte(nil), fake.out.Bytes()...)
	}
	sections, wantBody, facts := c.expect()
	if facts.autoCL {
		sections[len(sections)-1] = c19WithAutoCL(sections[len(sections)-1], wire, len(sections)-1)
	}
	out, f := c19JudgeRspWire(pfx, at, wire, true, sections, wantBody)
	if f != nil {
		return "", f
	}
	body := "no body"
	switch {
	case len(wantBody) >= maxSmallResponseSize:
		body = "body >= 4096"
	case len(wantBody) > 0:
		body = "body < 4096"
	}
	when := "header serialised at the end"
	if sentEarly {
		when = "header serialised by the handler"
	}
	status := fmt.Sprint(facts.status)
	if facts.implicit {
		status += " (implicit)"
	}
	if c.Server {
		return fmt.Sprintf("%s | %d interim, final %s, %s, %s, history %s, handler Content-Length %s, HEAD=%v", out, facts.interim, status, body, when, facts.history(), facts.handlerCL, c.Head), nil
	}
	return fmt.Sprintf("%s | %d interim, final %s, %s, %s, history %s, HEAD=%v", out, facts.interim, status, body, when, facts.history(), c.Head), nil
}

// c19ServeRspOps lets the real server request handling run the handler: a HEADERS frame with a
// well-formed GET / HEAD request on a real quic.Stream (export shim mc/c19/inject; the stream's
// sender takes the data as it is written), RawServerConn.handleRequestStream with the call
// sequence as its request handler, and everything it does after the handler has returned. wire =
// the bytes the server wrote on the stream.
func c19ServeRspOps(c c19RspOpsCase, at string) (wire []byte, sentEarly bool, fail *explore.Fail) {
	method := http.MethodGet
	if c.Head {
		method = http.MethodHead
	}
	blk := c19EncodeBlock([]c19Field{{":method", method}, {":scheme", "https"}, {":authority", "example.com"}, {":path", "/file"}}, false)
	qstr, pump := quic.VerifC19NewPumpedStream(c19HeadersFrame(blk))
	calls := 0
	srv := &RawServerConn{
		serverContext:  context.Background(),
		maxHeaderBytes: c19WriterLimit,
		decoder:        qpack.NewDecoder(),
		logger:         slog.New(slog.DiscardHandler),
		requestHandler: http.HandlerFunc(func(w http.ResponseWriter, r *http.Request) {
			calls++
			c.script(w.Header(), w.WriteHeader, func(b []byte) { w.Write(b) }, w.(http.Flusher).Flush, func() {})
			sentEarly = w.(*responseWriter).headerWritten
		}),
	}
	srv.rawConn = *newRawConn(quic.VerifC19Conn(), false, srv.onStreamsEmpty, nil, nil, nil)
	srv.handleRequestStream(srv.rawConn.TrackStream(qstr))
	_, reset, rest := quic.VerifC19Drain(qstr)
	explore.Must(calls == 1, "the server did not run the handler for a well-formed %s request (%d calls)", method, calls)
	if len(reset) != 0 {
		return nil, false, explore.Failf("writer-response-server/stream-reset"+at, "the server reset the response stream (RESET_STREAM %#x) of a handler that returned normally", reset)
	}
	return append(append([]byte(nil), pump.Bytes()...), rest...), sentEarly, nil
}

// the calls part writer-response-server enumerates
var c19RspSrvOps = []int{c19OpH103, c19OpH200, c19OpH204, c19OpW5, c19OpW4k, c19OpFlush, c19OpCL10, c19OpCL0, c19OpCLNil, c19OpCLBad}

// trailer styles of part writer-response-server: none, declared X-T with the value set at the end
var c19RspSrvTrailers = []int{0, 1}

func c19RspSrvDecode(i int) c19RspOpsCase {
	nctx := 2 * len(c19RspSrvTrailers)
	ctx, j := i%nctx, i/nctx
	l, pow := 0, 1
	for j >= pow {
		j -= pow
		pow *= len(c19RspSrvOps)
		l++
	}
	ops := make([]int, l)
	for p := l - 1; p >= 0; p-- {
		ops[p] = c19RspSrvOps[j%len(c19RspSrvOps)]
		j /= len(c19RspSrvOps)
	}
	return c19RspOpsCase{Ops: ops, Head: ctx%2 == 1, Trailer: c19RspSrvTrailers[ctx/2], Server: true}
}

func c19RspSrvPart() explore.Part {
	return explore.Part{
		Name: "writer-response-server",
		Run: func(e explore.Env) *explore.Report {
			maxLen := c19Tier(e, 4, 5)
			n, pow := 0, 1
			for l := 0; l <= maxLen; l++ {
				n += pow
				pow *= len(c19RspSrvOps)
			}
			n *= 2 * len(c19RspSrvTrailers)
			col := newC19Collector()
			outs := &c19Outcomes{}
			rep := explore.RunCases(e, n, 0, true, func(i int) explore.CaseResult {
				c := c19RspSrvDecode(i)
				var out string
				f := c19Guard(func() (f *explore.Fail) { out, f = c19RunRspOps(c); return f })
				if f != nil {
					col.add(i, f, c, c.human())
				} else {
					outs.add(out)
				}
				return explore.CaseResult{Fail: f, Execs: 1, Trans: 1}
			})
			col.finish(rep)
			outs.into(rep)
			rep.Rule = "every sequence of handler calls over {WriteHeader(103), WriteHeader(200), WriteHeader(204), Write(5 bytes), Write(4096 bytes), Flush(), Header().Set(Content-Length, 10), Header().Set(Content-Length, 0), Header()[Content-Length] = nil, Header().Set(Content-Length, abc)} up to the length bound (the empty handler included) x {GET, HEAD} x {no trailers, declared trailer}, each as the request handler of the real RawServerConn.handleRequestStream on a real quic.Stream holding a well-formed request, so that what the server does after the handler has returned (automatic Content-Length, Flush, trailers, stream end) is part of the response; the stream is read back by the real RequestStream.ReadResponse + body Read (-> decodeTrailers) and compared with the message net/http's ResponseWriter contract assigns to the call sequence"
			rep.Bound = fmt.Sprintf("%d handler call sequences: 0<=len<=%d over %d calls x 2 methods x %d trailer styles", n, maxLen, len(c19RspSrvOps), len(c19RspSrvTrailers))
			for _, i := range []int{n - 1, n / 2, n / 3} {
				rep.Samples = append(rep.Samples, c19RspSrvDecode(i).human())
			}
			return rep
		},
		Replay: func(e explore.Env, raw json.RawMessage) *explore.Violation {
			var c c19RspOpsCase
			explore.Must(json.Unmarshal(raw, &c) == nil, "bad replay %s", raw)
			f := c19Guard(func() (f *explore.Fail) { _, f = c19RunRspOps(c); return f })
			if f == nil {
				return nil
			}
			return &explore.Violation{Key: f.Key, What: f.What, Replay: raw, Human: c.human()}
		},
	}
}

// case index -> case: sequences ordered by length, then lexicographically; the six contexts of a
// sequence are neighbours (so the smallest failing index of a key is a shortest sequence)
func c19RspOpsDecode(i int) c19RspOpsCase {
	nctx := 2 * len(c19RspOpsTrailers)
	ctx, j := i%nctx, i/nctx
	l, pow := 0, 1
	for j >= pow {
		j -= pow
		pow *= c19RspOpsBase
		l++
	}
	ops := make([]int, l)
	for p := l - 1; p >= 0; p-- {
		ops[p] = j % c19RspOpsBase
		j /= c19RspOpsBase
	}
	return c19RspOpsCase{Ops: ops, Head: ctx%2 == 1, Trailer: c19RspOpsTrailers[ctx/2]}
}

func c19RspOpsPart() explore.Part {
	return explore.Part{
		Name: "writer-response-ops",
		Run: func(e explore.Env) *explore.Report {
			maxLen := c19Tier(e, 5, 6)
			n, pow := 0, 1
			for l := 0; l <= maxLen; l++ {
				n += pow
				pow *= c19RspOpsBase
			}
			n *= 2 * len(c19RspOpsTrailers)
			col := newC19Collector()
			outs := &c19Outcomes{}
			rep := explore.RunCases(e, n, 0, true, func(i int) explore.CaseResult {
				c := c19RspOpsDecode(i)
				var out string
				f := c19Guard(func() (f *explore.Fail) { out, f = c19RunRspOps(c); return f })
				if f != nil {
					col.add(i, f, c, c.human())
				} else {
					outs.add(out)
				}
				return explore.CaseResult{Fail: f, Execs: 1, Trans: 1}
			})
			col.finish(rep)
			outs.into(rep)
			rep.Rule = "every sequence of handler calls over {WriteHeader(103), WriteHeader(200), WriteHeader(404), WriteHeader(204), Write(5 bytes), Write(4096 bytes), Flush(), Header().Add(X-B), Header().Add(Trailer, X-V) = a further trailer announced, Header().Set(X-V)} up to the length bound x {GET, HEAD} x {no trailers, declared trailer, TrailerPrefix trailer}, each on a fresh real responseWriter followed by the server's Flush + flushTrailers; the stream is read back by the real RequestStream.ReadResponse + body Read (-> decodeTrailers) and compared with the message net/http's ResponseWriter contract assigns to the call sequence"
			rep.Bound = fmt.Sprintf("%d handler call sequences: 0<=len<=%d over %d calls x 2 methods x %d trailer styles", n, maxLen, c19RspOpsBase, len(c19RspOpsTrailers))
			for _, i := range []int{n - 1, n / 2, n / 3} {
				rep.Samples = append(rep.Samples, c19RspOpsDecode(i).human())
			}
			return rep
		},
		Replay: func(e explore.Env, raw json.RawMessage) *explore.Violation {
			var c c19RspOpsCase
			explore.Must(json.Unmarshal(raw, &c) == nil, "bad replay %s", raw)
			f := c19Guard(func() (f *explore.Fail) { _, f = c19RunRspOps(c); return f })
			if f == nil {
				return nil
			}
			return &explore.Violation{Key: f.Key, What: f.What, Replay: raw, Human: c.human()}
		},
	}
}
