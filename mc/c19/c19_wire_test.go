package http3

// C19 part "wire": the same field sequences, but encoded by the real qpack encoder into
// HEADERS frames and pushed through the real receive paths:
//
//	request  : frameParser -> qpack.Decoder.Decode -> requestFromHeaders (as handleRequestStream does)
//	server   : RawServerConn.handleRequestStream itself on a real quic.Stream: the handler sees
//	           the request, or the STOP_SENDING / RESET_STREAM codes and the 431 response are observed
//	response : RequestStream.ReadResponse over a scripted stream; the H3 error code the client
//	           puts on the stream (CancelRead / CancelWrite) is observed directly
//	trailer  : the response body of such a stream is read to the end, which runs
//	           Stream.Read -> decodeTrailers -> parseTrailers

import (
	"bytes"
	"context"
	"errors"
	"fmt"
	"io"
	"net/http"
	"time"

	"github.com/quic-go/qpack"

	quic "github.com/refraction-networking/uquic"
	"github.com/refraction-networking/uquic/internal/verifmc/explore"
)

// c19FakeStream is a scripted datagramStream: a byte string to read, a buffer to write to,
// and a record of the stream resets the code under test issues.
type c19FakeStream struct {
	in          *bytes.Reader
	out         bytes.Buffer
	cancelRead  []quic.StreamErrorCode
	cancelWrite []quic.StreamErrorCode
	closed      int
}

var _ datagramStream = &c19FakeStream{}

func (s *c19FakeStream) Read(b []byte) (int, error) {
	if s.in == nil {
		return 0, io.EOF
	}
	return s.in.Read(b)
}
func (s *c19FakeStream) Write(b []byte) (int, error)        { return s.out.Write(b) }
func (s *c19FakeStream) Close() error                       { s.closed++; return nil }
func (s *c19FakeStream) CancelRead(c quic.StreamErrorCode)  { s.cancelRead = append(s.cancelRead, c) }
func (s *c19FakeStream) CancelWrite(c quic.StreamErrorCode) { s.cancelWrite = append(s.cancelWrite, c) }
func (s *c19FakeStream) StreamID() quic.StreamID            { return 0 }
func (s *c19FakeStream) Context() context.Context           { return context.Background() }
func (s *c19FakeStream) SetDeadline(time.Time) error        { return nil }
func (s *c19FakeStream) SetReadDeadline(time.Time) error    { return nil }
func (s *c19FakeStream) SetWriteDeadline(time.Time) error   { return nil }
func (s *c19FakeStream) SendDatagram([]byte) error          { return nil }
func (s *c19FakeStream) QUICStream() *quic.Stream           { return nil }
func (s *c19FakeStream) ReceiveDatagram(context.Context) ([]byte, error) {
	return nil, io.EOF
}

// c19Skip: the encoded HEADERS frame itself is longer than the limit under test. The code
// then refuses the frame by its length before decoding anything, which is outside the
// statement (it speaks about the decoded size); such (section, limit) pairs are not judged.
const c19Skip = "skip"

// c19EncodeBlock encodes the fields with the real qpack encoder. A decoder failure is a
// trailing byte with the (unsupported) post-base pattern 0001xxxx.
func c19EncodeBlock(fs []c19Field, decodeErr bool) []byte {
	var buf bytes.Buffer
	enc := qpack.NewEncoder(&buf)
	for _, f := range fs {
		explore.Must(enc.WriteField(qpack.HeaderField{Name: f.N, Value: f.V}) == nil, "qpack encode")
	}
	if buf.Len() == 0 {
		buf.Write([]byte{0, 0}) // the encoder writes the prefix with the first field only
	}
	if decodeErr {
		buf.WriteByte(0x10)
	}
	return buf.Bytes()
}

func c19HeadersFrame(block []byte) []byte {
	b := (&headersFrame{Length: uint64(len(block))}).Append(nil)
	return append(b, block...)
}

func c19DataFrame(data []byte) []byte {
	b := (&dataFrame{Length: uint64(len(data))}).Append(nil)
	return append(b, data...)
}

// c19ClientStream builds a real RequestStream (in the state "request sent") over the wire bytes.
func c19ClientStream(wire []byte, limit, trailerLimit int) (*RequestStream, *c19FakeStream, *http.Response) {
	fake := &c19FakeStream{in: bytes.NewReader(wire)}
	rsp := &http.Response{}
	dec := qpack.NewDecoder()
	str := newStream(fake, nil, nil, func(r io.Reader, hf *headersFrame) error {
		hdr, err := decodeTrailers(r, hf, trailerLimit, dec, nil, fake.StreamID()) // as client.go openRequestStream does
		if err != nil {
			return err
		}
		rsp.Trailer = hdr
		return nil
	}, nil)
	rs := newRequestStream(str, newRequestWriter(), nil, dec, true, limit, rsp)
	rs.sentRequest = true
	return rs, fake, rsp
}

func c19CodeName(c quic.StreamErrorCode) string {
	switch ErrCode(c) {
	case ErrCodeMessageError:
		return "H3_MESSAGE_ERROR"
	case ErrCodeQPACKDecompressionFailed:
		return "QPACK_DECOMPRESSION_FAILED"
	}
	return fmt.Sprintf("%#x", uint64(c))
}

func c19ParseWireRequest(kind c19Kind, fs []c19Field, decodeErr bool, limit int) (string, error, string, *explore.Fail) {
	blk := c19EncodeBlock(fs, decodeErr)
	if len(blk) > limit {
		return "", nil, c19Skip, nil
	}
	wire := c19HeadersFrame(blk)
	r := bytes.NewReader(wire)
	fr, err := (&frameParser{r: r}).ParseNext(nil)
	hf, ok := fr.(*headersFrame)
	explore.Must(err == nil && ok, "HEADERS frame not parsed back: %v", err)
	block := make([]byte, hf.Length)
	_, err = io.ReadFull(r, block)
	explore.Must(err == nil, "short frame")
	req, err := requestFromHeaders(qpack.NewDecoder().Decode(block), limit, nil)
	if err != nil {
		return "", err, c19ErrClass(err), nil
	}
	return c19RenderRequest(req), nil, "none", nil
}

func c19ParseWireResponse(kind c19Kind, fs []c19Field, decodeErr bool, limit int) (string, error, string, *explore.Fail) {
	blk := c19EncodeBlock(fs, decodeErr)
	if len(blk) > limit {
		return "", nil, c19Skip, nil
	}
	rs, fake, _ := c19ClientStream(c19HeadersFrame(blk), limit, limit)
	res, err := rs.ReadResponse()
	if err == nil {
		if len(fake.cancelRead)+len(fake.cancelWrite) != 0 {
			return "", nil, "", explore.Failf("wire-response/reset-on-accept", "response accepted but the stream was reset: read %v write %v", fake.cancelRead, fake.cancelWrite)
		}
		return c19RenderResponse(res), nil, "none", nil
	}
	// RFC 9114, 4.1.2: malformed responses are a stream error; both directions are aborted
	if len(fake.cancelRead) != 1 || len(fake.cancelWrite) != 1 || fake.cancelRead[0] != fake.cancelWrite[0] {
		return "", err, "", explore.Failf("wire-response/reset-missing", "response rejected (%v) but stream resets are read %v write %v, want exactly one each with the same code", err, fake.cancelRead, fake.cancelWrite)
	}
	cls := c19CodeName(fake.cancelRead[0])
	if want := c19ErrClass(err); (want == "QPACK_DECOMPRESSION_FAILED") != (cls == "QPACK_DECOMPRESSION_FAILED") {
		return "", err, "", explore.Failf("wire-response/code-vs-error:"+cls, "response rejected with %v (class %s) but the stream was reset with %s", err, want, cls)
	}
	if cls != "QPACK_DECOMPRESSION_FAILED" && cls != "H3_MESSAGE_ERROR" {
		return "", err, "", explore.Failf("wire-response/wrong-stream-error:"+cls, "response rejected (%v) with stream error %s, RFC 9114 4.1.2 prescribes H3_MESSAGE_ERROR", err, cls)
	}
	return "", err, cls, nil
}

func c19ParseWireTrailer(kind c19Kind, fs []c19Field, decodeErr bool, limit int) (string, error, string, *explore.Fail) {
	blk := c19EncodeBlock(fs, decodeErr)
	if len(blk) > limit {
		return "", nil, c19Skip, nil
	}
	var wire []byte
	wire = append(wire, c19HeadersFrame(c19EncodeBlock([]c19Field{{":status", "200"}}, false))...)
	wire = append(wire, c19DataFrame([]byte("x"))...)
	wire = append(wire, c19HeadersFrame(blk)...)
	// the trailer limit is the one under test; the response header itself needs 42 bytes
	rs, _, rsp := c19ClientStream(wire, c19NoLimit, limit)
	res, err := rs.ReadResponse()
	explore.Must(err == nil, "plain 200 response rejected: %v", err)
	body, err := io.ReadAll(res.Body)
	if err != nil {
		return "", err, c19ErrClass(err), nil
	}
	explore.Must(string(body) == "x", "body %q", body)
	return c19RenderHeader(rsp.Trailer), nil, "none", nil
}

// c19ParseWireServer runs the real server path RawServerConn.handleRequestStream on a real
// quic.Stream (export shim mc/c19/inject) that holds HEADERS(block) + DATA("x"), and observes
// what the server does: the handler is called (accepted), or the stream is reset.
func c19ParseWireServer(kind c19Kind, fs []c19Field, decodeErr bool, limit int) (string, error, string, *explore.Fail) {
	blk := c19EncodeBlock(fs, decodeErr)
	if len(blk) > limit {
		return "", nil, c19Skip, nil
	}
	qstr := quic.VerifC19NewStream(append(c19HeadersFrame(blk), c19DataFrame([]byte("x"))...))
	var seen []string
	c := &RawServerConn{
		serverContext:  context.Background(),
		maxHeaderBytes: limit,
		decoder:        qpack.NewDecoder(),
		requestHandler: http.HandlerFunc(func(w http.ResponseWriter, r *http.Request) { seen = append(seen, c19RenderRequest(r)) }),
	}
	c.rawConn = *newRawConn(quic.VerifC19Conn(), false, c.onStreamsEmpty, nil, nil, nil)
	c.handleRequestStream(c.rawConn.TrackStream(qstr))
	stop, reset, written := quic.VerifC19Drain(qstr)
	if len(seen) > 0 {
		if len(seen) != 1 || len(reset) != 0 {
			return "", nil, "", explore.Failf("wire-server/accept-and-reset", "handler called %d times, RESET_STREAM %#x", len(seen), reset)
		}
		return seen[0], nil, "none", nil
	}
	status := ""
	if len(written) > 0 {
		if b, _, ok := c19ReadHeadersFrame(bytes.NewReader(written)); ok {
			status = c19ViewOf(c19DecodeAll(b)).Pseudo[":status"]
		}
	}
	obs := fmt.Sprintf("STOP_SENDING %#x, RESET_STREAM %#x, response status %q", stop, reset, status)
	one := func(l []uint64, c ErrCode) bool { return len(l) == 1 && l[0] == uint64(c) }
	switch {
	case one(stop, ErrCodeMessageError) && one(reset, ErrCodeMessageError) && status == "":
		return "", errors.New(obs), "H3_MESSAGE_ERROR", nil
	case one(stop, ErrCodeQPACKDecompressionFailed) && one(reset, ErrCodeQPACKDecompressionFailed) && status == "":
		return "", errors.New(obs), "QPACK_DECOMPRESSION_FAILED", nil
	case one(stop, ErrCodeExcessiveLoad) && len(reset) == 0 && status == "431":
		// RFC 9114, 4.2.2: "a server that receives a larger field section than it is willing to
		// handle can send an HTTP 431 (Request Header Fields Too Large) status code"
		return "", errors.New(obs), "too-large(431/H3_EXCESSIVE_LOAD)", nil
	}
	return "", errors.New(obs), "", explore.Failf("wire-server/wrong-stream-error:"+fmt.Sprintf("stop=%#x,reset=%#x,status=%s", stop, reset, status),
		"the server refused the request with %s; RFC 9114 4.1.2 prescribes the stream error H3_MESSAGE_ERROR (0x10e) for malformed requests, QPACK_DECOMPRESSION_FAILED (0x200) for decoder failures, 431 for oversized sections", obs)
}

func c19WireContexts(e explore.Env) []c19Ctx {
	l := 3
	if e.Thorough() {
		l = 4
	}
	return []c19Ctx{
		{Name: "wire-request/bare", Kind: c19Req, MaxLen: l, Parse: c19ParseWireRequest},
		{Name: "wire-request/GET-base+seq", Kind: c19Req, Pre: c19BaseGet, MaxLen: l - 1, Parse: c19ParseWireRequest},
		{Name: "wire-server/bare", Kind: c19Req, MaxLen: l, Parse: c19ParseWireServer},
		{Name: "wire-server/GET-base+seq", Kind: c19Req, Pre: c19BaseGet, MaxLen: l - 1, Parse: c19ParseWireServer},
		{Name: "wire-response/bare", Kind: c19Rsp, MaxLen: l, Parse: c19ParseWireResponse},
		{Name: "wire-response/status+seq", Kind: c19Rsp, Pre: c19BaseStatus, MaxLen: l - 1, Parse: c19ParseWireResponse},
		{Name: "wire-trailer/bare", Kind: c19Trl, MaxLen: l, Parse: c19ParseWireTrailer},
	}
}

func c19WirePart() explore.Part {
	return c19SeqPart("wire", c19WireContexts,
		"the real qpack encoder, HEADERS framing, frameParser, qpack decoder and requestFromHeaders / RequestStream.ReadResponse (stream reset codes observed) / response-body Read -> decodeTrailers")
}
