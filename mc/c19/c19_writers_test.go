package http3

// C19 parts "writer-request" and "writer-response": writer/parser agreement.
//
// For every message of a lattice of valid net/http messages, the real requestWriter
// (through RequestStream.sendRequestHeader / sendRequestTrailer) or the real responseWriter
// (Header / WriteHeader / Write / Flush / flushTrailers) writes onto a scripted stream, and
// the bytes are parsed back by the real receive path of the peer (frameParser, qpack decoder,
// requestFromHeaders + decodeTrailers, resp. RequestStream.ReadResponse + body Read).
// Oracle: the parser accepts, and what it hands to net/http equals the fields the message has
// (computed by the model from the message, never from the writer's output).
//
// The response oracle (c19JudgeRspWire) is shared with part "writer-response-ops"
// (c19_rspops_test.go), which replaces the fixed handler script below by every sequence of
// ResponseWriter calls up to a length bound.
//
// Content-Length: both lattices let the message itself carry a Content-Length field (set by the
// handler on the ResponseWriter, resp. put into http.Request.Header) over an alphabet of
// spellings around "1*DIGIT, representable" (c19CLSpellings), combined with body lengths 0 / 5 /
// 10. net/http accepts every one of these messages, so all of them are judged: a well-formed
// value must come back as it is; a malformed one may be left out by the writer (the statement is
// silent on that), but whatever section the writer does emit must be accepted by the parser of
// this package and must satisfy the statement's predicate. (The request writer ignores
// Header["Content-Length"] in favour of Request.ContentLength, as net/http's Transport does.)

import (
	"bytes"
	"encoding/json"
	"fmt"
	"io"
	"log/slog"
	"net/http"
	"net/url"
	"sort"
	"strconv"
	"strings"

	"github.com/quic-go/qpack"

	"github.com/refraction-networking/uquic/internal/verifmc/explore"
)

// ---------------------------------------------------------------- header atoms

type c19HdrAtom struct {
	ID      string
	Key     string
	Vals    []string
	Invalid bool // not a valid net/http message: classification only
	Solo    bool // used on its own only, not combined with a second atom (thorough tier)
}

var c19Big = strings.Repeat("v", 8192)

var c19ReqHdrAtoms = []c19HdrAtom{
	{ID: "none"},
	{ID: "x-a", Key: "X-A", Vals: []string{"1"}},
	{ID: "x-a-twice", Key: "X-A", Vals: []string{"1", "2"}},
	{ID: "cookie-twice", Key: "Cookie", Vals: []string{"a=1", "b=2"}},
	{ID: "big-8k", Key: "X-Big", Vals: []string{c19Big}},
	{ID: "user-agent", Key: "User-Agent", Vals: []string{"ua/1"}},
	{ID: "user-agent-empty", Key: "User-Agent", Vals: []string{""}},
	{ID: "accept-encoding", Key: "Accept-Encoding", Vals: []string{"br"}},
	{ID: "range", Key: "Range", Vals: []string{"bytes=0-1"}},
	{ID: "lower-key", Key: "x-lower", Vals: []string{"v"}},
	{ID: "empty-value", Key: "X-Empty", Vals: []string{""}},
	{ID: "obs-text", Key: "X-Obs", Vals: []string{"caf\xe9"}},
	{ID: "tab", Key: "X-Tab", Vals: []string{"a\tb"}},
	{ID: "host", Key: "Host", Vals: []string{"ignored.example"}},
	{ID: "content-length", Key: "Content-Length", Vals: []string{"99"}},
	{ID: "connection", Key: "Connection", Vals: []string{"close"}},
	{ID: "keep-alive", Key: "Keep-Alive", Vals: []string{"timeout=5"}},
	{ID: "proxy-connection", Key: "Proxy-Connection", Vals: []string{"keep-alive"}},
	{ID: "transfer-encoding", Key: "Transfer-Encoding", Vals: []string{"chunked"}},
	{ID: "upgrade", Key: "Upgrade", Vals: []string{"websocket"}},
	{ID: "te-trailers", Key: "Te", Vals: []string{"trailers"}},
	{ID: "te-gzip", Key: "Te", Vals: []string{"gzip"}},
	{ID: "bad-name", Key: "X Bad", Vals: []string{"v"}, Invalid: true},
	{ID: "bad-value", Key: "X-Bad", Vals: []string{"a\nb"}, Invalid: true},
	// + "Content-Length" in http.Request.Header over the spelling alphabet c19CLSpellings (appended
	// by init below, so that the indices recorded in older replay files keep their meaning)
}

var c19RspHdrAtoms = []c19HdrAtom{
	{ID: "none"},
	{ID: "x-a", Key: "X-A", Vals: []string{"1"}},
	{ID: "x-a-twice", Key: "X-A", Vals: []string{"1", "2"}},
	{ID: "set-cookie-twice", Key: "Set-Cookie", Vals: []string{"a=1", "b=2"}},
	{ID: "big-8k", Key: "X-Big", Vals: []string{c19Big}},
	{ID: "lower-key", Key: "x-lower", Vals: []string{"v"}},
	{ID: "empty-value", Key: "X-Empty", Vals: []string{""}},
	{ID: "obs-text", Key: "X-Obs", Vals: []string{"caf\xe9"}},
	{ID: "link", Key: "Link", Vals: []string{"</s.css>; rel=preload"}},
	{ID: "content-length", Key: "Content-Length", Vals: []string{"5"}},
	{ID: "content-encoding", Key: "Content-Encoding", Vals: []string{"br"}},
	{ID: "connection", Key: "Connection", Vals: []string{"close"}},
	{ID: "keep-alive", Key: "Keep-Alive", Vals: []string{"timeout=5"}},
	{ID: "proxy-connection", Key: "Proxy-Connection", Vals: []string{"keep-alive"}},
	{ID: "transfer-encoding", Key: "Transfer-Encoding", Vals: []string{"chunked"}},
	{ID: "upgrade", Key: "Upgrade", Vals: []string{"h2c"}},
	// a handler-set Content-Length is a message net/http accepts whatever its value: the writer may
	// keep a well-formed value and may drop a malformed one, but must not emit what its own parser rejects
	{ID: "content-length-malformed", Key: "Content-Length", Vals: []string{"abc"}},
	// + handler-set Content-Length over the spelling alphabet c19CLSpellings (appended by init below)
}

// The Content-Length spelling alphabet (besides "5" / "99" and "abc" above): the boundaries of
// "1*DIGIT, representable" as strconv.ParseUint(.., 10, 63) / ParseInt(.., 10, 64) / Atoi and the
// RFC 9110 8.6 grammar draw them: zero, leading zero, two digits, the largest int64 and one more,
// explicit signs on positive / zero / negative numbers, outer white space, a base prefix, the
// empty value, a list in one value, and two field values (identical, differing).
var c19CLSpellings = [][]string{
	{"0"}, {"05"}, {"10"}, {"9223372036854775807"}, {"9223372036854775808"},
	{"+5"}, {"-0"}, {"+0"}, {"-5"}, {" 5"}, {"5 "}, {"0x5"}, {""}, {"5,5"}, {"5", "5"}, {"5", "6"},
}

// Multi-valued keys of http.Request.Header. A header map assigns a LIST of values to a key, and
// the request writer treats some keys specially (RFC 9114 4.2 / the net/http Transport conventions):
// TE is filtered per VALUE (only "trailers" may be sent), User-Agent per KEY (the first value, if
// not empty), the connection-specific keys and Host / Content-Length per key (never sent). The
// single-valued atoms above cannot tell a per-value rule from a per-key one, nor a rule that looks
// at the first value only from one that looks at all of them. So:
//   - TE: every list of 0, 2 and 3 values over {"trailers", "gzip"} (the two lists of one value are
//     above): the allowed and the forbidden value in every position and combination; plus the key
//     spelled "te" / "TE" (a header map need not be canonical; the rules are case-insensitive), a
//     third value ("deflate"), a value that is itself a list, a capitalised "Trailers", an empty value;
//   - User-Agent: no value, two values, an empty value in the first / second position;
//   - a key without values, a key with three values (a repetition among them), and multi-valued
//     connection-specific / Accept-Encoding / Cookie keys.
// All of them are valid net/http messages (a key without values stands for no field).
var c19ReqMultiAtoms = func() []c19HdrAtom {
	var l []c19HdrAtom
	solo := false
	add := func(key string, vals ...string) {
		l = append(l, c19HdrAtom{ID: fmt.Sprintf("%s=%q", key, vals), Key: key, Vals: vals, Solo: solo})
	}
	te := []string{"trailers", "gzip"}
	// combined with a second atom in the thorough tier
	add("Te")
	for _, a := range te {
		for _, b := range te {
			add("Te", a, b)
		}
	}
	add("User-Agent", "ua/1", "ua/2")
	add("User-Agent", "", "ua/2")
	add("X-A")
	add("Connection", "close", "keep-alive")
	// on their own only
	solo = true
	for _, a := range te {
		for _, b := range te {
			for _, c := range te {
				add("Te", a, b, c)
			}
		}
	}
	add("te", "trailers", "gzip")
	add("TE", "gzip", "trailers")
	add("Te", "trailers", "deflate")
	add("Te", "trailers, gzip")
	add("Te", "Trailers")
	add("Te", "trailers", "")
	add("User-Agent")
	add("User-Agent", "ua/1", "")
	add("X-A", "1", "2", "1")
	add("Accept-Encoding", "br", "gzip")
	add("Cookie", "a=1", "b=2", "c=3")
	return l
}()

func init() {
	for _, vals := range c19CLSpellings {
		at := c19HdrAtom{ID: fmt.Sprintf("content-length=%q", vals), Key: "Content-Length", Vals: vals}
		c19ReqHdrAtoms = append(c19ReqHdrAtoms, at)
		c19RspHdrAtoms = append(c19RspHdrAtoms, at)
	}
	// (appended last: the indices recorded in older replay files keep their meaning)
	c19ReqHdrAtoms = append(c19ReqHdrAtoms, c19ReqMultiAtoms...)
}

// c19CLClass classifies the Content-Length values a message carries (RFC 9110, 8.6:
// Content-Length = 1*DIGIT; identical repetitions may be folded, anything else is invalid).
func c19CLClass(vals []string) string {
	for _, v := range vals[1:] {
		if v != vals[0] {
			return "differing"
		}
	}
	switch sp := c19CLSpelling(vals[0]); {
	case sp != "digits":
		return sp
	case c19ModelCL(c19View{HasCL: true, CL: vals[0]}) < 0:
		return "unrepresentable"
	}
	return "well-formed"
}

// c19CLSpelling names the way a single Content-Length value departs from 1*DIGIT.
func c19CLSpelling(v string) string {
	switch {
	case v == "":
		return "empty"
	case c19AllDigits(v):
		return "digits"
	case (v[0] == '+' || v[0] == '-') && c19AllDigits(v[1:]):
		return "signed"
	case strings.ContainsAny(v, " \t"):
		return "whitespace"
	case strings.Contains(v, ","):
		return "list"
	}
	return "other"
}

// c19EmitClause names the first clause of the statement an emitted section violates ("" = none);
// a non-numeric Content-Length is qualified by its spelling.
func c19EmitClause(kind c19Kind, emitted []c19Field) string {
	viol := c19JudgeAll(kind, emitted)
	if len(viol) == 0 {
		return ""
	}
	if viol[0] == "content-length-not-numeric" {
		for _, f := range emitted {
			if f.N == "content-length" && !c19AllDigits(f.V) {
				return viol[0] + ":" + c19CLSpelling(f.V)
			}
		}
	}
	return viol[0]
}

// header-atom choices: all sets of at most k atoms with pairwise distinct names
func c19HdrChoices(atoms []c19HdrAtom, k int) [][]int {
	out := [][]int{{0}}
	var rec func(from int, cur []int)
	rec = func(from int, cur []int) {
		if len(cur) > 0 {
			out = append(out, append([]int(nil), cur...))
		}
		if len(cur) == k {
			return
		}
	next:
		for i := from; i < len(atoms); i++ {
			if atoms[i].Solo {
				if len(cur) == 0 {
					out = append(out, []int{i})
				}
				continue
			}
			for _, c := range cur {
				if strings.EqualFold(atoms[c].Key, atoms[i].Key) {
					continue next
				}
			}
			rec(i+1, append(cur, i))
		}
	}
	rec(1, nil)
	return out
}

// fields the model expects on the wire for a header map: everything except what RFC 9114 4.2
// forbids to generate (connection-specific fields, TE values other than "trailers") and what
// `skip` names.
func c19WireFields(h http.Header, skip func(k string) bool) []c19Field {
	keys := make([]string, 0, len(h))
	for k := range h {
		keys = append(keys, k)
	}
	sort.Strings(keys)
	var fs []c19Field
	for _, k := range keys {
		lk := strings.ToLower(k)
		if c19ConnSpecific[lk] || (skip != nil && skip(k)) {
			continue
		}
		for _, v := range h[k] {
			if lk == "te" && v != "trailers" {
				continue
			}
			fs = append(fs, c19Field{lk, v})
		}
	}
	return fs
}

// RFC 9110, 6.5.1 / 6.5.2: fields that must not be sent as trailers (the ones the lattice uses)
func c19TrailerNameOK(k string) bool {
	switch http.CanonicalHeaderKey(k) {
	case "Content-Length", "Transfer-Encoding", "Trailer", "Host", "Content-Type", "Authorization", "Te", "Connection":
		return false
	}
	return true
}

// c19DecodeAll lists the fields of an encoded block (real decoder), for messages only.
func c19DecodeAll(block []byte) []c19Field {
	var fs []c19Field
	dec := qpack.NewDecoder().Decode(block)
	for {
		hf, err := dec()
		if err != nil {
			return fs
		}
		fs = append(fs, c19Field{hf.Name, hf.Value})
	}
}

// c19Shown renders an emitted section for a message: the writers serialise their header maps in
// map order, so the regular fields are shown sorted by name (values of one name keep their order)
// to keep the text of a witness the same from run to run.
func c19Shown(fs []c19Field) []string {
	fs = append([]c19Field(nil), fs...)
	sort.SliceStable(fs, func(i, j int) bool {
		pi, pj := strings.HasPrefix(fs[i].N, ":"), strings.HasPrefix(fs[j].N, ":")
		if pi || pj {
			return pi && !pj
		}
		return fs[i].N < fs[j].N
	})
	return c19Human(fs, false)
}

// c19ReadHeadersFrame reads one HEADERS frame with the real frame parser.
func c19ReadHeadersFrame(r *bytes.Reader) ([]byte, *headersFrame, bool) {
	if r.Len() == 0 {
		return nil, nil, false
	}
	fr, err := (&frameParser{r: r}).ParseNext(nil)
	hf, ok := fr.(*headersFrame)
	explore.Must(err == nil && ok, "expected a HEADERS frame, got %T %v", fr, err)
	block := make([]byte, hf.Length)
	_, err = io.ReadFull(r, block)
	explore.Must(err == nil, "short HEADERS frame")
	return block, hf, true
}

func c19ShortErr(err error) string {
	s := err.Error()
	if i := strings.IndexAny(s, ":\""); i > 0 {
		s = s[:i]
	}
	return strings.TrimSpace(s)
}

// ---------------------------------------------------------------- request writer

type c19ReqMsg struct {
	Method  string `json:"method"`
	Proto   string `json:"proto"`
	URL     int    `json:"url"`
	Host    string `json:"host"`
	Hdr     []int  `json:"hdr"`
	NoGzip  bool   `json:"disable_compression"`
	Body    int    `json:"body"`
	Trailer int    `json:"trailer"`
}

var (
	c19ReqMethods = []string{"GET", "HEAD", "POST", "PUT", "OPTIONS", "CONNECT"}
	c19ReqProtos  = []string{"HTTP/1.1", "", "webtransport"}
	c19ReqHosts   = []string{"", "other.example:444", "bad host"}
	c19ReqURLs    = []func() *url.URL{
		func() *url.URL { return &url.URL{Scheme: "https", Host: "h.example", Path: "/"} },
		func() *url.URL { return &url.URL{Scheme: "https", Host: "h.example", Path: "/a", RawQuery: "b=c"} },
		func() *url.URL { return &url.URL{Scheme: "https", Host: "h.example:8443", Path: "//x/y"} },
		func() *url.URL {
			return &url.URL{Scheme: "http", Host: "h.example", Path: "/Ab c", RawPath: "/%41b%20c", RawQuery: "x=%20"}
		},
		func() *url.URL { return &url.URL{Scheme: "https", Host: "h.example", Path: "*"} },
		func() *url.URL { return &url.URL{Scheme: "https", Host: "h.example", Opaque: "//h.example/op"} },
	}
	c19ReqBodies   = []string{"no body", "body, ContentLength 5", "body, ContentLength 0 (unknown)", "body, ContentLength -1"}
	c19ReqTrailers = []func() http.Header{
		func() http.Header { return nil },
		func() http.Header { return http.Header{"X-T": {"tv"}} },
		func() http.Header { return http.Header{"X-T": nil} },
		func() http.Header { return http.Header{"X-T": {"t1", "t2"}, "X-U": {"u"}} },
		func() http.Header { return http.Header{"Content-Length": {"5"}, "X-T": {"tv"}} },
	}
)

func (m c19ReqMsg) human() []string {
	var hs []string
	for _, a := range m.Hdr {
		at := c19ReqHdrAtoms[a]
		if at.Key == "" {
			continue
		}
		hs = append(hs, fmt.Sprintf("%s: %q", at.Key, at.Vals))
	}
	return []string{
		fmt.Sprintf("http.Request{Method: %q, Proto: %q, URL: %#v, Host: %q}", m.Method, m.Proto, *c19ReqURLs[m.URL](), m.Host),
		fmt.Sprintf("Header: %v", hs),
		fmt.Sprintf("%s; Trailer: %v; DisableCompression: %v", c19ReqBodies[m.Body], c19ReqTrailers[m.Trailer](), m.NoGzip),
	}
}

func (m c19ReqMsg) build() (*http.Request, bool) {
	req := &http.Request{Method: m.Method, Proto: m.Proto, URL: c19ReqURLs[m.URL](), Host: m.Host, Header: http.Header{}, Trailer: c19ReqTrailers[m.Trailer]()}
	valid := m.Host != "bad host"
	for _, a := range m.Hdr {
		at := c19ReqHdrAtoms[a]
		if at.Key != "" {
			req.Header[at.Key] = append([]string(nil), at.Vals...)
		}
		if at.Invalid {
			valid = false
		}
	}
	switch m.Body {
	case 1:
		req.Body, req.ContentLength = io.NopCloser(strings.NewReader("hello")), 5
	case 2:
		req.Body, req.ContentLength = io.NopCloser(strings.NewReader("hello")), 0
	case 3:
		req.Body, req.ContentLength = io.NopCloser(strings.NewReader("hello")), -1
	}
	return req, valid
}

// c19ReqExpect: the fields the message has, as an HTTP/3 field section (RFC 9114 4.3.1, the
// net/http Transport conventions for Host, User-Agent, Accept-Encoding and Content-Length).
// A User-Agent key with several values has two readings the statement does not choose between:
// the net/http one (at most one User-Agent: the first value, none if that is empty) and the
// literal one (every value is a field); allValuesUA selects the literal one.
func (m c19ReqMsg) expect(allValuesUA bool) (fs []c19Field, pathOK bool) {
	req, _ := m.build()
	host := req.Host
	if host == "" {
		host = req.URL.Host
	}
	isConnect := m.Method == "CONNECT"
	ext := isConnect && m.Proto != "" && m.Proto != "HTTP/1.1"
	fs = append(fs, c19Field{":authority", host}, c19Field{":method", m.Method})
	pathOK = true
	if !isConnect || ext {
		p := req.URL.RequestURI()
		ok := func(p string) bool { return strings.HasPrefix(p, "/") || p == "*" }
		if !ok(p) { // absolute-form: the origin is carried by :scheme and :authority
			p = strings.TrimPrefix(p, req.URL.Scheme+"://"+host)
		}
		pathOK = ok(p)
		fs = append(fs, c19Field{":path", p}, c19Field{":scheme", req.URL.Scheme})
	}
	if ext {
		fs = append(fs, c19Field{":protocol", m.Proto})
	}
	// announced trailers
	var tk []string
	for k := range req.Trailer {
		if c19TrailerNameOK(k) {
			tk = append(tk, k)
		}
	}
	sort.Strings(tk)
	if len(tk) > 0 {
		fs = append(fs, c19Field{"trailer", strings.Join(tk, ", ")})
	}
	hasUA := false
	h := http.Header{}
	for k, vv := range req.Header {
		switch strings.ToLower(k) {
		case "host", "content-length":
			continue
		case "user-agent":
			hasUA = true
			if allValuesUA && len(vv) > 1 {
				break
			}
			if len(vv) == 0 || vv[0] == "" {
				continue
			}
			vv = vv[:1]
		}
		h[k] = vv
	}
	fs = append(fs, c19WireFields(h, nil)...)
	cl := int64(0)
	if req.Body != nil {
		cl = req.ContentLength
		if cl == 0 {
			cl = -1
		}
	}
	if cl > 0 || (cl == 0 && (m.Method == "POST" || m.Method == "PUT" || m.Method == "PATCH")) {
		fs = append(fs, c19Field{"content-length", strconv.FormatInt(cl, 10)})
	}
	if !m.NoGzip && m.Method != "HEAD" && req.Header.Get("Accept-Encoding") == "" && req.Header.Get("Range") == "" {
		fs = append(fs, c19Field{"accept-encoding", "gzip"})
	}
	if !hasUA {
		fs = append(fs, c19Field{"user-agent", defaultUserAgent})
	}
	return fs, pathOK
}

func (m c19ReqMsg) expectTrailers() http.Header {
	h := http.Header{}
	for k, vv := range c19ReqTrailers[m.Trailer]() {
		if c19TrailerNameOK(k) && len(vv) > 0 {
			h[http.CanonicalHeaderKey(k)] = vv
		}
	}
	return h
}

const c19WriterLimit = http.DefaultMaxHeaderBytes

func c19RunReqMsg(m c19ReqMsg) (outcome string, fail *explore.Fail) {
	req, valid := m.build()
	fake := &c19FakeStream{}
	str := newStream(fake, nil, nil, nil, nil)
	rs := newRequestStream(str, newRequestWriter(), nil, qpack.NewDecoder(), m.NoGzip, c19WriterLimit, &http.Response{})
	werr := rs.sendRequestHeader(req)
	if werr == nil && len(req.Trailer) > 0 {
		werr = rs.sendRequestTrailer(req)
		explore.Must(werr == nil, "sendRequestTrailer: %v", werr)
	}
	return c19JudgeReqWire(m, req, valid, werr, fake.out.Bytes(), "")
}

// c19TryReadHeadersFrame reads one HEADERS frame with the real frame parser; what = "" on
// success, "end" when the stream is exhausted, otherwise what is wrong with the framing.
func c19TryReadHeadersFrame(r *bytes.Reader) (block []byte, hf *headersFrame, what string) {
	if r.Len() == 0 {
		return nil, nil, "end"
	}
	fr, err := (&frameParser{r: r}).ParseNext(nil)
	hf, ok := fr.(*headersFrame)
	if err != nil || !ok {
		return nil, nil, fmt.Sprintf("not-a-headers-frame (%T %v)", fr, err)
	}
	if hf.Length > uint64(r.Len()) {
		return nil, nil, fmt.Sprintf("truncated-headers-frame (announces %d bytes, %d follow)", hf.Length, r.Len())
	}
	block = make([]byte, hf.Length)
	_, err = io.ReadFull(r, block)
	explore.Must(err == nil, "short read from a bytes.Reader")
	return block, hf, ""
}

// c19JudgeReqWire is the oracle of the request writer: `wire` is everything the stream of the
// request consumed. It is parsed back by the real receive path and compared with the fields the
// message has. where = "" for one message on a fresh writer (part writer-request); otherwise it
// names the connection scenario and the stream (part writer-request-conn) and the keys start with
// "writer-request-conn". A stream whose bytes are not a HEADERS frame (+ an optional trailer
// HEADERS frame) and nothing else is a violation too (stream-garbled): what was emitted for the
// message is not accepted by the peer.
func c19JudgeReqWire(m c19ReqMsg, req *http.Request, valid bool, werr error, wire []byte, where string) (outcome string, fail *explore.Fail) {
	pfx, at := "writer-request", ""
	if where != "" {
		pfx, at = "writer-request-conn", "@"+where
	}
	class := "valid message"
	if !valid {
		class = "invalid message"
	}
	if werr != nil {
		if len(wire) != 0 { // the statement is silent about what a refused message leaves behind
			return class + ": writer refuses (" + c19ShortErr(werr) + "), bytes on the stream", nil
		}
		return class + ": writer refuses (" + c19ShortErr(werr) + ")", nil
	}
	// the server side
	r := bytes.NewReader(wire)
	block, _, bad := c19TryReadHeadersFrame(r)
	if bad != "" {
		if !valid {
			return class + ": written, not a HEADERS frame", nil
		}
		return "", explore.Failf(pfx+"/stream-garbled:"+strings.SplitN(bad, " ", 2)[0]+at,
			"the bytes the stream of this request consumed (%d) do not start with a complete HEADERS frame: %s", len(wire), bad)
	}
	dec := qpack.NewDecoder()
	got, err := requestFromHeaders(dec.Decode(block), c19WriterLimit, nil)
	if !valid {
		if err != nil {
			return class + ": written, parser rejects", nil
		}
		return class + ": written, parser accepts", nil
	}
	want, pathOK := m.expect(false)
	explore.Must(pathOK, "writer accepted a message whose :path the model cannot derive: %v", m)
	if err != nil {
		emitted := c19DecodeAll(block)
		if cl := c19EmitClause(c19Req, emitted); cl != "" {
			return "", explore.Failf(pfx+"/emits-malformed:"+cl+at,
				"the request writer emits a field section that violates %v and its own parser rejects it (%v); emitted %v", c19JudgeAll(c19Req, emitted), err, c19Shown(emitted))
		}
		return "", explore.Failf(pfx+"/output-rejected:"+c19ShortErr(err)+at,
			"the parser rejects what the request writer emitted for a valid message: %v; emitted %v", err, c19Shown(emitted))
	}
	if cl := c19EmitClause(c19Req, c19DecodeAll(block)); cl != "" {
		// (accepted => well-formed) and (emitted => accepted) leave no room for this
		return "", explore.Failf(pfx+"/emits-malformed-accepted:"+cl+at,
			"the request writer emits a field section that violates %v and the parser accepts it; emitted %v", c19JudgeAll(c19Req, c19DecodeAll(block)), c19Shown(c19DecodeAll(block)))
	}
	if want2, _ := m.expect(true); c19RenderRequest(got) == c19ModelRequest(c19ViewOf(want2)) {
		want = want2 // (differs from want only for a User-Agent key with several values)
	}
	if g, w := c19RenderRequest(got), c19ModelRequest(c19ViewOf(want)); g != w {
		return "", explore.Failf(pfx+"/fields-differ:"+c19DiffTag(g, w)+at,
			"parse(write(request)) differs from the message\n   got  %s\n   want %s\n   emitted %v", c19Trunc(g), c19Trunc(w), c19Shown(c19DecodeAll(block)))
	}
	hdr, err := parseHeaders(qpack.NewDecoder().Decode(block), true, c19WriterLimit, nil)
	explore.Must(err == nil, "parseHeaders rejects what requestFromHeaders accepted: %v", err)
	// (parseHeaders neither joins cookies nor moves the Trailer field; the announced trailer
	// names are a set, the writer lists them in map order)
	if tv := hdr.Headers["Trailer"]; len(tv) == 1 {
		names := strings.Split(tv[0], ", ")
		sort.Strings(names)
		hdr.Headers["Trailer"] = []string{strings.Join(names, ", ")}
	}
	if g, w := c19RenderParsed(hdr), c19ModelParsed(c19ViewOf(want)); g != w {
		return "", explore.Failf(pfx+"/pseudo-or-fields-differ:"+c19DiffTag(g, w)+at,
			"parseHeaders(write(request)) differs from the message\n   got  %s\n   want %s", c19Trunc(g), c19Trunc(w))
	}
	out := class + ": round trip ok, " + strings.ToLower(m.Method)
	if got.Proto != "HTTP/3.0" {
		out += " extended"
	}
	if got.ContentLength >= 0 {
		out += ", content-length"
	}
	if len(got.Trailer) > 0 {
		out += ", trailers announced"
	}
	if vals := req.Header["Content-Length"]; len(vals) > 0 {
		out += ", Header Content-Length (" + c19CLClass(vals) + ") not sent"
	}
	for _, a := range m.Hdr {
		// a key with no or several values: how many of them are fields of the message (part
		// writer-request, messages with one atom only: combinations multiply the classes)
		if at := c19ReqHdrAtoms[a]; where == "" && len(m.Hdr) == 1 && at.Key != "" && len(at.Vals) != 1 && !strings.EqualFold(at.Key, "Content-Length") {
			n := 0
			for _, f := range want {
				if f.N == strings.ToLower(at.Key) {
					n++
				}
			}
			out += fmt.Sprintf(", %s: %d of %d values sent", strings.ToLower(at.Key), n, len(at.Vals))
		}
	}
	// trailers
	wantT := m.expectTrailers()
	tblock, thf, bad := c19TryReadHeadersFrame(r)
	switch {
	case bad == "end" && len(wantT) > 0:
		return "", explore.Failf(pfx+"/trailers-not-written"+at, "request has trailers %v but no trailer section was written", wantT)
	case bad == "end":
	case bad != "":
		return "", explore.Failf(pfx+"/stream-garbled:after-header:"+strings.SplitN(bad, " ", 2)[0]+at,
			"the request section is followed on its stream by bytes that are not a complete HEADERS frame: %s", bad)
	default:
		gotT, err := decodeTrailers(bytes.NewReader(tblock), thf, c19WriterLimit, dec, nil, 0)
		if err != nil {
			emitted := c19DecodeAll(tblock)
			key := "output-rejected:" + c19ShortErr(err)
			if cl := c19EmitClause(c19Trl, emitted); cl != "" {
				key = "emits-malformed:" + cl
			}
			return "", explore.Failf(pfx+"-trailers/"+key+at, "the parser rejects the trailer section the request writer emitted: %v; emitted %v", err, c19Shown(emitted))
		}
		if g, w := c19RenderHeader(gotT), c19RenderHeader(wantT); g != w {
			return "", explore.Failf(pfx+"-trailers/fields-differ"+at, "parse(write(trailers)) = %s, the request has %s", g, w)
		}
		out += ", trailers sent"
	}
	if r.Len() != 0 {
		return "", explore.Failf(pfx+"/stream-garbled:extra-bytes"+at, "%d bytes follow the request's field section(s) on its stream", r.Len())
	}
	return out, nil
}

func c19Trunc(s string) string {
	return strings.ReplaceAll(s, c19Big, "v*8192")
}

func c19Tier(e explore.Env, quick, thorough int) int {
	if e.Thorough() {
		return thorough
	}
	return quick
}

func c19ReqLattice(e explore.Env) []c19ReqMsg {
	var l []c19ReqMsg
	for _, hdr := range c19HdrChoices(c19ReqHdrAtoms, c19Tier(e, 1, 2)) {
		for _, method := range c19ReqMethods {
			for _, proto := range c19ReqProtos {
				for u := range c19ReqURLs {
					for _, host := range c19ReqHosts {
						for _, nogzip := range []bool{false, true} {
							for b := range c19ReqBodies {
								for t := range c19ReqTrailers {
									l = append(l, c19ReqMsg{method, proto, u, host, hdr, nogzip, b, t})
								}
							}
						}
					}
				}
			}
		}
	}
	return l
}

// ---------------------------------------------------------------- response writer

type c19RspMsg struct {
	Status  int   `json:"status"`
	Early   bool  `json:"early_hints_first"`
	Head    bool  `json:"head"`
	Hdr     []int `json:"hdr"`
	Date    bool  `json:"date"`
	Body    bool  `json:"body"`
	Trailer int   `json:"trailer"`
	Body2   bool  `json:"second_write"` // a second Write of 5 bytes (body lengths 0 / 5 / 10)
}

var c19RspTrailers = []string{
	"none",
	"declared X-T, value set after the body",
	"declared X-T, value set before WriteHeader",
	"undeclared, http.TrailerPrefix+X-U after the body",
	"declared \"Content-Length, X-T\", X-T set after the body",
	"declared X-T and X-U (two Trailer values), both set after the body",
}

const c19Date = "Mon, 02 Jan 2006 15:04:05 GMT"

func (m c19RspMsg) human() []string {
	var hs []string
	for _, a := range m.Hdr {
		at := c19RspHdrAtoms[a]
		if at.Key == "" {
			continue
		}
		hs = append(hs, fmt.Sprintf("%s: %q", at.Key, at.Vals))
	}
	return []string{
		fmt.Sprintf("handler: Header %v, Date set=%v, early hints=%v, WriteHeader(%d), body written=%v (twice=%v), HEAD=%v", hs, m.Date, m.Early, m.Status, m.Body, m.Body2, m.Head),
		"trailers: " + c19RspTrailers[m.Trailer],
	}
}

type c19RspExpect struct {
	status int
	fields []c19Field // every field of the handler's header map that may be sent
	// the same without Content-Length, when the statement leaves the writer that choice: the
	// value the handler set is not a well-formed Content-Length (kept, it could not be accepted),
	// or the section is a 1xx one (RFC 9110 8.6: no Content-Length in a 1xx response)
	withoutCL []c19Field
	clClass   string      // c19CLClass of the handler-set Content-Length, "" if none
	trailer   http.Header // nil: no trailer section
	// further field lists the statement leaves to the writer (part writer-response-ops: the states
	// the handler's header map went through after the final WriteHeader and before the handler ended)
	alts [][]c19Field
	// altTrailers[j]: the trailer section of the header map in the state of alts[j] (the trailers the
	// map declared then). As the statement is silent about those states, each of them - and
	// `trailer`, the one of `fields` - is accepted, whichever of the field lists the section shows.
	altTrailers []http.Header
	// bodyUnjudged: one of the states of the header map that the final section may show carried a
	// Content-Length that disagrees with what the handler wrote; what happens to such a body is
	// another property's business, whichever of the states the section shows
	bodyUnjudged bool
}

func c19SectionOf(status int, fs []c19Field, h http.Header) c19RspExpect {
	sec := c19RspExpect{status: status, fields: fs}
	if vals := h["Content-Length"]; len(vals) > 0 {
		sec.clClass = c19CLClass(vals)
		if sec.clClass != "well-formed" || status < 200 {
			sec.withoutCL = []c19Field{}
			for _, f := range fs {
				if f.N != "content-length" {
					sec.withoutCL = append(sec.withoutCL, f)
				}
			}
		}
	}
	return sec
}

// c19RunHandler plays the handler script on h (the real writer's header map, or the model's
// copy) and calls the hooks at the points where the real ResponseWriter methods are called.
func (m c19RspMsg) script(h http.Header, writeHeader func(int), write func([]byte)) (valid bool) {
	valid = true
	for _, a := range m.Hdr {
		at := c19RspHdrAtoms[a]
		if at.Key != "" {
			h[at.Key] = append([]string(nil), at.Vals...)
		}
		if at.Invalid {
			valid = false
		}
	}
	if m.Date {
		h["Date"] = []string{c19Date}
	} else {
		h["Date"] = nil // suppresses the automatic Date, like net/http
	}
	if m.Body || m.Body2 {
		h["Content-Type"] = []string{"text/plain"} // no sniffing
	}
	switch m.Trailer {
	case 1, 2:
		h["Trailer"] = []string{"X-T"}
	case 4:
		h["Trailer"] = []string{"Content-Length, X-T"}
	case 5:
		h["Trailer"] = []string{"X-T", "X-U"}
	}
	if m.Trailer == 2 {
		h["X-T"] = []string{"tv"}
	}
	if m.Early {
		writeHeader(http.StatusEarlyHints)
	}
	writeHeader(m.Status)
	if m.Body {
		write([]byte("hello"))
	}
	if m.Body2 {
		write([]byte("world"))
	}
	switch m.Trailer {
	case 1, 4:
		h["X-T"] = []string{"tv"}
	case 3:
		h[http.TrailerPrefix+"X-U"] = []string{"uv"}
	case 5:
		h["X-T"] = []string{"t1", "t2"}
		h["X-U"] = []string{"u"}
	}
	return valid
}

// c19RspDeclaredTrailers: the names the handler's header map announces as trailers (the ones that
// may be sent as trailers).
func c19RspDeclaredTrailers(h http.Header) map[string]bool {
	d := map[string]bool{}
	for _, v := range h["Trailer"] {
		for _, k := range strings.Split(v, ",") {
			k = http.CanonicalHeaderKey(strings.TrimSpace(k))
			if c19TrailerNameOK(k) {
				d[k] = true
			}
		}
	}
	return d
}

// c19RspHeaderFields: the field section a header map stands for, with the given status.
func c19RspHeaderFields(h http.Header, status int) []c19Field {
	d := c19RspDeclaredTrailers(h)
	fs := []c19Field{{":status", strconv.Itoa(status)}}
	return append(fs, c19WireFields(h, func(k string) bool { return d[k] || strings.HasPrefix(k, http.TrailerPrefix) })...)
}

// c19RspTrailerOf: the trailer section a header map stands for when the handler is done (nil: none).
func c19RspTrailerOf(h http.Header) http.Header {
	tr := http.Header{}
	for k := range c19RspDeclaredTrailers(h) {
		if vv := h[k]; len(vv) > 0 {
			tr[k] = vv
		}
	}
	for k, vv := range h {
		if strings.HasPrefix(k, http.TrailerPrefix) && len(vv) > 0 {
			tr[strings.TrimPrefix(k, http.TrailerPrefix)] = vv
		}
	}
	if len(tr) == 0 {
		return nil
	}
	return tr
}

// the model: which field sections the response consists of
func (m c19RspMsg) expect() (sections []c19RspExpect, body string) {
	h := http.Header{}
	var early *c19RspExpect
	m.script(h, func(status int) {
		if status < 200 {
			sec := c19SectionOf(status, c19RspHeaderFields(h, status), h) // 1xx sections are sent at once (RFC 9110, 15.2)
			early = &sec
		}
	}, func(b []byte) {
		if m.Status != 204 && m.Status != 304 && !m.Head {
			body += string(b)
		}
	})
	if early != nil {
		sections = append(sections, *early)
	}
	// the final section is serialised when the handler is done (nothing is flushed before)
	final := c19SectionOf(m.Status, c19RspHeaderFields(h, m.Status), h)
	final.trailer = c19RspTrailerOf(h)
	return append(sections, final), body
}

func c19RspCL(status int, cl int64) int64 {
	// RFC 9110, 8.6: 1xx and 204 responses have no content
	if cl == -1 && (status < 200 || status == 204) {
		return 0
	}
	return cl
}

func c19RunRspMsg(m c19RspMsg) (outcome string, fail *explore.Fail) {
	fake := &c19FakeStream{}
	str := newStream(fake, nil, nil, func(io.Reader, *headersFrame) error { return nil }, nil)
	rw := newResponseWriter(str, nil, m.Head, slog.New(slog.DiscardHandler))
	valid := m.script(rw.Header(), rw.WriteHeader, func(b []byte) { rw.Write(b) })
	rw.Flush()
	rw.flushTrailers()
	sections, wantBody := m.expect()
	return c19JudgeRspWire("writer-response", "", append([]byte(nil), fake.out.Bytes()...), valid, sections, wantBody)
}

func c19ShortData(b []byte) string {
	if len(b) > 64 {
		return fmt.Sprintf("%q... (%d bytes)", b[:16], len(b))
	}
	return fmt.Sprintf("%q", b)
}

// c19JudgeRspWire is the oracle of the response writer: `wire` is everything the writer put on the
// stream of one response. It is read back by the real client path (RequestStream.ReadResponse per
// section, then the body Read up to the end of the stream, which runs decodeTrailers) and compared
// with the field sections, the body and the trailers the message has. pfx names the part
// ("writer-response", "writer-response-ops"), at is appended to every key.
func c19JudgeRspWire(pfx, at string, wire []byte, valid bool, sections []c19RspExpect, wantBody string) (outcome string, fail *explore.Fail) {
	class := "valid message"
	if !valid {
		class = "invalid message"
	}
	// the client side
	rs, cfake, rsp := c19ClientStream(wire, c19WriterLimit, c19WriterLimit)
	emittedAll := func() (out []string) {
		r := bytes.NewReader(wire)
		for r.Len() > 0 {
			fr, err := (&frameParser{r: r}).ParseNext(nil)
			if err != nil {
				break
			}
			switch f := fr.(type) {
			case *headersFrame:
				b := make([]byte, f.Length)
				io.ReadFull(r, b)
				out = append(out, "HEADERS "+c19Trunc(fmt.Sprint(c19Shown(c19DecodeAll(b)))))
			case *dataFrame:
				b := make([]byte, f.Length)
				io.ReadFull(r, b)
				out = append(out, "DATA "+c19ShortData(b))
			}
		}
		return out
	}
	// the fields of the i-th HEADERS frame, if the stream starts with i+1 of them
	emittedAt := func(i int) (emitted []c19Field, ok bool) {
		r := bytes.NewReader(wire)
		for j := 0; j <= i; j++ {
			b, _, bad := c19TryReadHeadersFrame(r)
			if bad != "" {
				return nil, false
			}
			emitted = c19DecodeAll(b)
		}
		return emitted, true
	}
	for i, sec := range sections {
		res, err := rs.ReadResponse()
		if !valid {
			if err != nil {
				return class + ": written, parser rejects", nil
			}
			continue
		}
		if err != nil {
			// name the clause from what was really emitted
			emitted, isSection := emittedAt(i)
			key := "output-rejected:" + c19ShortErr(err)
			if !isSection {
				key = "section-missing:" + c19ShortErr(err) // the stream does not carry a HEADERS frame where the message has a section
			} else if cl := c19EmitClause(c19Rsp, emitted); cl != "" {
				key = "emits-malformed:" + cl
			} else if v := c19ViewOf(emitted); v.HasCL && c19ModelCL(v) < 0 {
				key = "output-rejected:content-length-unrepresentable" // 1*DIGIT, but beyond int64
			}
			if sec.status < 200 {
				key += "/1xx" // informational sections are serialised by another path (WriteHeader -> writeHeader at once)
			}
			return "", explore.Failf(pfx+"/"+key+at,
				"the client rejects (%v, stream reset %v) the %d response section the response writer emitted for a valid message; on the wire: %v", err, cfake.cancelRead, sec.status, emittedAll())
		}
		{
			// (accepted => well-formed) and (emitted => accepted) leave no room for a malformed accepted section
			emitted, isSection := emittedAt(i)
			explore.Must(isSection, "section %d accepted but not found on the wire", i)
			if cl := c19EmitClause(c19Rsp, emitted); cl != "" {
				return "", explore.Failf(pfx+"/emits-malformed-accepted:"+cl+at,
					"the response writer emits a %d section that violates %v and the client accepts it; on the wire: %v", sec.status, c19JudgeAll(c19Rsp, emitted), emittedAll())
			}
		}
		render := func(fs []c19Field) (c19View, []string, string) {
			view := c19ViewOf(fs)
			h, ann := c19SplitTrailer(c19HeaderOf(view, false, true))
			return view, ann, fmt.Sprintf("status=%d proto=%q cl=%d header=%s trailer=%q", sec.status, "HTTP/3.0", c19RspCL(sec.status, c19ModelCL(view)), c19RenderHeader(h), ann)
		}
		view, ann, w := render(sec.fields)
		g := c19RenderResponse(res)
		if g != w && sec.withoutCL != nil {
			// the writer may have left the handler's Content-Length out
			if v2, a2, w2 := render(sec.withoutCL); g == w2 {
				view, ann, w = v2, a2, w2
			}
		}
		later := false
		trailer0 := sec.trailer
		if g != w {
			for j, alt := range sec.alts {
				if v2, a2, w2 := render(alt); g == w2 {
					view, ann, w, later = v2, a2, w2, true
					if sec.altTrailers != nil {
						sec.trailer = sec.altTrailers[j] // the one that goes with the state shown (for the outcome class)
					}
					break
				}
			}
		}
		if g != w {
			return "", explore.Failf(pfx+"/fields-differ:"+c19DiffTag(g, w)+at,
				"parse(write(response)) differs from the message\n   got  %s\n   want %s\n   on the wire %v", c19Trunc(g), c19Trunc(w), emittedAll())
		}
		if i < len(sections)-1 {
			continue
		}
		// body and trailers
		skipBody := sec.bodyUnjudged || view.HasCL && c19ModelCL(view) != int64(len(wantBody)) // a Content-Length mismatch is another property's business
		body, err := io.ReadAll(res.Body)
		if err != nil && !skipBody {
			return "", explore.Failf(pfx+"/body-or-trailer-rejected:"+c19ShortErr(err)+at,
				"reading the response body / trailers fails: %v; on the wire %v", err, emittedAll())
		}
		if err == nil && !skipBody && string(body) != wantBody {
			return "", explore.Failf(pfx+"/body-differs"+at, "body %s, want %s; on the wire %v", c19ShortData(body), c19ShortData([]byte(wantBody)), emittedAll())
		}
		if err == nil {
			// the trailer fields the client has received (announced names without a value are not fields)
			got := http.Header{}
			for k, vv := range rsp.Trailer {
				if len(vv) > 0 {
					got[k] = vv
				}
			}
			g := c19RenderHeader(got)
			ok := g == c19RenderHeader(sec.trailer) || g == c19RenderHeader(trailer0)
			for _, alt := range sec.altTrailers {
				ok = ok || g == c19RenderHeader(alt) // also left to the writer, see altTrailers
			}
			switch {
			case ok:
			case sec.trailer != nil:
				return "", explore.Failf(pfx+"-trailers/fields-differ"+at, "client sees trailers %s, the handler set %s; on the wire %v", g, c19RenderHeader(sec.trailer), emittedAll())
			default:
				ks := make([]string, 0, len(got))
				for k := range got {
					ks = append(ks, strings.ToLower(k))
				}
				sort.Strings(ks)
				return "", explore.Failf(pfx+"-trailers/fields-differ:unexpected:"+strings.Join(ks, ",")+at,
					"client sees trailers %s, the message has none (nothing the handler has set is declared as a trailer by the header map); on the wire %v", g, emittedAll())
			}
		}
		out := fmt.Sprintf("%s: round trip ok, %d", class, sec.status)
		if len(sections) > 1 {
			out += " after 103"
		}
		if later {
			out += ", header as modified after WriteHeader"
		}
		if wantBody != "" {
			out += ", body"
		}
		if sec.trailer != nil {
			out += ", trailers"
		} else if len(ann) > 0 {
			out += ", trailers announced only"
		}
		switch {
		case view.HasCL && sec.clClass == "well-formed":
			out += ", content-length"
		case view.HasCL:
			out += ", content-length (" + sec.clClass + ") kept"
		case sec.clClass != "":
			out += ", content-length (" + sec.clClass + ") left out"
		}
		return out, nil
	}
	return class + ": written, parser accepts", nil
}

func c19RspLattice(e explore.Env) []c19RspMsg {
	var l []c19RspMsg
	for _, hdr := range c19HdrChoices(c19RspHdrAtoms, c19Tier(e, 2, 3)) {
		for _, status := range []int{200, 404, 204, 304} {
			for _, early := range []bool{false, true} {
				for _, head := range []bool{false, true} {
					for _, date := range []bool{false, true} {
						for _, body := range [][2]bool{{false, false}, {true, false}, {true, true}} {
							for t := range c19RspTrailers {
								l = append(l, c19RspMsg{status, early, head, hdr, date, body[0], t, body[1]})
							}
						}
					}
				}
			}
		}
	}
	return l
}

// ---------------------------------------------------------------- parts

func c19LatticePart[M any](name, rule string, lattice func(e explore.Env) []M, run func(M) (string, *explore.Fail), human func(M) []string) explore.Part {
	return explore.Part{
		Name: name,
		Run: func(e explore.Env) *explore.Report {
			l := lattice(e)
			col := newC19Collector()
			outs := &c19Outcomes{}
			rep := explore.RunCases(e, len(l), 0, true, func(i int) explore.CaseResult {
				var out string
				f := c19Guard(func() (f *explore.Fail) { out, f = run(l[i]); return f })
				if f != nil {
					col.add(i, f, l[i], human(l[i]))
				} else {
					outs.add(out)
				}
				return explore.CaseResult{Fail: f, Execs: 1, Trans: 1}
			})
			col.finish(rep)
			outs.into(rep)
			rep.Rule = rule
			rep.Bound = fmt.Sprintf("full product of the message lattice: %d messages", len(l))
			for _, i := range []int{len(l) - 1, len(l) / 2, len(l) / 3} {
				rep.Samples = append(rep.Samples, human(l[i]))
			}
			return rep
		},
		Replay: func(e explore.Env, raw json.RawMessage) *explore.Violation {
			var m M
			explore.Must(json.Unmarshal(raw, &m) == nil, "bad replay %s", raw)
			f := c19Guard(func() (f *explore.Fail) { _, f = run(m); return f })
			if f == nil {
				return nil
			}
			return &explore.Violation{Key: f.Key, What: f.What, Replay: raw, Human: human(m)}
		},
	}
}

func c19WriterParts() []explore.Part {
	return []explore.Part{
		c19LatticePart("writer-request",
			"full product of method x proto x URL form x Host override x header-atom sets (<=1 atom quick, <=2 thorough; 67 atoms, 17 of them Header[Content-Length] spellings, 28 of them keys with no / two / three values: every TE list of <= 3 values over {trailers, gzip}, User-Agent, connection-specific, Cookie, plain keys) x compression x body/ContentLength x Trailer; each message written by the real requestWriter through RequestStream.sendRequestHeader/sendRequestTrailer and parsed back by frameParser + qpack decoder + requestFromHeaders/decodeTrailers",
			c19ReqLattice, c19RunReqMsg, c19ReqMsg.human),
		c19LatticePart("writer-response",
			"full product of status x early hints x HEAD x header-atom sets (<=2 atoms quick, <=3 thorough; 32 atoms, 18 of them handler-set Content-Length spellings) x Date x body length 0/5/10 x trailer style; each handler script run on the real responseWriter and read back by the real RequestStream.ReadResponse + body Read (-> decodeTrailers)",
			c19RspLattice, c19RunRspMsg, c19RspMsg.human),
	}
}
