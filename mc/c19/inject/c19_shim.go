//go:build verif

package quic

// Export shim for the C19 harness (package http3): a real bidirectional *Stream and a *Conn
// that is just complete enough for http3's RawServerConn.handleRequestStream, so that the H3
// error codes the server puts on a request stream (STOP_SENDING / RESET_STREAM) can be
// observed. Nothing here is used outside `-tags verif` builds.

import (
	"context"
	"net"

	"github.com/refraction-networking/uquic/internal/flowcontrol"
	"github.com/refraction-networking/uquic/internal/handshake"
	"github.com/refraction-networking/uquic/internal/monotime"
	"github.com/refraction-networking/uquic/internal/protocol"
	"github.com/refraction-networking/uquic/internal/utils"
	"github.com/refraction-networking/uquic/internal/wire"
)

const verifC19Now = monotime.Time(1_000_000_000_000)

type verifC19Sender struct{}

func (verifC19Sender) onHasConnectionData()                                                {}
func (verifC19Sender) onHasStreamData(protocol.StreamID, *SendStream)                      {}
func (verifC19Sender) onHasStreamControlFrame(protocol.StreamID, streamControlFrameGetter) {}
func (verifC19Sender) onStreamCompleted(protocol.StreamID)                                 {}

// VerifC19NewStream returns a real stream 0 whose receive side holds data (no FIN yet).
func VerifC19NewStream(data []byte) *Stream {
	rtt := utils.NewRTTStats()
	cfc := flowcontrol.NewConnectionFlowController(1<<24, 1<<24, func(protocol.ByteCount) bool { return true }, rtt, utils.DefaultLogger)
	cfc.UpdateSendWindow(1 << 24)
	sfc := flowcontrol.NewStreamFlowController(0, cfc, 1<<22, 1<<22, 1<<22, rtt, utils.DefaultLogger)
	s := newStream(context.Background(), 0, verifC19Sender{}, sfc, false)
	if err := s.handleStreamFrame(&wire.StreamFrame{StreamID: 0, Data: data}, verifC19Now); err != nil {
		panic(err)
	}
	return s
}

// VerifC19Drain returns the error codes of the queued STOP_SENDING and RESET_STREAM frames and
// the bytes the stream's owner wrote.
func VerifC19Drain(s *Stream) (stop, reset []uint64, written []byte) {
	for i := 0; i < 16; i++ {
		f, ok, _ := s.getControlFrame(verifC19Now)
		if !ok {
			break
		}
		switch fr := f.Frame.(type) {
		case *wire.StopSendingFrame:
			stop = append(stop, uint64(fr.ErrorCode))
		case *wire.ResetStreamFrame:
			reset = append(reset, uint64(fr.ErrorCode))
		}
	}
	for i := 0; i < 1024; i++ {
		f, _, _ := s.popStreamFrame(1200, protocol.Version1)
		if f.Frame == nil {
			break
		}
		written = append(written, f.Frame.Data...)
	}
	return stop, reset, written
}

type verifC19Crypto struct{ cryptoStreamHandler }

func (verifC19Crypto) ConnectionState() handshake.ConnectionState { return handshake.ConnectionState{} }

type verifC19SendConn struct{ sendConn }

func (verifC19SendConn) RemoteAddr() net.Addr {
	return &net.UDPAddr{IP: net.IPv4(192, 0, 2, 1), Port: 4433}
}
func (verifC19SendConn) capabilities() connCapabilities { return connCapabilities{} }

// VerifC19Conn returns a *Conn on which only ConnectionState and RemoteAddr work.
func VerifC19Conn() *Conn {
	return &Conn{conn: verifC19SendConn{}, cryptoStreamHandler: verifC19Crypto{}, config: &Config{}}
}

// VerifC19Pump is a stream sender that stands for a connection that always has room: whenever the
// stream announces data (SendStream.Write does so once per call, before it waits) it pops the
// STREAM frames at once, in the caller's goroutine, so that a Write larger than one packet buffer
// returns instead of waiting for a packer that does not exist here.
type VerifC19Pump struct {
	verifC19Sender
	data []byte
}

func (p *VerifC19Pump) onHasStreamData(_ protocol.StreamID, s *SendStream) {
	for i := 0; i < 1<<16; i++ {
		f, _, _ := s.popStreamFrame(1200, protocol.Version1)
		if f.Frame == nil {
			return
		}
		p.data = append(p.data, f.Frame.Data...)
	}
}

// Bytes returns what the stream's owner has written so far (popped frames only; VerifC19Drain
// returns the rest).
func (p *VerifC19Pump) Bytes() []byte { return p.data }

// VerifC19NewPumpedStream is VerifC19NewStream with a VerifC19Pump as the stream's sender.
func VerifC19NewPumpedStream(data []byte) (*Stream, *VerifC19Pump) {
	rtt := utils.NewRTTStats()
	cfc := flowcontrol.NewConnectionFlowController(1<<24, 1<<24, func(protocol.ByteCount) bool { return true }, rtt, utils.DefaultLogger)
	cfc.UpdateSendWindow(1 << 24)
	sfc := flowcontrol.NewStreamFlowController(0, cfc, 1<<22, 1<<22, 1<<22, rtt, utils.DefaultLogger)
	p := &VerifC19Pump{}
	s := newStream(context.Background(), 0, p, sfc, false)
	if err := s.handleStreamFrame(&wire.StreamFrame{StreamID: 0, Data: data}, verifC19Now); err != nil {
		panic(err)
	}
	return s, p
}
