# ./check configuration for C19 (merged by mc/props.py)
PROP = dict(
        pkg="http3", test="TestVerifC19", files=["mc/c19/*.go"], libs=["explore", "canon"],
        level="model_checking", shards=1,
        level_text="TODO",
        level_note="TODO",
        technique="bounded-exhaustive input enumeration against a reference predicate",
        deadline=dict(quick=90, thorough=800),
        rule="TODO",
        assumptions=[],
    )
