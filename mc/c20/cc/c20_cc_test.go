package congestion

// C20, target "cc": explicit-state search over the real cubicSender (Reno and Cubic) and
// its real pacer, driven with a harness clock and the real utils.RTTStats.
//
// Reference model (all of it is in this file):
//   * a ledger of the outstanding retransmittable packets (bytes in flight),
//   * the current full packet size (initial size, or the size a start-state MTU increase
//     set, + the step of every MTU increase of the history),
//   * the largest retransmittable packet number that had been sent when the window was
//     last cut in response to a loss (the "window of packets" of the statement),
//   * for the pacer parts: one record per authorised send = start of an interval, with the
//     bytes authorised since, the largest bandwidth estimate and datagram size seen since.
//
// Start states: a fresh sender with a shrunk initial window; in the "floor" parts the first
// event of every history is a "start" choice = a fresh sender with one of several initial
// windows that has already gone through k separate loss episodes (k times: one full-size
// packet sent and reported lost, 100 ms apart - every episode is executed on the real code
// and judged by the same oracle), so that the window sits at, or within one loss reduction
// of, the two-packet floor, in congestion avoidance, with a cutback already on record.
// A start state also fixes the CONFIGURED initial packet size (Config.InitialPacketSize,
// 1200..1452, handed to the constructor as initialMaxDatagramSize; default 1280): the
// "pacer-init" parts and one start state of the floor parts construct the sender with a
// non-default size - through the internal constructor with a shrunk window, or through the
// exported NewCubicSender exactly as sentPacketHandler does - and no SetMaxDatagramSize
// call precedes the history (path MTU discovery disabled / no probe acknowledged yet). The
// full packet size of the model, the two-packet floor, the maximum and the burst of the
// pacer clause all follow the configured size from the first event on.
// Flights: "fill(class)" = an obedient sender sends packets of one size class for as long
// as CanSend(bytes in flight) allows, so that several packets of one window of packets are
// outstanding when losses and acknowledgements of that flight are interleaved.
//
// Oracle, evaluated after every event (only what the statement says):
//   B  2*mds <= cwnd <= 10000*mds + mds
//   A  an acknowledgement never makes cwnd smaller
//   L  a loss report makes cwnd smaller only if the lost packet was sent after the
//      previous loss-induced reduction (at most one reduction per window of packets)
//   G  cwnd grows only if the sender was window-limited for the in-flight value the event
//      was reported with (in flight >= cwnd, or less than 3 packets of room, or - in slow
//      start - more than half the window in use); an MTU increase may lift cwnd to the new
//      two-packet floor
//   P  for every interval [t_i, t_j] between two authorised sends: bytes authorised in it
//      <= burst + 1.25*bw*(t_j-t_i), bw = largest estimate in the interval,
//      burst = max(10 datagrams of the largest datagram size in force in the interval
//      [not less than the default initial packet size 1280, see c20BurstFloorMDS],
//      1.25*bw*2ms). A packet counts as authorised the way the send loop decides it
//      (sentPacketHandler.SendMode): the sender's HasPacingBudget(now) is true - that
//      releases a packet of up to the CURRENT maximum datagram size - or, for a smaller
//      packet, the budget covers its size. Send opportunities arrive at the pacing timer
//      (TimeUntilSend), at arbitrary clock steps, and at the earliest instant at which
//      HasPacingBudget opens ("advgate": an ACK / application write that wakes the send
//      loop before the timer).

import (
	"fmt"
	"math/bits"
	"strings"
	"time"

	"github.com/refraction-networking/uquic/internal/monotime"
	"github.com/refraction-networking/uquic/internal/protocol"
	"github.com/refraction-networking/uquic/internal/utils"
	"github.com/refraction-networking/uquic/internal/verifmc/canon"
	"github.com/refraction-networking/uquic/internal/verifmc/explore"
)

const (
	c20MDS0     = protocol.ByteCount(protocol.InitialPacketSize)
	c20MTUStep  = protocol.ByteCount(80)
	c20MaxPkts  = protocol.ByteCount(protocol.MaxCongestionWindowPackets)
	c20T0       = monotime.Time(1_000_000_000)
	c20HugeStep = time.Duration(1) << 62
	c20MaxRTT   = 60 * time.Second // domain assumption: RTT samples above 60 s are not part of the domain
)

type c20Clock struct{ now monotime.Time }

func (c *c20Clock) Now() monotime.Time { return c.now }

// ---- ledger of outstanding retransmittable packets (runs of equal-size packets) ----

type c20Run struct {
	lo   protocol.PacketNumber
	n    int
	size protocol.ByteCount
	t    monotime.Time // send time
}

type c20Ledger struct {
	runs     []c20Run
	inflight protocol.ByteCount
	count    int
}

func (l *c20Ledger) push(pn protocol.PacketNumber, size protocol.ByteCount, t monotime.Time) {
	if k := len(l.runs); k > 0 {
		r := &l.runs[k-1]
		if r.size == size && r.t == t && r.lo+protocol.PacketNumber(r.n) == pn {
			r.n++
			l.inflight += size
			l.count++
			return
		}
	}
	l.runs = append(l.runs, c20Run{lo: pn, n: 1, size: size, t: t})
	l.inflight += size
	l.count++
}

func (l *c20Ledger) oldest() (protocol.PacketNumber, protocol.ByteCount) {
	r := l.runs[0]
	return r.lo, r.size
}

func (l *c20Ledger) newest() (protocol.PacketNumber, protocol.ByteCount) {
	r := l.runs[len(l.runs)-1]
	return r.lo + protocol.PacketNumber(r.n-1), r.size
}

// ackable reports whether an acknowledgement of the packet(s) is inside the stated domain
// (RTT samples above 60 s are outside: a packet that old can only be declared lost).
func (l *c20Ledger) ackable(kind int, now monotime.Time) bool {
	if l.count == 0 || (kind > 0 && l.count < 2) {
		return false
	}
	young := func(r c20Run) bool { return now.Sub(r.t) <= c20MaxRTT }
	switch kind {
	case 0:
		return young(l.runs[0])
	case 1:
		return young(l.runs[len(l.runs)-1])
	}
	for _, r := range l.runs {
		if !young(r) {
			return false
		}
	}
	return true
}

func (l *c20Ledger) remove(pn protocol.PacketNumber) {
	for i := range l.runs {
		r := l.runs[i]
		if pn < r.lo || pn >= r.lo+protocol.PacketNumber(r.n) {
			continue
		}
		l.inflight -= r.size
		l.count--
		var repl []c20Run
		if k := int(pn - r.lo); k > 0 {
			repl = append(repl, c20Run{lo: r.lo, n: k, size: r.size, t: r.t})
		}
		if k := int(r.lo + protocol.PacketNumber(r.n) - 1 - pn); k > 0 {
			repl = append(repl, c20Run{lo: pn + 1, n: k, size: r.size, t: r.t})
		}
		nr := append([]c20Run{}, l.runs[:i]...)
		nr = append(nr, repl...)
		nr = append(nr, l.runs[i+1:]...)
		l.runs = nr
		return
	}
	explore.Must(false, "ledger: packet %d not outstanding", pn)
}

// all returns the outstanding packets in ascending packet number order.
func (l *c20Ledger) all() (pns []protocol.PacketNumber, sizes []protocol.ByteCount) {
	for _, r := range l.runs {
		for k := 0; k < r.n; k++ {
			pns = append(pns, r.lo+protocol.PacketNumber(k))
			sizes = append(sizes, r.size)
		}
	}
	return
}

// ---- configuration of one part ----

type c20Cfg struct {
	reno      bool
	initPkts  protocol.ByteCount // initial window in packets
	belowMax  protocol.ByteCount // if > 0: initial window = configured maximum - belowMax packets
	depth     int
	sizes     []int                // send size classes: 0 full, 1 half, 2 one byte, 3 full-1, 5 quarter
	nonRetr   bool                 // also send non-retransmittable (pure ACK) packets of 40 bytes
	fill      bool                 // "fill": full-size packets until the window is used up
	fillSizes []int                // "fill(class)": packets of this size class for as long as CanSend allows (one flight)
	starts    []c20Start           // if set: the first event of a history chooses the start state
	burst     bool                 // "burst": full-size packets back to back for as long as the pacer authorises them
	paced     int                  // "paced": this many times { wait until TimeUntilSend; send a full-size packet if authorised }
	early     int                  // "early": this many times { advance to the earliest instant at which HasPacingBudget is true; send a full-size packet }
	advGate   bool                 // "advgate": advance the clock to the earliest instant at which HasPacingBudget is true
	startMTU  protocol.ByteCount   // if > 0: start state = path MTU discovery already raised the datagram size to this value
	mtuSteps  []protocol.ByteCount // sizes of the MTU increases of the alphabet (nil: +80)
	acks      []int                // 0 oldest, 1 newest, 2 all outstanding (one ACK frame)
	losses    []int                // 0 oldest, 1 newest
	rtts      []time.Duration
	maxRTTOps int
	maxMTU    int
	rto       bool
	maxRTO    int
	steps     []time.Duration
	huge      bool // one 2^62 ns clock step per history
	advPace   bool // advance the clock exactly to TimeUntilSend
	pacer     bool // evaluate the pacer clause (keeps the send history in the state)
}

// c20Start is a start state: a fresh sender with an initial window of pkts packets that has
// gone through `losses` separate loss episodes (send one full-size packet, report it lost).
type c20Start struct {
	pkts   protocol.ByteCount
	losses int
	mds    protocol.ByteCount // configured initial packet size handed to the constructor (0: the default, 1280)
	prod   bool               // construct through the exported NewCubicSender (32 packets), as sentPacketHandler does
}

func (st c20Start) size() protocol.ByteCount {
	if st.mds == 0 {
		return c20MDS0
	}
	return st.mds
}

type c20Rec struct {
	t      monotime.Time
	sum    protocol.ByteCount
	bwMax  uint64 // bytes per second
	mdsMax protocol.ByteCount
}

type c20Inst struct {
	cfg *c20Cfg
	clk *c20Clock
	rtt *utils.RTTStats
	s   *cubicSender

	led       c20Ledger
	nextPN    protocol.PacketNumber
	largestR  protocol.PacketNumber // largest retransmittable packet number sent
	horizon   protocol.PacketNumber // largestR when cwnd was last cut because of a loss
	mds       protocol.ByteCount
	mds0      protocol.ByteCount // configured initial packet size (what the constructor was given)
	mtuN      int
	rtoN      int
	rttN      int
	hugeUsed  bool
	started   bool          // a start state was chosen (parts with cfg.starts only)
	burstDone bool          // no clock step since the last burst (a second burst would be empty)
	minRTTAck time.Duration // MinRTT at the previous ack event
	recs      []c20Rec
	outcome   string
}

func newC20Inst(cfg *c20Cfg) *c20Inst {
	in := &c20Inst{cfg: cfg, clk: &c20Clock{now: c20T0}, rtt: utils.NewRTTStats(), mds: c20MDS0, mds0: c20MDS0,
		largestR: protocol.InvalidPacketNumber, horizon: protocol.InvalidPacketNumber}
	init := cfg.initPkts * c20MDS0
	if cfg.belowMax > 0 {
		init = (c20MaxPkts - cfg.belowMax) * c20MDS0
	}
	in.s = newCubicSender(in.clk, in.rtt, &utils.ConnectionStats{}, cfg.reno, c20MDS0, init, c20MaxPkts*c20MDS0, nil)
	in.minRTTAck = in.rtt.MinRTT()
	if cfg.startMTU > 0 {
		in.mds = cfg.startMTU
		in.s.SetMaxDatagramSize(in.mds)
	}
	return in
}

func (c *c20Cfg) mtuStepList() []protocol.ByteCount {
	if c.mtuSteps == nil {
		return []protocol.ByteCount{c20MTUStep}
	}
	return c.mtuSteps
}

// gateOpens returns the earliest instant after now at which the sender's HasPacingBudget
// reports true (0: it is open now, or it does not open within 2^40 ns). Pure reads only.
// The bisection assumes nothing about the gate: whatever it returns is an instant at
// which the gate is open while it was closed one nanosecond earlier.
func (in *c20Inst) gateOpens() monotime.Time {
	now := in.clk.now
	if in.s.HasPacingBudget(now) {
		return 0
	}
	lo, hi := now, monotime.Time(0)
	for k := 0; k <= 40; k++ {
		t := now.Add(time.Duration(1) << k)
		if in.s.HasPacingBudget(t) {
			hi = t
			break
		}
		lo = t
	}
	if hi == 0 {
		return 0
	}
	for hi.Sub(lo) > 1 {
		mid := lo.Add(hi.Sub(lo) / 2)
		if in.s.HasPacingBudget(mid) {
			hi = mid
		} else {
			lo = mid
		}
	}
	return hi
}

func (in *c20Inst) algo() string {
	if in.cfg.reno {
		return "reno"
	}
	return "cubic"
}

func (in *c20Inst) sizeOf(class int) protocol.ByteCount {
	switch class {
	case 0:
		return in.mds
	case 1:
		return in.mds / 2
	case 2:
		return 1
	case 3:
		return in.mds - 1
	case 5:
		return in.mds / 4
	}
	explore.Must(false, "size class %d", class)
	return 0
}

func (in *c20Inst) Ops() []explore.Op {
	c := in.cfg
	var ops []explore.Op
	if len(c.starts) > 0 && !in.started {
		for i := range c.starts {
			ops = append(ops, explore.Op{N: "start", A: i})
		}
		return ops
	}
	for _, sz := range c.sizes {
		ops = append(ops, explore.Op{N: "send", A: sz, B: 1})
	}
	if c.nonRetr {
		ops = append(ops, explore.Op{N: "send", A: 4, B: 0})
	}
	if c.burst && !in.burstDone {
		ops = append(ops, explore.Op{N: "burst"})
	}
	if c.paced > 0 && !in.hugeUsed {
		ops = append(ops, explore.Op{N: "paced"})
	}
	if c.early > 0 && !in.hugeUsed {
		ops = append(ops, explore.Op{N: "early"})
	}
	if in.s.CanSend(in.led.inflight) {
		if c.fill {
			ops = append(ops, explore.Op{N: "fill"})
		}
		for _, sz := range c.fillSizes {
			ops = append(ops, explore.Op{N: "fill", A: sz})
		}
	}
	for _, k := range c.acks {
		if in.led.ackable(k, in.clk.now) {
			ops = append(ops, explore.Op{N: "ack", A: k})
		}
	}
	for _, k := range c.losses {
		if in.led.count == 0 || (k > 0 && in.led.count < 2) {
			continue
		}
		ops = append(ops, explore.Op{N: "lose", A: k})
	}
	if c.maxRTTOps == 0 || in.rttN < c.maxRTTOps {
		for i := range c.rtts {
			ops = append(ops, explore.Op{N: "rtt", A: i})
		}
	}
	if in.mtuN < c.maxMTU {
		for i := range c.mtuStepList() {
			ops = append(ops, explore.Op{N: "mtu", A: i})
		}
	}
	if c.rto && in.rtoN < c.maxRTO {
		ops = append(ops, explore.Op{N: "rto", A: 1}, explore.Op{N: "rto", A: 0})
	}
	if !in.hugeUsed {
		for i := range c.steps {
			ops = append(ops, explore.Op{N: "adv", A: i})
		}
		if c.huge {
			ops = append(ops, explore.Op{N: "adv", A: -1})
		}
		if c.advPace {
			if t := in.s.TimeUntilSend(in.led.inflight); t > in.clk.now {
				ops = append(ops, explore.Op{N: "advpace"})
			}
		}
		if c.advGate && in.gateOpens() != 0 {
			ops = append(ops, explore.Op{N: "advgate"})
		}
	}
	return ops
}

func c20Limited(inflight, cwnd, mds protocol.ByteCount, slowStart bool) bool {
	if inflight >= cwnd {
		return true
	}
	return cwnd-inflight <= 3*mds || (slowStart && inflight > cwnd/2)
}

func (in *c20Inst) phase() string {
	switch {
	case in.s.InRecovery():
		return "rec"
	case in.s.InSlowStart():
		return "ss"
	default:
		return "ca"
	}
}

func c20Delta(a, b protocol.ByteCount) string {
	switch {
	case b > a:
		return "grow"
	case b < a:
		return "shrink"
	}
	return "same"
}

func (in *c20Inst) bw() uint64 { return uint64(in.s.BandwidthEstimate() / BytesPerSecond) }

// c20BurstFloorMDS: the statement says "one burst" and is silent about the datagram size a
// burst is counted in. The reference model counts 10 datagrams of the largest size in force
// in the interval, but never of less than the protocol's default initial packet size (1280):
// a connection CONFIGURED with a smaller initial packet size (1200..1279) may still be given
// the burst of the default size (the real pacer sizes its bucket with the package constant
// until the first SetMaxDatagramSize: 12800 bytes = 10.67 packets of 1200). See FINDINGS.md,
// observation O1. Set to 0 for the reading "10 datagrams of the configured size" (the
// unchanged tree then fails with start(1200) burst paced: 13200 bytes in 8 ms, bound 12481).
const c20BurstFloorMDS = c20MDS0

func (in *c20Inst) burstMDS() protocol.ByteCount { return max(in.mds, c20BurstFloorMDS) }

// sample folds the current bandwidth estimate / datagram size into every open interval.
func (in *c20Inst) sample() {
	if !in.cfg.pacer {
		return
	}
	bw := in.bw()
	for i := range in.recs {
		r := &in.recs[i]
		r.bwMax = max(r.bwMax, bw)
		r.mdsMax = max(r.mdsMax, in.burstMDS())
	}
}

// c20Allowed is the pacer bound of the statement for an interval of dt nanoseconds:
// one burst + 1.25*bw*dt (both rounded up to a whole byte). ok=false: the bound exceeds 2^63.
func c20Allowed(bw uint64, mds protocol.ByteCount, dt uint64) (protocol.ByteCount, bool) {
	if bw > 1<<58 {
		return 0, false
	}
	burst := uint64(10 * mds)
	hi, lo := bits.Mul64(5*bw, 2_000_000) // MinPacingDelay + TimerGranularity
	if hi != 0 {
		return 0, false
	}
	if b := lo/4_000_000_000 + 1; b > burst {
		burst = b
	}
	hi, lo = bits.Mul64(5*bw, dt)
	if hi != 0 {
		return 0, false
	}
	return protocol.ByteCount(burst + lo/4_000_000_000 + 1), true
}

// sendOne performs one packet-sent event. Returns whether the pacer authorised it.
func (in *c20Inst) sendOne(size protocol.ByteCount, retr bool, countPacer bool) (bool, *explore.Fail) {
	now := in.clk.now
	auth := false
	if countPacer && in.cfg.pacer {
		in.sample()
		// authorisation as the send loop sees it: HasPacingBudget(now) releases one packet of
		// up to the current maximum datagram size (size <= in.mds always holds here); a
		// smaller packet is also regarded as authorised when the budget covers it.
		explore.Must(size <= in.mds, "packet of %d bytes is larger than the datagram size %d", size, in.mds)
		gate := in.s.HasPacingBudget(now)
		auth = gate || in.s.pacer.Budget(now) >= size
		if auth {
			in.recs = append(in.recs, c20Rec{t: now, bwMax: in.bw(), mdsMax: in.burstMDS()})
			for i := range in.recs {
				r := &in.recs[i]
				r.sum += size
				allowed, ok := c20Allowed(r.bwMax, r.mdsMax, uint64(now.Sub(r.t)))
				if ok && r.sum > allowed {
					cls := "same-instant"
					if now != r.t {
						cls = "interval"
					}
					if in.mds0 > c20MDS0 {
						cls += ":configured-initial-size-above-default"
					} else if in.mds0 < c20MDS0 {
						cls += ":configured-initial-size-below-default"
					}
					if in.mds > in.mds0 {
						cls += ":after-mtu-increase"
					}
					return true, explore.Failf("pacer-over-authorised:"+in.algo()+":"+cls,
						"pacer authorised %d bytes in an interval of %d ns (packets sent at %d..%d ns after start; the last one: %d bytes, HasPacingBudget=%v, budget %d); bound: one burst + 1.25*bw*dt = %d bytes with bw=%d B/s (largest estimate in the interval), burst counted in datagrams of %d bytes",
						r.sum, now.Sub(r.t), r.t.Sub(c20T0), now.Sub(c20T0), size, gate, in.s.pacer.Budget(now), allowed, r.bwMax, r.mdsMax)
				}
			}
		}
	}
	pn := in.nextPN
	in.nextPN++
	cw0 := in.s.GetCongestionWindow()
	if retr {
		in.led.push(pn, size, now)
		in.largestR = pn
	}
	in.s.OnPacketSent(now, in.led.inflight, pn, size, retr)
	if cw1 := in.s.GetCongestionWindow(); cw1 > cw0 {
		return auth, explore.Failf("cwnd-grows-on-send:"+in.algo(), "OnPacketSent changed cwnd %d -> %d", cw0, cw1)
	}
	return auth, nil
}

func (in *c20Inst) bounds(ev string) *explore.Fail {
	cw := in.s.GetCongestionWindow()
	if cw < 2*in.mds {
		return explore.Failf("cwnd-below-two-packets:"+in.algo()+":"+ev,
			"after %s: cwnd = %d bytes < 2 full-size packets = %d (datagram size %d)", ev, cw, 2*in.mds, in.mds)
	}
	if cw > c20MaxPkts*in.mds+in.mds {
		return explore.Failf("cwnd-above-maximum:"+in.algo()+":"+ev,
			"after %s: cwnd = %d bytes > maximum %d + one packet %d", ev, cw, c20MaxPkts*in.mds, in.mds)
	}
	return nil
}

// ackOne reports one acknowledged packet the way sentPacketHandler.ReceivedAck does.
func (in *c20Inst) ackOne(pn protocol.PacketNumber, size, prior protocol.ByteCount) (string, *explore.Fail) {
	cw0, ss0, ph := in.s.GetCongestionWindow(), in.s.InSlowStart(), in.phase()
	lim := c20Limited(prior, cw0, in.mds, ss0)
	in.s.OnPacketAcked(pn, size, prior, in.clk.now)
	in.led.remove(pn)
	cw1 := in.s.GetCongestionWindow()
	minRTT := in.rtt.MinRTT()
	defer func() { in.minRTTAck = minRTT }()
	if cw1 < cw0 {
		cls := "other"
		if minRTT < in.minRTTAck {
			cls = "min-rtt-decreased-since-previous-ack"
		} else if ep := in.s.cubic.epoch; !in.cfg.reno && !ep.IsZero() && in.clk.now.Sub(ep) >= 25*time.Second {
			// 410*offset^3*1280 leaves int64 for offset >= ~26 000 (25.4 s past the origin point)
			cls = "cube-overflow-epoch-older-than-25s"
		}
		return "", explore.Failf("cwnd-shrinks-on-ack:"+in.algo()+":"+ph+":"+cls,
			"acknowledgement of packet %d (%d bytes, prior in flight %d) shrank cwnd %d -> %d (%s, min RTT %s, previous ack saw %s)",
			pn, size, prior, cw0, cw1, ph, minRTT, in.minRTTAck)
	}
	if cw1 > cw0 && !lim {
		return "", explore.Failf("cwnd-grows-not-window-limited:"+in.algo()+":"+ph,
			"acknowledgement of packet %d grew cwnd %d -> %d although only %d bytes were in flight (not window-limited: %d bytes of room > 3 packets, slow start=%v)",
			pn, cw0, cw1, prior, cw0-prior, ss0)
	}
	l := "notlim"
	if lim {
		l = "lim"
	}
	return ph + " " + c20Delta(cw0, cw1) + " " + l, nil
}

func (in *c20Inst) loseOne(pn protocol.PacketNumber, size, prior protocol.ByteCount) (string, *explore.Fail) {
	cw0, ph := in.s.GetCongestionWindow(), in.phase()
	in.s.OnCongestionEvent(pn, size, prior)
	in.led.remove(pn)
	cw1 := in.s.GetCongestionWindow()
	if cw1 > cw0 {
		return "", explore.Failf("cwnd-grows-on-loss:"+in.algo(), "loss of packet %d grew cwnd %d -> %d", pn, cw0, cw1)
	}
	old := "new-window"
	if pn <= in.horizon {
		old = "same-window"
	}
	if cw1 < cw0 {
		if pn <= in.horizon {
			return "", explore.Failf("cwnd-shrinks-twice-per-window:"+in.algo(),
				"loss of packet %d shrank cwnd %d -> %d, but the window had already been reduced for a loss when packets up to %d were outstanding",
				pn, cw0, cw1, in.horizon)
		}
		in.horizon = in.largestR
	}
	return ph + " " + c20Delta(cw0, cw1) + " " + old, nil
}

func (in *c20Inst) Apply(op explore.Op) *explore.Fail {
	in.outcome = ""
	c := in.cfg
	ev := op.N
	switch op.N {
	case "send":
		size, retr := protocol.ByteCount(40), op.B == 1
		if op.A != 4 {
			size = in.sizeOf(op.A)
		}
		auth, f := in.sendOne(size, retr, true)
		if f != nil {
			return f
		}
		in.outcome = fmt.Sprintf("send class=%d retr=%v auth=%v full=%v", op.A, retr, auth, in.led.inflight >= in.s.GetCongestionWindow())
	case "burst":
		n := 0
		for ; n < 16; n++ {
			if !in.s.HasPacingBudget(in.clk.now) {
				break
			}
			auth, f := in.sendOne(in.mds, true, true)
			if f != nil {
				return f
			}
			explore.Must(auth, "burst: packet not authorised")
		}
		in.burstDone = true
		in.outcome = fmt.Sprintf("burst n=%d", n)
	case "paced":
		n := 0
		for i := 0; i < c.paced; i++ {
			if t := in.s.TimeUntilSend(in.led.inflight); t > in.clk.now {
				in.clk.now = t
				in.burstDone = false
			}
			if !in.s.HasPacingBudget(in.clk.now) {
				continue
			}
			if _, f := in.sendOne(in.mds, true, true); f != nil {
				return f
			}
			n++
		}
		in.outcome = fmt.Sprintf("paced n=%d", n)
	case "early":
		// the send loop is woken (ACK, application write) as early as the gate allows
		n, moved := 0, 0
		for i := 0; i < c.early; i++ {
			if t := in.gateOpens(); t != 0 {
				in.clk.now = t
				in.burstDone = false
				moved++
			}
			if !in.s.HasPacingBudget(in.clk.now) {
				continue
			}
			if _, f := in.sendOne(in.mds, true, true); f != nil {
				return f
			}
			n++
		}
		in.outcome = fmt.Sprintf("early n=%d moved=%v before-timer=%v", n, moved > 0, in.clk.now < in.s.TimeUntilSend(in.led.inflight))
	case "start":
		// start state: a fresh sender with the chosen initial window, taken through separate
		// loss episodes (one flight of one packet each), every one judged like any other event
		explore.Must(!in.started && c.startMTU == 0 && in.nextPN == 0, "start: not the first event")
		st := c.starts[op.A]
		in.started = true
		// the configured initial packet size is a constructor argument; nothing else tells the
		// sender (or its pacer) about it before the first event
		in.mds0 = st.size()
		in.mds = in.mds0
		if st.prod {
			in.s = NewCubicSender(in.clk, in.rtt, &utils.ConnectionStats{}, in.mds0, c.reno, nil)
		} else {
			in.s = newCubicSender(in.clk, in.rtt, &utils.ConnectionStats{}, c.reno, in.mds0, st.pkts*in.mds0, c20MaxPkts*in.mds0, nil)
		}
		shrinks := 0
		for i := 0; i < st.losses; i++ {
			if _, f := in.sendOne(in.mds, true, false); f != nil {
				return f
			}
			in.clk.now = in.clk.now.Add(100 * time.Millisecond)
			pn, sz := in.led.oldest()
			oc, f := in.loseOne(pn, sz, in.led.inflight)
			if f != nil {
				return f
			}
			if strings.Contains(oc, "shrink") {
				shrinks++
			}
			if f := in.bounds(ev); f != nil {
				return f
			}
		}
		in.outcome = fmt.Sprintf("start%d size=%d shrinks=%d atfloor=%v %s", op.A, in.mds0, shrinks, in.s.GetCongestionWindow() == 2*in.mds, in.phase())
	case "fill":
		size := in.sizeOf(op.A)
		n := 0
		for in.s.CanSend(in.led.inflight) {
			if _, f := in.sendOne(size, true, false); f != nil {
				return f
			}
			n++
		}
		in.outcome = fmt.Sprintf("fill class=%d many=%v", op.A, n > 3)
	case "ack":
		prior := in.led.inflight
		var oc string
		var f *explore.Fail
		switch op.A {
		case 0:
			pn, sz := in.led.oldest()
			oc, f = in.ackOne(pn, sz, prior)
		case 1:
			pn, sz := in.led.newest()
			oc, f = in.ackOne(pn, sz, prior)
		case 2:
			pns, szs := in.led.all()
			last := ""
			for i := range pns {
				var o string
				if o, f = in.ackOne(pns[i], szs[i], prior); f != nil {
					break
				}
				if o != last {
					oc += "/" + o
					last = o
				}
			}
		}
		if f != nil {
			return f
		}
		in.outcome = fmt.Sprintf("ack%d %s", op.A, oc)
	case "lose":
		prior := in.led.inflight
		var pn protocol.PacketNumber
		var sz protocol.ByteCount
		if op.A == 0 {
			pn, sz = in.led.oldest()
		} else {
			pn, sz = in.led.newest()
		}
		oc, f := in.loseOne(pn, sz, prior)
		if f != nil {
			return f
		}
		in.outcome = fmt.Sprintf("lose%d %s", op.A, oc)
	case "rtt":
		cw0, ss0 := in.s.GetCongestionWindow(), in.s.InSlowStart()
		in.rttN++
		in.rtt.UpdateRTT(c.rtts[op.A], 0)
		in.s.MaybeExitSlowStart()
		if cw1 := in.s.GetCongestionWindow(); cw1 > cw0 {
			return explore.Failf("cwnd-grows-on-rtt-sample:"+in.algo(), "RTT sample changed cwnd %d -> %d", cw0, cw1)
		}
		in.outcome = fmt.Sprintf("rtt%d ss %v->%v", op.A, ss0, in.s.InSlowStart())
	case "mtu":
		cw0, ss0 := in.s.GetCongestionWindow(), in.s.InSlowStart()
		in.mtuN++
		old := in.mds
		in.mds += c.mtuStepList()[op.A]
		in.s.SetMaxDatagramSize(in.mds)
		cw1 := in.s.GetCongestionWindow()
		if cw1 > cw0 && cw1 > 2*in.mds && !c20Limited(in.led.inflight, cw0, old, ss0) {
			return explore.Failf("cwnd-grows-on-mtu-increase:"+in.algo(), "MTU increase %d -> %d grew cwnd %d -> %d beyond the two-packet floor while not window-limited", old, in.mds, cw0, cw1)
		}
		in.outcome = fmt.Sprintf("mtu%d %s atfloor=%v", op.A, c20Delta(cw0, cw1), cw0 == 2*old)
	case "rto":
		// not an event of the quantifier (and never called by the production code): modelled
		// as a timeout-loss response that starts a new window of packets.
		in.rtoN++
		cw0 := in.s.GetCongestionWindow()
		in.s.OnRetransmissionTimeout(op.A == 1)
		in.horizon = protocol.InvalidPacketNumber
		cw1 := in.s.GetCongestionWindow()
		if cw1 > cw0 {
			return explore.Failf("cwnd-grows-on-rto:"+in.algo(), "retransmission timeout grew cwnd %d -> %d", cw0, cw1)
		}
		in.outcome = fmt.Sprintf("rto%d %s", op.A, c20Delta(cw0, cw1))
	case "adv":
		d := c20HugeStep
		if op.A >= 0 {
			d = c.steps[op.A]
		} else {
			in.hugeUsed = true
		}
		in.clk.now = in.clk.now.Add(d)
		in.burstDone = false
		in.outcome = fmt.Sprintf("adv%d", op.A)
	case "advpace":
		t := in.s.TimeUntilSend(in.led.inflight)
		explore.Must(t > in.clk.now, "advpace not enabled")
		in.clk.now = t
		in.burstDone = false
		in.outcome = fmt.Sprintf("advpace budget-ok=%v", in.s.HasPacingBudget(t))
	case "advgate":
		t := in.gateOpens()
		explore.Must(t > in.clk.now, "advgate not enabled")
		timer := in.s.TimeUntilSend(in.led.inflight)
		in.clk.now = t
		in.burstDone = false
		in.outcome = fmt.Sprintf("advgate before-timer=%v", t < timer)
	default:
		explore.Must(false, "unknown op %v", op)
	}
	in.sample()
	if f := in.bounds(ev); f != nil {
		return f
	}
	// pure reads that must never panic inside the stated domain
	_ = in.s.TimeUntilSend(in.led.inflight)
	_ = in.s.HasPacingBudget(in.clk.now)
	_ = in.s.CanSend(in.led.inflight)
	return nil
}

func (in *c20Inst) Outcome() string { return in.outcome }

func c20SkipCC(typ, field string) bool {
	switch typ + "." + field {
	case "congestion.cubicSender.connStats", "congestion.cubicSender.qlogger", "congestion.cubicSender.lastState":
		return true // write-only statistics / tracing
	}
	return false
}

func c20SkipCCNoPacer(typ, field string) bool {
	// parts that do not evaluate the pacer clause: the pacer is never read by the window
	// arithmetic (only by TimeUntilSend / HasPacingBudget), so its state is not part of
	// the future of anything the oracle of those parts observes.
	return c20SkipCC(typ, field) || typ+"."+field == "congestion.cubicSender.pacer"
}

func (in *c20Inst) Key() string {
	var sb strings.Builder
	base := int64(in.clk.now)
	skip := c20SkipCC
	if !in.cfg.pacer {
		skip = c20SkipCCNoPacer
	}
	sb.WriteString(canon.Dump(in.s, canon.Options{TimeBase: base, SkipField: skip}))
	fmt.Fprintf(&sb, "|pn=%d lr=%d hz=%d mds0=%d mds=%d mtu=%d rto=%d rtt=%d huge=%v bd=%v mra=%d st=%v|", in.nextPN, in.largestR, in.horizon,
		in.mds0, in.mds, in.mtuN, in.rtoN, in.rttN, in.hugeUsed, in.burstDone, in.minRTTAck, in.started)
	for _, r := range in.led.runs {
		fmt.Fprintf(&sb, "%d+%dx%d@%d,", r.lo, r.n, r.size, int64(r.t)-base)
	}
	sb.WriteByte('|')
	for _, r := range in.recs {
		fmt.Fprintf(&sb, "%d:%d:%d:%d,", int64(r.t)-base, r.sum, r.bwMax, r.mdsMax)
	}
	return sb.String()
}
