package congestion

import (
	"encoding/json"
	"fmt"
	"testing"
	"time"

	"github.com/refraction-networking/uquic/internal/protocol"
	"github.com/refraction-networking/uquic/internal/verifmc/explore"
)

// c20Slice gives every part its own share of the process deadline, so that one part that
// is slower than measured cannot starve the parts after it (safety net only: the bounds
// are sized so that no part is cut).
func c20Slice(e explore.Env) explore.Env {
	s := 30 * time.Second
	if e.Thorough() {
		s = 120 * time.Second
	}
	if d := time.Now().Add(s); e.Deadline.IsZero() || d.Before(e.Deadline) {
		e.Deadline = d
	}
	return e
}

func c20Part(name string, mk func(thorough bool) *c20Cfg) explore.Part {
	spec := func(e explore.Env) explore.BFSSpec {
		cfg := mk(e.Thorough())
		algo := "Cubic"
		if cfg.reno {
			algo = "Reno"
		}
		init := fmt.Sprintf("%d packets", cfg.initPkts)
		if cfg.belowMax > 0 {
			init = fmt.Sprintf("maximum - %d packets", cfg.belowMax)
		}
		if cfg.startMTU > 0 {
			init += fmt.Sprintf(", start state: SetMaxDatagramSize(%d) already applied", cfg.startMTU)
		}
		if len(cfg.starts) > 0 {
			init = "chosen by the first event of the history (not counted in the alphabet below): "
			for i, st := range cfg.starts {
				ctor := fmt.Sprintf("%d packets", st.pkts)
				if st.prod {
					ctor = "exported NewCubicSender (32 packets)"
				}
				init += fmt.Sprintf("start(%d) = %s, configured initial packet size %d (constructor argument, no SetMaxDatagramSize), after %d separate loss episodes [one full-size packet sent, reported lost 100 ms later]; ", i, ctor, st.size(), st.losses)
			}
		}
		return explore.BFSSpec{
			New:              func() explore.Instance { return newC20Inst(cfg) },
			MaxDepth:         cfg.depth,
			PanicIsViolation: true,
			Rule: fmt.Sprintf("BFS depth %d over the real cubicSender (%s, initial window %s) + real pacer + real RTTStats with a harness clock; alphabet: send sizes %v (0 full,1 half,2 one byte,3 full-1,5 quarter) nonretransmittable=%v fill=%v flight(one size class while CanSend)=%v burst(while HasPacingBudget)=%v paced-run(at TimeUntilSend)=%d early-run(at the earliest instant HasPacingBudget opens)=%d, ack %v / lose %v (0 oldest,1 newest,2 all; ack only for packets younger than 60 s), RTT samples %v (<=%d per history), MTU increase by %v bytes x<=%d, RTO=%v x<=%d, clock steps %v huge(2^62ns)=%v to-pacer-deadline=%v to-earliest-HasPacingBudget=%v; pacer clause evaluated=%v (a send is authorised when HasPacingBudget is true - up to the current datagram size - or the budget covers it); state = canon(sender) + ledger + model",
				cfg.depth, algo, init, cfg.sizes, cfg.nonRetr, cfg.fill, cfg.fillSizes, cfg.burst, cfg.paced, cfg.early, cfg.acks, cfg.losses, cfg.rtts, cfg.maxRTTOps, cfg.mtuStepList(), cfg.maxMTU, cfg.rto, cfg.maxRTO, cfg.steps, cfg.huge, cfg.advPace, cfg.advGate, cfg.pacer),
		}
	}
	return explore.Part{
		Name:   name,
		Run:    func(e explore.Env) *explore.Report { return explore.BFS(c20Slice(e), spec(e)) },
		Replay: func(e explore.Env, raw json.RawMessage) *explore.Violation { return explore.ReplayBFS(spec(e), raw) },
	}
}

// window dynamics: slow start, congestion avoidance, recovery; no pacer clause (deep).
func c20WinCfg(reno bool, initPkts int, rto bool, dq, dt int) func(bool) *c20Cfg {
	return func(th bool) *c20Cfg {
		c := &c20Cfg{reno: reno, initPkts: protocol.ByteCount(initPkts), depth: dq,
			sizes: []int{0, 1}, acks: []int{0, 1}, losses: []int{0, 1},
			rtts: []time.Duration{time.Millisecond, 100 * time.Millisecond}, maxRTTOps: 2,
			maxMTU: 1, rto: rto, maxRTO: 1,
		}
		if !reno {
			// Reno's window arithmetic does not read the clock; Cubic's does
			c.steps = []time.Duration{time.Second, 30 * time.Second}
			if initPkts == 8 {
				c.steps = []time.Duration{time.Second, time.Hour}
			}
		}
		if th {
			c.depth = dt
		}
		return c
	}
}

// pacer: token bucket under clock values that stress the overflow guards.
func c20PacerCfg(reno bool, initPkts int, dq, dt int) func(bool) *c20Cfg {
	return func(th bool) *c20Cfg {
		c := &c20Cfg{reno: reno, initPkts: protocol.ByteCount(initPkts), depth: dq, pacer: true,
			sizes: []int{0, 2}, nonRetr: true, burst: true, paced: 8, early: 8, acks: []int{0}, losses: []int{0},
			rtts: []time.Duration{time.Millisecond, 10 * time.Second}, maxRTTOps: 2,
			maxMTU: 1,
			steps:  []time.Duration{time.Microsecond, time.Millisecond, time.Second, time.Hour}, huge: true, advPace: true, advGate: true,
		}
		if th {
			c.depth = dt
		}
		return c
	}
}

// pacer gate after path MTU discovery: the datagram size has already been raised (start
// state) and is raised again inside the history; send opportunities arrive at the pacing
// timer, at fine clock steps and at the earliest instant the gate opens. Narrow alphabet,
// one level deeper than the pacer parts.
func c20PacerMTUCfg(reno bool, initPkts int, dq, dt int) func(bool) *c20Cfg {
	return func(th bool) *c20Cfg {
		c := &c20Cfg{reno: reno, initPkts: protocol.ByteCount(initPkts), depth: dq, pacer: true,
			startMTU: 1452, mtuSteps: []protocol.ByteCount{1, 48}, maxMTU: 1,
			sizes: []int{0, 3}, burst: true, paced: 8, early: 8, acks: []int{0}, losses: []int{0},
			rtts: []time.Duration{time.Millisecond, 100 * time.Millisecond}, maxRTTOps: 1,
			steps: []time.Duration{time.Microsecond, 100 * time.Microsecond}, advPace: true, advGate: true,
		}
		if th {
			c.depth = dt
		}
		return c
	}
}

// The range of Config.InitialPacketSize (config.go clamps it to [MinInitialPacketSize,
// MaxPacketBufferSize]); the default, 1280, is what every other part constructs the sender with.
const (
	c20InitLo  = protocol.ByteCount(protocol.MinInitialPacketSize) // 1200
	c20InitHi  = protocol.ByteCount(protocol.MaxPacketBufferSize)  // 1452
	c20InitMid = protocol.ByteCount(1350)
)

// pacer gate with a CONFIGURED initial packet size other than the default: the first event
// of a history chooses how the sender was constructed (internal constructor with a 4-packet
// window, or the exported NewCubicSender as sentPacketHandler calls it; size above / below
// 1280); no SetMaxDatagramSize precedes the history (path MTU discovery disabled, or no
// probe acknowledged yet), one may occur inside it. Everything the pacer clause uses (full
// packet size, burst) follows the configured size. Same narrow alphabet as the pacer-mtu parts.
func c20PacerInitCfg(reno bool, dq, dt int) func(bool) *c20Cfg {
	return func(th bool) *c20Cfg {
		c := &c20Cfg{reno: reno, initPkts: 4, depth: dq, pacer: true,
			starts:   []c20Start{{pkts: 4, mds: c20InitHi}, {pkts: 4, mds: c20InitLo}, {prod: true, pkts: 32, mds: c20InitHi}},
			mtuSteps: []protocol.ByteCount{48}, maxMTU: 1,
			sizes: []int{0, 3}, burst: true, paced: 8, early: 8, acks: []int{0}, losses: []int{0},
			rtts: []time.Duration{time.Millisecond, 100 * time.Millisecond}, maxRTTOps: 1,
			steps: []time.Duration{time.Microsecond, 100 * time.Microsecond}, advPace: true, advGate: true,
		}
		if th {
			c.depth = dt
			c.starts = append(c.starts, c20Start{pkts: 4, mds: c20InitMid}, c20Start{pkts: 4, mds: c20MDS0 + 1}, c20Start{prod: true, pkts: 32, mds: c20InitLo})
		}
		return c
	}
}

// floor: the window starts at, or within one loss reduction (factor 1/0.7) of, the two-packet
// floor after separate loss episodes (start states chosen by the first event), and whole
// flights of full / half / quarter size packets are outstanding while losses and
// acknowledgements of one flight are interleaved (a reduction that is limited by the floor
// must still count as THE reduction of that window of packets).
func c20FloorCfg(reno bool, dq, dt int) func(bool) *c20Cfg {
	return func(th bool) *c20Cfg {
		c := &c20Cfg{reno: reno, initPkts: 4, depth: dq,
			// 3584 (one reduction above the floor), 2688 (ditto, 3*0.7), 2560 (at the floor, the last
			// reduction was limited by it), 3512 (8 packets after three reductions)
			starts:    []c20Start{{pkts: 4, losses: 1}, {pkts: 3, losses: 1}, {pkts: 4, losses: 2}, {pkts: 8, losses: 3}},
			sizes:     []int{0},
			fillSizes: []int{0, 1, 5},
			acks:      []int{0, 1}, losses: []int{0, 1},
			maxMTU: 1,
		}
		if !reno {
			c.steps = []time.Duration{time.Second}
		}
		// + one start state with a configured initial packet size above the default (3 packets of
		// 1452 -> 3049 >= 2904; thorough also below it: 3 of 1200 -> 2520 >= 2400): floor, maximum
		// and "3 packets of room" must follow the configured size without any SetMaxDatagramSize
		// (quick: Reno = the production algorithm only)
		if reno || th {
			c.starts = append(c.starts, c20Start{pkts: 3, losses: 1, mds: c20InitHi})
		}
		if th {
			c.depth = dt
			c.sizes = []int{0, 1}
			c.starts = append(c.starts, c20Start{pkts: 8, losses: 4}, c20Start{pkts: 32, losses: 7}, c20Start{pkts: 3, losses: 1, mds: c20InitLo})
		}
		return c
	}
}

// cap: the window starts just below the configured maximum.
func c20CapCfg(reno bool, dq, dt int) func(bool) *c20Cfg {
	return func(th bool) *c20Cfg {
		c := &c20Cfg{reno: reno, belowMax: 1, depth: dq,
			sizes: []int{0}, fill: true, acks: []int{0, 1}, losses: []int{0},
			maxMTU: 1, steps: []time.Duration{time.Second},
		}
		if th {
			c.depth = dt
			c.acks = []int{0, 1, 2}
		}
		return c
	}
}

func TestVerifC20Cc(t *testing.T) {
	explore.Main("C20", []explore.Part{
		// parts without a finding on the unchanged tree first (readable mutant reports)
		c20Part("reno-window", c20WinCfg(true, 4, false, 8, 9)),
		c20Part("reno-window8", c20WinCfg(true, 8, true, 7, 8)),
		c20Part("reno-pacer", c20PacerCfg(true, 4, 5, 6)),
		c20Part("cubic-pacer", c20PacerCfg(false, 4, 5, 6)),
		c20Part("reno-pacer-mtu", c20PacerMTUCfg(true, 4, 6, 7)),
		c20Part("cubic-pacer-mtu", c20PacerMTUCfg(false, 4, 5, 6)), // Cubic is not selected by the production constructors: one level less
		c20Part("reno-pacer-init", c20PacerInitCfg(true, 6, 7)),    // depth counts the start choice
		c20Part("cubic-pacer-init", c20PacerInitCfg(false, 5, 6)),
		c20Part("reno-cap", c20CapCfg(true, 6, 8)),
		c20Part("cubic-cap", c20CapCfg(false, 6, 8)),
		c20Part("reno-floor", c20FloorCfg(true, 8, 9)),
		c20Part("cubic-floor", c20FloorCfg(false, 7, 8)),
		c20Part("reno-window3", c20WinCfg(true, 3, false, 7, 8)),
		c20Part("cubic-window", c20WinCfg(false, 4, false, 7, 8)),
		c20Part("cubic-window8", c20WinCfg(false, 8, true, 6, 7)),
	}, func(msg string) { t.Fatal(msg) })
}
