//go:build verif

package congestion

import (
	"github.com/refraction-networking/uquic/internal/protocol"
	"github.com/refraction-networking/uquic/internal/utils"
)

// NewCubicSenderVerif exposes the internal constructor (initial / maximum window in bytes)
// to the C20 harness that lives in package ackhandler. Pure pass-through.
func NewCubicSenderVerif(
	clock Clock,
	rttStats *utils.RTTStats,
	connStats *utils.ConnectionStats,
	reno bool,
	initialMaxDatagramSize, initialCongestionWindow, initialMaxCongestionWindow protocol.ByteCount,
) SendAlgorithmWithDebugInfos {
	return newCubicSender(clock, rttStats, connStats, reno, initialMaxDatagramSize, initialCongestionWindow, initialMaxCongestionWindow, nil)
}
