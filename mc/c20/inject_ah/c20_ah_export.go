//go:build verif

package ackhandler

import (
	"github.com/refraction-networking/uquic/internal/congestion"
	"github.com/refraction-networking/uquic/internal/protocol"
	"github.com/refraction-networking/uquic/internal/utils"
)

// Export shims for the C20 "pack" target, whose harness lives in the root package and drives
// the real sentPacketHandler through its exported interface. Pure pass-throughs / reads.

func c20Inner(h SentPacketHandler) *sentPacketHandler {
	switch x := h.(type) {
	case *sentPacketHandler:
		return x
	case *uSentPacketHandler:
		return x.sentPacketHandler
	}
	panic("C20: unknown SentPacketHandler implementation")
}

// VerifC20Prepare replaces the random packet-number skipping of the application-data space by
// the sequential generator (determinism) and, when initPkts > 0, the congestion controller by
// one built through the internal constructor with an initial window of initPkts packets
// (same algorithm, same maximum as NewSentPacketHandler uses).
func VerifC20Prepare(h SentPacketHandler, rtt *utils.RTTStats, stats *utils.ConnectionStats, mds, initPkts protocol.ByteCount) {
	in := c20Inner(h)
	in.appDataPackets.pns = newSequentialPacketNumberGenerator(0)
	if initPkts > 0 {
		in.congestion = congestion.NewCubicSenderVerif(congestion.DefaultClock{}, rtt, stats, true, mds, initPkts*mds, protocol.MaxCongestionWindowPackets*mds)
	}
}

// VerifC20Cwnd reads the congestion window of the handler's congestion controller.
func VerifC20Cwnd(h SentPacketHandler) protocol.ByteCount {
	return c20Inner(h).congestion.GetCongestionWindow()
}

// VerifC20BytesInFlight reads the handler's own counter (used in messages only, never in a verdict).
func VerifC20BytesInFlight(h SentPacketHandler) protocol.ByteCount {
	return c20Inner(h).bytesInFlight
}
