package quic

// C20, target "pack": what the connection puts on the wire for every send mode of the real
// sentPacketHandler. The real packers (the quic-go packetPacker and the spec-driven client's
// uPacketPacker) are assembled the way connection.go / u_connection.go assemble them - real
// Initial / Handshake crypto streams, real retransmission queue, real framer, real datagram
// queue, real received-packet handler as the ACK source, real sentPacketHandler (with its real
// congestion controller and pacer) as the packet number manager - around a harness-made
// sealing manager (which keys exist: Initial / Handshake / 0-RTT / 1-RTT, pass-through
// sealers) and a harness-made stream (n bytes of application data queued).
//
// The harness is the connection's send path: "wake" is one iteration of Conn.triggerSending -
// it asks SendMode(now) and calls the packer method the connection calls for that mode
// (PackCoalescedPacket(onlyAck=false) / AppendPacket for SendAny, PackCoalescedPacket(onlyAck=
// true) / PackAckOnlyPacket for SendAck and SendPacingLimited, QueueProbePacket +
// PackPTOProbePacket for the PTO modes, nothing for SendNone) and registers what came out
// with SentPacket exactly as sendPackedCoalescedPacket / registerPackedShortHeaderPacket do
// (including the client dropping the Initial keys with its first Handshake packet).
//
// Reference model: a ledger of the ack-eliciting packets in flight (all packet number spaces),
// filled from what the packer returned and emptied by the frame callbacks of the real handler
// (every frame handler is wrapped by a pass-through that notes "this packet is gone") and by the
// key-discard events the harness itself performs; plus the probe allowance of the sph target
// (2 per expiry of the loss-detection timer, void after an acknowledgement of new data).
//
// Oracle (statement: "New ack-eliciting data is released only while the bytes in flight are
// below the window (probe packets and pure ACKs excepted)"), judged on every datagram the
// packer hands out, whatever the send mode was:
//   the datagram contains an ack-eliciting packet at any encryption level (Initial, Handshake,
//   0-RTT, 1-RTT)  =>  ledger bytes in flight < congestion window at the moment it was packed,
//                      or it is a probe packet (the allowance is not used up),
//                      or its only ack-eliciting frame is the PING the packer adds to every
//                      20th pure ACK (ACK + PING, no data).

import (
	"fmt"
	"math/rand/v2"
	"sort"
	"strings"
	"time"

	"github.com/refraction-networking/uquic/internal/ackhandler"
	"github.com/refraction-networking/uquic/internal/flowcontrol"
	"github.com/refraction-networking/uquic/internal/handshake"
	"github.com/refraction-networking/uquic/internal/monotime"
	"github.com/refraction-networking/uquic/internal/protocol"
	"github.com/refraction-networking/uquic/internal/utils"
	"github.com/refraction-networking/uquic/internal/verifmc/canon"
	"github.com/refraction-networking/uquic/internal/verifmc/explore"
	"github.com/refraction-networking/uquic/internal/wire"
)

const (
	c20PkMDS    = protocol.ByteCount(protocol.InitialPacketSize)
	c20PkT0     = monotime.Time(1_000_000_000)
	c20PkMaxRTT = 60 * time.Second // domain assumption of C20: no RTT sample above 60 s
	c20PkV      = protocol.Version1
)

// ---- keys: the harness-made sealing manager ----------------------------------------------------

type c20PkSealer struct{}

func (c20PkSealer) Seal(dst, src []byte, _ protocol.PacketNumber, _ []byte) []byte {
	dst = append(dst, src...)
	for i := 0; i < 16; i++ {
		dst = append(dst, 0xA5)
	}
	return dst
}
func (c20PkSealer) EncryptHeader([]byte, *byte, []byte) {}
func (c20PkSealer) Overhead() int                       { return 16 }
func (c20PkSealer) KeyPhase() protocol.KeyPhaseBit      { return protocol.KeyPhaseZero }

const (
	c20KNotYet  = 0
	c20KHave    = 1
	c20KDropped = 2
)

// c20PkKeys says which send keys exist, the way cryptoSetup answers the packer.
type c20PkKeys struct {
	ini, hs, zero, one int8
}

func c20PkLong(k int8) (handshake.LongHeaderSealer, error) {
	switch k {
	case c20KHave:
		return c20PkSealer{}, nil
	case c20KDropped:
		return nil, handshake.ErrKeysDropped
	}
	return nil, handshake.ErrKeysNotYetAvailable
}

func (k *c20PkKeys) GetInitialSealer() (handshake.LongHeaderSealer, error)   { return c20PkLong(k.ini) }
func (k *c20PkKeys) GetHandshakeSealer() (handshake.LongHeaderSealer, error) { return c20PkLong(k.hs) }
func (k *c20PkKeys) Get0RTTSealer() (handshake.LongHeaderSealer, error)      { return c20PkLong(k.zero) }
func (k *c20PkKeys) Get1RTTSealer() (handshake.ShortHeaderSealer, error) {
	if k.one == c20KHave {
		return c20PkSealer{}, nil
	}
	return nil, handshake.ErrKeysNotYetAvailable
}

// ---- the harness-made stream -------------------------------------------------------------------

// c20PkStr is a send stream with `pending` bytes queued: it hands the real framer STREAM frames
// and gets the data of lost frames back (retransmission), like a SendStream.
type c20PkStr struct {
	fr      *framer
	pending protocol.ByteCount
	off     protocol.ByteCount
}

func (s *c20PkStr) popStreamFrame(maxBytes protocol.ByteCount, v protocol.Version) (ackhandler.StreamFrame, *wire.StreamDataBlockedFrame, bool) {
	if s.pending == 0 {
		return ackhandler.StreamFrame{}, nil, false
	}
	f := &wire.StreamFrame{StreamID: 0, Offset: s.off, DataLenPresent: true}
	n := min(f.MaxDataLen(maxBytes, v), s.pending)
	if n <= 0 {
		return ackhandler.StreamFrame{}, nil, true
	}
	f.Data = make([]byte, n)
	s.off += n
	s.pending -= n
	return ackhandler.StreamFrame{Frame: f, Handler: s}, nil, s.pending > 0
}

func (s *c20PkStr) OnAcked(wire.Frame) {}
func (s *c20PkStr) OnLost(f wire.Frame) {
	s.pending += f.(*wire.StreamFrame).DataLen()
	s.fr.AddActiveStream(0, s)
}

// ---- ledger ------------------------------------------------------------------------------------

type c20PkID struct {
	space int // 0 Initial, 1 Handshake, 2 application data (0-RTT and 1-RTT)
	pn    protocol.PacketNumber
}

type c20PkEnt struct {
	size protocol.ByteCount
	data protocol.ByteCount // stream data bytes in the packet (part of the state: they come back when it is lost)
	t    monotime.Time
	lvl  protocol.EncryptionLevel
}

// c20PkWrap is the pass-through frame handler: it forwards to the handler the packer attached
// and notes that the packet left the flight.
type c20PkWrap struct {
	in    *c20PkInst
	id    c20PkID
	inner ackhandler.FrameHandler
}

func (w *c20PkWrap) OnAcked(f wire.Frame) {
	w.in.gone(w.id, true)
	if w.inner != nil {
		w.inner.OnAcked(f)
	}
}

func (w *c20PkWrap) OnLost(f wire.Frame) {
	w.in.gone(w.id, false)
	if w.inner != nil {
		w.inner.OnLost(f)
	}
}

// ---- configuration / instance ------------------------------------------------------------------

type c20PkCfg struct {
	uquic    bool               // uPacketPacker around the packetPacker (spec-driven client) or the plain packetPacker
	initPkts protocol.ByteCount // 0: production constructor (32 packets)
	depth    int
	starts   []int
	steps    []time.Duration
	apps     []int // 0: 100 bytes, 1: 64 kB
	maxApp   int
	maxRecv  int
	maxCtrl  int
	maxDgram int
	acks     []int // 0 oldest, 1 newest outstanding packet of a space
}

type c20PkInst struct {
	cfg     *c20PkCfg
	started bool
	dead    bool

	keys      *c20PkKeys
	confirmed bool
	sph       ackhandler.SentPacketHandler
	rph       *ackhandler.ReceivedPacketHandler
	rtt       *utils.RTTStats
	ini       *initialCryptoStream
	hs        *cryptoStream
	rq        *retransmissionQueue
	fr        *framer
	dq        *datagramQueue
	pp        *packetPacker
	pk        packer
	str       *c20PkStr
	now       monotime.Time

	led      map[c20PkID]c20PkEnt
	inflight protocol.ByteCount
	owed     int

	rcvPN    [3]protocol.PacketNumber
	sentIni  bool // a CRYPTO-carrying Initial packet was sent (the ServerHello can only follow it)
	nCrypto  [2]int
	nApp     int
	nRecv    int
	nCtrl    int
	nDgram   int
	nAcked   int
	nLost    int
	cbFail   *explore.Fail
	outcome  string
	lastSent string
}

func (in *c20PkInst) gone(id c20PkID, acked bool) {
	e, ok := in.led[id]
	if !ok {
		return // second frame of a packet that already left the flight
	}
	delete(in.led, id)
	in.inflight -= e.size
	if acked {
		in.nAcked++
	} else {
		in.nLost++
	}
}

func (in *c20PkInst) who() string {
	s := "packetPacker"
	if in.cfg.uquic {
		s = "uPacketPacker"
	}
	return s
}

func newC20PkInst(cfg *c20PkCfg) *c20PkInst {
	in := &c20PkInst{cfg: cfg, now: c20PkT0, led: map[c20PkID]c20PkEnt{}, keys: &c20PkKeys{}}
	return in
}

// build assembles the client's send side as newClientConnection / newUClientConnection do.
func (in *c20PkInst) build() {
	cfg := in.cfg
	in.rtt = utils.NewRTTStats()
	stats := &utils.ConnectionStats{}
	in.rph = ackhandler.NewReceivedPacketHandler(utils.DefaultLogger)
	if cfg.uquic {
		in.sph = ackhandler.NewUAckHandler(0, c20PkMDS, in.rtt, stats, false, false, in.rph.IgnorePacketsBelow, protocol.PerspectiveClient, nil, utils.DefaultLogger)
	} else {
		in.sph = ackhandler.NewSentPacketHandler(0, c20PkMDS, in.rtt, stats, false, false, in.rph.IgnorePacketsBelow, protocol.PerspectiveClient, nil, utils.DefaultLogger)
	}
	ackhandler.VerifC20Prepare(in.sph, in.rtt, stats, c20PkMDS, cfg.initPkts)
	in.ini = newInitialCryptoStream(true)
	in.ini.DisableScrambling() // the anti-DPI ClientHello scrambler is C09's subject; u_connection.go disables it as well
	in.hs = newCryptoStream()
	in.rq = newRetransmissionQueue()
	cfc := flowcontrol.NewConnectionFlowController(1<<20, 1<<20, func(protocol.ByteCount) bool { return true }, in.rtt, utils.DefaultLogger)
	cfc.UpdateSendWindow(1 << 40)
	in.fr = newFramer(cfc)
	in.dq = newDatagramQueue(func() {}, utils.DefaultLogger)
	in.str = &c20PkStr{fr: in.fr}
	dcid := protocol.ParseConnectionID([]byte{1, 2, 3, 4, 5, 6, 7, 8})
	scid := protocol.ParseConnectionID([]byte{9, 9, 9, 9})
	in.pp = newPacketPacker(scid, func() protocol.ConnectionID { return dcid }, in.ini, in.hs, in.sph, in.rq, in.keys, in.fr, in.rph, in.dq, protocol.PerspectiveClient)
	in.pp.rand = *rand.New(rand.NewPCG(1, 2)) // order of the control frames inside a packet: pinned (seeded from crypto/rand otherwise)
	in.pk = in.pp
	if cfg.uquic {
		in.pk = newUPacketPacker(in.pp, &QUICSpec{})
	}
}

func c20PkSpace(l protocol.EncryptionLevel) int {
	switch l {
	case protocol.EncryptionInitial:
		return 0
	case protocol.EncryptionHandshake:
		return 1
	}
	return 2
}

func c20PkLevelOfSpace(s int) protocol.EncryptionLevel {
	switch s {
	case 0:
		return protocol.EncryptionInitial
	case 1:
		return protocol.EncryptionHandshake
	}
	return protocol.Encryption1RTT
}

func (in *c20PkInst) sortedSpace(space int) []protocol.PacketNumber {
	var pns []protocol.PacketNumber
	for id := range in.led {
		if id.space == space {
			pns = append(pns, id.pn)
		}
	}
	sort.Slice(pns, func(i, j int) bool { return pns[i] < pns[j] })
	return pns
}

// canAck: the peer can acknowledge packets of this space only in a packet we can open.
func (in *c20PkInst) canRecv(space int) bool {
	switch space {
	case 0:
		return in.keys.ini == c20KHave
	case 1:
		return in.keys.hs == c20KHave
	}
	return in.keys.one == c20KHave
}

// start states: reached through the ops below on the real code (judged by the same oracle).
var c20PkStarts = [][]explore.Op{
	0: {{N: "init", A: 1}, {N: "crypto", A: 0}},                                                                                                                                                                             // resumed session: Initial + 0-RTT keys, ClientHello queued
	1: {{N: "init", A: 0}, {N: "crypto", A: 0}},                                                                                                                                                                             // fresh handshake: Initial keys only, ClientHello queued
	2: {{N: "init", A: 1}, {N: "crypto", A: 0}, {N: "wake"}, {N: "recv", A: 0}, {N: "ack", A: 0, B: 0}, {N: "keys"}},                                                                                                        // + ServerHello: Handshake keys, 0-RTT keys still there, Initial ACK queued
	3: {{N: "init", A: 1}, {N: "crypto", A: 0}, {N: "wake"}, {N: "recv", A: 0}, {N: "ack", A: 0, B: 0}, {N: "keys"}, {N: "recv", A: 1}, {N: "keys"}, {N: "crypto", A: 1}, {N: "wake"}},                                      // handshake complete: 1-RTT keys, client Finished in flight, not confirmed
	4: {{N: "init", A: 1}, {N: "crypto", A: 0}, {N: "wake"}, {N: "recv", A: 0}, {N: "ack", A: 0, B: 0}, {N: "keys"}, {N: "recv", A: 1}, {N: "keys"}, {N: "crypto", A: 1}, {N: "wake"}, {N: "ack", A: 1, B: 0}, {N: "keys"}}, // handshake confirmed
}

var c20PkStartNames = []string{"0rtt", "fresh", "0rtt+serverhello", "complete", "confirmed"}

func (in *c20PkInst) Ops() []explore.Op {
	c := in.cfg
	if in.dead {
		return nil
	}
	if !in.started {
		var ops []explore.Op
		for _, s := range c.starts {
			ops = append(ops, explore.Op{N: "start", A: s})
		}
		return ops
	}
	ops := []explore.Op{{N: "wake"}, {N: "flood"}}
	if (in.keys.zero == c20KHave || in.keys.one == c20KHave) && in.nApp < c.maxApp {
		for _, a := range c.apps {
			ops = append(ops, explore.Op{N: "app", A: a})
		}
	}
	if in.keys.hs == c20KHave && in.nCrypto[1] == 0 {
		ops = append(ops, explore.Op{N: "crypto", A: 1})
	}
	if in.nCtrl < c.maxCtrl {
		ops = append(ops, explore.Op{N: "ctrl"})
	}
	if (in.keys.zero == c20KHave || in.keys.one == c20KHave) && in.nDgram < c.maxDgram {
		ops = append(ops, explore.Op{N: "dgram"})
	}
	if in.nRecv < c.maxRecv {
		for s := 0; s < 3; s++ {
			if in.canRecv(s) {
				ops = append(ops, explore.Op{N: "recv", A: s})
			}
		}
	}
	for s := 0; s < 3; s++ {
		if !in.canRecv(s) {
			continue
		}
		pns := in.sortedSpace(s)
		for _, k := range c.acks {
			if len(pns) == 0 || (k == 1 && len(pns) < 2) {
				continue
			}
			pn := pns[0]
			if k == 1 {
				pn = pns[len(pns)-1]
			}
			if in.now.Sub(in.led[c20PkID{s, pn}].t) <= c20PkMaxRTT {
				ops = append(ops, explore.Op{N: "ack", A: s, B: k})
			}
		}
	}
	if !in.sph.GetLossDetectionTimeout().IsZero() {
		ops = append(ops, explore.Op{N: "timeout"})
	}
	if t := in.rph.GetAlarmTimeout(); !t.IsZero() && t > in.now {
		ops = append(ops, explore.Op{N: "ackalarm"})
	}
	if in.sph.SendMode(in.now) == ackhandler.SendPacingLimited {
		if t := in.sph.TimeUntilSend(); t > in.now {
			ops = append(ops, explore.Op{N: "advpace"})
		}
	}
	for i := range c.steps {
		ops = append(ops, explore.Op{N: "adv", A: i})
	}
	if in.keysEnabled() {
		ops = append(ops, explore.Op{N: "keys"})
	}
	return ops
}

// keysEnabled: the next step of the TLS handshake can happen.
func (in *c20PkInst) keysEnabled() bool {
	switch {
	case in.keys.hs == c20KNotYet:
		return in.sentIni // the ServerHello answers a ClientHello that was sent
	case in.keys.one == c20KNotYet:
		return true
	}
	return !in.confirmed
}

func (in *c20PkInst) dropInitial() {
	if in.keys.ini != c20KHave {
		return
	}
	// Conn.dropEncryptionLevel(Initial)
	in.sph.DropPackets(protocol.EncryptionInitial, in.now)
	in.rph.DropPackets(protocol.EncryptionInitial)
	in.rq.DropPackets(protocol.EncryptionInitial)
	in.keys.ini = c20KDropped
	in.forget(0)
}

func (in *c20PkInst) forget(space int) {
	for id, e := range in.led {
		if id.space == space {
			delete(in.led, id)
			in.inflight -= e.size
		}
	}
}

// ---- the send path of the connection -----------------------------------------------------------

type c20PkSub struct {
	lvl          protocol.EncryptionLevel
	pn           protocol.PacketNumber
	ack          *wire.AckFrame
	frames       []ackhandler.Frame
	streamFrames []ackhandler.StreamFrame
	length       protocol.ByteCount
}

func c20PkOnlyPing(fs []ackhandler.Frame) bool {
	for _, f := range fs {
		if _, ok := f.Frame.(*wire.PingFrame); !ok {
			return false
		}
	}
	return true
}

func c20PkFrameNames(s c20PkSub) string {
	var parts []string
	if s.ack != nil {
		parts = append(parts, "ACK")
	}
	for _, f := range s.frames {
		parts = append(parts, strings.TrimSuffix(strings.TrimPrefix(fmt.Sprintf("%T", f.Frame), "*wire."), "Frame"))
	}
	for range s.streamFrames {
		parts = append(parts, "Stream")
	}
	sort.Strings(parts)
	// fold repetitions
	var out []string
	for i, p := range parts {
		if i > 0 && parts[i-1] == p {
			continue
		}
		out = append(out, p)
	}
	return strings.Join(out, "+")
}

// judgeAndRegister applies the oracle to one datagram and then does what
// sendPackedCoalescedPacket / registerPackedShortHeaderPacket do.
func (in *c20PkInst) judgeAndRegister(mode ackhandler.SendMode, via string, before, cw protocol.ByteCount, subs []c20PkSub) *explore.Fail {
	var desc []string
	var data []string
	for _, s := range subs {
		desc = append(desc, fmt.Sprintf("%s[%s]", s.lvl, c20PkFrameNames(s)))
		ackEl := len(s.frames) > 0 || len(s.streamFrames) > 0
		if !ackEl {
			continue
		}
		if s.ack != nil && len(s.streamFrames) == 0 && len(s.frames) == 1 && c20PkOnlyPing(s.frames) {
			continue // the PING the packer adds to every 20th pure ACK: no data
		}
		data = append(data, s.lvl.String())
	}
	in.lastSent = strings.Join(desc, " ")
	isPTO := mode == ackhandler.SendPTOInitial || mode == ackhandler.SendPTOHandshake || mode == ackhandler.SendPTOAppData
	if len(data) > 0 {
		switch {
		case isPTO || before >= cw:
			if in.owed > 0 {
				in.owed--
			} else if before >= cw {
				return explore.Failf(fmt.Sprintf("data-released-window-full:%s:%s:%s:%s", in.who(), mode, via, strings.Join(data, "+")),
					"%s.%s in send mode %s released ack-eliciting data (%s) although %d bytes are in flight (%d ack-eliciting packets not yet acknowledged, declared lost or discarded with their keys), the congestion window is %d and no probe packet is pending (handler's own counter: %d)",
					in.who(), via, mode, in.lastSent, before, len(in.led), cw, ackhandler.VerifC20BytesInFlight(in.sph))
			}
		}
	}
	for _, s := range subs {
		id := c20PkID{c20PkSpace(s.lvl), s.pn}
		ackEl := len(s.frames) > 0 || len(s.streamFrames) > 0
		var dataLen protocol.ByteCount
		for i := range s.frames {
			s.frames[i].Handler = &c20PkWrap{in: in, id: id, inner: s.frames[i].Handler}
			if _, ok := s.frames[i].Frame.(*wire.CryptoFrame); ok && s.lvl == protocol.EncryptionInitial {
				in.sentIni = true
			}
		}
		for i := range s.streamFrames {
			s.streamFrames[i].Handler = &c20PkWrap{in: in, id: id, inner: s.streamFrames[i].Handler}
			dataLen += s.streamFrames[i].Frame.DataLen()
		}
		if ackEl {
			_, dup := in.led[id]
			explore.Must(!dup, "packet number %d used twice in space %d", s.pn, id.space)
			in.led[id] = c20PkEnt{size: s.length, data: dataLen, t: in.now, lvl: s.lvl}
			in.inflight += s.length
		}
		largestAcked := protocol.InvalidPacketNumber
		if s.ack != nil {
			largestAcked = s.ack.LargestAcked()
		}
		in.sph.SentPacket(in.now, s.pn, largestAcked, s.streamFrames, s.frames, s.lvl, protocol.ECNUnsupported, s.length, false, false)
		if s.lvl == protocol.EncryptionHandshake {
			in.dropInitial() // RFC 9001, 4.9.1: the client drops the Initial keys with its first Handshake packet
		}
	}
	return nil
}

func c20PkSubsOf(p *coalescedPacket) []c20PkSub {
	var subs []c20PkSub
	for _, lp := range p.longHdrPackets {
		subs = append(subs, c20PkSub{lvl: lp.EncryptionLevel(), pn: lp.header.PacketNumber, ack: lp.ack, frames: lp.frames, streamFrames: lp.streamFrames, length: lp.length})
	}
	if sp := p.shortHdrPacket; sp != nil {
		subs = append(subs, c20PkSubOfShort(*sp))
	}
	return subs
}

func c20PkSubOfShort(sp shortHeaderPacket) c20PkSub {
	return c20PkSub{lvl: protocol.Encryption1RTT, pn: sp.PacketNumber, ack: sp.Ack, frames: sp.Frames, streamFrames: sp.StreamFrames, length: sp.Length}
}

// wake is one iteration of Conn.triggerSending. It returns the mode, whether a datagram left,
// and the verdict.
func (in *c20PkInst) wake() (ackhandler.SendMode, bool, *explore.Fail) {
	in.lastSent = ""
	mode := in.sph.SendMode(in.now)
	before, cw := in.inflight, ackhandler.VerifC20Cwnd(in.sph)
	switch mode {
	case ackhandler.SendNone:
		return mode, false, nil
	case ackhandler.SendAny:
		// Conn.sendPackets
		if !in.confirmed {
			p, err := in.pk.PackCoalescedPacket(false, c20PkMDS, in.now, c20PkV)
			if err != nil {
				return mode, false, in.packErr("PackCoalescedPacket(onlyAck=false)", mode, err)
			}
			if p == nil {
				return mode, false, nil
			}
			return mode, true, in.judgeAndRegister(mode, "PackCoalescedPacket(onlyAck=false)", before, cw, c20PkSubsOf(p))
		}
		sp, err := in.pk.AppendPacket(getPacketBuffer(), c20PkMDS, in.now, c20PkV)
		if err == errNothingToPack {
			return mode, false, nil
		}
		if err != nil {
			return mode, false, in.packErr("AppendPacket", mode, err)
		}
		return mode, true, in.judgeAndRegister(mode, "AppendPacket", before, cw, []c20PkSub{c20PkSubOfShort(sp)})
	case ackhandler.SendAck, ackhandler.SendPacingLimited:
		// Conn.maybeSendAckOnlyPacket
		if !in.confirmed {
			p, err := in.pk.PackCoalescedPacket(true, c20PkMDS, in.now, c20PkV)
			if err != nil {
				return mode, false, in.packErr("PackCoalescedPacket(onlyAck=true)", mode, err)
			}
			if p == nil {
				return mode, false, nil
			}
			return mode, true, in.judgeAndRegister(mode, "PackCoalescedPacket(onlyAck=true)", before, cw, c20PkSubsOf(p))
		}
		sp, _, err := in.pk.PackAckOnlyPacket(c20PkMDS, in.now, c20PkV)
		if err == errNothingToPack {
			return mode, false, nil
		}
		if err != nil {
			return mode, false, in.packErr("PackAckOnlyPacket", mode, err)
		}
		return mode, true, in.judgeAndRegister(mode, "PackAckOnlyPacket", before, cw, []c20PkSub{c20PkSubOfShort(sp)})
	case ackhandler.SendPTOInitial, ackhandler.SendPTOHandshake, ackhandler.SendPTOAppData:
		// Conn.sendProbePacket
		lvl := protocol.Encryption1RTT
		if mode == ackhandler.SendPTOInitial {
			lvl = protocol.EncryptionInitial
		} else if mode == ackhandler.SendPTOHandshake {
			lvl = protocol.EncryptionHandshake
		}
		var p *coalescedPacket
		for p == nil {
			if !in.sph.QueueProbePacket(lvl) {
				break
			}
			var err error
			before, cw = in.inflight, ackhandler.VerifC20Cwnd(in.sph)
			p, err = in.pk.PackPTOProbePacket(lvl, c20PkMDS, false, in.now, c20PkV)
			if err != nil {
				return mode, false, in.packErr("PackPTOProbePacket", mode, err)
			}
		}
		if p == nil {
			var err error
			before, cw = in.inflight, ackhandler.VerifC20Cwnd(in.sph)
			p, err = in.pk.PackPTOProbePacket(lvl, c20PkMDS, true, in.now, c20PkV)
			if err != nil {
				return mode, false, in.packErr("PackPTOProbePacket", mode, err)
			}
		}
		if p == nil || (len(p.longHdrPackets) == 0 && p.shortHdrPacket == nil) {
			return mode, false, in.packErr("PackPTOProbePacket", mode, fmt.Errorf("couldn't pack %s probe packet", lvl))
		}
		return mode, true, in.judgeAndRegister(mode, "PackPTOProbePacket", before, cw, c20PkSubsOf(p))
	}
	explore.Must(false, "invalid send mode %d", mode)
	return mode, false, nil
}

// packErr: the packer refused (the connection would be closed with an internal error). Not a
// matter of C20: the history ends here.
func (in *c20PkInst) packErr(via string, mode ackhandler.SendMode, err error) *explore.Fail {
	in.dead = true
	in.lastSent = fmt.Sprintf("error from %s", via)
	return nil
}

func (in *c20PkInst) Apply(op explore.Op) *explore.Fail {
	in.outcome = ""
	in.nAcked, in.nLost = 0, 0
	if op.N == "start" {
		explore.Must(!in.started, "start twice")
		in.started = true
		for _, o := range c20PkStarts[op.A] {
			if f := in.apply1(o); f != nil {
				return f
			}
			if in.cbFail != nil {
				return in.cbFail
			}
		}
		in.nRecv = 0 // the caps of the configuration count the events of the history proper
		in.outcome = "start " + c20PkStartNames[op.A] + " -> " + in.stateClass()
		return nil
	}
	explore.Must(in.started, "op before start")
	f := in.apply1(op)
	if f != nil {
		return f
	}
	return in.cbFail
}

func (in *c20PkInst) stateClass() string {
	if in.dead {
		return "dead"
	}
	cw := ackhandler.VerifC20Cwnd(in.sph)
	room := "room"
	if in.inflight >= cw {
		room = "full"
	}
	return fmt.Sprintf("mode=%s %s keys=%d%d%d%d conf=%v owed=%d", in.sph.SendMode(in.now), room, in.keys.ini, in.keys.hs, in.keys.zero, in.keys.one, in.confirmed, min(in.owed, 3))
}

func (in *c20PkInst) apply1(op explore.Op) *explore.Fail {
	c := in.cfg
	detail := ""
	switch op.N {
	case "init":
		in.keys.ini = c20KHave
		if op.A == 1 {
			in.keys.zero = c20KHave
		} else {
			in.keys.zero = c20KDropped // cryptoSetup.Get0RTTSealer without a resumed session
		}
		in.build()
	case "wake":
		mode, sent, f := in.wake()
		if f != nil {
			return f
		}
		detail = fmt.Sprintf("in=%s sent=%v %s", mode, sent, in.lastSent)
	case "flood":
		// the run loop while the application keeps it busy: iterate until the window, the
		// amplification limit or the lack of data stops it; wait for the pacer in between
		n, acks := 0, 0
		var last ackhandler.SendMode
		for i := 0; i < 80; i++ {
			mode, sent, f := in.wake()
			if f != nil {
				return f
			}
			last = mode
			if in.dead {
				break
			}
			if mode == ackhandler.SendPacingLimited {
				if sent {
					acks++
				}
				t := in.sph.TimeUntilSend()
				explore.Must(t > in.now, "pacing limited but TimeUntilSend is not in the future")
				in.now = t
				continue
			}
			if mode != ackhandler.SendAny || !sent {
				break
			}
			n++
		}
		detail = fmt.Sprintf("n=%d acks=%d last=%s", min(n, 40), acks, last)
	case "app":
		in.nApp++
		if op.A == 0 {
			in.str.pending += 100
		} else {
			in.str.pending += 64 << 10
		}
		in.fr.AddActiveStream(0, in.str)
	case "crypto":
		in.nCrypto[op.A]++
		if op.A == 0 {
			_, err := in.ini.Write(make([]byte, 300)) // ClientHello
			explore.Must(err == nil, "initial stream write: %v", err)
		} else {
			_, err := in.hs.Write(make([]byte, 52)) // client Finished
			explore.Must(err == nil, "handshake stream write: %v", err)
		}
	case "ctrl":
		in.nCtrl++
		in.fr.QueueControlFrame(&wire.MaxDataFrame{MaximumData: 1 << 20})
	case "dgram":
		in.nDgram++
		err := in.dq.Add(&wire.DatagramFrame{DataLenPresent: true, Data: make([]byte, 50)})
		explore.Must(err == nil, "datagram queue: %v", err)
	case "recv":
		in.nRecv++
		lvl := c20PkLevelOfSpace(op.A)
		pn := in.rcvPN[op.A]
		in.rcvPN[op.A]++
		in.sph.ReceivedPacket(lvl, in.now)
		err := in.rph.ReceivedPacket(pn, protocol.ECNNon, lvl, in.now, true)
		explore.Must(err == nil, "ReceivedPacket: %v", err)
	case "ack":
		pns := in.sortedSpace(op.A)
		explore.Must(len(pns) > 0, "ack without outstanding packet")
		pn := pns[0]
		if op.B == 1 {
			pn = pns[len(pns)-1]
		}
		lvl := c20PkLevelOfSpace(op.A)
		in.sph.ReceivedPacket(lvl, in.now)
		_, err := in.sph.ReceivedAck(&wire.AckFrame{AckRanges: []wire.AckRange{{Smallest: pn, Largest: pn}}}, lvl, in.now)
		explore.Must(err == nil, "ReceivedAck(%d): %v", pn, err)
		if in.nAcked > 0 {
			in.owed = 0
		}
	case "timeout":
		if t := in.sph.GetLossDetectionTimeout(); t > in.now {
			in.now = t
		}
		if err := in.sph.OnLossDetectionTimeout(in.now); err != nil {
			in.dead = true
			detail = "error"
		}
		in.owed += 2
	case "ackalarm":
		t := in.rph.GetAlarmTimeout()
		explore.Must(t > in.now, "ackalarm not enabled")
		in.now = t
	case "advpace":
		t := in.sph.TimeUntilSend()
		explore.Must(t > in.now, "advpace not enabled")
		in.now = t
	case "adv":
		in.now = in.now.Add(c.steps[op.A])
	case "keys":
		switch {
		case in.keys.hs == c20KNotYet:
			in.keys.hs = c20KHave // ServerHello processed
			detail = "handshake-keys"
		case in.keys.one == c20KNotYet:
			in.keys.one = c20KHave // handshake complete: 1-RTT keys, the 0-RTT keys are discarded
			if in.keys.zero == c20KHave {
				in.keys.zero = c20KDropped
			}
			detail = "complete"
		default:
			// Conn.handleHandshakeConfirmed
			in.dropInitial()
			in.sph.DropPackets(protocol.EncryptionHandshake, in.now)
			in.rph.DropPackets(protocol.EncryptionHandshake)
			in.rq.DropPackets(protocol.EncryptionHandshake)
			in.keys.hs = c20KDropped
			in.forget(1)
			in.confirmed = true
			detail = "confirmed"
		}
	default:
		explore.Must(false, "unknown op %v", op)
	}
	in.outcome = fmt.Sprintf("%s%d,%d %s acked=%d lost=%d -> %s", op.N, op.A, op.B, detail, min(in.nAcked, 2), min(in.nLost, 2), in.stateClass())
	return nil
}

func (in *c20PkInst) Outcome() string { return in.outcome }

func c20PkSkip(typ, field string) bool {
	switch typ + "." + field {
	case "ackhandler.Frame.Handler", "ackhandler.StreamFrame.Handler", // identity of the pass-through wrapper (= the packet, in the ledger)
		"wire.StreamFrame.Data",         // zeros; the length is in the ledger and in the packet length
		"quic.packetPacker.rand",        // only permutes the control frames inside a packet
		"quic.uPacketPacker.uSpec",      // constant
		"quic.packetPacker.cryptoSetup", // in the model part of the key
		"ackhandler.sentPacketHandler.connStats", "congestion.cubicSender.connStats",
		"ackhandler.sentPacketHandler.logger", "ackhandler.sentPacketHandler.qlogger", "ackhandler.sentPacketHandler.lastMetrics",
		"congestion.cubicSender.qlogger", "congestion.cubicSender.lastState":
		return true
	}
	return false
}

func (in *c20PkInst) Key() string {
	if !in.started {
		return "fresh"
	}
	var sb strings.Builder
	base := int64(in.now)
	sb.WriteString(canon.Dump(in.pk, canon.Options{TimeBase: base, SkipField: c20PkSkip}))
	fmt.Fprintf(&sb, "|dead=%v keys=%d%d%d%d conf=%v owed=%d sentIni=%v n=%v,%d,%d,%d,%d rcv=%v str=%d@%d|",
		in.dead, in.keys.ini, in.keys.hs, in.keys.zero, in.keys.one, in.confirmed, in.owed, in.sentIni, in.nCrypto, in.nApp, in.nRecv, in.nCtrl, in.nDgram, in.rcvPN, in.str.pending, in.str.off)
	ids := make([]c20PkID, 0, len(in.led))
	for id := range in.led {
		ids = append(ids, id)
	}
	sort.Slice(ids, func(i, j int) bool {
		if ids[i].space != ids[j].space {
			return ids[i].space < ids[j].space
		}
		return ids[i].pn < ids[j].pn
	})
	for _, id := range ids {
		e := in.led[id]
		fmt.Fprintf(&sb, "%d/%d:%d,%d,%s@%d;", id.space, id.pn, e.size, e.data, e.lvl, int64(e.t)-base)
	}
	return sb.String()
}
