package quic

import (
	"encoding/json"
	"fmt"
	"testing"
	"time"

	"github.com/refraction-networking/uquic/internal/protocol"
	"github.com/refraction-networking/uquic/internal/verifmc/explore"
)

// c20PkSlice: per-part share of the process deadline (safety net only; see the cc target).
func c20PkSlice(e explore.Env) explore.Env {
	s := 40 * time.Second
	if e.Thorough() {
		s = 200 * time.Second
	}
	if d := time.Now().Add(s); e.Deadline.IsZero() || d.Before(e.Deadline) {
		e.Deadline = d
	}
	return e
}

func c20PkPart(name string, mk func(thorough bool) *c20PkCfg) explore.Part {
	spec := func(e explore.Env) explore.BFSSpec {
		cfg := mk(e.Thorough())
		who := "packetPacker (quic-go client)"
		if cfg.uquic {
			who = "uPacketPacker (spec-driven client, empty QUICSpec)"
		}
		cc := "production congestion controller (Reno, 32 packets)"
		if cfg.initPkts > 0 {
			cc = fmt.Sprintf("Reno with an initial window of %d packets", cfg.initPkts)
		}
		return explore.BFSSpec{
			New:              func() explore.Instance { return newC20PkInst(cfg) },
			MaxDepth:         cfg.depth,
			PanicIsViolation: true,
			Rule: fmt.Sprintf("BFS depth %d (the first event chooses the start state %v: 0 resumed session with Initial+0-RTT keys, 1 fresh handshake, 2 after the ServerHello, 3 handshake complete, 4 handshake confirmed - each reached through the same events on the real code) over the real %s assembled as the connection assembles it around the real sentPacketHandler + %s; events: wake (one Conn.triggerSending iteration: SendMode -> the packer call the connection makes for that mode -> SentPacket), flood (wake until the window / lack of data stops it, waiting for the pacer), application data %v (0: 100 bytes, 1: 64 kB; <=%d), client Finished, control frame <=%d, DATAGRAM <=%d, ack-eliciting packet received per level (<=%d), ack %v (0 oldest, 1 newest) per packet number space, loss-detection timeout, ACK alarm, pacer deadline, clock steps %v, next step of the TLS handshake (keys); oracle on every datagram: ack-eliciting data only while ledger bytes in flight < cwnd, probe packets (2 per timer expiry) and ACK(+PING) excepted",
				cfg.depth, cfg.starts, who, cc, cfg.apps, cfg.maxApp, cfg.maxCtrl, cfg.maxDgram, cfg.maxRecv, cfg.acks, cfg.steps),
		}
	}
	return explore.Part{
		Name:   name,
		Run:    func(e explore.Env) *explore.Report { return explore.BFS(c20PkSlice(e), spec(e)) },
		Replay: func(e explore.Env, raw json.RawMessage) *explore.Violation { return explore.ReplayBFS(spec(e), raw) },
	}
}

func c20PkCfgOf(uquic bool, initPkts int, dq, dt int) func(bool) *c20PkCfg {
	return func(th bool) *c20PkCfg {
		c := &c20PkCfg{uquic: uquic, initPkts: protocol.ByteCount(initPkts), depth: dq,
			starts: []int{0, 1, 2, 3, 4}, steps: []time.Duration{time.Millisecond},
			apps: []int{1, 0}, maxApp: 1, maxRecv: 1, maxCtrl: 1, maxDgram: 1, acks: []int{0, 1},
		}
		if th {
			c.depth = dt
			c.steps = []time.Duration{time.Millisecond, time.Second}
			c.maxApp, c.maxRecv = 2, 2
		}
		return c
	}
}

func TestVerifC20Pack(t *testing.T) {
	explore.Main("C20", []explore.Part{
		c20PkPart("pack-uquic", c20PkCfgOf(true, 0, 6, 7)),
		c20PkPart("pack-uquic4", c20PkCfgOf(true, 4, 6, 7)),
		c20PkPart("pack-plain", c20PkCfgOf(false, 0, 6, 7)),
		c20PkPart("pack-plain4", c20PkCfgOf(false, 4, 6, 7)),
	}, func(msg string) { t.Fatal(msg) })
}
