# ./check configuration for C20 (merged by mc/props.py)
PROP = dict(
        libs=["explore", "canon"],
        level="model_checking", shards=1,
        level_text="Explicit-state model checking of the real cubicSender (Reno and Cubic) with its real pacer and the real RTTStats under a harness clock, and of the SendMode gate of the real sentPacketHandler wired to the same real congestion controller: bounded-depth BFS over event histories (sent / acked / lost / RTT sample / MTU increase / idle / clock jumps / pacer deadlines) with canonical-state merging; every transition is executed on the real code and judged by a small reference model (in-flight ledger, window-of-packets horizon, per-interval pacer ledger). Right level because the property is an invariant over all event histories, and the interesting arithmetic edges (two-packet floor, 3-packet room, half-window, once-per-window cutback, burst cap, overflow guards) are reachable within a few events once the initial window is shrunk through the internal constructor.",
        level_note="Trusted: the reference model in mc/c20 (ledger maintained from the events / from the frame callbacks, never from implementation fields), the reflective canonicaliser, the window-limited predicate and the burst definition (max(10 datagrams, 1.25*bw*2ms)) taken as the statement's meaning of 'window-limited' and 'one burst'. Histories are bounded by depth (see parts[].rule); the window is shrunk to 3/4/8 packets or placed one packet below the maximum, so the cap is only reached in slow start; hybrid-slow-start exit (needs 8 RTT samples in one round and a 16-packet window) is outside the quick depth. The window parts drop the pacer from the canonical state (the window arithmetic never reads it); the pacer parts keep the whole send history in the state.",
        technique="explicit-state BFS over the real implementation with reference-model oracle",
        deadline=dict(quick=90, thorough=440),
        rule="explicit-state BFS (successor = fresh real object + replay of the shortest path + one event) over (1) the real cubicSender+pacer+RTTStats driven through the SendAlgorithm API with a harness clock, (2) the real sentPacketHandler (SentPacket / ReceivedAck / OnLossDetectionTimeout / QueueProbePacket / SetMaxDatagramSize / SendMode / TimeUntilSend) driven by an obedient sender",
        assumptions=[
            "RTT samples above 60 s are outside the domain: a packet is only acknowledged within 60 s of being sent (older packets can only be declared lost); the division by a zero bandwidth in pacer.TimeUntilSend (needs RTT > ~2400 s) is therefore not probed",
            "the clock is monotonic; one clock jump of 2^62 ns per history at most (a second one would overflow the 64-bit clock itself)",
            "'window-limited' is read as: bytes in flight >= cwnd, or at most 3 full-size packets of room, or (in slow start) more than half the window in flight; 'one burst' as max(10 datagrams, 1.25 * bandwidth * 2 ms); bandwidth estimate = cwnd / smoothed RTT as reported by BandwidthEstimate()",
            "OnRetransmissionTimeout (not an event of the quantifier, never called by the production code) is included in two parts only and is modelled as a timeout-loss response that starts a new window of packets",
            "the ackhandler target covers the 1-RTT packet number space after handshake confirmation, with the random packet-number skipping replaced by the sequential generator; path probes and 0-RTT are not exercised",
        ],
        targets=[
            dict(name="sph", pkg="internal/ackhandler", test="TestVerifC20Sph", files=["mc/c20/sph/*.go"],
                 inject={"internal/congestion": ["mc/c20/inject/*.go"]},
                 parts=["gate-reno", "gate-reno3", "gate-cubic", "gate-production"]),
            dict(name="cc", pkg="internal/congestion", test="TestVerifC20Cc", files=["mc/c20/cc/*.go"],
                 parts=["reno-window", "cubic-window", "reno-window3", "reno-window8", "cubic-window8", "reno-pacer", "cubic-pacer", "reno-cap", "cubic-cap"]),
        ],
    )
