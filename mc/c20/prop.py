# ./check configuration for C20 (merged by mc/props.py)
PROP = dict(
        libs=["explore", "canon"],
        level="model_checking", shards=1,
        level_text="TODO",
        level_note="TODO",
        technique="explicit-state BFS over the real implementation with reference-model oracle",
        deadline=dict(quick=90, thorough=440),
        rule="TODO",
        assumptions=[],
        targets=[
            dict(name="cc", pkg="internal/congestion", test="TestVerifC20Cc", files=["mc/c20/cc/*.go"],
                 parts=["reno-window", "cubic-window", "reno-window3", "reno-window8", "cubic-window8", "reno-pacer", "cubic-pacer", "reno-cap", "cubic-cap"]),
            dict(name="sph", pkg="internal/ackhandler", test="TestVerifC20Sph", files=["mc/c20/sph/*.go"],
                 inject={"internal/congestion": ["mc/c20/inject/*.go"]},
                 parts=["gate-reno", "gate-reno3", "gate-cubic", "gate-production"]),
        ],
    )
