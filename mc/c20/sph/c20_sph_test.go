package ackhandler

// C20, target "sph": the SendMode gate of the real sentPacketHandler (1-RTT packet number
// space, handshake confirmed) wired to the real cubicSender, pacer and RTTStats.
//
// The harness is an obedient sender: it sends ack-eliciting data only when SendMode says
// SendAny, pure ACKs when it says SendAck/SendAny, probe packets when it says
// SendPTOAppData, and waits for the pacer when it says SendPacingLimited.
//
// Reference model: a ledger of the ack-eliciting packets that are in flight, maintained
// from the frame callbacks only (a packet leaves the ledger when the handler reports its
// frame acknowledged or lost), never from handler fields.
//
// plus the probe allowance: 2 probe packets per expiry of the loss-detection timer (counted from
// the timeout events, never from handler fields), used up by the probe packets the harness
// sends, and void once an acknowledgement newly acknowledges an ack-eliciting packet (that
// ends the PTO episode: the backoff is reset and the timer re-armed in the future).
//
// Oracle (after every event, and before every release of new data):
//   SendMode(now) == SendAny  =>  sum of the ledger (bytes in flight) < congestion window
//   SendMode(now) == SendPTOAppData (releases ack-eliciting data regardless of the window)
//                             =>  bytes in flight < congestion window, or the probe allowance
//                                 is not used up (the packet released is a probe packet)
//   2*mds <= cwnd <= 10000*mds + mds

import (
	"fmt"
	"sort"
	"strings"
	"time"

	"github.com/refraction-networking/uquic/internal/congestion"
	"github.com/refraction-networking/uquic/internal/monotime"
	"github.com/refraction-networking/uquic/internal/protocol"
	"github.com/refraction-networking/uquic/internal/utils"
	"github.com/refraction-networking/uquic/internal/verifmc/canon"
	"github.com/refraction-networking/uquic/internal/verifmc/explore"
	"github.com/refraction-networking/uquic/internal/wire"
)

const (
	c20MDS0    = protocol.ByteCount(protocol.InitialPacketSize)
	c20MTUStep = protocol.ByteCount(80)
	c20MaxPkts = protocol.ByteCount(protocol.MaxCongestionWindowPackets)
	c20T0      = monotime.Time(1_000_000_000)
	c20MaxRTT  = 60 * time.Second // domain assumption: RTT samples above 60 s are not part of the domain
)

type c20Pkt struct {
	size protocol.ByteCount
	t    monotime.Time
}

type c20SphCfg struct {
	reno     bool
	initPkts protocol.ByteCount // 0: the production constructor (32 packets)
	depth    int
	sizes    []int // 0 full, 1 small (100 bytes)
	maxAcks  int   // pure-ACK packets per history
	acks     []int // 0 oldest, 1 newest, 2 all outstanding, 3 the fourth-oldest of >= 5 outstanding (packet threshold: exactly the oldest is declared lost, the rest of the flight stays outstanding)
	probes   []int // 0 new data as probe, 1 QueueProbePacket first
	steps    []time.Duration
	maxMTU   int
	flood    bool // "flood": send full packets (waiting for the pacer) until SendMode stops saying SendAny
}

type c20FH struct {
	in *c20SphInst
	pn protocol.PacketNumber
}

func (f *c20FH) OnAcked(wire.Frame) { f.in.gone(f.pn, "acked") }
func (f *c20FH) OnLost(wire.Frame)  { f.in.gone(f.pn, "lost") }

type c20SphInst struct {
	cfg *c20SphCfg
	h   *sentPacketHandler
	rtt *utils.RTTStats
	now monotime.Time

	led      map[protocol.PacketNumber]c20Pkt
	inflight protocol.ByteCount
	mds      protocol.ByteCount
	mtuN     int
	sackN    int
	owed     int // probe allowance: 2 per timer expiry, -1 per probe packet sent, void after an ACK that newly acknowledges an ack-eliciting packet
	nLost    int // callbacks seen during the current op
	nAcked   int
	cbFail   *explore.Fail
	outcome  string
}

func (in *c20SphInst) gone(pn protocol.PacketNumber, how string) {
	p, ok := in.led[pn]
	if !ok {
		if in.cbFail == nil {
			in.cbFail = explore.Failf("frame-callback-twice", "packet %d reported %s although it was not in flight any more", pn, how)
		}
		return
	}
	delete(in.led, pn)
	in.inflight -= p.size
	if how == "lost" {
		in.nLost++
	} else {
		in.nAcked++
	}
}

func newC20SphInst(cfg *c20SphCfg) *c20SphInst {
	in := &c20SphInst{cfg: cfg, rtt: utils.NewRTTStats(), now: c20T0, mds: c20MDS0, led: map[protocol.PacketNumber]c20Pkt{}}
	connStats := &utils.ConnectionStats{}
	in.h = NewSentPacketHandler(0, c20MDS0, in.rtt, connStats, true, false, nil, protocol.PerspectiveServer, nil, utils.DefaultLogger).(*sentPacketHandler)
	if cfg.initPkts > 0 {
		in.h.congestion = congestion.NewCubicSenderVerif(congestion.DefaultClock{}, in.rtt, connStats, cfg.reno, c20MDS0, cfg.initPkts*c20MDS0, c20MaxPkts*c20MDS0)
	}
	// the random packet-number skipping is replaced by the sequential generator (determinism)
	in.h.appDataPackets.pns = newSequentialPacketNumberGenerator(0)
	in.h.DropPackets(protocol.EncryptionInitial, in.now)
	in.h.DropPackets(protocol.EncryptionHandshake, in.now)
	return in
}

func (in *c20SphInst) sorted() []protocol.PacketNumber {
	pns := make([]protocol.PacketNumber, 0, len(in.led))
	for pn := range in.led {
		pns = append(pns, pn)
	}
	sort.Slice(pns, func(i, j int) bool { return pns[i] < pns[j] })
	return pns
}

func (in *c20SphInst) ackable(kind int, pns []protocol.PacketNumber) bool {
	if len(pns) == 0 || (kind > 0 && len(pns) < 2) || (kind == 3 && len(pns) < 5) {
		return false
	}
	young := func(pn protocol.PacketNumber) bool { return in.now.Sub(in.led[pn].t) <= c20MaxRTT }
	switch kind {
	case 0:
		return young(pns[0])
	case 1:
		return young(pns[len(pns)-1])
	case 3:
		return young(pns[3])
	}
	for _, pn := range pns {
		if !young(pn) {
			return false
		}
	}
	return true
}

func (in *c20SphInst) Ops() []explore.Op {
	c := in.cfg
	mode := in.h.SendMode(in.now)
	var ops []explore.Op
	if mode == SendAny {
		for _, s := range c.sizes {
			ops = append(ops, explore.Op{N: "send", A: s})
		}
		if c.flood {
			ops = append(ops, explore.Op{N: "flood"})
		}
	}
	if (mode == SendAny || mode == SendAck) && in.sackN < c.maxAcks {
		ops = append(ops, explore.Op{N: "sendack"})
	}
	if mode == SendPTOAppData {
		for _, k := range c.probes {
			ops = append(ops, explore.Op{N: "probe", A: k})
		}
	}
	pns := in.sorted()
	for _, k := range c.acks {
		if in.ackable(k, pns) {
			ops = append(ops, explore.Op{N: "ack", A: k})
		}
	}
	if !in.h.GetLossDetectionTimeout().IsZero() {
		ops = append(ops, explore.Op{N: "timeout"})
	}
	if mode == SendPacingLimited {
		if t := in.h.TimeUntilSend(); t > in.now {
			ops = append(ops, explore.Op{N: "advpace"})
		}
	}
	for i := range c.steps {
		ops = append(ops, explore.Op{N: "adv", A: i})
	}
	if in.mtuN < c.maxMTU {
		ops = append(ops, explore.Op{N: "mtu"})
	}
	return ops
}

func (in *c20SphInst) algo() string {
	if in.cfg.initPkts == 0 {
		return "default"
	}
	if in.cfg.reno {
		return "reno"
	}
	return "cubic"
}

// gate evaluates the send-gating clause in the current state.
func (in *c20SphInst) gate(where string) (SendMode, *explore.Fail) {
	mode := in.h.SendMode(in.now)
	cw := in.h.congestion.GetCongestionWindow()
	if mode == SendAny && in.inflight >= cw {
		return mode, explore.Failf("sendany-while-window-full:"+where,
			"SendMode = SendAny after %s although %d bytes are in flight (%d ack-eliciting packets not yet acknowledged or declared lost) and the congestion window is %d (handler's own counter: %d)",
			where, in.inflight, len(in.led), cw, in.h.bytesInFlight)
	}
	if mode == SendPTOAppData && in.owed == 0 && in.inflight >= cw {
		return mode, explore.Failf("pto-mode-without-pending-probe:"+where,
			"SendMode = SendPTOAppData (releases ack-eliciting data regardless of the window) after %s although no probe packet is pending (every probe the loss-detection timer authorised was sent, or an acknowledgement of new data ended the PTO episode), %d bytes are in flight (%d ack-eliciting packets not yet acknowledged or declared lost) and the congestion window is %d (handler's own counter: %d)",
			where, in.inflight, len(in.led), cw, in.h.bytesInFlight)
	}
	if cw < 2*in.mds {
		return mode, explore.Failf("cwnd-below-two-packets:"+in.algo()+":"+where, "after %s: cwnd = %d bytes < 2 full-size packets = %d", where, cw, 2*in.mds)
	}
	if cw > c20MaxPkts*in.mds+in.mds {
		return mode, explore.Failf("cwnd-above-maximum:"+in.algo()+":"+where, "after %s: cwnd = %d bytes > maximum %d + one packet", where, cw, c20MaxPkts*in.mds)
	}
	return mode, nil
}

func (in *c20SphInst) sendData(size protocol.ByteCount, mtuProbe bool) {
	pn := in.h.PopPacketNumber(protocol.Encryption1RTT)
	in.led[pn] = c20Pkt{size: size, t: in.now}
	in.inflight += size
	fr := []Frame{{Frame: &wire.PingFrame{}, Handler: &c20FH{in: in, pn: pn}}}
	in.h.SentPacket(in.now, pn, protocol.InvalidPacketNumber, nil, fr, protocol.Encryption1RTT, protocol.ECNNon, size, mtuProbe, false)
}

func (in *c20SphInst) Apply(op explore.Op) *explore.Fail {
	in.outcome = ""
	in.nLost, in.nAcked = 0, 0
	c := in.cfg
	detail := ""
	switch op.N {
	case "send":
		mode, f := in.gate("before-send")
		if f != nil {
			return f
		}
		explore.Must(mode == SendAny, "send not enabled")
		size := in.mds
		if op.A == 1 {
			size = 100
		}
		in.sendData(size, false)
	case "flood":
		n := 0
		for ; n < 64; n++ {
			mode, f := in.gate("flood")
			if f != nil {
				return f
			}
			if mode == SendPacingLimited {
				t := in.h.TimeUntilSend()
				explore.Must(t > in.now, "pacing limited but TimeUntilSend is not in the future")
				in.now = t
				mode = in.h.SendMode(in.now)
			}
			if mode != SendAny {
				break
			}
			if _, f := in.gate("flood"); f != nil {
				return f
			}
			in.sendData(in.mds, false)
		}
		detail = fmt.Sprintf("n=%d", n)
	case "sendack":
		in.sackN++
		pn := in.h.PopPacketNumber(protocol.Encryption1RTT)
		in.h.SentPacket(in.now, pn, 0, nil, nil, protocol.Encryption1RTT, protocol.ECNNon, 40, false, false)
	case "probe":
		if op.A == 1 {
			detail = fmt.Sprintf("queued=%v", in.h.QueueProbePacket(protocol.Encryption1RTT))
		}
		in.sendData(in.mds, false)
		if in.owed > 0 {
			in.owed--
		}
	case "ack":
		pns := in.sorted()
		var ranges []wire.AckRange
		switch op.A {
		case 0:
			ranges = []wire.AckRange{{Smallest: pns[0], Largest: pns[0]}}
		case 1:
			l := pns[len(pns)-1]
			ranges = []wire.AckRange{{Smallest: l, Largest: l}}
		case 3:
			ranges = []wire.AckRange{{Smallest: pns[3], Largest: pns[3]}}
		case 2:
			for i := len(pns) - 1; i >= 0; i-- {
				if k := len(ranges); k > 0 && ranges[k-1].Smallest == pns[i]+1 {
					ranges[k-1].Smallest = pns[i]
				} else {
					ranges = append(ranges, wire.AckRange{Smallest: pns[i], Largest: pns[i]})
				}
			}
		}
		_, err := in.h.ReceivedAck(&wire.AckFrame{AckRanges: ranges}, protocol.Encryption1RTT, in.now)
		explore.Must(err == nil, "ReceivedAck(%v): %v", ranges, err)
		if in.nAcked > 0 {
			in.owed = 0
		}
	case "timeout":
		if t := in.h.GetLossDetectionTimeout(); t > in.now {
			in.now = t
		}
		err := in.h.OnLossDetectionTimeout(in.now)
		explore.Must(err == nil, "OnLossDetectionTimeout: %v", err)
		in.owed += 2
	case "advpace":
		t := in.h.TimeUntilSend()
		explore.Must(t > in.now, "advpace not enabled")
		in.now = t
	case "adv":
		in.now = in.now.Add(c.steps[op.A])
	case "mtu":
		in.mtuN++
		in.mds += c20MTUStep
		in.h.SetMaxDatagramSize(in.mds)
	default:
		explore.Must(false, "unknown op %v", op)
	}
	if in.cbFail != nil {
		return in.cbFail
	}
	mode, f := in.gate(op.N)
	if f != nil {
		return f
	}
	cw := in.h.congestion.GetCongestionWindow()
	room := "room"
	if in.inflight >= cw {
		room = "full"
	}
	ph := "ca"
	if in.h.congestion.InRecovery() {
		ph = "rec"
	} else if in.h.congestion.InSlowStart() {
		ph = "ss"
	}
	in.outcome = fmt.Sprintf("%s%d %s -> mode=%s %s %s acked=%d lost=%d owed=%d", op.N, op.A, detail, mode, room, ph, min(in.nAcked, 2), min(in.nLost, 2), min(in.owed, 3))
	return nil
}

func (in *c20SphInst) Outcome() string { return in.outcome }

func c20SkipSph(typ, field string) bool {
	switch typ + "." + field {
	case "ackhandler.Frame.Handler", // identity of the harness callback (= the packet number)
		"ackhandler.sentPacketHandler.connStats", "congestion.cubicSender.connStats", // write-only statistics
		"ackhandler.sentPacketHandler.logger", "ackhandler.sentPacketHandler.qlogger", "ackhandler.sentPacketHandler.lastMetrics",
		"congestion.cubicSender.qlogger", "congestion.cubicSender.lastState":
		return true
	}
	return false
}

func (in *c20SphInst) Key() string {
	var sb strings.Builder
	base := int64(in.now)
	sb.WriteString(canon.Dump(in.h, canon.Options{TimeBase: base, SkipField: c20SkipSph}))
	fmt.Fprintf(&sb, "|mds=%d mtu=%d sack=%d owed=%d|", in.mds, in.mtuN, in.sackN, in.owed)
	for _, pn := range in.sorted() {
		p := in.led[pn]
		fmt.Fprintf(&sb, "%d:%d@%d,", pn, p.size, int64(p.t)-base)
	}
	return sb.String()
}
