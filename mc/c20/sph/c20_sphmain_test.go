package ackhandler

import (
	"encoding/json"
	"fmt"
	"testing"
	"time"

	"github.com/refraction-networking/uquic/internal/protocol"
	"github.com/refraction-networking/uquic/internal/verifmc/explore"
)

// c20Slice: see the cc target (per-part share of the process deadline; safety net only).
func c20Slice(e explore.Env) explore.Env {
	s := 45 * time.Second
	if e.Thorough() {
		s = 240 * time.Second
	}
	if d := time.Now().Add(s); e.Deadline.IsZero() || d.Before(e.Deadline) {
		e.Deadline = d
	}
	return e
}

func c20SphPart(name string, mk func(thorough bool) *c20SphCfg) explore.Part {
	spec := func(e explore.Env) explore.BFSSpec {
		cfg := mk(e.Thorough())
		cc := "production constructor (Reno, 32 packets)"
		if cfg.initPkts > 0 {
			cc = fmt.Sprintf("cubicSender reno=%v with an initial window of %d packets", cfg.reno, cfg.initPkts)
		}
		return explore.BFSSpec{
			New:              func() explore.Instance { return newC20SphInst(cfg) },
			MaxDepth:         cfg.depth,
			PanicIsViolation: true,
			Rule: fmt.Sprintf("BFS depth %d over the real sentPacketHandler (1-RTT space, handshake confirmed, sequential packet numbers) + %s; obedient sender: send sizes %v (0 full,1 100 bytes) only on SendAny, flood=%v, pure ACKs <=%d, PTO probes %v, ack %v (0 oldest,1 newest,2 all,3 fourth-oldest of >=5 outstanding; only packets younger than 60 s), loss-detection timeout at the alarm, pacer deadline, clock steps %v, MTU +80 x<=%d; probe allowance = 2 per timer expiry, void after an ACK of new data; state = canon(handler incl. congestion controller) + in-flight ledger + probe allowance",
				cfg.depth, cc, cfg.sizes, cfg.flood, cfg.maxAcks, cfg.probes, cfg.acks, cfg.steps, cfg.maxMTU),
		}
	}
	return explore.Part{
		Name:   name,
		Run:    func(e explore.Env) *explore.Report { return explore.BFS(c20Slice(e), spec(e)) },
		Replay: func(e explore.Env, raw json.RawMessage) *explore.Violation { return explore.ReplayBFS(spec(e), raw) },
	}
}

func c20SphCfgOf(reno bool, initPkts int, dq, dt int) func(bool) *c20SphCfg {
	return func(th bool) *c20SphCfg {
		c := &c20SphCfg{reno: reno, initPkts: protocol.ByteCount(initPkts), depth: dq,
			sizes: []int{0, 1}, maxAcks: 1, acks: []int{0, 1, 3}, probes: []int{0, 1},
			steps: []time.Duration{time.Millisecond, time.Second}, maxMTU: 1, flood: true,
		}
		if initPkts == 0 {
			c.sizes = []int{0}
		}
		if th {
			c.depth = dt
			if initPkts != 4 || !reno {
				c.acks = []int{0, 1, 2, 3}
			}
		}
		return c
	}
}

func TestVerifC20Sph(t *testing.T) {
	explore.Main("C20", []explore.Part{
		c20SphPart("gate-reno", c20SphCfgOf(true, 4, 6, 8)),
		c20SphPart("gate-cubic", c20SphCfgOf(false, 4, 6, 7)),
		c20SphPart("gate-production", c20SphCfgOf(true, 0, 6, 7)),
		c20SphPart("gate-reno3", c20SphCfgOf(true, 3, 6, 7)),
	}, func(msg string) { t.Fatal(msg) })
}
