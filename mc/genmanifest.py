#!/usr/bin/env python3
"""Regenerates /verif/MANIFEST.json from mc/props.py (run after adding a property)."""
import json, os, sys
HERE = os.path.dirname(os.path.abspath(__file__))
sys.path.insert(0, HERE)
import props
VERIF = os.path.dirname(HERE)
baseline = json.load(open("/root/.vp/BASELINE.json"))["cmd"]
ids = [json.loads(l)["id"] for l in open(os.path.join(VERIF, "properties.jsonl"))]
checks = []
for pid in ids:
    c = props.PROPS.get(pid)
    if not c or c.get("disabled"):
        continue
    checks.append(dict(
        property_id=pid,
        quick_cmd="./check %s quick" % pid,
        thorough_cmd="./check %s thorough" % pid,
        evidence_file="/verif/evidence/%s.json" % pid,
        replay_cmd_template="./check %s --replay {path}" % pid,
        engine=c.get("engine", "E1 seqx"),
        level_claimed=dict(category=c["level"], text=c["level_text"], design_ref=c.get("design_ref", "DESIGN.md section 1, " + pid)),
        level_note=c["level_note"],
        technique=c["technique"],
    ))
na = []
for pid in ids:
    c = props.PROPS.get(pid)
    if not c or c.get("disabled"):
        na.append(dict(property_id=pid, reason=(c or {}).get("disabled") or props.NOT_YET.get(pid, "check not built yet (work in progress, see DESIGN.md section 1 for the plan)")))
m = dict(
    version=1,
    setup_cmd="./setup",
    hooks=dict(
        guard="verif",
        enable="no source hooks are committed to /repo: ./check generates a `go test -overlay` (build tag verif) that adds the harness files and virtual helper packages on top of /repo's working tree and strips the package's own _test.go files from the harness binary",
        baseline_off_cmd=baseline,
        source_commits=[],
        add_only=True,
    ),
    engines=[
        dict(name="E1 seqx", path="mc/lib/explore/bfs.go", serves_properties=[p for p in ids if p in props.PROPS and props.PROPS[p].get("engine", "E1 seqx").startswith("E1")],
             kind_free_text="explicit-state breadth-first search over the real component: successor = fresh instance + replay of the shortest path + one operation; canonical state = reflective dump of every data field of the object under test joined with the reference model; plus bounded-exhaustive input enumeration (explore.RunCases) and choice-sequence DFS with deviation bounds (explore.EnumerateChoices)"),
        dict(name="E2 simx", path="mc/lib/sim", serves_properties=[p for p in ids if p in props.PROPS and props.PROPS[p].get("engine", "").startswith("E2")],
             kind_free_text="whole client+server connections in a testing/synctest bubble over testutils/simnet; exhaustive static fault maps (fate of datagram #i) with at most k deviations"),
        dict(name="E3 schedx", path="mc/lib/sched", serves_properties=[p for p in ids if p in props.PROPS and props.PROPS[p].get("engine", "").startswith("E3")],
             kind_free_text="interleavings of real goroutines on one real component under a cooperative scheduler (quiescence stepping with synctest.Wait)"),
    ],
    checks=checks,
    not_applicable=na,
    notes="All checks are run by ./check <id> quick|thorough (python3 driver + Go harness built with go1.26.8 from /repo's working tree through an overlay). VERIF_REPO selects another tree. Exit 2 = harness/build error, never a verdict.",
)
json.dump(m, open(os.path.join(VERIF, "MANIFEST.json"), "w"), indent=1)
print("MANIFEST.json: %d checks, %d not_applicable" % (len(checks), len(na)))
