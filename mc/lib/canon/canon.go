// Package canon dumps every data field of a Go object graph (unexported ones included) in
// a canonical textual form: pointers are renumbered in traversal order, maps are sorted,
// locks / loggers / func values / pool internals are skipped, channels are recorded as
// len/cap. Nothing that is data is dropped, so equal dumps have equal futures; an
// over-fine dump only costs exploration time.
package canon

import (
	"fmt"
	"reflect"
	"sort"
	"strconv"
	"strings"
	"time"
	"unsafe"
)

type Options struct {
	// SkipField, if set, drops a struct field: typ is the struct's type name
	// (pkg.Name), field the field name.
	SkipField func(typ, field string) bool
	// TimeBase is subtracted from int64-kinded types whose name is "Time" (monotime.Time)
	// and from time.Time values, so that states are clock-translation invariant only where
	// the harness says so. Zero times stay zero.
	TimeBase int64
	// MaxDepth guards against runaway graphs.
	MaxDepth int
}

type dumper struct {
	sb   strings.Builder
	ptrs map[unsafe.Pointer]int
	opt  Options
}

// Dump returns the canonical form of v.
func Dump(v any, opt Options) string {
	d := &dumper{ptrs: map[unsafe.Pointer]int{}, opt: opt}
	if d.opt.MaxDepth == 0 {
		d.opt.MaxDepth = 64
	}
	d.val(reflect.ValueOf(v), 0)
	return d.sb.String()
}

var skipTypes = map[string]bool{
	"sync.Mutex": true, "sync.RWMutex": true, "sync.Once": true, "sync.WaitGroup": true,
	"sync.Pool": true, "sync.Cond": true, "sync.noCopy": true, "atomic.noCopy": true,
	"vsync.Mutex": true, "vsync.RWMutex": true,
	"utils.defaultLogger": true,
}

func (d *dumper) val(v reflect.Value, depth int) {
	if depth > d.opt.MaxDepth {
		d.sb.WriteString("<deep>")
		return
	}
	if !v.IsValid() {
		d.sb.WriteString("nil")
		return
	}
	t := v.Type()
	tn := t.String()
	if skipTypes[tn] {
		return
	}
	switch v.Kind() {
	case reflect.Bool:
		if v.Bool() {
			d.sb.WriteString("T")
		} else {
			d.sb.WriteString("F")
		}
	case reflect.Int, reflect.Int8, reflect.Int16, reflect.Int32, reflect.Int64:
		x := v.Int()
		if t.Name() == "Time" && x != 0 && d.opt.TimeBase != 0 {
			x -= d.opt.TimeBase
			d.sb.WriteString("t")
		}
		d.sb.WriteString(strconv.FormatInt(x, 10))
	case reflect.Uint, reflect.Uint8, reflect.Uint16, reflect.Uint32, reflect.Uint64, reflect.Uintptr:
		d.sb.WriteString(strconv.FormatUint(v.Uint(), 10))
	case reflect.Float32, reflect.Float64:
		d.sb.WriteString(strconv.FormatFloat(v.Float(), 'g', -1, 64))
	case reflect.Complex64, reflect.Complex128:
		d.sb.WriteString(fmt.Sprint(v.Complex()))
	case reflect.String:
		d.sb.WriteString(strconv.Quote(v.String()))
	case reflect.Func:
		if v.IsNil() {
			d.sb.WriteString("fn0")
		} else {
			d.sb.WriteString("fn1")
		}
	case reflect.Chan:
		if v.IsNil() {
			d.sb.WriteString("ch0")
		} else {
			fmt.Fprintf(&d.sb, "ch(%d/%d)", v.Len(), v.Cap())
		}
	case reflect.UnsafePointer:
		d.sb.WriteString("up")
	case reflect.Interface:
		if v.IsNil() {
			d.sb.WriteString("i0")
			return
		}
		e := v.Elem()
		d.sb.WriteString("i<" + e.Type().String() + ">")
		d.val(e, depth+1)
	case reflect.Pointer:
		if v.IsNil() {
			d.sb.WriteString("p0")
			return
		}
		p := unsafe.Pointer(v.Pointer())
		if n, ok := d.ptrs[p]; ok {
			fmt.Fprintf(&d.sb, "p#%d", n)
			return
		}
		n := len(d.ptrs) + 1
		d.ptrs[p] = n
		fmt.Fprintf(&d.sb, "p%d=", n)
		d.val(v.Elem(), depth+1)
	case reflect.Slice:
		if v.IsNil() {
			d.sb.WriteString("s0")
			return
		}
		if t.Elem().Kind() == reflect.Uint8 {
			b := make([]byte, v.Len())
			for i := range b {
				b[i] = byte(v.Index(i).Uint())
			}
			fmt.Fprintf(&d.sb, "b%d:%x", len(b), b)
			return
		}
		fmt.Fprintf(&d.sb, "s%d[", v.Len())
		for i := 0; i < v.Len(); i++ {
			d.val(v.Index(i), depth+1)
			d.sb.WriteByte(',')
		}
		d.sb.WriteByte(']')
	case reflect.Array:
		if t.Elem().Kind() == reflect.Uint8 {
			d.sb.WriteString("a:")
			for i := 0; i < v.Len(); i++ {
				fmt.Fprintf(&d.sb, "%02x", v.Index(i).Uint())
			}
			return
		}
		d.sb.WriteString("a[")
		for i := 0; i < v.Len(); i++ {
			d.val(v.Index(i), depth+1)
			d.sb.WriteByte(',')
		}
		d.sb.WriteByte(']')
	case reflect.Map:
		if v.IsNil() {
			d.sb.WriteString("m0")
			return
		}
		type kv struct{ k, v string }
		var items []kv
		it := v.MapRange()
		for it.Next() {
			// keys and values are dumped with a private pointer table extension: pointers met
			// inside map entries are numbered after sorting by key, so dump keys first.
			kd := &dumper{ptrs: map[unsafe.Pointer]int{}, opt: d.opt}
			kd.val(it.Key(), depth+1)
			items = append(items, kv{k: kd.sb.String()})
		}
		sort.Slice(items, func(i, j int) bool { return items[i].k < items[j].k })
		// second pass in sorted key order with the shared pointer table
		keyed := map[string]reflect.Value{}
		it = v.MapRange()
		for it.Next() {
			kd := &dumper{ptrs: map[unsafe.Pointer]int{}, opt: d.opt}
			kd.val(it.Key(), depth+1)
			keyed[kd.sb.String()] = it.Value()
		}
		fmt.Fprintf(&d.sb, "m%d{", len(items))
		for _, e := range items {
			d.sb.WriteString(e.k)
			d.sb.WriteByte(':')
			d.val(keyed[e.k], depth+1)
			d.sb.WriteByte(',')
		}
		d.sb.WriteByte('}')
	case reflect.Struct:
		if tn == "time.Time" {
			tt := reflect.NewAt(t, unsafePtrOf(v)).Elem().Interface().(time.Time)
			if tt.IsZero() {
				d.sb.WriteString("T0")
			} else {
				fmt.Fprintf(&d.sb, "T%d", tt.UnixNano()-d.opt.TimeBase)
			}
			return
		}
		d.sb.WriteString("{")
		if !v.CanAddr() {
			// make addressable copy to read unexported fields
			c := reflect.New(t).Elem()
			c.Set(v)
			v = c
		}
		for i := 0; i < t.NumField(); i++ {
			f := t.Field(i)
			if d.opt.SkipField != nil && d.opt.SkipField(tn, f.Name) {
				continue
			}
			if skipTypes[f.Type.String()] {
				continue
			}
			fv := v.Field(i)
			if !fv.CanInterface() {
				fv = reflect.NewAt(f.Type, unsafe.Pointer(fv.UnsafeAddr())).Elem()
			}
			d.sb.WriteString(f.Name)
			d.sb.WriteByte('=')
			d.val(fv, depth+1)
			d.sb.WriteByte(';')
		}
		d.sb.WriteString("}")
	default:
		d.sb.WriteString("?" + v.Kind().String())
	}
}

func unsafePtrOf(v reflect.Value) unsafe.Pointer {
	if v.CanAddr() {
		return unsafe.Pointer(v.UnsafeAddr())
	}
	c := reflect.New(v.Type()).Elem()
	c.Set(v)
	return unsafe.Pointer(c.UnsafeAddr())
}
