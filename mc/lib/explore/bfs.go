package explore

import (
	"crypto/sha256"
	"encoding/json"
	"fmt"
	"runtime"
	"runtime/debug"
	"sort"
	"strings"
	"sync"
)

// Op is one operation of a harness alphabet: a name and up to four small integer arguments.
type Op struct {
	N string `json:"n"`
	A int    `json:"a,omitempty"`
	B int    `json:"b,omitempty"`
	C int    `json:"c,omitempty"`
	D int    `json:"d,omitempty"`
}

func (o Op) String() string { return fmt.Sprintf("%s(%d,%d,%d,%d)", o.N, o.A, o.B, o.C, o.D) }

// Fail is an oracle verdict: the property is violated in this step.
type Fail struct {
	Key  string
	What string
}

func Failf(key, format string, a ...any) *Fail {
	return &Fail{Key: key, What: fmt.Sprintf(format, a...)}
}

// Instance wraps one fresh real object under test together with its reference model.
type Instance interface {
	// Ops lists the operations enabled in the current state, in a deterministic order
	// (simplest first).
	Ops() []Op
	// Apply executes op on the real implementation and on the reference model and
	// evaluates the oracle.
	Apply(op Op) *Fail
	// Key is the canonical state: canon(implementation) joined with the model state.
	Key() string
}

// Outcomer is optionally implemented by instances to classify what they observed
// (used for the vacuity accounting: one outcome over many executions = nothing collided).
type Outcomer interface{ Outcome() string }

type BFSSpec struct {
	New       func() Instance
	MaxDepth  int // 0: run to closure
	MaxStates int // 0: default cap
	Rule      string
	// PanicIsViolation: a panic inside Apply is reported as a violation with key
	// "panic:<site>"; otherwise it is a harness error.
	PanicIsViolation bool
}

type hkey [16]byte

func hashKey(s string) hkey {
	h := sha256.Sum256([]byte(s))
	var k hkey
	copy(k[:], h[:16])
	return k
}

type trans struct {
	parent  int32
	opIdx   int32
	op      Op
	key     hkey
	fail    *Fail
	outcome string
	human   string
}

type bfsState struct {
	parent int32
	op     Op
	depth  int32
}

type bfs struct {
	spec   BFSSpec
	states []bfsState
	keys   []hkey
}

func (b *bfs) path(idx int32) []Op {
	var rev []Op
	for i := idx; i > 0; i = b.states[i].parent {
		rev = append(rev, b.states[i].op)
	}
	for i, j := 0, len(rev)-1; i < j; i, j = i+1, j-1 {
		rev[i], rev[j] = rev[j], rev[i]
	}
	return rev
}

type harnessErr struct{ msg string }

func applySafe(inst Instance, op Op, panicIsViolation bool) (f *Fail) {
	defer func() {
		if x := recover(); x != nil {
			if he, ok := x.(harnessErr); ok {
				panic(he)
			}
			msg := fmt.Sprint(x)
			if !panicIsViolation {
				panic(harnessErr{fmt.Sprintf("panic in Apply(%v): %v\n%s", op, x, debug.Stack())})
			}
			f = &Fail{Key: "panic:" + panicSite(), What: "panic: " + msg}
		}
	}()
	return inst.Apply(op)
}

// panicSite returns the first non-runtime frame of the panicking stack that lies in the
// repository (a stable call-site key).
func panicSite() string {
	st := string(debug.Stack())
	lines := strings.Split(st, "\n")
	seenPanic := false
	for i := 0; i+1 < len(lines); i++ {
		l := lines[i]
		if strings.HasPrefix(l, "panic(") {
			seenPanic = true
			continue
		}
		if !seenPanic {
			continue
		}
		if strings.HasPrefix(l, "runtime.") || strings.HasPrefix(l, "\t") {
			continue
		}
		if strings.Contains(l, "verifmc") {
			continue
		}
		if j := strings.LastIndex(l, "("); j > 0 {
			l = l[:j]
		}
		if j := strings.LastIndex(l, "/"); j >= 0 {
			l = l[j+1:]
		}
		return l
	}
	return "unknown"
}

// Must panics with a harness error (never a violation) when cond is false.
func Must(cond bool, format string, a ...any) {
	if !cond {
		panic(harnessErr{fmt.Sprintf(format, a...)})
	}
}

// RunPath executes a path on a fresh instance; returns the instance, the index of the
// first failing op (or -1) and the failure.
func RunPath(spec BFSSpec, path []Op) (Instance, int, *Fail) {
	inst := spec.New()
	for i, op := range path {
		if f := applySafe(inst, op, spec.PanicIsViolation); f != nil {
			return inst, i, f
		}
	}
	return inst, -1, nil
}

// BFS explores the reachable canonical states of the real implementation breadth-first.
// Successor = fresh instance + replay of the shortest path + one op.
func BFS(e Env, spec BFSSpec) (rep *Report) {
	rep = &Report{Level: "model_checking", Rule: spec.Rule}
	defer func() {
		if x := recover(); x != nil {
			if he, ok := x.(harnessErr); ok {
				rep.HarnessError = he.msg
				return
			}
			panic(x)
		}
	}()
	maxStates := spec.MaxStates
	if maxStates == 0 {
		maxStates = 6_000_000
	}
	workers := e.Workers
	if workers <= 1 {
		workers = runtime.NumCPU()
	}
	b := &bfs{spec: spec}
	seen := map[hkey]int32{}
	init := spec.New()
	k0 := init.Key()
	// determinism of construction
	if k0b := spec.New().Key(); k0b != k0 {
		rep.HarnessError = "nondeterministic initial state:\n" + k0 + "\n---\n" + k0b
		return rep
	}
	rep.DetChecked++
	b.states = append(b.states, bfsState{parent: -1})
	b.keys = append(b.keys, hashKey(k0))
	seen[b.keys[0]] = 0
	frontier := []int32{0}
	outcomes := NewOutcomeSet()
	vioKeys := map[string]bool{}
	depth := 0
	completedDepth := 0
	closed := false
	capHit := ""
	for len(frontier) > 0 {
		if spec.MaxDepth > 0 && depth >= spec.MaxDepth {
			break
		}
		if e.Expired() {
			capHit = "deadline"
			break
		}
		// expand the frontier in parallel
		results := make([][]trans, workers)
		var wg sync.WaitGroup
		var detMu sync.Mutex
		var herr string
		incomplete := false
		chunk := (len(frontier) + workers - 1) / workers
		for w := 0; w < workers; w++ {
			lo, hi := w*chunk, (w+1)*chunk
			if lo >= len(frontier) {
				break
			}
			if hi > len(frontier) {
				hi = len(frontier)
			}
			wg.Add(1)
			go func(w int, idxs []int32) {
				defer wg.Done()
				defer func() {
					if x := recover(); x != nil {
						detMu.Lock()
						if he, ok := x.(harnessErr); ok {
							herr = he.msg
						} else {
							herr = fmt.Sprintf("harness panic: %v\n%s", x, debug.Stack())
						}
						detMu.Unlock()
					}
				}()
				var out []trans
				for n, idx := range idxs {
					if n%64 == 0 && e.Expired() {
						detMu.Lock()
						incomplete = true
						detMu.Unlock()
						break
					}
					path := b.path(idx)
					inst, fi, f := RunPath(spec, path)
					if f != nil {
						panic(harnessErr{fmt.Sprintf("replay divergence: prefix %v failed at %d: %s", path, fi, f.What)})
					}
					if hk := hashKey(inst.Key()); hk != b.keys[idx] {
						panic(harnessErr{fmt.Sprintf("replay divergence: state %d reached by %v has a different key on replay", idx, path)})
					}
					ops := inst.Ops()
					for oi, op := range ops {
						if oi > 0 {
							inst, _, f = RunPath(spec, path)
							if f != nil {
								panic(harnessErr{"replay divergence on re-run: " + f.What})
							}
						}
						fl := applySafe(inst, op, spec.PanicIsViolation)
						t := trans{parent: idx, opIdx: int32(oi), op: op, fail: fl}
						if fl == nil {
							t.key = hashKey(inst.Key())
							if oc, ok := inst.(Outcomer); ok {
								t.outcome = oc.Outcome()
							}
						}
						out = append(out, t)
					}
				}
				results[w] = out
			}(w, frontier[lo:hi])
		}
		wg.Wait()
		if herr != "" {
			rep.HarnessError = herr
			return rep
		}
		rep.DetChecked += int64(len(frontier))
		var next []int32
		for _, out := range results {
			for _, t := range out {
				rep.Transitions++
				if t.fail != nil {
					if !vioKeys[t.fail.Key] && len(rep.Violations) < 40 {
						vioKeys[t.fail.Key] = true
						p := append(b.path(t.parent), t.op)
						rep.Violations = append(rep.Violations, Violation{
							Key: t.fail.Key, What: t.fail.What, Replay: JSON(p), Human: opsHuman(p),
						})
					}
					continue
				}
				if t.outcome != "" {
					outcomes.Add(t.outcome)
				}
				if _, ok := seen[t.key]; ok {
					continue
				}
				ni := int32(len(b.states))
				seen[t.key] = ni
				b.states = append(b.states, bfsState{parent: t.parent, op: t.op, depth: int32(depth + 1)})
				b.keys = append(b.keys, t.key)
				next = append(next, ni)
			}
		}
		if incomplete {
			capHit = "deadline"
			break
		}
		depth++
		completedDepth = depth
		frontier = next
		if len(b.states) > maxStates {
			capHit = fmt.Sprintf("state cap %d", maxStates)
			break
		}
	}
	if len(frontier) == 0 && capHit == "" {
		closed = true
	}
	rep.States = int64(len(b.states))
	rep.Traces = rep.Transitions
	rep.Evaluations = rep.Transitions
	rep.Outcomes = outcomes.List()
	rep.OutcomesN = int64(len(rep.Outcomes))
	switch {
	case closed:
		rep.Exhaustive = true
		rep.Bound = fmt.Sprintf("closure: reachable state set closed at depth %d", completedDepth)
	case capHit != "":
		rep.Exhaustive = false
		rep.Caps = append(rep.Caps, capHit)
		rep.Bound = fmt.Sprintf("all op sequences of length <= %d (cap hit: %s)", completedDepth, capHit)
	default:
		rep.Exhaustive = true
		rep.Bound = fmt.Sprintf("all op sequences of length <= %d (modulo canonical-state merging)", completedDepth)
	}
	// samples: the deepest state and two in the middle
	for _, i := range []int{len(b.states) - 1, len(b.states) / 2, len(b.states) / 3} {
		if i > 0 {
			rep.Samples = append(rep.Samples, opsHuman(b.path(int32(i))))
		}
	}
	return rep
}

func opsHuman(p []Op) []string {
	h := make([]string, len(p))
	for i, o := range p {
		h[i] = o.String()
	}
	return h
}

// ReplayBFS re-executes a recorded op path.
func ReplayBFS(spec BFSSpec, raw json.RawMessage) *Violation {
	var path []Op
	if err := json.Unmarshal(raw, &path); err != nil {
		panic(harnessErr{err.Error()})
	}
	_, _, f := RunPath(spec, path)
	if f == nil {
		return nil
	}
	return &Violation{Key: f.Key, What: f.What, Replay: raw, Human: opsHuman(path)}
}

// BFSPart wraps a BFS spec as a Part.
func BFSPart(name string, mk func(e Env) BFSSpec) Part {
	return Part{
		Name:   name,
		Run:    func(e Env) *Report { return BFS(e, mk(e)) },
		Replay: func(e Env, raw json.RawMessage) *Violation { return ReplayBFS(mk(e), raw) },
	}
}

// SortedKeys returns the sorted keys of a map with string keys.
func SortedKeys[V any](m map[string]V) []string {
	l := make([]string, 0, len(m))
	for k := range m {
		l = append(l, k)
	}
	sort.Strings(l)
	return l
}
