package explore

import (
	"encoding/json"
	"fmt"
	"runtime"
	"runtime/debug"
	"sync"
	"sync/atomic"
)

// Chooser owns the nondeterministic answers of one execution. Choose(n) returns the
// recorded prefix value while replaying, then the default answer 0.
type Chooser struct {
	prefix []int
	Trace  []int // choice taken at each point
	Dom    []int // domain size at each point
	Cost   []int // deviation cost of taking a non-default answer at each point
}

func NewChooser(prefix []int) *Chooser { return &Chooser{prefix: prefix} }

// Choose returns a value in [0,n). Non-zero answers cost 1 deviation.
func (c *Chooser) Choose(n int) int { return c.ChooseCost(n, 1) }

// ChooseCost is Choose with an explicit deviation cost for non-default answers
// (cost 0: the point is enumerated exhaustively and does not count against the bound).
func (c *Chooser) ChooseCost(n, cost int) int {
	if n <= 0 {
		panic(harnessErr{fmt.Sprintf("Choose(%d)", n)})
	}
	i := len(c.Trace)
	v := 0
	if i < len(c.prefix) {
		v = c.prefix[i]
		if v >= n {
			panic(harnessErr{fmt.Sprintf("replay divergence: choice %d at point %d out of domain %d", v, i, n)})
		}
	}
	c.Trace = append(c.Trace, v)
	c.Dom = append(c.Dom, n)
	c.Cost = append(c.Cost, cost)
	return v
}

func (c *Chooser) deviations(upto int) int {
	d := 0
	for i := 0; i < upto && i < len(c.Trace); i++ {
		if c.Trace[i] != 0 {
			d += c.Cost[i]
		}
	}
	return d
}

// DFSResult summarises an enumeration of choice sequences.
type DFSResult struct {
	Executions int64
	Capped     bool
}

// EnumerateChoices runs `run` once for every choice sequence with at most maxDev
// deviations (maxDev < 0: unbounded), depth-first, stateless. run must be deterministic
// given the chooser. It stops after maxExec executions (0: no cap) or when stop() says so.
func EnumerateChoices(maxDev int, maxExec int64, stop func() bool, run func(c *Chooser)) DFSResult {
	var res DFSResult
	prefix := []int{}
	for {
		c := NewChooser(prefix)
		run(c)
		res.Executions++
		if len(c.Trace) < len(prefix) {
			panic(harnessErr{"replay divergence: execution shorter than its prefix"})
		}
		if (maxExec > 0 && res.Executions >= maxExec) || (stop != nil && stop()) {
			res.Capped = true
			return res
		}
		// next sequence: increment the last point that has room within the deviation bound
		i := len(c.Trace) - 1
		for ; i >= 0; i-- {
			if c.Trace[i]+1 >= c.Dom[i] {
				continue
			}
			if maxDev >= 0 {
				d := c.deviations(i)
				// moving point i to a non-default answer costs Cost[i] (it stays non-default if it already was)
				if d+c.Cost[i] > maxDev {
					continue
				}
			}
			break
		}
		if i < 0 {
			return res
		}
		prefix = append(append([]int{}, c.Trace[:i]...), c.Trace[i]+1)
	}
}

// CaseResult is what one explicit case produced.
type CaseResult struct {
	Outcome string
	Fail    *Fail
	Replay  any
	Human   []string
	// Sub-executions (e.g. chooser runs) and transitions performed inside the case.
	Execs int64
	Trans int64
}

// RunCases executes cases [0,n) that belong to this shard on `par` goroutines.
// Panics inside run are reported as violations when panicIsViolation is set.
func RunCases(e Env, n int, par int, panicIsViolation bool, run func(i int) CaseResult) *Report {
	rep := &Report{Level: "model_checking"}
	if par <= 0 {
		par = runtime.NumCPU()
	}
	outcomes := NewOutcomeSet()
	var mu sync.Mutex
	vio := map[string]bool{}
	var next int64 = -1
	var evals, execs, trans int64
	var herr atomic.Value
	var expired atomic.Bool
	var wg sync.WaitGroup
	for w := 0; w < par; w++ {
		wg.Add(1)
		go func() {
			defer wg.Done()
			for {
				i := int(atomic.AddInt64(&next, 1))
				if i >= n {
					return
				}
				if !e.Mine(i) {
					continue
				}
				if e.Expired() {
					expired.Store(true)
					return
				}
				cr := func() (cr CaseResult) {
					defer func() {
						if x := recover(); x != nil {
							if he, ok := x.(harnessErr); ok {
								herr.Store(he.msg)
								return
							}
							if !panicIsViolation {
								herr.Store(fmt.Sprintf("case %d panicked: %v\n%s", i, x, debug.Stack()))
								return
							}
							cr.Fail = &Fail{Key: "panic:" + panicSite(), What: fmt.Sprintf("case %d: panic: %v", i, x)}
							cr.Replay = i
						}
					}()
					return run(i)
				}()
				atomic.AddInt64(&evals, 1)
				atomic.AddInt64(&execs, cr.Execs)
				atomic.AddInt64(&trans, cr.Trans)
				if cr.Outcome != "" {
					outcomes.Add(cr.Outcome)
				}
				if cr.Fail != nil {
					mu.Lock()
					if !vio[cr.Fail.Key] && len(rep.Violations) < 40 {
						vio[cr.Fail.Key] = true
						rp := cr.Replay
						if rp == nil {
							rp = i
						}
						rep.Violations = append(rep.Violations, Violation{Key: cr.Fail.Key, What: cr.Fail.What, Replay: JSON(rp), Human: cr.Human})
					}
					mu.Unlock()
				}
			}
		}()
	}
	wg.Wait()
	if m, ok := herr.Load().(string); ok && m != "" {
		rep.HarnessError = m
	}
	rep.Evaluations = evals
	if execs > 0 {
		rep.Evaluations = execs
	}
	rep.Transitions = trans
	rep.Traces = trans
	rep.Outcomes = outcomes.List()
	rep.OutcomesN = int64(len(rep.Outcomes))
	rep.States = rep.OutcomesN
	rep.Exhaustive = !expired.Load()
	if expired.Load() {
		rep.Caps = append(rep.Caps, "deadline")
	}
	return rep
}

// ReplayIndex decodes a replay that is just a case index.
func ReplayIndex(raw json.RawMessage) int {
	var i int
	if err := json.Unmarshal(raw, &i); err != nil {
		panic(harnessErr{err.Error()})
	}
	return i
}
