// Package explore is the shared core of the /verif model-checking harnesses:
// explicit-state BFS over a real implementation (bfs.go), a choice-sequence DFS with
// deviation bounds (chooser.go) and the report format the ./check driver merges into
// evidence files (this file).
package explore

import (
	"encoding/json"
	"fmt"
	"os"
	"sort"
	"strconv"
	"strings"
	"sync"
	"time"
)

// Violation is one property violation found on the real code.
type Violation struct {
	// Key identifies the specific failing input / call site / history class; it is what
	// known_findings.json entries are matched against.
	Key  string `json:"key"`
	What string `json:"what"`
	// Part and Replay let the harness re-execute exactly this case.
	Part   string          `json:"part"`
	Replay json.RawMessage `json:"replay"`
	Human  []string        `json:"human,omitempty"`
}

// Report is what one part of one harness process covered.
type Report struct {
	Property     string      `json:"property"`
	Part         string      `json:"part"`
	Level        string      `json:"level"` // model_checking | fault_enumeration | exploration
	Evaluations  int64       `json:"evaluations"`
	States       int64       `json:"states"`
	Transitions  int64       `json:"transitions"`
	Traces       int64       `json:"traces_validated_against_impl"`
	Outcomes     []string    `json:"outcomes"` // distinct observed outcome classes (capped)
	OutcomesN    int64       `json:"outcomes_n"`
	Rule         string      `json:"rule"`
	Samples      []any       `json:"samples"`
	Exhaustive   bool        `json:"exhaustive"`
	Bound        string      `json:"bound_completed"`
	Caps         []string    `json:"caps,omitempty"`
	Supporting   bool        `json:"supporting,omitempty"` // sampled pass that validates an assumption; excluded from totals and from the exhaustive verdict
	Assumptions  []string    `json:"assumptions,omitempty"`
	Violations   []Violation `json:"violations,omitempty"`
	DetChecked   int64       `json:"determinism_checks"`
	WallS        float64     `json:"wall_s"`
	HarnessError string      `json:"harness_error,omitempty"`
}

// Env is the run configuration the driver passes through the environment.
type Env struct {
	Tier     string // quick | thorough
	Seed     int64
	Shard    int
	Shards   int
	Out      string
	Replay   string
	Deadline time.Time
	Workers  int
	Only     string // run only this part (debugging)
}

func GetEnv() Env {
	e := Env{Tier: os.Getenv("VERIF_TIER"), Shards: 1, Workers: 1}
	if e.Tier == "" {
		e.Tier = "quick"
	}
	e.Seed, _ = strconv.ParseInt(os.Getenv("VERIF_SEED"), 10, 64)
	if s := os.Getenv("VERIF_SHARD"); s != "" {
		p := strings.Split(s, "/")
		e.Shard, _ = strconv.Atoi(p[0])
		if len(p) > 1 {
			e.Shards, _ = strconv.Atoi(p[1])
		}
		if e.Shards < 1 {
			e.Shards = 1
		}
	}
	e.Out = os.Getenv("VERIF_OUT")
	e.Replay = os.Getenv("VERIF_REPLAY")
	e.Only = os.Getenv("VERIF_ONLY")
	if d, err := strconv.ParseFloat(os.Getenv("VERIF_DEADLINE_S"), 64); err == nil && d > 0 {
		e.Deadline = time.Now().Add(time.Duration(d * float64(time.Second)))
	}
	if w, err := strconv.Atoi(os.Getenv("VERIF_WORKERS")); err == nil && w > 0 {
		e.Workers = w
	}
	return e
}

func (e Env) Thorough() bool { return e.Tier == "thorough" }

// Expired reports whether the internal deadline has passed.
func (e Env) Expired() bool { return !e.Deadline.IsZero() && time.Now().After(e.Deadline) }

// Mine tells whether item i of an explicit list belongs to this shard.
func (e Env) Mine(i int) bool { return e.Shards <= 1 || i%e.Shards == e.Shard }

var outMu sync.Mutex

// Emit appends a report as one JSON line to VERIF_OUT (or stdout).
func (e Env) Emit(r *Report) {
	sort.Strings(r.Outcomes)
	if r.Samples == nil {
		r.Samples = []any{}
	}
	b, err := json.Marshal(r)
	if err != nil {
		panic(err)
	}
	outMu.Lock()
	defer outMu.Unlock()
	if e.Out == "" {
		fmt.Println(string(b))
		return
	}
	f, err := os.OpenFile(e.Out, os.O_APPEND|os.O_CREATE|os.O_WRONLY, 0o644)
	if err != nil {
		panic(err)
	}
	defer f.Close()
	f.Write(append(b, '\n'))
}

// OutcomeSet collects distinct outcome classes, concurrency-safe, capped.
type OutcomeSet struct {
	mu  sync.Mutex
	m   map[string]int64
	cap int
}

func NewOutcomeSet() *OutcomeSet { return &OutcomeSet{m: map[string]int64{}, cap: 4000} }

func (o *OutcomeSet) Add(s string) {
	o.mu.Lock()
	if _, ok := o.m[s]; ok || len(o.m) < o.cap {
		o.m[s]++
	}
	o.mu.Unlock()
}

func (o *OutcomeSet) List() []string {
	o.mu.Lock()
	defer o.mu.Unlock()
	l := make([]string, 0, len(o.m))
	for k := range o.m {
		l = append(l, k)
	}
	sort.Strings(l)
	return l
}

func (o *OutcomeSet) Len() int { o.mu.Lock(); defer o.mu.Unlock(); return len(o.m) }

// Part is a named sub-check of a harness.
type Part struct {
	Name string
	// Run explores and returns its report (Property/Part/WallS are filled in by Main).
	Run func(e Env) *Report
	// Replay re-executes one recorded case and returns the violation it produces, or nil.
	Replay func(e Env, replay json.RawMessage) *Violation
}

// ReplayFile is the on-disk replay artefact written by the driver.
type ReplayFile struct {
	Property string          `json:"property"`
	Part     string          `json:"part"`
	Key      string          `json:"key"`
	What     string          `json:"what"`
	Human    []string        `json:"human,omitempty"`
	Replay   json.RawMessage `json:"replay"`
}

// Main runs the parts (or a replay) of one property's harness. fail is called with a
// message for harness errors only; violations are data in the report.
func Main(property string, parts []Part, fail func(string)) {
	e := GetEnv()
	if e.Replay != "" {
		b, err := os.ReadFile(e.Replay)
		if err != nil {
			fail("replay: " + err.Error())
			return
		}
		var rf ReplayFile
		if err := json.Unmarshal(b, &rf); err != nil {
			fail("replay: " + err.Error())
			return
		}
		for _, p := range parts {
			if p.Name != rf.Part {
				continue
			}
			if p.Replay == nil {
				fail("part " + p.Name + " has no replay")
				return
			}
			v := p.Replay(e, rf.Replay)
			r := &Report{Property: property, Part: p.Name, Evaluations: 1}
			if v != nil {
				v.Part = p.Name
				if v.Replay == nil {
					v.Replay = rf.Replay
				}
				r.Violations = []Violation{*v}
			}
			e.Emit(r)
			return
		}
		if os.Getenv("VERIF_REPLAY_LENIENT") == "" {
			fail("replay: unknown part " + rf.Part)
		}
		return
	}
	for _, p := range parts {
		if e.Only != "" && e.Only != p.Name {
			continue
		}
		t0 := time.Now()
		r := func() (r *Report) {
			defer func() {
				if x := recover(); x != nil {
					r = &Report{HarnessError: fmt.Sprintf("part %s panicked in harness: %v", p.Name, x)}
				}
			}()
			return p.Run(e)
		}()
		if r == nil {
			continue
		}
		r.Property = property
		r.Part = p.Name
		r.WallS = time.Since(t0).Seconds()
		for i := range r.Violations {
			r.Violations[i].Part = p.Name
		}
		e.Emit(r)
		if r.HarnessError != "" {
			fail(r.HarnessError)
		}
	}
}

// JSON marshals v or panics.
func JSON(v any) json.RawMessage {
	b, err := json.Marshal(v)
	if err != nil {
		panic(err)
	}
	return b
}

// MarkCurrent records the case that is about to run in VERIF_OUT.cur, so that the driver
// can turn a crash of the worker process (a panic in a goroutine of the code under test)
// into a replayable violation.
func MarkCurrent(e Env, part string, replay any) {
	if e.Out == "" {
		return
	}
	b, _ := json.Marshal(ReplayFile{Part: part, Replay: JSON(replay)})
	os.WriteFile(e.Out+".cur", b, 0o644)
}

// NoteCurrent adds a violation key and description to the marker of the running case: if
// the worker dies afterwards (e.g. a goroutine that the oracle already found blocked keeps
// the bubble from terminating), the driver reports this key instead of the crash site.
func NoteCurrent(e Env, key, what string) { NoteCurrentChoices(e, key, what, nil) }

// NoteCurrentChoices is NoteCurrent for schedule explorers: the choice list of the running
// execution is merged into the marker's replay object (field "choices"), so that the
// replay of a crash re-executes the schedule that the oracle had already judged.
func NoteCurrentChoices(e Env, key, what string, choices []int) {
	if e.Out == "" {
		return
	}
	b, err := os.ReadFile(e.Out + ".cur")
	if err != nil {
		return
	}
	var rf ReplayFile
	if json.Unmarshal(b, &rf) != nil || rf.Key != "" {
		return
	}
	rf.Key, rf.What = key, what
	if choices != nil {
		var m map[string]any
		if json.Unmarshal(rf.Replay, &m) == nil && m != nil {
			m["choices"] = choices
			rf.Replay = JSON(m)
		}
	}
	b, _ = json.Marshal(rf)
	os.WriteFile(e.Out+".cur", b, 0o644)
}

// ClearCurrent removes the marker (call when a part has finished normally).
func ClearCurrent(e Env) {
	if e.Out != "" {
		os.Remove(e.Out + ".cur")
	}
}
